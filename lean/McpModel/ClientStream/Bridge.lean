import McpModel.ClientStream.BridgeInv
import McpModel.ClientStream.Examples
/-!
# The bridge between the C09 monitor and the model (E6)

`monitor_accepts_model`: the typed monitor (`monStep`, evaluated by the driver on the IMPLEMENTATION's
observations) raises no clause on any behaviour the model allows — for ALL scenarios of a faithful
server (`ScnOK`), ALL byte offsets and terminations of the first body, ALL scripts of reconnect
outcomes (transport errors of ANY kind, failing statuses, 200 bodies served from where the faithful
scripted server resumes (`SrvFrom`) and cut anywhere, the caller's own context ending with a request
in flight or during the wait), and ALL timings inside the model's back-off window.
The invariant is `SimInv` (the monitor's history against the model's loop state, `PhaseRel`).

The records of a model behaviour (`modelTrace`) are what the harness prints when the implementation
does what the model does: the Last-Event-ID of each attempt is the model's `lastID`, the delivered
list the model's messages, the `end` observation the model's final phase.  Together with the driver's
comparison of the implementation's observation with the model's (`A` = equal) this says: on a case
the driver answers `A` throughout, the monitor ran on a model trace and cannot have fired; a `V`
always comes with a `D`.
-/
set_option linter.unusedSectionVars false
namespace ClientStream
open Generated.ClientStream

variable {L : Type}

/-! ### behaviours of the model -/

/-- one HTTP attempt of a behaviour of the model -/
structure MAtt where
  /-- what the script says: transport error (of some kind), the caller's context ending while the request
  is in flight, status, or a 200 body cut after `cut` bytes -/
  kind : AKind
  /-- instead of an attempt: the caller's context is cancelled during the wait, no request goes out
  (`kind` is ignored; the harness prints a `c` record) -/
  cancelWait : Bool := false
  /-- (200) the log item the faithful server starts the body with -/
  from_ : Nat := 0
  /-- ns of virtual time at which the request goes out -/
  ts : Nat := 0
  /-- ns of virtual time at which the exchange is over for the client -/
  te : Nat := 0

/-- the `x` record the harness prints for attempt number `k` when the client sends `lastID` -/
def modelX (k : Nat) (a : MAtt) (lastID : Bytes) : XRec :=
  { k := k, kind := a.kind,
    from_ := (match a.kind with | .ok _ _ => some a.from_ | _ => none),
    tStart := a.ts / 1000, tEnd := a.te / 1000, hdr := hdrOf lastID }

/-- the record the harness prints for step number `k` of a behaviour -/
def modelRec (k : Nat) (a : MAtt) (lastID : Bytes) : Rec L :=
  if a.cancelWait then .cancel (a.ts / 1000) else .x (modelX k a lastID)

/-- the step as an input of the model's loop -/
def modelAtt (s : Scn L) (k : Nat) (a : MAtt) (lastID : Bytes) : Attempt :=
  if a.cancelWait then .ctxEnded false else attemptOfX s (modelX k a lastID)

/-- the ground-truth history of exchanges after the step -/
def exAfter (s : Scn L) (ex : List Exch) (k : Nat) (a : MAtt) (lastID : Bytes) : List Exch :=
  if a.cancelWait then ex else ex ++ [exchOf s (modelX k a lastID)]

/-- when the last exchange was over, after the step -/
def teAfter (tePrev : Nat) (a : MAtt) : Nat := if a.cancelWait then tePrev else a.te

/-- where the faithful scripted server starts the body of a reconnect: after the item whose id the
request names; a request without Last-Event-ID on the standalone stream attaches a fresh stream that
serves only what was not handed out before (and is refused on a call stream) -/
def SrvFrom (s : Scn L) (got : List Nat) (hdr : Bytes) (f : Nat) : Prop :=
  if hdr = [] then s.sa = true ∧ ∀ j ∈ got, j < f
  else (s.items.findIdx? (fun it => !it.raw && it.ev.id == hdr)).map (· + 1) = some f

/-- the attempt is one the environment of the model can produce in the state where the client holds
`lastID`, waits according to `hint`/`attempt`, and the previous exchange ended at `tePrev` -/
def ValidAtt (s : Scn L) (got : List Nat) (tePrev : Nat) (lastID : Bytes) (hint : Int) (attempt : Nat) (a : MAtt) : Prop :=
  a.cancelWait = true ∨
  tePrev ≤ a.ts ∧ (delayWindow hint attempt).1 ≤ a.ts - tePrev ∧ a.ts - tePrev < (delayWindow hint attempt).2 ∧
  match a.kind with
  | .terr _ => True
  | .ctx => True
  | .st c => (checkResponse c).isSome = true
  | .ok _ t => SrvFrom s got lastID a.from_ ∧ (s.sa = false → t ≠ .open)

instance (s : Scn L) (got : List Nat) (hdr : Bytes) (f : Nat) : Decidable (SrvFrom s got hdr f) := by
  unfold SrvFrom; infer_instance

instance (s : Scn L) (got : List Nat) (tePrev : Nat) (lastID : Bytes) (hint : Int) (attempt : Nat) (a : MAtt) :
    Decidable (ValidAtt s got tePrev lastID hint attempt a) := by
  unfold ValidAtt
  have : Decidable (match a.kind with
      | .terr _ => True
      | .ctx => True
      | .st c => (checkResponse c).isSome = true
      | .ok _ t => SrvFrom s got lastID a.from_ ∧ (s.sa = false → t ≠ .open)) := by
    split <;> infer_instance
  infer_instance

/-- the `x` records of the reconnect attempts, as long as the model's loop is running -/
def modelXs (s : Scn L) : Run L → Nat → List MAtt → List (Rec L)
  | _, _, [] => []
  | run, k, a :: as =>
    match run.phase with
    | .ended _ => []
    | .reconnecting _ _ lastID _ _ =>
      modelRec k a lastID :: modelXs s (step s.cfg run (modelAtt s k a lastID)) (k + 1) as

/-- the model's loop state after the attempts -/
def modelRun (s : Scn L) : Run L → Nat → List MAtt → Run L
  | run, _, [] => run
  | run, k, a :: as =>
    match run.phase with
    | .ended _ => run
    | .reconnecting _ _ lastID _ _ => modelRun s (step s.cfg run (modelAtt s k a lastID)) (k + 1) as

/-- every attempt is valid in the state it is made in (`ex`: the ground-truth history of exchanges) -/
def ValidFrom (s : Scn L) : Run L → List Exch → Nat → Nat → List MAtt → Prop
  | _, _, _, _, [] => True
  | run, ex, tePrev, k, a :: as =>
    match run.phase with
    | .ended _ => True
    | .reconnecting _ _ lastID hint attempt =>
      ValidAtt s (gotOf ex) tePrev lastID hint attempt a ∧
      ValidFrom s (step s.cfg run (modelAtt s k a lastID)) (exAfter s ex k a lastID) (teAfter tePrev a) (k + 1) as

instance instDecidableValidFrom (s : Scn L) : (run : Run L) → (ex : List Exch) → (tePrev k : Nat) → (as : List MAtt) →
    Decidable (ValidFrom s run ex tePrev k as)
  | _, _, _, _, [] => isTrue trivial
  | run, ex, tePrev, k, a :: as =>
    match h : run.phase with
    | .ended _ => isTrue (by simp [ValidFrom, h])
    | .reconnecting _ _ lastID hint attempt =>
      have := instDecidableValidFrom s (step s.cfg run (modelAtt s k a lastID))
        (exAfter s ex k a lastID) (teAfter tePrev a) (k + 1) as
      decidable_of_iff (ValidAtt s (gotOf ex) tePrev lastID hint attempt a ∧
        ValidFrom s (step s.cfg run (modelAtt s k a lastID)) (exAfter s ex k a lastID) (teAfter tePrev a) (k + 1) as)
        (by simp [ValidFrom, h])

/-- the model after the first body -/
def modelStart (s : Scn L) (first : MAtt) : Run L :=
  match scanOfX s (modelX 0 first []) with
  | some so => start s.cfg so
  | none => { phase := .ended .streaming, msgs := [], headers := [] }

/-- the records that close a case: what was delivered, how the call ended, nothing leaked -/
def modelClose (s : Scn L) (run : Run L) : List (Rec L) :=
  .delivered (run.msgs.filter s.lab.isNotif) ::
    (match run.phase with
     | .ended e => [.fin (endObsOf s.sa e), .leak false]
     | .reconnecting .. => [])

/-- all records of a case in which the implementation behaves as the model -/
def modelTrace (s : Scn L) (first : MAtt) (script : List MAtt) : List (Rec L) :=
  .x (modelX 0 first []) :: (modelXs s (modelStart s first) 1 script ++
    modelClose s (modelRun s (modelStart s first) 1 script))

/-- the first exchange is a 200 body (on a call stream: one that ends) and the script is valid -/
def ValidCase (s : Scn L) (first : MAtt) (script : List MAtt) : Prop :=
  (∃ c t, first.kind = .ok c t ∧ (s.sa = false → t ≠ .open)) ∧
  ValidFrom s (modelStart s first) [exchOf s (modelX 0 first [])] first.te 1 script

/-! ### the invariant -/

structure SimInv [BEq L] (s : Scn L) (run : Run L) (m : Mon) (tePrev : Nat) : Prop where
  lost : m.cursorLost = false
  wrong : m.wrongCursor = false
  valid : ∀ i ∈ gotOf m.exch, i < s.items.length
  incC : ((gotOf m.exch).filter (carriesIdx s)).Pairwise (· < ·)
  incI : ((gotOf m.exch).filter s.hasId).Pairwise (· < ·)
  msgs : run.msgs.filter s.lab.isNotif = labelsOf s (gotOf m.exch)
  phase : PhaseRel s m.exch run.phase
  time : (m.exch.getLast?.map (·.tEnd)).getD 0 = tePrev / 1000
  ctx : m.ctxEnded = true ↔ run.phase = .ended .cancelled

/-! ### the faithful server resumes beyond everything that was received -/

theorem frontier_of_srv (s : Scn L) (hs : ScnOK s) (ex : List Exch) (f : Nat)
    (hincI : ((gotOf ex).filter s.hasId).Pairwise (· < ·))
    (h : SrvFrom s (gotOf ex) (cursorOf s ex) f) : Frontier s (gotOf ex) f := by
  unfold SrvFrom at h
  by_cases hc : cursorOf s ex = []
  · rw [if_pos hc] at h
    intro j hj _
    exact h.2 j hj
  · rw [if_neg hc] at h
    obtain ⟨i, hfind, rfl⟩ := Option.map_eq_some_iff.1 h
    rcases cursor_cases s ex with h0 | ⟨ci, hlast, hci, hcid, hce⟩
    · exact absurd h0 hc
    · obtain ⟨hlt, hp, hmin⟩ := List.findIdx?_eq_some_iff_getElem.1 hfind
      -- the cursor item satisfies the server's search predicate
      have hciItem : ∃ it, s.items[ci]? = some it ∧ it.raw = false ∧ it.ev.id = cursorOf s ex := by
        unfold Scn.hasId at hcid
        unfold idOfIdx at hce
        cases hi : s.items[ci]? with
        | none => simp [hi] at hcid
        | some it =>
          simp only [hi, Bool.and_eq_true, Bool.not_eq_true'] at hcid
          simp only [hi, Option.map_some, Option.getD_some] at hce
          exact ⟨it, rfl, hcid.1, hce⟩
      obtain ⟨it, hit, hraw, hid⟩ := hciItem
      have hcilt : ci < s.items.length := by
        rcases Nat.lt_or_ge ci s.items.length with h | h
        · exact h
        · rw [List.getElem?_eq_none h] at hit; cases hit
      have hle : i ≤ ci := by
        rcases Nat.lt_or_ge ci i with h | h
        · exfalso
          apply hmin ci h
          rw [List.getElem?_eq_getElem hcilt] at hit
          cases hit
          simp [hraw, hid]
        · exact h
      have hici : i = ci := by
        rcases Nat.lt_or_ge i ci with h | h
        · exfalso
          have hidi : s.hasId i = true := by
            simp only [Bool.and_eq_true, Bool.not_eq_true', beq_iff_eq] at hp
            simp [Scn.hasId, List.getElem?_eq_getElem hlt, hp.1, hp.2, hc]
          have := ids_distinct_idx s hs i ci h hidi
          apply this
          simp only [Bool.and_eq_true, Bool.not_eq_true', beq_iff_eq] at hp
          rw [hce]
          simp [idOfIdx, List.getElem?_eq_getElem hlt, hp.2]
        · omega
      subst hici
      have hmax := le_last_of_pairwise _ i hincI hlast
      intro j hj hcj
      have hidj : s.hasId j = true := by
        rcases hcj with hcj | hcj
        · rcases carries_hasId_or_noIds s hs j hcj with h | h
          · exact h
          · exfalso
            apply hc
            rw [← hid]
            exact h it (List.mem_of_getElem? hit)
        · exact hcj
      have := hmax j (List.mem_filter.2 ⟨hj, hidj⟩)
      omega

/-! ### the start -/

variable [BEq L] [LawfulBEq L]

theorem checkResponse_200 : checkResponse 200 = none := by decide

omit [BEq L] [LawfulBEq L] in
/-- a body never ends the loop as "cancelled": only the caller's context does -/
theorem afterBody_ne_cancelled {M} (cfg : Cfg M) (prev : Bytes) (retries : Nat) (b : BodyOut M) :
    afterBody cfg prev retries b ≠ .ended .cancelled := by
  unfold afterBody
  split
  · simp
  · simp
  · simp
  · split
    · simp
    · split
      · split <;> simp
      · split <;> simp

omit [LawfulBEq L] in
theorem sim_start (s : Scn L) (hs : ScnOK s) (first : MAtt) (c : Nat) (t : Term)
    (hk : first.kind = .ok c t) (hopen : s.sa = false → t ≠ .open) (m0 : Mon)
    (hl : m0.cursorLost = false) (hw : m0.wrongCursor = false) (hc0 : m0.ctxEnded = false) :
    (monStep s m0 (.x (modelX 0 first []))).2 = none ∧
    SimInv s (modelStart s first) (monStep s m0 (.x (modelX 0 first []))).1 first.te := by
  have hex : exchOf s (modelX 0 first []) = okExch s first.from_ c t (first.te / 1000) := by
    simp [exchOf, modelX, hk, okExch, idxOf]
  have hscan : scanOfX s (modelX 0 first []) = some (scanBytes ((bodyFrom s.items first.from_).take c) t) := by
    simp [scanOfX, modelX, hk]
  have hb := body_rel s hs [] [] 0 first.from_ c t (first.te / 1000)
    (by simp [gotOf]) (by simp [gotOf]) (by simp [gotOf]) (by simp [gotOf, labelsOf]) (by simp [fruitlessOf, fruitlessGo])
    (by simp) (by unfold gotReply; cases s.items.findIdx? _ <;> simp [gotOf])
    (by intro j hj; simp [gotOf] at hj) hopen
  have hcur0 : cursorOf s [] = [] := by simp [cursorOf, gotOf]
  rw [hcur0] at hb
  simp only [List.nil_append] at hb
  obtain ⟨h1, h2, h3, h4, h5⟩ := hb
  refine ⟨by simp [monStep, modelX], ?_⟩
  have hm : (monStep s m0 (.x (modelX 0 first []))).1 = { m0 with exch := [okExch s first.from_ c t (first.te / 1000)] } := by
    simp [monStep, modelX, ← hex]
  rw [hm]
  have hrun : modelStart s first =
      { phase := afterBody s.cfg [] 0 (processBody s.cfg [] (scanBytes ((bodyFrom s.items first.from_).take c) t)),
        msgs := (processBody s.cfg [] (scanBytes ((bodyFrom s.items first.from_).take c) t)).msgs, headers := [] } := by
    simp [modelStart, hscan, start]
  rw [hrun]
  exact ⟨hl, hw, h2, h3, h4, by simpa using h5, h1, by simp [okExch],
    ⟨fun h => by simp [hc0] at h, fun h => absurd h (afterBody_ne_cancelled _ _ _ _)⟩⟩

/-! ### one reconnect attempt -/

/-- what the monitor books for a transport error or a status -/
def failExch (k : AKind) (tE : Nat) : Exch := { kind := k, from_ := none, complete := [], tEnd := tE }

theorem delay_ok (ts te lo hi : Nat) (h0 : te ≤ ts) (h1 : lo ≤ ts - te) (h2 : ts - te < hi) :
    ¬ ((ts / 1000 - te / 1000) * 1000 + 1000 < lo ∨ (ts / 1000 - te / 1000) * 1000 ≥ hi + 1000) := by
  omega

theorem delayWindow_hint (hint hint' : Int) (attempt : Nat) (h : attempt = 1 → hint = hint') :
    delayWindow hint attempt = delayWindow hint' attempt := by
  by_cases ha : attempt = 1
  · rw [h ha]
  · simp [delayWindow, ha]

theorem sim_step (s : Scn L) (hs : ScnOK s) (run : Run L) (m : Mon) (tePrev k : Nat) (a : MAtt)
    (inv : SimInv s run m tePrev) (hk : k ≠ 0)
    (prev : Bytes) (retries : Nat) (lastID : Bytes) (hint : Int) (attempt : Nat)
    (hph : run.phase = .reconnecting prev retries lastID hint attempt)
    (hv : ValidAtt s (gotOf m.exch) tePrev lastID hint attempt a) :
    (monStep s m (modelRec k a lastID)).2 = none ∧
    (monStep s m (modelRec k a lastID)).1.exch = exAfter s m.exch k a lastID ∧
    SimInv s (step s.cfg run (modelAtt s k a lastID)) (monStep s m (modelRec k a lastID)).1 (teAfter tePrev a) := by
  have hrel := inv.phase
  rw [hph] at hrel
  obtain ⟨hcur, hprev, hret, hatt, hhint, hst, hne, hrmr, hamr, hrep⟩ := hrel
  have hctx0 : m.ctxEnded = false := by
    cases hc : m.ctxEnded with
    | false => rfl
    | true => have := inv.ctx.1 hc; rw [hph] at this; cases this
  by_cases hw : a.cancelWait = true
  · -- the caller's context is cancelled during the wait: no request, the loop stops
    simp only [modelRec, modelAtt, exAfter, teAfter, hw, if_true]
    have hstep : step s.cfg run (.ctxEnded false) = { run with phase := .ended .cancelled } := by
      unfold step; rw [hph]; simp
    rw [hstep]
    exact ⟨rfl, rfl, inv.lost, inv.wrong, inv.valid, inv.incC, inv.incI, inv.msgs, hrep, inv.time,
      ⟨fun _ => rfl, fun _ => rfl⟩⟩
  have hw' : a.cancelWait = false := by simpa using hw
  simp only [modelRec, modelAtt, exAfter, teAfter, hw', Bool.false_eq_true, if_false]
  rcases hv with hv | hv
  · exact absurd hv hw
  obtain ⟨ht0, hlo, hhi, hkind⟩ := hv
  subst prev
  -- the monitor's bookkeeping after the record
  have hmon : (monStep s m (.x (modelX k a lastID))).1 =
      { exch := m.exch ++ [exchOf s (modelX k a lastID)], cursorLost := false, wrongCursor := false,
        ctxEnded := a.kind == .ctx } := by
    simp only [monStep, modelX, hk, if_false, inv.lost, inv.wrong, hctx0, Bool.false_or, ← hcur]
    congr 1
    · cases hl : lastID with
      | nil => simp [hdrOf]
      | cons x xs => simp [hdrOf]
    · simp
  -- no clause
  have hnone : (monStep s m (.x (modelX k a lastID))).2 = none := by
    simp only [monStep, modelX, hk, if_false, hctx0, Bool.false_eq_true]
    unfold monAttempt
    simp only [← hcur, ne_eq, not_true_eq_false, if_false]
    have h2 : (!s.sa && decide (lastID = [])) = false := by
      cases hsa : s.sa with
      | true => rfl
      | false => simp [hne hsa]
    rw [if_neg (by simp [h2])]
    rw [if_neg (by simp [hst])]
    rw [if_neg (by rw [← hret]; omega)]
    rw [if_neg (by omega)]
    rw [if_neg]
    have hw : delayWindow (if trailingTerr m.exch + 1 = 1 then lastHint s m.exch else 0) (trailingTerr m.exch + 1) =
        delayWindow hint attempt := by
      rw [← hatt]
      apply delayWindow_hint
      intro h1; rw [if_pos h1]; exact (hhint h1).symm
    rw [hw, inv.time]
    exact delay_ok a.ts tePrev _ _ ht0 hlo hhi
  refine ⟨hnone, by rw [hmon], ?_⟩
  rw [hmon]
  have hmr : s.cfg.maxRetries = s.mr := rfl
  have hlast : ∀ e : Exch, e.tEnd = a.te / 1000 →
      ((m.exch ++ [e]).getLast?.map (·.tEnd)).getD 0 = a.te / 1000 := by
    intro e he; simp [he]
  cases hak : a.kind with
  | terr te =>
    have hex : exchOf s (modelX k a lastID) = failExch (.terr te) (a.te / 1000) := by
      simp [exchOf, modelX, hak, failExch]
    have hatt' : attemptOfX s (modelX k a lastID) = .terr te := by simp [attemptOfX, modelX, hak]
    rw [hex, hatt']
    have hgot : gotOf (m.exch ++ [failExch (.terr te) (a.te / 1000)]) = gotOf m.exch := by
      rw [gotOf_snoc]; simp [failExch]
    have hc' : cursorOf s (m.exch ++ [failExch (.terr te) (a.te / 1000)]) = cursorOf s m.exch := by
      rw [cursorOf_snoc']; rfl
    have hr' : gotReply s (m.exch ++ [failExch (.terr te) (a.te / 1000)]) = false := by
      rw [gotReply_eq_any s hs, hgot, ← gotReply_eq_any s hs]; exact hrep
    have hf' : fruitlessOf s (m.exch ++ [failExch (.terr te) (a.te / 1000)]) = fruitlessOf s m.exch := by
      rw [fruitlessOf_snoc]; rfl
    have ht' : trailingTerr (m.exch ++ [failExch (.terr te) (a.te / 1000)]) = trailingTerr m.exch + 1 := by
      rw [trailingTerr_snoc]; rfl
    have hs' : (m.exch ++ [failExch (.terr te) (a.te / 1000)]).any (·.isSt) = false := by
      rw [anySt_snoc, hst]; rfl
    have hstep : step s.cfg run (.terr te) =
        if attempt + 1 > s.mr then { run with phase := .ended (.failed .connect), headers := run.headers ++ [lastID] }
        else { run with phase := .reconnecting lastID retries lastID hint (attempt + 1), headers := run.headers ++ [lastID] } := by
      unfold step; rw [hph]; simp only [errStops_never, Bool.false_eq_true, if_false, hmr]
    rw [hstep]
    have hbeq : (AKind.terr te == AKind.ctx) = false := by simp
    refine ⟨rfl, rfl, by rw [hgot]; exact inv.valid, by rw [hgot]; exact inv.incC, by rw [hgot]; exact inv.incI, ?_, ?_, hlast _ rfl, ?_⟩
    · rw [hgot]
      split <;> exact inv.msgs
    · split
      · exact ⟨hr', .inr (by rw [ht']; omega)⟩
      · exact ⟨by rw [hc']; exact hcur, rfl, by rw [hf']; exact hret, by rw [ht']; omega, fun h => by omega,
          hs', hne, hrmr, by omega, hr'⟩
    · simp only [hbeq]
      split <;> exact ⟨fun h => Bool.noConfusion h, fun h => by cases h⟩
  | ctx =>
    have hex : exchOf s (modelX k a lastID) = failExch .ctx (a.te / 1000) := by
      simp [exchOf, modelX, hak, failExch]
    have hatt' : attemptOfX s (modelX k a lastID) = .ctxEnded true := by simp [attemptOfX, modelX, hak]
    rw [hex, hatt']
    have hgot : gotOf (m.exch ++ [failExch .ctx (a.te / 1000)]) = gotOf m.exch := by
      rw [gotOf_snoc]; simp [failExch]
    have hr' : gotReply s (m.exch ++ [failExch .ctx (a.te / 1000)]) = false := by
      rw [gotReply_eq_any s hs, hgot, ← gotReply_eq_any s hs]; exact hrep
    have hstep : step s.cfg run (.ctxEnded true) =
        { run with phase := .ended .cancelled, headers := run.headers ++ [lastID] } := by
      unfold step; rw [hph]; simp
    rw [hstep]
    exact ⟨rfl, rfl, by rw [hgot]; exact inv.valid, by rw [hgot]; exact inv.incC, by rw [hgot]; exact inv.incI,
      by rw [hgot]; exact inv.msgs, hr', hlast _ rfl, ⟨fun _ => rfl, fun _ => rfl⟩⟩
  | st code =>
    rw [hak] at hkind
    have hex : exchOf s (modelX k a lastID) = failExch (.st code) (a.te / 1000) := by
      simp [exchOf, modelX, hak, failExch]
    have hatt' : attemptOfX s (modelX k a lastID) = .resp code (fun _ => ⟨[], .clean⟩) := by
      simp [attemptOfX, modelX, hak]
    rw [hex, hatt']
    have hgot : gotOf (m.exch ++ [failExch (.st code) (a.te / 1000)]) = gotOf m.exch := by
      rw [gotOf_snoc]; simp [failExch]
    have hr' : gotReply s (m.exch ++ [failExch (.st code) (a.te / 1000)]) = false := by
      rw [gotReply_eq_any s hs, hgot, ← gotReply_eq_any s hs]; exact hrep
    have hls : lastIsStatus (m.exch ++ [failExch (.st code) (a.te / 1000)]) code = true := by
      rw [lastIsStatus_snoc]; simp [failExch]
    obtain ⟨fl, hfl⟩ := Option.isSome_iff_exists.1 hkind
    have hstep : step s.cfg run (.resp code (fun _ => ⟨[], .clean⟩)) =
        { run with phase := .ended (.failed fl), headers := run.headers ++ [lastID] } := by
      unfold step; rw [hph]; simp only [hfl]
    rw [hstep]
    have hbeq : (AKind.st code == AKind.ctx) = false := by simp
    refine ⟨rfl, rfl, by rw [hgot]; exact inv.valid, by rw [hgot]; exact inv.incC, by rw [hgot]; exact inv.incI,
      by rw [hgot]; exact inv.msgs, ?_, hlast _ rfl, by simp only [hbeq]; exact ⟨fun h => Bool.noConfusion h, fun h => by cases h⟩⟩
    -- which failure `checkResponse` reports
    unfold checkResponse at hfl
    split at hfl
    · cases hfl; exact ⟨hr', hls⟩
    · split at hfl
      · cases hfl; rename_i h404; subst h404; exact ⟨hr', hls⟩
      · split at hfl
        · cases hfl; exact ⟨hr', hls⟩
        · cases hfl
  | ok c t =>
    rw [hak] at hkind
    obtain ⟨hsrv, hopen⟩ := hkind
    have hex : exchOf s (modelX k a lastID) = okExch s a.from_ c t (a.te / 1000) := by
      simp [exchOf, modelX, hak, okExch, idxOf]
    have hatt' : attemptOfX s (modelX k a lastID) =
        .resp 200 (fun _ => scanBytes ((bodyFrom s.items a.from_).take c) t) := by
      simp [attemptOfX, scanOfX, modelX, hak]
    rw [hex, hatt']
    rw [hcur] at hsrv
    have hfr := frontier_of_srv s hs m.exch a.from_ inv.incI hsrv
    obtain ⟨h1, h2, h3, h4, h5⟩ := body_rel s hs m.exch run.msgs retries a.from_ c t (a.te / 1000)
      inv.valid inv.incC inv.incI inv.msgs hret hst hrep hfr hopen
    have hstep : step s.cfg run (.resp 200 (fun _ => scanBytes ((bodyFrom s.items a.from_).take c) t)) =
        { phase := afterBody s.cfg lastID retries (processBody s.cfg lastID (scanBytes ((bodyFrom s.items a.from_).take c) t)),
          msgs := run.msgs ++ (processBody s.cfg lastID (scanBytes ((bodyFrom s.items a.from_).take c) t)).msgs,
          headers := run.headers ++ [lastID] } := by
      unfold step; rw [hph]; simp only [checkResponse_200, resumeOf, keepCursor_cfg, if_true]
    rw [hstep]
    rw [← hcur] at h1 h5
    have hbeq : (AKind.ok c t == AKind.ctx) = false := by simp
    exact ⟨rfl, rfl, h2, h3, h4, h5, h1, hlast _ rfl,
      by simp only [hbeq]; exact ⟨fun h => Bool.noConfusion h, fun h => absurd h (afterBody_ne_cancelled _ _ _ _)⟩⟩

/-! ### the closing records -/

theorem labelsOf_filter_carries (s : Scn L) (hs : ScnOK s) (got : List Nat) :
    labelsOf s (got.filter (carriesIdx s)) = labelsOf s got := by
  induction got with
  | nil => rfl
  | cons i rest ih =>
    simp only [List.filter_cons]
    by_cases hc : carriesIdx s i = true
    · simp only [hc, if_true]
      simp only [labelsOf, List.filterMap_cons] at ih ⊢
      rw [ih]
    · simp only [hc, Bool.false_eq_true, if_false]
      rw [ih]
      simp only [labelsOf, List.filterMap_cons]
      have : ((s.items[i]?).bind fun it => if s.lab.isNotif it.label = true then some it.label else none) = none := by
        cases hi : s.items[i]? with
        | none => rfl
        | some it =>
          simp only [carriesIdx, hi] at hc
          have hl := (hs.item it (List.mem_of_getElem? hi)).lab
          have hcf : carries it = false := by simpa using hc
          rw [hcf] at hl
          have : s.lab.isNotif it.label = false := by
            cases h : s.lab.isNotif it.label with
            | false => rfl
            | true => rw [h] at hl; simp at hl
          simp [this]
      rw [this]

theorem sim_delivered (s : Scn L) (hs : ScnOK s) (run : Run L) (m : Mon) (te : Nat) (inv : SimInv s run m te) :
    monDelivered s m (run.msgs.filter s.lab.isNotif) = none := by
  have hsub : (labelsOf s (gotOf m.exch)).Sublist (labelsOf s (List.range s.items.length)) := by
    rw [← labelsOf_filter_carries s hs]
    unfold labelsOf
    apply List.Sublist.filterMap
    apply sublist_range _ _ inv.incC
    intro i hi
    exact inv.valid i (List.mem_filter.1 hi).1
  unfold monDelivered
  rw [inv.msgs]
  simp only
  rw [if_neg, if_neg, if_neg, if_neg]
  · simp [inv.lost, inv.wrong]
  · simp
  · simp
  · have := (isSublistInOrder_iff _ _).2 hsub
    simp [this]
  · simp only [List.any_eq_true, Bool.not_eq_true', not_exists, not_and]
    intro l hl
    simpa using hsub.subset hl

omit [LawfulBEq L] in
theorem sim_end (s : Scn L) (run : Run L) (m : Mon) (te : Nat) (inv : SimInv s run m te)
    (e : Ended) (he : run.phase = .ended e) : monEnd s m.exch m.ctxEnded (endObsOf s.sa e) = none := by
  have hrel := inv.phase
  rw [he] at hrel
  cases e with
  | replied => simp [PhaseRel] at hrel; simp [endObsOf, monEnd, hrel.1, hrel.2]
  | synthetic => simp [PhaseRel] at hrel; simp [endObsOf, monEnd, hrel.1, hrel.2.1, hrel.2.2]
  | streaming => simp [PhaseRel] at hrel; simp [endObsOf, monEnd, hrel]
  | cancelled =>
    simp only [PhaseRel] at hrel
    simp [endObsOf, monEnd, hrel, inv.ctx.2 he]
  | failed f =>
    cases f with
    | decode => exact hrel.elim
    | malformed => exact hrel.elim
    | exceeded => simp [PhaseRel] at hrel; simp [endObsOf, monEnd, hrel.1, hrel.2]
    | connect =>
      simp only [PhaseRel] at hrel
      simp only [endObsOf, monEnd, hrel.1, Bool.false_eq_true, if_false]
      rw [if_pos]
      rcases hrel.2 with h | h
      · exact .inl h
      · exact .inr h
    | rejected c => simp [PhaseRel] at hrel; simp [endObsOf, monEnd, hrel.1, hrel.2]
    | sessionGone => simp [PhaseRel] at hrel; simp [endObsOf, monEnd, hrel.1, hrel.2]
    | status c => simp [PhaseRel] at hrel; simp [endObsOf, monEnd, hrel.1, hrel.2]

theorem sim_close (s : Scn L) (hs : ScnOK s) (run : Run L) (m : Mon) (te : Nat) (inv : SimInv s run m te) :
    runMon s m (modelClose s run) = none := by
  unfold modelClose
  simp only [runMon, monStep, sim_delivered s hs run m te inv]
  cases he : run.phase with
  | reconnecting => simp [runMon]
  | ended e => simp [runMon, monStep, sim_end s run m te inv e he]

/-! ### the whole case -/

omit [LawfulBEq L] in
theorem runMon_append_none (s : Scn L) (m : Mon) (a b : List (Rec L)) (ha : runMon s m a = none)
    (hb : runMon s (monAfter s m a) b = none) : runMon s m (a ++ b) = none := by
  induction a generalizing m with
  | nil => simpa [monAfter] using hb
  | cons r rest ih =>
    simp only [List.cons_append, runMon] at ha ⊢
    cases h : (monStep s m r).2 with
    | some c => simp [h] at ha
    | none =>
      simp only [h] at ha ⊢
      exact ih _ ha (by simpa [monAfter] using hb)

theorem sim_run (s : Scn L) (hs : ScnOK s) (as : List MAtt) :
    ∀ (run : Run L) (m : Mon) (te k : Nat), SimInv s run m te → k ≠ 0 → ValidFrom s run m.exch te k as →
      runMon s m (modelXs s run k as ++ modelClose s (modelRun s run k as)) = none := by
  induction as with
  | nil => intro run m te k inv _ _; simpa [modelXs, modelRun] using sim_close s hs run m te inv
  | cons a as ih =>
    intro run m te k inv hk hv
    cases hph : run.phase with
    | ended e =>
      have h1 : modelXs s run k (a :: as) = [] := by simp [modelXs, hph]
      have h2 : modelRun s run k (a :: as) = run := by simp [modelRun, hph]
      rw [h1, h2]
      simpa using sim_close s hs run m te inv
    | reconnecting prev retries lastID hint attempt =>
      have h1 : modelXs s run k (a :: as) = modelRec k a lastID ::
          modelXs s (step s.cfg run (modelAtt s k a lastID)) (k + 1) as := by simp [modelXs, hph]
      have h2 : modelRun s run k (a :: as) =
          modelRun s (step s.cfg run (modelAtt s k a lastID)) (k + 1) as := by simp [modelRun, hph]
      simp only [ValidFrom, hph] at hv
      obtain ⟨hva, hvr⟩ := hv
      obtain ⟨hnone, hexch, inv'⟩ := sim_step s hs run m te k a inv hk prev retries lastID hint attempt hph hva
      rw [h1, h2, List.cons_append, runMon, hnone]
      simp only
      apply ih _ _ (teAfter te a) (k + 1) inv' (by omega)
      rw [hexch]
      exact hvr

/-- **monitor_accepts_model (no false alarm).**  For every scenario of a faithful server, every cut of
the first body, every valid script of reconnect outcomes and every timing inside the model's back-off
window: the C09 monitor raises no clause on the records of the model's behaviour — the `x` record of
every exchange, the `delivered` record, and (when the model's loop has ended) the `end` and `leak`
records. -/
theorem monitor_accepts_model (s : Scn L) (hs : ScnOK s) (first : MAtt) (script : List MAtt)
    (hv : ValidCase s first script) : runMon s {} (modelTrace s first script) = none := by
  obtain ⟨⟨c, t, hk, hopen⟩, hvs⟩ := hv
  obtain ⟨hnone, inv⟩ := sim_start s hs first c t hk hopen {} rfl rfl rfl
  unfold modelTrace
  rw [runMon, hnone]
  simp only
  apply sim_run s hs script _ _ first.te 1 inv (by omega)
  have : (monStep s {} (.x (modelX 0 first []))).1.exch = [exchOf s (modelX 0 first [])] := by
    simp [monStep, modelX]
  rw [this]
  exact hvs

/-- … and on every prefix of the exchanges: whatever was delivered so far is accepted as well. -/
theorem monitor_accepts_model_prefix (s : Scn L) (hs : ScnOK s) (first : MAtt) (script : List MAtt)
    (hv : ValidCase s first script) (n : Nat) :
    runMon s {} (modelTrace s first (script.take n)) = none := by
  apply monitor_accepts_model s hs first _
  obtain ⟨h1, h2⟩ := hv
  refine ⟨h1, ?_⟩
  generalize modelStart s first = run at h2
  generalize [exchOf s (modelX 0 first [])] = ex at h2
  generalize first.te = te at h2
  generalize (1 : Nat) = k at h2
  induction script generalizing n run ex te k with
  | nil => simpa using h2
  | cons a as ih =>
    cases n with
    | zero => simp [ValidFrom]
    | succ n =>
      simp only [List.take_succ_cons, ValidFrom] at h2 ⊢
      cases hph : run.phase with
      | ended e => simp
      | reconnecting prev retries lastID hint attempt =>
        simp only [hph] at h2 ⊢
        exact ⟨h2.1, ih n _ _ _ _ h2.2⟩

/-! ### non-vacuity: the hypotheses are satisfiable, the traces are not empty -/

theorem exScn_ok : ScnOK exScn := by
  refine ⟨?_, by decide, by decide, by decide⟩
  intro it hit
  simp only [exScn, List.mem_cons, List.not_mem_nil, or_false] at hit
  rcases hit with rfl | rfl <;> exact ⟨by decide, by decide, by decide, by decide, by decide, by decide, by decide⟩

def exFirst : MAtt := { kind := .ok 16 .err, from_ := 0, ts := 0, te := 1000000 }
def exScript : List MAtt :=
  [ { kind := .terr { isDeadline := true, isTimeout := true }, ts := 1001500000, te := 1006500000 },
    { kind := .ok 0 .eof, from_ := 1, ts := 3001500000, te := 3002500000 },
    { kind := .ok 100 .eof, from_ := 1, ts := 4502500000, te := 4503500000 } ]

theorem exCase_valid : ValidCase exScn exFirst exScript := by
  refine ⟨⟨16, .err, rfl, by decide⟩, ?_⟩
  decide

/-- the behaviour: cut after the first event by a read error (call stream), one transport error after
the back-off, an empty resumed body, then the rest: 4 exchanges, then delivered / end / leak -/
example : (modelTrace exScn exFirst exScript).length = 7 := by decide
example : (modelRun exScn (modelStart exScn exFirst) 1 exScript).phase = .ended .replied ∧
    (modelRun exScn (modelStart exScn exFirst) 1 exScript).msgs = [1, 100] := by decide
/-- the instance of `monitor_accepts_model` -/
example : runMon exScn {} (modelTrace exScn exFirst exScript) = none :=
  monitor_accepts_model exScn exScn_ok exFirst exScript exCase_valid

/-- the control: after a dial timeout (an error that answers `Is(DeadlineExceeded)`) the caller's
context ends while the second attempt is in flight; what the script says afterwards is never reached:
3 exchanges, then delivered / end (`err:ctx`) / leak -/
def exScriptCtx : List MAtt :=
  [ { kind := .terr { isDeadline := true, isTimeout := true }, ts := 1001500000, te := 1006500000 },
    { kind := .ctx, ts := 3001500000, te := 3002500000 },
    { kind := .ok 100 .eof, from_ := 1, ts := 4502500000, te := 4503500000 } ]

theorem exCaseCtx_valid : ValidCase exScn exFirst exScriptCtx := by
  refine ⟨⟨16, .err, rfl, by decide⟩, ?_⟩
  decide

example : (modelRun exScn (modelStart exScn exFirst) 1 exScriptCtx).phase = .ended .cancelled ∧
    (modelTrace exScn exFirst exScriptCtx).length = 6 := by decide
example : runMon exScn {} (modelTrace exScn exFirst exScriptCtx) = none :=
  monitor_accepts_model exScn exScn_ok exFirst exScriptCtx exCaseCtx_valid

/-- … and cancelled during the first wait: a `cancel` record instead of an exchange -/
def exScriptWait : List MAtt :=
  [ { kind := .ctx, cancelWait := true, ts := 2000000 },
    { kind := .ok 100 .eof, from_ := 1, ts := 4502500000, te := 4503500000 } ]

theorem exCaseWait_valid : ValidCase exScn exFirst exScriptWait := by
  refine ⟨⟨16, .err, rfl, by decide⟩, ?_⟩
  decide

example : (modelRun exScn (modelStart exScn exFirst) 1 exScriptWait).phase = .ended .cancelled ∧
    (modelRun exScn (modelStart exScn exFirst) 1 exScriptWait).headers = [] ∧
    (modelTrace exScn exFirst exScriptWait).length = 5 := by decide
example : runMon exScn {} (modelTrace exScn exFirst exScriptWait) = none :=
  monitor_accepts_model exScn exScn_ok exFirst exScriptWait exCaseWait_valid

theorem exScnSa_ok : ScnOK exScnSa := by
  refine ⟨?_, by decide, by decide, by decide⟩
  intro it hit
  simp only [exScnSa, List.mem_cons, List.not_mem_nil, or_false] at hit
  rcases hit with rfl | rfl | rfl <;> exact ⟨by decide, by decide, by decide, by decide, by decide, by decide, by decide⟩

def exFirstSa : MAtt := { kind := .ok 8 .eof, from_ := 0, ts := 0, te := 1000000 }
def exScriptSa : List MAtt := [ { kind := .ok 100 .open, from_ := 2, ts := 1500000000, te := 1500000000 } ]

theorem exCaseSa_valid : ValidCase exScnSa exFirstSa exScriptSa := by
  refine ⟨⟨8, .eof, rfl, by decide⟩, ?_⟩
  decide

example : (modelRun exScnSa (modelStart exScnSa exFirstSa) 1 exScriptSa).phase = .ended .streaming ∧
    (modelRun exScnSa (modelStart exScnSa exFirstSa) 1 exScriptSa).msgs = [2] ∧
    (modelTrace exScnSa exFirstSa exScriptSa).length = 5 := by decide
example : runMon exScnSa {} (modelTrace exScnSa exFirstSa exScriptSa) = none :=
  monitor_accepts_model exScnSa exScnSa_ok exFirstSa exScriptSa exCaseSa_valid

/-! ### the hypotheses are about the environment, and each is needed

`ScnOK` and `ValidCase` restrict the scripted SERVER (C08's guarantees and the harness's script
vocabulary), not the client.  Without them the monitor does report clauses on behaviours of the
model; the harness generates none of these. -/

/-- a server that stalls a call stream for ever (body left open without the response): the model's
call stays pending and the monitor reports the hang — `ValidCase` demands that bodies of a call
stream end -/
example : runMon exScn {} (modelTrace exScn { kind := .ok 16 .open } []) = some .hang := by decide

/-- a "status" attempt with a 2xx code: the model treats it as an empty body and reconnects, the
monitor books a failing status — `ValidAtt` demands `checkResponse c ≠ none` for `st c` -/
example : runMon exScn {} (modelTrace exScn exFirst
    [ { kind := .st 204, ts := 1001500000, te := 1001500000 },
      { kind := .terr {}, ts := 2003000000, te := 2003000000 } ]) = some .afterStatus := by decide

/-- a server that sends a notification AFTER the call's response on the call's stream: the model's
client stops at the response, the monitor misses the notification — `ScnOK.replyLast` -/
def exScnBadOrder : Scn Nat :=
  { exScn with items := [
      { raw := false, ev := { id := [50, 50], data := [66, 66] }, label := 100,
        bytes := serializeLines (writeEvent { id := [50, 50], data := [66, 66] }) },
      { raw := false, ev := { id := [49], data := [65, 65] }, label := 1,
        bytes := serializeLines (writeEvent { id := [49], data := [65, 65] }) }] }
example : runMon exScnBadOrder {} (modelTrace exScnBadOrder { kind := .ok 100 .eof } []) = some .missing := by decide

/-- a server that gives ids to some messages only: resuming after "1" replays the id-less
notification 2, which the model's client delivers twice — `ScnOK.idsAllOrNone` -/
def exScnMixed : Scn Nat :=
  { exScn3 with items := [
      { raw := false, ev := { id := [49], data := [65, 65] }, label := 1,
        bytes := serializeLines (writeEvent { id := [49], data := [65, 65] }) },
      { raw := false, ev := { data := [66, 66] }, label := 2,
        bytes := serializeLines (writeEvent { data := [66, 66] }) },
      { raw := false, ev := { id := [51, 51, 51], data := [67, 67] }, label := 3,
        bytes := serializeLines (writeEvent { id := [51, 51, 51], data := [67, 67] }) }] }
example : runMon exScnMixed {} (modelTrace exScnMixed { kind := .ok 30 .err, te := 1000000 }
    [ { kind := .ok 100 .open, from_ := 1, ts := 1500000000, te := 1500000000 } ]) = some .dupOrOrder := by decide

end ClientStream
