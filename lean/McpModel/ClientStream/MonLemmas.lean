import McpModel.ClientStream.Monitor
/-!
List lemmas about the bookkeeping of the C09 monitor (`Monitor.lean`): how each derived quantity
changes when one exchange is appended to the history.
-/
namespace ClientStream

variable {L : Type}

/-- number of leading items whose bytes all lie within the first `cut` bytes -/
def ccount : List (LItem L) → Nat → Nat
  | [], _ => 0
  | it :: rest, cut => if it.bytes.length ≤ cut then ccount rest (cut - it.bytes.length) + 1 else 0

theorem ccount_le (l : List (LItem L)) (c : Nat) : ccount l c ≤ l.length := by
  induction l generalizing c with
  | nil => simp [ccount]
  | cons it rest ih =>
    simp only [ccount]
    split
    · have := ih (c - it.bytes.length); simp; omega
    · simp

theorem completeIdx_eq (l : List (LItem L)) (i c : Nat) : completeIdx l i c = List.range' i (ccount l c) := by
  induction l generalizing i c with
  | nil => simp [completeIdx, ccount]
  | cons it rest ih =>
    simp only [completeIdx, ccount]
    split
    · rw [ih, List.range'_succ]
    · simp

theorem gotOf_snoc (ex : List Exch) (e : Exch) : gotOf (ex ++ [e]) = gotOf ex ++ e.complete := by
  simp [gotOf]

theorem trailingTerr_snoc (ex : List Exch) (e : Exch) :
    trailingTerr (ex ++ [e]) = if e.isTerr then trailingTerr ex + 1 else 0 := by
  unfold trailingTerr
  rw [List.reverse_append]
  simp only [List.reverse_cons, List.reverse_nil, List.nil_append, List.singleton_append, List.takeWhile_cons]
  split <;> simp

theorem fruitlessOf_snoc (s : Scn L) (ex : List Exch) (e : Exch) :
    fruitlessOf s (ex ++ [e]) =
      if e.isTerr then fruitlessOf s ex
      else if e.isOk && !(e.complete.any s.hasId) then fruitlessOf s ex + 1 else 0 := by
  unfold fruitlessOf
  rw [List.reverse_append]
  simp [fruitlessGo]

theorem lastHint_snoc (s : Scn L) (ex : List Exch) (e : Exch) :
    lastHint s (ex ++ [e]) = if e.isOk then hintOfIdx s e.complete else lastHint s ex := by
  unfold lastHint
  rw [List.filter_append]
  by_cases h : e.isOk = true
  · simp [h]
  · simp [h]

theorem cursorOf_snoc (s : Scn L) (ex : List Exch) (e : Exch) :
    cursorOf s (ex ++ [e]) =
      match (e.complete.filter s.hasId).getLast? with
      | some i => (s.items[i]?).map (·.ev.id) |>.getD []
      | none => cursorOf s ex := by
  unfold cursorOf
  rw [gotOf_snoc, List.filter_append, List.getLast?_append]
  cases h : (e.complete.filter s.hasId).getLast? <;> simp

theorem getLast?_snoc {α} (l : List α) (a : α) : (l ++ [a]).getLast? = some a := by simp

theorem lastIsStatus_snoc (ex : List Exch) (e : Exch) (c : Nat) :
    lastIsStatus (ex ++ [e]) c = (match e.kind with | .st c' => c == c' | _ => false) := by
  simp only [lastIsStatus, getLast?_snoc]
  cases e.kind <;> rfl

theorem anySt_snoc (ex : List Exch) (e : Exch) : (ex ++ [e]).any (·.isSt) = (ex.any (·.isSt) || e.isSt) := by
  simp

/-! ### `isSublistInOrder` decides `List.Sublist` -/

theorem isSublistInOrder_iff [BEq L] [LawfulBEq L] (a b : List L) : isSublistInOrder a b = true ↔ a.Sublist b := by
  induction b generalizing a with
  | nil =>
    cases a with
    | nil => simp [isSublistInOrder]
    | cons x xs => simp [isSublistInOrder]
  | cons y ys ih =>
    cases a with
    | nil => simp [isSublistInOrder]
    | cons x xs =>
      simp only [isSublistInOrder]
      by_cases hxy : x = y
      · subst hxy
        simp only [beq_self_eq_true, if_true]
        rw [ih]
        exact ⟨fun h => h.cons_cons x, fun h => (List.cons_sublist_cons.1 h)⟩
      · have : (x == y) = false := by simpa using hxy
        simp only [this, Bool.false_eq_true, if_false]
        rw [ih]
        constructor
        · exact fun h => h.cons y
        · intro h
          cases h with
          | cons _ h => exact h
          | cons_cons _ h => exact absurd rfl hxy

end ClientStream
