import McpModel.ClientStream.Monitor
/-!
# Scenarios of a faithful server (`ScnOK`)

The hypotheses of the bridge theorem (`Bridge.lean`) on the scenario — what the scripted server owns.
They are decidable; the driver evaluates them on every `scn` record (`bad-scn` if one fails), so on
the records the driver accepts they hold.  Core Lean only (linked into the driver).
-/
namespace ClientStream
open Generated.ClientStream

variable {L : Type}

/-! ### well-formed scenarios -/

/-- the block (non-blank lines) an item's bytes consist of -/
def itemBlock (it : LItem L) : Block := (splitLines it.bytes).1.dropLast

/-- the item carries a message: `processStream` hands its data to the decoder -/
def carries (it : LItem L) : Bool :=
  decide (it.ev.data ≠ [] ∧ ¬ (it.ev.name ≠ [] ∧ it.ev.name ≠ messageName))

/-- a log item is what it says: its bytes are one well-formed block that denotes its event; it
carries a message iff it is labelled as one, and the message then decodes to its label -/
structure ItemOK (s : Scn L) (it : LItem L) : Prop where
  bytes : it.bytes = serializeLines (blockLines (itemBlock it))
  good : ∀ l ∈ itemBlock it, goodLine l = true
  ev : eventOf (itemBlock it) = it.ev
  raw : it.raw = true → it.ev = {}
  lab : carries it = (s.lab.isNotif it.label || s.lab.isReply it.label)
  dec : carries it = true → s.cfg.decode it.ev.data = some it.label
  noReplySa : s.sa = true → s.lab.isReply it.label = false

/-- the scenarios of a faithful server (C08's guarantee as far as the client depends on it) -/
structure ScnOK (s : Scn L) : Prop where
  item : ∀ it ∈ s.items, ItemOK s it
  /-- event ids are pairwise distinct -/
  idsDistinct : s.items.Pairwise (fun a b => a.ev.id ≠ [] → a.ev.id ≠ b.ev.id)
  /-- a server with an event store gives every message an id; one without gives none -/
  idsAllOrNone : (∀ it ∈ s.items, carries it = true → it.ev.id ≠ []) ∨ (∀ it ∈ s.items, it.ev.id = [])
  /-- nothing follows the call's response on its stream -/
  replyLast : s.items.Pairwise (fun a b => s.lab.isReply a.label = true → carries b = false)

/-! ### decidability -/

theorem itemOK_iff (s : Scn L) (it : LItem L) :
    ItemOK s it ↔
      (it.bytes = serializeLines (blockLines (itemBlock it)) ∧ (∀ l ∈ itemBlock it, goodLine l = true) ∧
       eventOf (itemBlock it) = it.ev ∧ (it.raw = true → it.ev = {}) ∧
       carries it = (s.lab.isNotif it.label || s.lab.isReply it.label) ∧
       (carries it = true → s.cfg.decode it.ev.data = some it.label) ∧
       (s.sa = true → s.lab.isReply it.label = false)) :=
  ⟨fun h => ⟨h.bytes, h.good, h.ev, h.raw, h.lab, h.dec, h.noReplySa⟩,
   fun ⟨a, b, c, d, e, f, g⟩ => ⟨a, b, c, d, e, f, g⟩⟩

instance [DecidableEq L] (s : Scn L) (it : LItem L) : Decidable (ItemOK s it) :=
  decidable_of_iff _ (itemOK_iff s it).symm

theorem scnOK_iff (s : Scn L) :
    ScnOK s ↔
      ((∀ it ∈ s.items, ItemOK s it) ∧
       s.items.Pairwise (fun a b => a.ev.id ≠ [] → a.ev.id ≠ b.ev.id) ∧
       ((∀ it ∈ s.items, carries it = true → it.ev.id ≠ []) ∨ (∀ it ∈ s.items, it.ev.id = [])) ∧
       s.items.Pairwise (fun a b => s.lab.isReply a.label = true → carries b = false)) :=
  ⟨fun h => ⟨h.item, h.idsDistinct, h.idsAllOrNone, h.replyLast⟩, fun ⟨a, b, c, d⟩ => ⟨a, b, c, d⟩⟩

instance [DecidableEq L] (s : Scn L) : Decidable (ScnOK s) :=
  decidable_of_iff _ (scnOK_iff s).symm

end ClientStream
