import McpModel.Base.Proto
import McpModel.ClientStream.Monitor
import McpModel.ClientStream.ScnOK
import McpModel.ClientStream.Pair
/-!
Driver for E6 (C09).  Replays the harness's records on the model (`ClientStream.run`, one `step` per
HTTP exchange) and evaluates the C09 monitor on the IMPLEMENTATION's observations.  The monitor itself
is typed and lives in `Monitor.lean` (`monStep`; proofs about it: `Bridge.lean`, `Sound.lean`); this
file is the string layer: the token parser, the clause texts and the rendering of the model's
observations.

Records of one case (see go/harness/mcp/zz_verif_clientstream_test.go):
  reset
  scn <post|sa> mr=<MaxRetries field> first=<cut>:<term> script=.. log=<items> full=x<hex> [bg=sahang]    obs ok
  x <k> <terr|ctxc|ctxd|st<code>|ok:<cut>:<term>>[*] from=<idx|-|unknown> t=<µs> e=<µs> [is=<c><d><t>] [code=<n> ct=<..> junk=x<hex>]   obs lei=<x<hex>|->
      is=   (terr) what the error answered to errors.Is(Canceled) / errors.Is(DeadlineExceeded) / Timeout()
      junk= (ok:0:<term>) a foreign answer: the bytes of a body that is no SSE stream; accepted only if the model's
            scanner makes of it what it makes of an empty body (no event, same end) — else `bad-op`
  bg sent=<labels>   (bg=call) the second call stream                                            obs got=<labels|-> end=<result:RB|err:..|hang>
  c t=<µs>      the caller's context was cancelled while no request was in flight                obs ok
  delivered atret=<n>                                                                            obs <labels|->
  end                                                                                            obs result:R | ok | err:<kind> | hang
  leak                                                                                           obs none | leak
-/
namespace ClientStream
open Proto

/-! ### parsing -/

def dropS (s : String) (n : Nat) : String := String.ofList (s.toList.drop n)

def kv (toks : List String) (k : String) : Option String :=
  (toks.find? (fun t => t.startsWith (k ++ "="))).map (fun t => dropS t (k.length + 1))

def hexField (s : String) : Option Bytes := if s = "" then some [] else hexToBytes s

/-- the labels of the harness: `n<k>` a notification, `r` the call's response, `-` no message -/
def strLabels : Labels String :=
  { isNotif := fun l => l.startsWith "n", isReply := fun l => l == "r", isNone := fun l => l == "-" }

def parseItem (s : String) : Option (LItem String) :=
  match s.splitOn "." with
  | [k, n, i, r, d, lbl] => do
    let n ← hexField n; let i ← hexField i; let r ← hexField r; let d ← hexField d
    if k = "w" then some { raw := true, ev := {}, label := lbl, bytes := d }
    else
      let ev : Event := { name := n, id := i, retry := r, data := d }
      some { raw := false, ev := ev, label := lbl, bytes := serializeLines (writeEvent ev) }
  | _ => none

def parseTerm : String → Option Term
  | "eof" => some .eof
  | "err" => some .err
  | "hang" => some .open
  | _ => none

def parseBit : Char → Option Bool
  | '0' => some false
  | '1' => some true
  | _ => none

/-- the `is=<c><d><t>` field of a `terr` exchange -/
def parseTErr (s : Option String) : Option TErr :=
  match s with
  | none => some {}
  | some s =>
    match s.toList with
    | [c, d, t] => do
      let c ← parseBit c; let d ← parseBit d; let t ← parseBit t
      some { isCanceled := c, isDeadline := d, isTimeout := t }
    | _ => none

def parseAttempt (s : String) (is : Option String := none) : Option AKind :=
  let s := if s.endsWith "*" then String.ofList (s.toList.dropLast) else s
  if s = "terr" then (parseTErr is).map .terr
  else if s = "ctxc" || s = "ctxd" then some .ctx
  else if s.startsWith "st" then (dropS s 2).toNat?.map .st
  else match s.splitOn ":" with
    | ["ok", c, t] => do let c ← c.toNat?; let t ← parseTerm t; some (.ok c t)
    | _ => none

/-- the implementation's observation of an `x` record: the Last-Event-ID header it sent -/
def parseHdr (impl : String) : Option Bytes :=
  if impl = "lei=-" then none else some ((hexToBytes (dropS impl 5)).getD [])

/-- the implementation's observation of the `end` record -/
def parseEnd (impl : String) : EndObs :=
  if impl.startsWith "hang" then .hang
  else if impl = "err:decode" then .decode
  else if impl = "err:malformed" then .malformed
  else if impl.startsWith "result:" then .result (impl = "result:R")
  else if impl = "ok" then .ok
  else if impl = "err:synthetic" then .synthetic
  else if impl = "err:exceeded" then .exceeded
  else if impl = "err:reconnect" then .reconnect
  else if impl = "err:session-missing" then .sessionMissing
  else if impl.startsWith "err:st" then .st (dropS impl 6).toNat?
  else if impl = "err:ctx" then .ctx
  else .other

/-! ### rendering -/

def showHdr (h : Bytes) : String := if h = [] then "lei=-" else "lei=x" ++ bytesToHex h

/-- the `end` observation as the harness prints it -/
def showEnd : EndObs → String
  | .hang => "hang"
  | .decode => "err:decode"
  | .malformed => "err:malformed"
  | .result true => "result:R"
  | .result false => "result:?"
  | .ok => "ok"
  | .synthetic => "err:synthetic"
  | .exceeded => "err:exceeded"
  | .reconnect => "err:reconnect"
  | .sessionMissing => "err:session-missing"
  | .st (some c) => s!"err:st{c}"
  | .st none => "err:st?"
  | .ctx => "err:ctx"
  | .other => "err:other"

def endName (sa : Bool) : Phase → String
  | .ended e => showEnd (endObsOf sa e)
  | .reconnecting .. => "pending"

/-- the clause texts -/
def Clause.text : Clause → String
  | .f18NoHeader => "C09: F18 last_id_is_last_complete: reconnect without Last-Event-ID although an event with an id had been received completely (the resume cursor was lost)"
  | .f5UnknownId => "C09: F5 last_id_is_last_complete: Last-Event-ID is not the id of any event of the stream (an id cut by the end of the body was recorded)"
  | .notLast => "C09: last_id_is_last_complete: Last-Event-ID names a completely received event, but not the last one"
  | .f5IncompleteId => "C09: F5 last_id_is_last_complete: Last-Event-ID names an event that was not received completely (its data or its terminating blank line never arrived)"
  | .unresumableReconnect => "C09: unresumable_fails_call: a reconnect was attempted for a call stream although no event id had been received completely"
  | .afterStatus => "C09: a reconnect was attempted after a response whose status fails the connection"
  | .fruitlessExceeded => "C09: bounded_fruitless_retries: another reconnect after more than maxRetries bodies without progress"
  | .connectExceeded => "C09: bounded_fruitless_retries: connectSSE made more than maxRetries attempts"
  | .afterCancel => "C09: a reconnect was attempted after the caller's context had ended (the retry loop must stop with the caller, and only with the caller)"
  | .delay dl lo hi attempt hint => s!"C09: reconnect delay {dl}ns outside the schedule [{lo},{hi}) (attempt {attempt}, hint {hint}ms): a retry hint of an incomplete event was used, or the back-off is off"
  | .foreign => "C09: no_truncated_message: a message that is not one of the server's messages reached the session"
  | .dupOrOrder => "C09: delivered_exactly_once_in_order: a message was delivered twice or out of order"
  | .f5Truncated => "C09: F5 no_truncated_message: a message reached the session although its event was not received completely"
  | .missing => "C09: delivered_exactly_once_in_order: a completely received message never reached the session"
  | .f18Lost => "C09: F18 delivered_exactly_once_in_order: a server message was lost: the stream was resumed without Last-Event-ID after the resume cursor had been lost"
  | .f5Lost => "C09: F5 delivered_exactly_once_in_order: a server message was lost: the stream was resumed from an event that had not been received completely"
  | .hang => "C01+C09: the pending call hangs: neither the server's response nor an error"
  | .f5Decode => "C09: F5 no_truncated_message: an event cut by the end of the body was surfaced to the decoder (connection failed: failed to decode event)"
  | .f5Malformed => "C09: F5 process_ignores_unterminated: a line cut by the end of the body was treated as corruption (connection failed: malformed line)"
  | .probeResult => "C09: unexpected result for the probe"
  | .notServerResponse => "C01+C09: the call completed with something that is not the server's response to it"
  | .f5ResponseIncomplete => "C09: F5 no_truncated_message: the call completed with a response event that was not received completely (its terminating blank line never arrived)"
  | .probeOutcomeForCall => "C09: unexpected probe outcome for a call scenario"
  | .replyNotCompleted => "C09: the server's response was received completely but the call did not complete with it"
  | .syntheticNoCall => "C09: synthetic error without a pending call"
  | .f18Synthetic => "C09: F18 unresumable_fails_call: the call was failed as unresumable although an event id had been received completely and the retry budget was not exhausted"
  | .exceededEarly => "C09: bounded_fruitless_retries: 'exceeded retries without progress' although fewer than maxRetries+1 bodies were fruitless"
  | .reconnectEarly => "C09: 'failed to reconnect' although connectSSE had attempts left"
  | .sessionMissingNo404 => "C09: session-missing error without a 404"
  | .statusNotReturned => "C09: status error that no exchange returned"
  | .unclassified => "C09: unclassified error"
  | .unexpectedError => "C09: the pending call ended with an unexpected error"
  | .ctxLive => "C09: the pending call ended with a context error although the caller's context was live"
  | .leak => "C09: goroutines of the client remain blocked for ever after Close (the bubble cannot exit)"

/-! ### state -/

structure DState where
  scn : Scn String := { lab := strLabels }
  ready : Bool := false
  run : Option (Run String) := none
  mon : Mon := {}

/-! ### the engine -/

def engine : Engine DState where
  init := {}
  step d toks impl :=
    match toks with
    | ["reset"] => ({}, { model := "ok" })
    | "scn" :: kind :: rest =>
      let r : Option DState := do
        let mr ← (kv rest "mr").bind String.toInt?
        let lg ← kv rest "log"
        let items ← if lg = "-" then some [] else (lg.splitOn ";").mapM parseItem
        let full ← (kv rest "full").bind (fun s => hexToBytes (dropS s 1))
        if kind != "post" && kind != "sa" then none
        -- bg: another stream of the connection is reconnecting meanwhile (its GET accepted, never answered). The streams
        -- of a connection share nothing in the model: the run of the stream under test is the same function of its
        -- own exchanges. Admitted for call streams with a budget (MaxRetries -1: the first fruitless body of the
        -- background stream fails the whole connection, by design).
        match kv rest "bg" with
        | none => pure ()
        | some "sahang" => if kind = "post" && mr ≥ 0 then pure () else none
        | some "call" => if kind = "post" && mr ≥ 0 then pure () else none
        | some _ => none
        if bodyFrom items 0 != full then none
        let scn : Scn String := { lab := strLabels, sa := kind == "sa", mr := Generated.ClientStream.maxRetriesOf mr, items := items }
        -- the scenario is one of a faithful server: the hypothesis of `monitor_accepts_model`
        if !decide (ScnOK scn) then none
        some { scn := scn, ready := true }
      match r with
      | some d' => (d', { model := "ok" })
      | none => ({}, { model := "bad-scn" })
    | "x" :: k :: att :: rest =>
      if !d.ready then (d, { model := "bad-op" }) else
      let r : Option (DState × Verdict) := do
        let k ← k.toNat?
        let a ← parseAttempt att (kv rest "is")
        let tS ← (kv rest "t").bind String.toNat?
        let tE ← (kv rest "e").bind String.toNat?
        let fr := (kv rest "from").bind String.toNat?
        let xr : XRec := { k := k, kind := a, from_ := fr, tStart := tS, tEnd := tE, hdr := parseHdr impl }
        -- a foreign answer (204, application/json, …): its body must be, for the scanner, an empty body
        match kv rest "junk", a with
        | some j, .ok 0 t => if (hexToBytes (dropS j 1)).map (fun b => scanBytes b t) == some (scanBytes [] t) then pure () else none
        | some _, _ => none
        | none, _ => pure ()
        -- the served body, as a function of nothing (the harness tells where the faithful server started)
        let scanOf : Option ScanOut := scanOfX d.scn xr
        let (mon', viol) := monStep d.scn d.mon (.x xr)
        if k = 0 then
          -- the first body of the stream
          let so ← scanOf
          let run := start d.scn.cfg so
          some ({ d with run := some run, mon := mon' }, { model := "lei=-" })
        else
          match d.run with
          | none => none
          | some run =>
            let (model, run') := match run.phase with
              | .ended _ => ("none", run)
              | .reconnecting _ _ lastID hint attempt =>
                -- the model's retry hint / attempt number must give the delay window the monitor derived
                -- from the ground truth (this is what ties `noteEvent`/`parseInt64` to the measured delays)
                let mAttempt := trailingTerr d.mon.exch + 1
                let agree := delayWindow hint attempt == delayWindow (if mAttempt = 1 then lastHint d.scn d.mon.exch else 0) mAttempt
                (showHdr lastID ++ (if agree then "" else s!" model-delay-window({hint},{attempt})"), step d.scn.cfg run (attemptOfX d.scn xr))
            some ({ d with run := some run', mon := mon' }, { model := model, violated := viol.map Clause.text })
      match r with
      | some x => x
      | none => (d, { model := "bad-op" })
    | ["c", t] =>
      if !d.ready then (d, { model := "bad-op" }) else
      match (kv [t] "t").bind String.toNat?, d.run with
      | some t, some run =>
        let (mon', viol) := monStep d.scn d.mon (.cancel t)
        ({ d with run := some (step d.scn.cfg run (.ctxEnded false)), mon := mon' }, { model := "ok", violated := viol.map Clause.text })
      | _, _ => (d, { model := "bad-op" })
    | "delivered" :: _ =>
      let implL := if impl = "-" then [] else words impl
      let model := match d.run with
        | some run =>
          let l := run.msgs.filter (fun m => m.startsWith "n")
          if l = [] then "-" else " ".intercalate l
        | none => "-"
      (d, { model := model, violated := (monStep d.scn d.mon (.delivered implL)).2.map Clause.text })
    | ["bg", sent] =>
      -- the second call stream (bg=call): `bg sent=<labels>`   obs got=<labels|-> end=<result:RB|…>
      let sentL := match kv [sent] "sent" with | some x => (x.splitOn ",").filter (· ≠ "") | none => []
      let w := words impl
      let got := match kv w "got" with | some "-" => [] | some x => (x.splitOn ",").filter (· ≠ "") | none => ["?"]
      let own := kv w "end" == some "result:RB"
      let clause : Option String := (bgMon sentL { got := got, own := own }).map (fun
        | .order => "C09: delivered_exactly_once_in_order (second call stream, cut at the same time): its messages did not reach the session exactly once and in order (cross-talk between the resumed streams, a loss or a duplicate)"
        | .reply => "C01+C09: the second call (its stream cut at the same time, its resumption slow) did not complete with its own response")
      (d, { model := s!"got={",".intercalate sentL} end=result:RB", violated := clause })
    | ["end"] =>
      let model := match d.run with
        | some run => endName d.scn.sa run.phase
        | none => "no-run"
      (d, { model := model, violated := (monStep d.scn d.mon (.fin (parseEnd impl))).2.map Clause.text })
    | ["leak"] =>
      (d, { model := "none", violated := (monStep d.scn d.mon (.leak (impl != "none"))).2.map Clause.text })
    | _ => (d, { model := "bad-op" })

end ClientStream

def main : IO Unit := Proto.run ClientStream.engine
