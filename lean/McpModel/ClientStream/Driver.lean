import McpModel.Base.Proto
import McpModel.ClientStream.Model
/-!
Driver for E6 (C09).  Replays the harness's records on the model (`ClientStream.run`, one `step` per
HTTP exchange) and evaluates the C09 monitor on the IMPLEMENTATION's observations.

Records of one case (see go/harness/mcp/zz_verif_clientstream_test.go):
  reset
  scn <post|sa> mr=<MaxRetries field> first=<cut>:<term> script=.. log=<items> full=x<hex>     obs ok
  x <k> <terr|st<code>|ok:<cut>:<term>>[*] from=<idx|-|unknown> t=<µs> e=<µs>                   obs lei=<x<hex>|->
  delivered atret=<n>                                                                            obs <labels|->
  end                                                                                            obs result:R | ok | err:<kind> | hang
  leak                                                                                           obs none | leak

The monitor is independent of the scanner/loop model: its ground truth is the log (the items the
faithful scripted server owns), the byte length of each item on the wire, and for every exchange
where the served body started (`from`) and how many bytes of it were served (`cut`).  An item was
*completely received* iff all its bytes (including the terminating blank line) were served.
-/
namespace ClientStream
open Proto

/-! ### parsing -/

def dropS (s : String) (n : Nat) : String := String.ofList (s.toList.drop n)

def kv (toks : List String) (k : String) : Option String :=
  (toks.find? (fun t => t.startsWith (k ++ "="))).map (fun t => dropS t (k.length + 1))

def hexField (s : String) : Option Bytes := if s = "" then some [] else hexToBytes s

structure LItem where
  raw : Bool
  ev : Event
  label : String
  bytes : Bytes        -- on the wire (model's `writeEvent`, or the raw bytes)
deriving Repr

def parseItem (s : String) : Option LItem :=
  match s.splitOn "." with
  | [k, n, i, r, d, lbl] => do
    let n ← hexField n; let i ← hexField i; let r ← hexField r; let d ← hexField d
    if k = "w" then some { raw := true, ev := {}, label := lbl, bytes := d }
    else
      let ev : Event := { name := n, id := i, retry := r, data := d }
      some { raw := false, ev := ev, label := lbl, bytes := serializeLines (writeEvent ev) }
  | _ => none

def parseTerm : String → Option Term
  | "eof" => some .eof
  | "err" => some .err
  | "hang" => some .open
  | _ => none

inductive AKind where
  | terr
  | st (code : Nat)
  | ok (cut : Nat) (t : Term)
deriving Repr

def parseAttempt (s : String) : Option AKind :=
  let s := if s.endsWith "*" then String.ofList (s.toList.dropLast) else s
  if s = "terr" then some .terr
  else if s.startsWith "st" then (dropS s 2).toNat?.map .st
  else match s.splitOn ":" with
    | ["ok", c, t] => do let c ← c.toNat?; let t ← parseTerm t; some (.ok c t)
    | _ => none

/-! ### state -/

structure Exch where
  kind : AKind
  from_ : Option Nat      -- index of the first log item of the served body (ok only)
  complete : List Nat     -- log indices completely received in this exchange
  tEnd : Nat              -- µs: when the exchange was over for the client
deriving Repr

structure DState where
  sa : Bool := false
  mrField : Int := 0
  items : List LItem := []
  ready : Bool := false
  run : Option (Run String) := none
  exch : List Exch := []
  -- what the implementation reported (for the `end` clauses)
  deliveredImpl : List String := []
  /-- some reconnect went out without Last-Event-ID although a cursor existed (F18) -/
  cursorLost : Bool := false
  /-- some reconnect carried a Last-Event-ID other than the id of the last completely received event -/
  wrongCursor : Bool := false

def DState.mr (d : DState) : Nat := Generated.ClientStream.maxRetriesOf d.mrField

def DState.cfg (d : DState) : Cfg String :=
  { decode := fun bs => (d.items.find? (fun it => !it.raw && it.label != "-" && it.ev.data == bs)).map (·.label),
    isReply := fun m => m == "r",
    forCall := !d.sa,
    maxRetries := d.mr }

def bodyFrom (items : List LItem) (from_ : Nat) : Bytes := ((items.drop from_).map (·.bytes)).flatten

/-- ground truth: indices (starting at `i`) of the items whose bytes all lie within the first `cut` bytes -/
def completeIdx : List LItem → Nat → Nat → List Nat
  | [], _, _ => []
  | it :: rest, i, cut => if it.bytes.length ≤ cut then i :: completeIdx rest (i + 1) (cut - it.bytes.length) else []

def showHdr (h : Bytes) : String := if h = [] then "lei=-" else "lei=x" ++ bytesToHex h

def failName : Fail → String
  | .decode => "decode"
  | .malformed => "malformed"
  | .exceeded => "exceeded"
  | .connect => "reconnect"
  | .rejected c => s!"st{c}"
  | .sessionGone => "session-missing"
  | .status c => s!"st{c}"

/-! ### ground truth derived from the exchanges -/

def DState.got (d : DState) : List Nat := d.exch.flatMap (·.complete)

def DState.itemAt (d : DState) (i : Nat) : Option LItem := d.items[i]?

def DState.hasId (d : DState) (i : Nat) : Bool :=
  match d.itemAt i with
  | some it => !it.raw && it.ev.id != []
  | none => false

/-- the id of the last event received completely (in arrival order), `[]` if none had an id -/
def DState.cursor (d : DState) : Bytes :=
  match (d.got.filter d.hasId).getLast? with
  | some i => (d.itemAt i).map (·.ev.id) |>.getD []
  | none => []

def Exch.isOk (e : Exch) : Bool := match e.kind with | .ok _ _ => true | _ => false
def Exch.isTerr (e : Exch) : Bool := match e.kind with | .terr => true | _ => false

/-- number of consecutive most recent bodies that brought no complete event with an id
(transport errors in between do not count and do not reset) -/
def fruitless (d : DState) : Nat :=
  let rec go : List Exch → Nat
    | [] => 0
    | e :: rest =>
      if e.isTerr then go rest
      else if e.isOk && !(e.complete.any d.hasId) then go rest + 1
      else 0
  go d.exch.reverse

/-- number of consecutive most recent transport errors -/
def trailingTerr (d : DState) : Nat := (d.exch.reverse.takeWhile (·.isTerr)).length

/-- the retry hint a correct client holds after the last body: the last parsable `retry:` among
the events it received completely in that body -/
def lastHint (d : DState) : Int :=
  match (d.exch.filter (·.isOk)).getLast? with
  | none => 0
  | some e =>
    e.complete.foldl (fun h i =>
      match d.itemAt i with
      | some it => if it.raw || it.ev.retry == [] then h else (parseInt64 it.ev.retry).getD h
      | none => h) 0

def labelsOf (d : DState) (idx : List Nat) : List String :=
  idx.filterMap (fun i => (d.itemAt i).bind (fun it => if it.label.startsWith "n" then some it.label else none))

def isSublistInOrder : List String → List String → Bool
  | [], _ => true
  | _ :: _, [] => false
  | a :: as, b :: bs => if a == b then isSublistInOrder as bs else isSublistInOrder (a :: as) bs

/-! ### the monitor -/

/-- clauses for an `x k` record (k ≥ 1): the implementation made another HTTP attempt on the stream -/
def monitorAttempt (d : DState) (implHdr : String) (tStart : Nat) : Option String :=
  let cur := d.cursor
  let lastEnd := (d.exch.getLast?.map (·.tEnd)).getD 0
  let delay := (tStart - lastEnd) * 1000     -- ns
  let attempt := trailingTerr d + 1
  let (lo, hi) := delayWindow (if attempt = 1 then lastHint d else 0) attempt
  if implHdr != showHdr cur then
    if implHdr = "lei=-" then
      some "C09: F18 last_id_is_last_complete: reconnect without Last-Event-ID although an event with an id had been received completely (the resume cursor was lost)"
    else
      let h := (hexToBytes (dropS implHdr 5)).getD []
      match d.items.findIdx? (fun it => !it.raw && it.ev.id == h) with
      | none => some "C09: F5 last_id_is_last_complete: Last-Event-ID is not the id of any event of the stream (an id cut by the end of the body was recorded)"
      | some j =>
        if d.got.contains j then
          some "C09: last_id_is_last_complete: Last-Event-ID names a completely received event, but not the last one"
        else
          some "C09: F5 last_id_is_last_complete: Last-Event-ID names an event that was not received completely (its data or its terminating blank line never arrived)"
  else if !d.sa && cur = [] then
    some "C09: unresumable_fails_call: a reconnect was attempted for a call stream although no event id had been received completely"
  else if d.exch.any (fun e => match e.kind with | .st _ => true | _ => false) then
    some "C09: a reconnect was attempted after a response whose status fails the connection"
  else if fruitless d > d.mr then
    some "C09: bounded_fruitless_retries: another reconnect after more than maxRetries bodies without progress"
  else if trailingTerr d ≥ d.mr then
    some "C09: bounded_fruitless_retries: connectSSE made more than maxRetries attempts"
  else if delay + 1000 < lo ∨ delay ≥ hi + 1000 then
    some s!"C09: reconnect delay {delay}ns outside the schedule [{lo},{hi}) (attempt {attempt}, hint {lastHint d}ms): a retry hint of an incomplete event was used, or the back-off is off"
  else none

def dedupAdj : List String → List String
  | a :: b :: rest => if a == b then dedupAdj (b :: rest) else a :: dedupAdj (b :: rest)
  | l => l

def monitorDelivered (d : DState) (impl : List String) : Option String :=
  let all := labelsOf d (List.range d.items.length)
  let must := labelsOf d d.got          -- what was received completely, in arrival order
  if impl.any (fun l => !all.contains l) then
    some "C09: no_truncated_message: a message that is not one of the server's messages reached the session"
  else if !isSublistInOrder impl all then
    some "C09: delivered_exactly_once_in_order: a message was delivered twice or out of order"
  else if impl.any (fun l => !must.contains l) then
    some "C09: F5 no_truncated_message: a message reached the session although its event was not received completely"
  else if must.any (fun l => !impl.contains l) then
    some "C09: delivered_exactly_once_in_order: a completely received message never reached the session"
  else if impl != all.take impl.length then
    -- a gap in the server's sequence: the scripted server skipped what the client's resume request told it to skip
    if d.cursorLost then
      some "C09: F18 delivered_exactly_once_in_order: a server message was lost: the stream was resumed without Last-Event-ID after the resume cursor had been lost"
    else if d.wrongCursor then
      some "C09: F5 delivered_exactly_once_in_order: a server message was lost: the stream was resumed from an event that had not been received completely"
    else none   -- no event id had ever been received: nothing to resume from (standalone stream)
  else none

def monitorEnd (d : DState) (impl : String) : Option String :=
  let replyIdx := d.items.findIdx? (fun it => it.label == "r")
  let gotReply := match replyIdx with | some i => d.got.contains i | none => false
  let last := d.exch.getLast?
  let lastIsStatus (c : Nat) : Bool := match last with | some e => (match e.kind with | .st c' => c == c' | _ => false) | none => false
  if impl.startsWith "hang" then
    some "C09: the pending call hangs: neither the server's response nor an error"
  else if impl = "err:decode" then
    some "C09: F5 no_truncated_message: an event cut by the end of the body was surfaced to the decoder (connection failed: failed to decode event)"
  else if impl = "err:malformed" then
    some "C09: F5 process_ignores_unterminated: a line cut by the end of the body was treated as corruption (connection failed: malformed line)"
  else if impl.startsWith "result:" then
    if d.sa then some "C09: unexpected result for the probe"
    else if impl != "result:R" then some "C09: the call completed with something that is not the server's response"
    else if !gotReply then some "C09: F5 no_truncated_message: the call completed with a response event that was not received completely (its terminating blank line never arrived)"
    else none
  else if impl = "ok" then
    if d.sa then none else some "C09: unexpected probe outcome for a call scenario"
  else if gotReply then
    some "C09: the server's response was received completely but the call did not complete with it"
  else if impl = "err:synthetic" then
    if d.sa then some "C09: synthetic error without a pending call"
    else if d.cursor != [] then
      some "C09: F18 unresumable_fails_call: the call was failed as unresumable although an event id had been received completely and the retry budget was not exhausted"
    else none
  else if impl = "err:exceeded" then
    if fruitless d > d.mr then none
    else some "C09: bounded_fruitless_retries: 'exceeded retries without progress' although fewer than maxRetries+1 bodies were fruitless"
  else if impl = "err:reconnect" then
    if d.mr = 0 ∨ trailingTerr d ≥ d.mr then none
    else some "C09: 'failed to reconnect' although connectSSE had attempts left"
  else if impl = "err:session-missing" then
    if lastIsStatus Generated.ClientStream.sessionGoneStatus then none else some "C09: session-missing error without a 404"
  else if impl.startsWith "err:st" then
    match (dropS impl 6).toNat? with
    | some c => if lastIsStatus c then none else some "C09: status error that no exchange returned"
    | none => some "C09: unclassified error"
  else some "C09: the pending call ended with an unexpected error"

/-! ### the engine -/

def endName (sa : Bool) : Phase → String
  | .ended .replied => "result:R"
  | .ended .synthetic => "err:synthetic"
  | .ended (.failed f) => "err:" ++ failName f
  | .ended .streaming => if sa then "ok" else "hang"
  | .reconnecting .. => "pending"

def engine : Engine DState where
  init := {}
  step d toks impl :=
    match toks with
    | ["reset"] => ({}, { model := "ok" })
    | "scn" :: kind :: rest =>
      let r : Option DState := do
        let mr ← (kv rest "mr").bind String.toInt?
        let lg ← kv rest "log"
        let items ← if lg = "-" then some [] else (lg.splitOn ";").mapM parseItem
        let full ← (kv rest "full").bind (fun s => hexToBytes (dropS s 1))
        if kind != "post" && kind != "sa" then none
        if bodyFrom items 0 != full then none
        some { sa := kind == "sa", mrField := mr, items := items, ready := true }
      match r with
      | some d' => (d', { model := "ok" })
      | none => ({}, { model := "bad-scn" })
    | "x" :: k :: att :: rest =>
      if !d.ready then (d, { model := "bad-op" }) else
      let r : Option (DState × Verdict) := do
        let k ← k.toNat?
        let a ← parseAttempt att
        let tS ← (kv rest "t").bind String.toNat?
        let tE ← (kv rest "e").bind String.toNat?
        let fr := (kv rest "from").bind String.toNat?
        -- the served body, as a function of nothing (the harness tells where the faithful server started)
        let body : Option (Nat × Nat × Term) := match a, fr with
          | .ok c t, some f => some (f, c, t)
          | _, _ => none
        let scanOf : Option ScanOut := body.map (fun (f, c, t) => scanBytes ((bodyFrom d.items f).take c) t)
        let complete : List Nat := match body with
          | some (f, c, _) => completeIdx (d.items.drop f) f c
          | none => []
        -- the scripted server refuses a Last-Event-ID it never issued with 400
        let aEff : AKind := match a, fr with
          | .ok _ _, none => .st 400
          | _, _ => a
        let ex : Exch := { kind := aEff, from_ := fr, complete := complete, tEnd := tE }
        if k = 0 then
          -- the first body of the stream
          let so ← scanOf
          let run := start d.cfg so
          some ({ d with run := some run, exch := [ex] }, { model := "lei=-" })
        else
          let viol := monitorAttempt d impl tS
          match d.run with
          | none => none
          | some run =>
            let (model, run') := match run.phase with
              | .ended _ => ("none", run)
              | .reconnecting _ _ lastID hint attempt =>
                -- the model's retry hint / attempt number must give the delay window the monitor derived
                -- from the ground truth (this is what ties `noteEvent`/`parseInt64` to the measured delays)
                let mAttempt := trailingTerr d + 1
                let agree := delayWindow hint attempt == delayWindow (if mAttempt = 1 then lastHint d else 0) mAttempt
                let att : Attempt := match a with
                  | .terr => .terr
                  | .st c => .resp c (fun _ => ⟨[], .clean⟩)
                  | .ok _ _ =>
                    match scanOf with
                    | some so => .resp 200 (fun _ => so)
                    | none => .resp 400 (fun _ => ⟨[], .clean⟩)    -- the scripted server refuses an unknown Last-Event-ID
                (showHdr lastID ++ (if agree then "" else s!" model-delay-window({hint},{attempt})"), step d.cfg run att)
            let lost := d.cursorLost || (impl == "lei=-" && d.cursor != [])
            let wrong := d.wrongCursor || (impl != "lei=-" && impl != showHdr d.cursor)
            some ({ d with run := some run', exch := d.exch ++ [ex], cursorLost := lost, wrongCursor := wrong }, { model := model, violated := viol })
      match r with
      | some x => x
      | none => (d, { model := "bad-op" })
    | "delivered" :: _ =>
      let implL := if impl = "-" then [] else words impl
      let model := match d.run with
        | some run =>
          let l := run.msgs.filter (fun m => m.startsWith "n")
          if l = [] then "-" else " ".intercalate l
        | none => "-"
      ({ d with deliveredImpl := implL }, { model := model, violated := monitorDelivered d implL })
    | ["end"] =>
      let model := match d.run with
        | some run => endName d.sa run.phase
        | none => "no-run"
      (d, { model := model, violated := monitorEnd d impl })
    | ["leak"] =>
      (d, { model := "none", violated := if impl = "none" then none else some "C09: goroutines of the client remain blocked for ever after Close (the bubble cannot exit)" })
    | _ => (d, { model := "bad-op" })

end ClientStream

def main : IO Unit := Proto.run ClientStream.engine
