import McpModel.ClientStream.BridgeIdx
/-!
# Bridge, part 3: the invariant between the monitor's bookkeeping and the model's loop state

`PhaseRel` relates the phase of the model's reconnect loop to the history of exchanges the monitor
keeps; `body_rel` shows that it is re-established by every response body, whatever the cut.
-/
namespace ClientStream
open Generated.ClientStream

variable {L : Type}

/-- the item at index `i` is labelled as the response of the pending call -/
def replyIdx (s : Scn L) (i : Nat) : Bool :=
  match s.items[i]? with
  | some it => s.lab.isReply it.label
  | none => false

/-- the relation between the model's loop state and the monitor's history -/
def PhaseRel (s : Scn L) (ex : List Exch) : Phase → Prop
  | .reconnecting prev retries lastID hint attempt =>
    lastID = cursorOf s ex ∧ prev = lastID ∧ retries = fruitlessOf s ex ∧ attempt = trailingTerr ex + 1 ∧
    (attempt = 1 → hint = lastHint s ex) ∧ ex.any (·.isSt) = false ∧ (s.sa = false → lastID ≠ []) ∧
    retries ≤ s.mr ∧ attempt ≤ s.mr ∧ gotReply s ex = false
  | .ended .replied => s.sa = false ∧ gotReply s ex = true
  | .ended .synthetic => s.sa = false ∧ cursorOf s ex = [] ∧ gotReply s ex = false
  | .ended .streaming => s.sa = true
  | .ended .cancelled => gotReply s ex = false
  | .ended (.failed .exceeded) => gotReply s ex = false ∧ fruitlessOf s ex > s.mr
  | .ended (.failed .connect) => gotReply s ex = false ∧ (s.mr = 0 ∨ trailingTerr ex ≥ s.mr)
  | .ended (.failed (.rejected c)) => gotReply s ex = false ∧ lastIsStatus ex c = true
  | .ended (.failed (.status c)) => gotReply s ex = false ∧ lastIsStatus ex c = true
  | .ended (.failed .sessionGone) => gotReply s ex = false ∧ lastIsStatus ex sessionGoneStatus = true
  | .ended (.failed .decode) => False
  | .ended (.failed .malformed) => False

/-- everything received so far that carries a message or an id lies before item `f` -/
def Frontier (s : Scn L) (got : List Nat) (f : Nat) : Prop :=
  ∀ j ∈ got, (carriesIdx s j = true ∨ s.hasId j = true) → j < f

/-! ### small facts -/

theorem labelsOf_append (s : Scn L) (a b : List Nat) : labelsOf s (a ++ b) = labelsOf s a ++ labelsOf s b := by
  simp [labelsOf, List.filterMap_append]

theorem lastIdIdx_noId (s : Scn L) (cur : Bytes) (idx : List Nat) (h : idx.any s.hasId = false) :
    lastIdIdx s cur idx = cur := by
  induction idx generalizing cur with
  | nil => rfl
  | cons i rest ih =>
    simp only [List.any_cons, Bool.or_eq_false_iff] at h
    simp only [lastIdIdx, List.foldl_cons, h.1, Bool.false_eq_true, if_false]
    exact ih cur h.2

theorem lastIdIdx_someId (s : Scn L) (cur : Bytes) (idx : List Nat) (h : idx.any s.hasId = true) :
    ∃ i ∈ idx, s.hasId i = true ∧ lastIdIdx s cur idx = idOfIdx s i := by
  induction idx generalizing cur with
  | nil => simp at h
  | cons i rest ih =>
    simp only [lastIdIdx, List.foldl_cons]
    by_cases hr : rest.any s.hasId = true
    · obtain ⟨j, hj, hid, he⟩ := ih (if s.hasId i = true then idOfIdx s i else cur) hr
      exact ⟨j, List.mem_cons_of_mem _ hj, hid, he⟩
    · have hr' : rest.any s.hasId = false := by simpa using hr
      have hi : s.hasId i = true := by
        simp only [List.any_cons, Bool.or_eq_true] at h
        rcases h with h | h
        · exact h
        · exact absurd h hr
      refine ⟨i, List.mem_cons_self .., hi, ?_⟩
      rw [if_pos hi]
      exact lastIdIdx_noId s _ rest hr'

theorem hasId_id_ne (s : Scn L) (i : Nat) (h : s.hasId i = true) : idOfIdx s i ≠ [] := by
  unfold Scn.hasId at h
  unfold idOfIdx
  cases hi : s.items[i]? with
  | none => simp [hi] at h
  | some it => simp [hi] at h ⊢; exact h.2

theorem cursor_cases (s : Scn L) (ex : List Exch) :
    cursorOf s ex = [] ∨
    ∃ ci, ((gotOf ex).filter s.hasId).getLast? = some ci ∧ ci ∈ gotOf ex ∧ s.hasId ci = true ∧
      idOfIdx s ci = cursorOf s ex := by
  unfold cursorOf
  cases h : ((gotOf ex).filter s.hasId).getLast? with
  | none => left; rfl
  | some ci =>
    right
    have hm := List.mem_of_getLast? h
    rw [List.mem_filter] at hm
    exact ⟨ci, rfl, hm.1, hm.2, rfl⟩

theorem le_last_of_pairwise (l : List Nat) (m : Nat) (hp : l.Pairwise (· < ·)) (hl : l.getLast? = some m) :
    ∀ j ∈ l, j ≤ m := by
  induction l with
  | nil => simp
  | cons a rest ih =>
    obtain ⟨ha, hr⟩ := List.pairwise_cons.1 hp
    intro j hj
    cases rest with
    | nil =>
      simp at hl hj
      omega
    | cons b rest' =>
      have hl' : (b :: rest').getLast? = some m := by simpa [List.getLast?_cons_cons] using hl
      rcases List.mem_cons.1 hj with rfl | hj'
      · have := ha m (List.mem_of_getLast? hl')
        omega
      · exact ih hr hl' j hj'

section ok
variable (s : Scn L) (hs : ScnOK s)
include hs

theorem ids_distinct_idx (i j : Nat) (hij : i < j) (hi : s.hasId i = true) : idOfIdx s i ≠ idOfIdx s j := by
  have hne := hasId_id_ne s i hi
  unfold idOfIdx at hne ⊢
  cases hj : s.items[j]? with
  | none => simpa [hj] using hne
  | some b =>
    cases hia : s.items[i]? with
    | none => simp [hia] at hne
    | some a =>
      simp only [hia, Option.map_some, Option.getD_some] at hne ⊢
      have hjl : j < s.items.length := by
        rcases Nat.lt_or_ge j s.items.length with h | h
        · exact h
        · rw [List.getElem?_eq_none h] at hj; cases hj
      have hil : i < s.items.length := by omega
      have := (List.pairwise_iff_getElem.1 hs.idsDistinct) i j hil hjl hij
      rw [List.getElem?_eq_getElem hil] at hia
      rw [List.getElem?_eq_getElem hjl] at hj
      cases hia; cases hj
      exact this hne

theorem carries_hasId_or_noIds (j : Nat) (hc : carriesIdx s j = true) :
    s.hasId j = true ∨ ∀ it ∈ s.items, it.ev.id = [] := by
  unfold carriesIdx at hc
  cases hj : s.items[j]? with
  | none => simp [hj] at hc
  | some it =>
    simp only [hj] at hc
    have hmem : it ∈ s.items := List.mem_of_getElem? hj
    rcases hs.idsAllOrNone with h | h
    · left
      have hid := h it hmem hc
      have hraw : it.raw = false := by
        cases hr : it.raw with
        | false => rfl
        | true =>
          have := (hs.item it hmem).raw hr
          simp [carries, this] at hc
      simp [Scn.hasId, hj, hraw, hid]
    · right; exact h

theorem reply_unique (i j : Nat) (hi : replyIdx s i = true) (hj : replyIdx s j = true) : i = j := by
  have key : ∀ i j, i < j → replyIdx s i = true → replyIdx s j = true → False := by
    intro i j hij hi hj
    unfold replyIdx at hi hj
    cases hia : s.items[i]? with
    | none => simp [hia] at hi
    | some a =>
      cases hjb : s.items[j]? with
      | none => simp [hjb] at hj
      | some b =>
        simp only [hia, hjb] at hi hj
        have hjl : j < s.items.length := by
          rcases Nat.lt_or_ge j s.items.length with h | h
          · exact h
          · rw [List.getElem?_eq_none h] at hjb; cases hjb
        have hil : i < s.items.length := by omega
        have := (List.pairwise_iff_getElem.1 hs.replyLast) i j hil hjl hij
        rw [List.getElem?_eq_getElem hil] at hia
        rw [List.getElem?_eq_getElem hjl] at hjb
        cases hia; cases hjb
        have hcf := this hi
        have hl := (hs.item _ (List.getElem_mem hjl)).lab
        rw [hcf, hj] at hl
        simp at hl
  rcases Nat.lt_trichotomy i j with h | h | h
  · exact (key i j h hi hj).elim
  · exact h
  · exact (key j i h hj hi).elim

theorem gotReply_eq_any (ex : List Exch) : gotReply s ex = (gotOf ex).any (replyIdx s) := by
  unfold gotReply
  cases hf : s.items.findIdx? (fun it => s.lab.isReply it.label) with
  | none =>
    rw [List.findIdx?_eq_none_iff] at hf
    symm
    rw [List.any_eq_false]
    intro i _
    unfold replyIdx
    cases hi : s.items[i]? with
    | none => simp
    | some it => simpa using hf it (List.mem_of_getElem? hi)
  | some i0 =>
    simp only
    obtain ⟨hlt, hp, _⟩ := List.findIdx?_eq_some_iff_getElem.1 hf
    have h0 : replyIdx s i0 = true := by simp [replyIdx, List.getElem?_eq_getElem hlt, hp]
    cases hany : (gotOf ex).any (replyIdx s) with
    | true =>
      obtain ⟨i, hi, hri⟩ := List.any_eq_true.1 hany
      have := reply_unique s hs i i0 hri h0
      subst this
      simpa using hi
    | false =>
      rw [List.any_eq_false] at hany
      cases hc : (gotOf ex).contains i0 with
      | false => rfl
      | true =>
        have := hany i0 (by simpa using hc)
        exact absurd h0 this

theorem noReply_sa (hsa : s.sa = true) (i : Nat) : replyIdx s i = false := by
  unfold replyIdx
  cases hi : s.items[i]? with
  | none => rfl
  | some it => exact (hs.item it (List.mem_of_getElem? hi)).noReplySa hsa

end ok

/-! ### one response body re-establishes the relation -/

/-- what the monitor books for a 200 exchange served from item `f` and cut after `c` bytes -/
def okExch (s : Scn L) (f c : Nat) (t : Term) (tE : Nat) : Exch :=
  { kind := .ok c t, from_ := some f, complete := idxOf s f c, tEnd := tE }

theorem keepCursor_cfg (s : Scn L) : s.cfg.keepCursor = true := rfl

theorem body_rel (s : Scn L) (hs : ScnOK s) (ex : List Exch) (M : List L) (retries f c : Nat) (t : Term) (tE : Nat)
    (hvalid : ∀ i ∈ gotOf ex, i < s.items.length)
    (hincC : ((gotOf ex).filter (carriesIdx s)).Pairwise (· < ·))
    (hincI : ((gotOf ex).filter s.hasId).Pairwise (· < ·))
    (hmsgs : M.filter s.lab.isNotif = labelsOf s (gotOf ex))
    (hret : retries = fruitlessOf s ex)
    (hst : ex.any (·.isSt) = false)
    (hrep : gotReply s ex = false)
    (hfr : Frontier s (gotOf ex) f)
    (hopen : s.sa = false → t ≠ .open) :
    PhaseRel s (ex ++ [okExch s f c t tE])
      (afterBody s.cfg (cursorOf s ex) retries
        (processBody s.cfg (cursorOf s ex) (scanBytes ((bodyFrom s.items f).take c) t))) ∧
    (∀ i ∈ gotOf (ex ++ [okExch s f c t tE]), i < s.items.length) ∧
    ((gotOf (ex ++ [okExch s f c t tE])).filter (carriesIdx s)).Pairwise (· < ·) ∧
    ((gotOf (ex ++ [okExch s f c t tE])).filter s.hasId).Pairwise (· < ·) ∧
    (M ++ (processBody s.cfg (cursorOf s ex) (scanBytes ((bodyFrom s.items f).take c) t)).msgs).filter s.lab.isNotif =
      labelsOf s (gotOf (ex ++ [okExch s f c t tE])) := by
  obtain ⟨hm, hR, hN⟩ := processBody_exchange s hs (cursorOf s ex) f c t
  generalize processBody s.cfg (cursorOf s ex) (scanBytes ((bodyFrom s.items f).take c) t) = b at hm hR hN
  have hgot : gotOf (ex ++ [okExch s f c t tE]) = gotOf ex ++ idxOf s f c := gotOf_snoc ex _
  have hidx := idxOf_mem s f c
  have hinc : ∀ (p : Nat → Bool), (∀ j ∈ gotOf ex, p j = true → j < f) → ((gotOf ex).filter p).Pairwise (· < ·) →
      ((gotOf ex ++ idxOf s f c).filter p).Pairwise (· < ·) := by
    intro p hp h1
    rw [List.filter_append, List.pairwise_append]
    refine ⟨h1, by rw [idxOf_eq]; exact pairwise_range'_filter p _ _, ?_⟩
    intro a ha b' hb
    rw [List.mem_filter] at ha hb
    have := hp a ha.1 ha.2
    have := (hidx b' hb.1).1
    omega
  -- the reply flag in the monitor's terms
  have hanyR : (idxOf s f c).any (replyIdx s) = (sliceOf s f c).any (fun it => s.lab.isReply it.label) := by
    have h := idxOf_any s f c (fun o => match o with | some it => s.lab.isReply it.label | none => false)
    rw [← h]; congr 1
  have hrep' : gotReply s (ex ++ [okExch s f c t tE]) = (sliceOf s f c).any (fun it => s.lab.isReply it.label) := by
    rw [gotReply_eq_any s hs, hgot, List.any_append, ← gotReply_eq_any s hs, hrep, hanyR]; rfl
  refine ⟨?_, ?_, ?_, ?_, ?_⟩
  · -- the phase
    cases hr : slReplies s (sliceOf s f c) with
    | true =>
      simp only [slReplies, Bool.and_eq_true, Bool.not_eq_true'] at hr
      simp only [afterBody, hR (by simp [slReplies, hr.1, hr.2])]
      exact ⟨hr.1, by rw [hrep']; exact hr.2⟩
    | false =>
      obtain ⟨hfin, hlast, hhint⟩ := hN hr
      have hnoR : gotReply s (ex ++ [okExch s f c t tE]) = false := by
        rw [hrep']
        cases hsa : s.sa with
        | false => simpa [slReplies, hsa] using hr
        | true =>
          rw [← hanyR, List.any_eq_false]
          intro i _
          simp [noReply_sa s hs hsa i]
      by_cases hto : t = .open
      · rw [if_pos hto] at hfin
        simp only [afterBody, hfin]
        show s.sa = true
        cases hsa : s.sa with
        | true => rfl
        | false => exact absurd hto (hopen hsa)
      · rw [if_neg hto] at hfin
        have hcur : b.lastID = cursorOf s (ex ++ [okExch s f c t tE]) := by
          rw [hlast, cursorOf_snoc', ← slice_lastId s hs]; rfl
        have hhint' : b.hint = lastHint s (ex ++ [okExch s f c t tE]) := by
          rw [hhint, lastHint_snoc, ← slice_hint s hs]; rfl
        have htt : trailingTerr (ex ++ [okExch s f c t tE]) = 0 := by rw [trailingTerr_snoc]; rfl
        have hst' : (ex ++ [okExch s f c t tE]).any (·.isSt) = false := by rw [anySt_snoc, hst]; rfl
        have hfru : fruitlessOf s (ex ++ [okExch s f c t tE]) =
            if (idxOf s f c).any s.hasId then 0 else fruitlessOf s ex + 1 := by
          rw [fruitlessOf_snoc]
          show (if (okExch s f c t tE).isTerr = true then _ else _) = _
          simp only [okExch, Exch.isTerr, Exch.isOk, Bool.false_eq_true, if_false, Bool.true_and]
          cases (idxOf s f c).any s.hasId <;> simp
        have hbl : b.lastID = lastIdIdx s (cursorOf s ex) (idxOf s f c) := by
          rw [hlast, slice_lastId s hs]
        -- progress iff a completely received event carried an id
        have hprog : (idxOf s f c).any s.hasId = true → b.lastID ≠ [] ∧ b.lastID ≠ cursorOf s ex := by
          intro hany
          obtain ⟨i, hi, hid, he⟩ := lastIdIdx_someId s (cursorOf s ex) _ hany
          rw [hbl, he]
          refine ⟨hasId_id_ne s i hid, ?_⟩
          rcases cursor_cases s ex with h0 | ⟨ci, _, hci, hcid, hce⟩
          · rw [h0]; exact hasId_id_ne s i hid
          · rw [← hce]
            have h1 := hfr ci hci (.inr hcid)
            have h2 := (hidx i hi).1
            exact (ids_distinct_idx s hs ci i (by omega) hcid).symm
        have hnoprog : (idxOf s f c).any s.hasId = false → b.lastID = cursorOf s ex := by
          intro hany
          rw [hbl]; exact lastIdIdx_noId s _ _ hany
        simp only [afterBody, hfin]
        by_cases h1 : b.lastID = [] ∧ s.cfg.forCall = true
        · rw [if_pos h1]
          have hsa : s.sa = false := by have := h1.2; simpa [Scn.cfg] using this
          exact ⟨hsa, by rw [← hcur]; exact h1.1, hnoR⟩
        · rw [if_neg h1]
          have hne : s.sa = false → b.lastID ≠ [] := by
            intro hsa hnil
            exact h1 ⟨hnil, by simp [Scn.cfg, hsa]⟩
          by_cases h2 : b.lastID ≠ [] ∧ b.lastID ≠ cursorOf s ex
          · rw [if_pos h2]
            have hany : (idxOf s f c).any s.hasId = true := by
              cases h : (idxOf s f c).any s.hasId with
              | true => rfl
              | false => exact absurd (hnoprog h) h2.2
            by_cases h3 : s.cfg.maxRetries = 0
            · rw [if_pos h3]
              exact ⟨hnoR, .inl h3⟩
            · rw [if_neg h3]
              have h3' : s.mr ≠ 0 := h3
              refine ⟨hcur, rfl, ?_, ?_, fun _ => hhint', hst', hne, Nat.zero_le _, ?_, hnoR⟩
              · rw [hfru, hany]; rfl
              · rw [htt]
              · omega
          · rw [if_neg h2]
            have hany : (idxOf s f c).any s.hasId = false := by
              cases h : (idxOf s f c).any s.hasId with
              | false => rfl
              | true => exact absurd (hprog h) h2
            have hfru' : fruitlessOf s (ex ++ [okExch s f c t tE]) = retries + 1 := by
              rw [hfru, hany, hret]; rfl
            by_cases h3 : retries + 1 > s.cfg.maxRetries
            · rw [if_pos h3]
              exact ⟨hnoR, by rw [hfru']; exact h3⟩
            · rw [if_neg h3]
              have h3' : retries + 1 ≤ s.mr := Nat.le_of_not_gt h3
              refine ⟨hcur, (hnoprog hany).symm, hfru'.symm, ?_, fun _ => hhint', hst', hne, h3', ?_, hnoR⟩
              · rw [htt]
              · omega
  · intro i hi
    rw [hgot, List.mem_append] at hi
    rcases hi with hi | hi
    · exact hvalid i hi
    · exact (hidx i hi).2
  · rw [hgot]; exact hinc _ (fun j hj hp => hfr j hj (.inl hp)) hincC
  · rw [hgot]; exact hinc _ (fun j hj hp => hfr j hj (.inr hp)) hincI
  · rw [List.filter_append, hmsgs, hm, hgot, labelsOf_append, slice_labels s hs]

end ClientStream
