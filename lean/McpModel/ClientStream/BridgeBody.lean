import McpModel.ClientStream.MonLemmas
import McpModel.ClientStream.ScnOK
import McpModel.ClientStream.LoopLemmas
/-!
# Bridge, part 1: one response body

What the model's `processStream` makes of the body of one exchange — the first `cut` bytes of what the
scripted server serves from log item `from` on — expressed in the vocabulary of the monitor: the
completely received items `(items.drop from).take (ccount …)`, their labels, ids and retry hints.
Hypotheses on the scenario: `ScnOK` (`ScnOK.lean`; decidable, evaluated by the driver on every `scn`
record; non-vacuity examples in `Bridge.lean`).
-/
namespace ClientStream
open Generated.ClientStream

variable {L : Type}

/-! ### the byte layer -/

def blocksOf (l : List (LItem L)) : List Block := l.map itemBlock

theorem bodyFrom_blocks (s : Scn L) (l : List (LItem L)) (h : ∀ it ∈ l, ItemOK s it) :
    (l.map (·.bytes)).flatten = serialize (blocksOf l) := by
  induction l with
  | nil => simp [blocksOf, serialize, streamLines, serializeLines]
  | cons it rest ih =>
    have h1 := (h it (List.mem_cons_self ..)).bytes
    have h2 := ih (fun x hx => h x (List.mem_cons_of_mem _ hx))
    simp only [blocksOf, List.map_cons, List.flatten_cons] at h2 ⊢
    rw [serialize_cons, ← h1, h2]

theorem completeCount_blocks (s : Scn L) (l : List (LItem L)) (h : ∀ it ∈ l, ItemOK s it) (c : Nat) :
    completeCount (blocksOf l) c = ccount l c := by
  induction l generalizing c with
  | nil => simp [blocksOf, completeCount, ccount]
  | cons it rest ih =>
    have h1 := (h it (List.mem_cons_self ..)).bytes
    have hl : blockLen (itemBlock it) = it.bytes.length := by rw [blockLen_eq, ← h1]
    have h2 := ih (fun x hx => h x (List.mem_cons_of_mem _ hx))
    simp only [blocksOf, List.map_cons, completeCount, ccount, hl] at h2 ⊢
    split
    · rw [h2]
    · rfl

theorem eventsOf_blocks (s : Scn L) (l : List (LItem L)) (h : ∀ it ∈ l, ItemOK s it) :
    eventsOf (blocksOf l) = (l.map (·.ev)).filter (fun e => !e.isEmpty) := by
  unfold eventsOf blocksOf
  rw [List.map_map]
  congr 1
  apply List.map_congr_left
  intro it hit
  exact (h it hit).ev

/-! ### `processItems` on completely received items -/

def slMsgs (sl : List (LItem L)) : List L := sl.filterMap (fun it => if carries it then some it.label else none)

/-- the body contains the response of the pending call -/
def slReplies (s : Scn L) (sl : List (LItem L)) : Bool := !s.sa && sl.any (fun it => s.lab.isReply it.label)

def hintStep (h : Int) (e : Event) : Int := if e.retry = [] then h else (parseInt64 e.retry).getD h
def hintFold (h : Int) (es : List Event) : Int := es.foldl hintStep h

theorem noteEvent_hint {M} (a : Acc M) (e : Event) : (noteEvent a e).hint = hintStep a.hint e := by
  unfold noteEvent hintStep
  simp only
  split
  · rfl
  · cases parseInt64 e.retry <;> rfl

theorem isEmpty_fields {e : Event} (h : e.isEmpty = true) : e.id = [] ∧ e.data = [] ∧ e.retry = [] := by
  simp only [Event.isEmpty, Bool.and_eq_true, List.isEmpty_iff] at h
  exact ⟨h.1.1.2, h.1.2, h.2⟩

theorem processItems_slice (s : Scn L) (sl : List (LItem L)) (hok : ∀ it ∈ sl, ItemOK s it)
    (hrl : sl.Pairwise (fun a b => s.lab.isReply a.label = true → carries b = false)) (a : Acc L) :
    (processItems s.cfg a (terminatedItems ((sl.map (·.ev)).filter (fun e => !e.isEmpty)))).1.msgs = a.msgs ++ slMsgs sl ∧
    (slReplies s sl = true →
      (processItems s.cfg a (terminatedItems ((sl.map (·.ev)).filter (fun e => !e.isEmpty)))).2 = some .replied) ∧
    (slReplies s sl = false →
      (processItems s.cfg a (terminatedItems ((sl.map (·.ev)).filter (fun e => !e.isEmpty)))).2 = none ∧
      (processItems s.cfg a (terminatedItems ((sl.map (·.ev)).filter (fun e => !e.isEmpty)))).1.lastID =
        lastIdOf a.lastID (sl.map (·.ev)) ∧
      (processItems s.cfg a (terminatedItems ((sl.map (·.ev)).filter (fun e => !e.isEmpty)))).1.hint =
        hintFold a.hint (sl.map (·.ev))) := by
  induction sl generalizing a with
  | nil => simp [terminatedItems, processItems, slMsgs, slReplies, lastIdOf, hintFold]
  | cons it rest ih =>
    have hit := hok it (List.mem_cons_self ..)
    have hrest : ∀ x ∈ rest, ItemOK s x := fun x hx => hok x (List.mem_cons_of_mem _ hx)
    obtain ⟨hhead, hrl'⟩ := List.pairwise_cons.1 hrl
    have ih' := fun a => ih hrest hrl' a
    -- the reply flag of the slice
    have hrep : slReplies s (it :: rest) = ((!s.sa && s.lab.isReply it.label) || slReplies s rest) := by
      simp only [slReplies, List.any_cons]
      cases s.sa <;> simp
    have hfc : s.cfg.forCall = !s.sa := rfl
    have hir : s.cfg.isReply = s.lab.isReply := rfl
    by_cases hc : carries it = true
    · -- a message-carrying item
      have hc' := hc
      simp only [carries, decide_eq_true_eq] at hc'
      have hne : it.ev.isEmpty = false := by
        cases hE : it.ev.isEmpty with
        | false => rfl
        | true => exact absurd (isEmpty_fields hE).2.1 hc'.1
      have hdec := hit.dec hc
      simp only [List.map_cons, List.filter_cons, hne, Bool.not_false, if_true, terminatedItems, processItems,
        Bool.not_true, Bool.and_false, Bool.false_eq_true, if_false, if_neg hc'.1, if_neg hc'.2, hdec]
      have ihn := ih' { noteEvent a it.ev with msgs := (noteEvent a it.ev).msgs ++ [it.label] }
      simp only [terminatedItems] at ihn
      have hmsgs : slMsgs (it :: rest) = it.label :: slMsgs rest := by simp [slMsgs, hc]
      by_cases hr : (s.cfg.forCall && s.cfg.isReply it.label) = true
      · -- the call's response: nothing that carries a message follows
        have hnone : slMsgs rest = [] := by
          simp only [slMsgs, List.filterMap_eq_nil_iff]
          intro x hx
          have hcf : carries x = false := hhead x hx (by simp [hfc, hir] at hr; exact hr.2)
          simp [hcf]
        rw [if_pos hr]
        refine ⟨by simp [hmsgs, hnone, noteEvent], fun _ => rfl, fun h => ?_⟩
        rw [hrep] at h
        rw [hfc, hir] at hr
        simp [hr] at h
      · rw [if_neg hr]
        obtain ⟨i1, i2, i3⟩ := ihn
        have hr' : (!s.sa && s.lab.isReply it.label) = false := by rw [hfc, hir] at hr; simpa using hr
        refine ⟨by rw [i1, hmsgs]; simp [noteEvent], fun h => i2 (by rw [hrep, hr'] at h; simpa using h), fun h => ?_⟩
        obtain ⟨j1, j2, j3⟩ := i3 (by rw [hrep, hr'] at h; simpa using h)
        refine ⟨j1, ?_, ?_⟩
        · rw [j2, lastIdOf_cons]; simp [noteEvent]
        · rw [j3]; simp [hintFold, noteEvent_hint]
    · -- an item without a message
      have hcf : carries it = false := by simpa using hc
      have hlab := hit.lab
      rw [hcf] at hlab
      have hnr : s.lab.isReply it.label = false := by
        cases h : s.lab.isReply it.label with
        | false => rfl
        | true => rw [h] at hlab; simp at hlab
      have hmsgs : slMsgs (it :: rest) = slMsgs rest := by simp [slMsgs, hcf]
      have hrep' : slReplies s (it :: rest) = slReplies s rest := by rw [hrep, hnr]; simp
      rw [hmsgs, hrep']
      cases hE : it.ev.isEmpty with
      | true =>
        obtain ⟨e1, _, e3⟩ := isEmpty_fields hE
        simp only [List.map_cons, List.filter_cons, hE, Bool.not_true, Bool.false_eq_true, if_false]
        obtain ⟨i1, i2, i3⟩ := ih' a
        refine ⟨i1, i2, fun h => ?_⟩
        obtain ⟨j1, j2, j3⟩ := i3 h
        refine ⟨j1, ?_, ?_⟩
        · rw [j2, lastIdOf_cons, if_pos e1]
        · rw [j3]; simp [hintFold, hintStep, e3]
      | false =>
        have hskip : it.ev.data = [] ∨ (it.ev.name ≠ [] ∧ it.ev.name ≠ messageName) := by
          simp only [carries, decide_eq_false_iff_not] at hcf
          by_cases hd : it.ev.data = []
          · exact .inl hd
          · exact .inr (Classical.not_not.1 fun hn => hcf ⟨hd, hn⟩)
        have hstep : ∀ tl : List Item,
            processItems s.cfg a (⟨it.ev, true⟩ :: tl) = processItems s.cfg (noteEvent a it.ev) tl := by
          intro tl
          simp only [processItems, Bool.not_true, Bool.and_false, Bool.false_eq_true, if_false]
          rcases hskip with hd | hn
          · rw [if_pos hd]
          · by_cases hd : it.ev.data = []
            · rw [if_pos hd]
            · rw [if_neg hd, if_pos hn]
        simp only [List.map_cons, List.filter_cons, hE, Bool.not_false, if_true, terminatedItems] at ih' ⊢
        rw [hstep]
        obtain ⟨i1, i2, i3⟩ := ih' (noteEvent a it.ev)
        refine ⟨by rw [i1]; simp [noteEvent], i2, fun h => ?_⟩
        obtain ⟨j1, j2, j3⟩ := i3 h
        refine ⟨j1, ?_, ?_⟩
        · rw [j2, lastIdOf_cons]; simp [noteEvent]
        · rw [j3]; simp [hintFold, noteEvent_hint]

/-! ### `processStream` on the body of one exchange -/

/-- the completely received items of a body served from item `f` and cut after `c` bytes -/
def sliceOf (s : Scn L) (f c : Nat) : List (LItem L) := (s.items.drop f).take (ccount (s.items.drop f) c)

theorem pairwise_slice {R : LItem L → LItem L → Prop} (s : Scn L) (h : s.items.Pairwise R) (f c : Nat) :
    (sliceOf s f c).Pairwise R :=
  (h.sublist (List.drop_sublist _ _)).sublist (List.take_sublist _ _)

theorem mem_slice (s : Scn L) (f c : Nat) (it : LItem L) (h : it ∈ sliceOf s f c) : it ∈ s.items :=
  List.mem_of_mem_drop (List.mem_of_mem_take h)

theorem processBody_exchange (s : Scn L) (hs : ScnOK s) (resume : Bytes) (f c : Nat) (t : Term) :
    (processBody s.cfg resume (scanBytes ((bodyFrom s.items f).take c) t)).msgs = slMsgs (sliceOf s f c) ∧
    (slReplies s (sliceOf s f c) = true →
      (processBody s.cfg resume (scanBytes ((bodyFrom s.items f).take c) t)).fin = .replied) ∧
    (slReplies s (sliceOf s f c) = false →
      (processBody s.cfg resume (scanBytes ((bodyFrom s.items f).take c) t)).fin =
        (if t = .open then .streaming else .interrupted) ∧
      (processBody s.cfg resume (scanBytes ((bodyFrom s.items f).take c) t)).lastID =
        lastIdOf resume ((sliceOf s f c).map (·.ev)) ∧
      (processBody s.cfg resume (scanBytes ((bodyFrom s.items f).take c) t)).hint =
        hintFold 0 ((sliceOf s f c).map (·.ev))) := by
  have hdrop : ∀ it ∈ s.items.drop f, ItemOK s it := fun it h => hs.item it (List.mem_of_mem_drop h)
  have hbody : bodyFrom s.items f = serialize (blocksOf (s.items.drop f)) := bodyFrom_blocks s _ hdrop
  have hgood : ∀ b ∈ blocksOf (s.items.drop f), ∀ l ∈ b, goodLine l = true := by
    intro b hb
    obtain ⟨it, hit, rfl⟩ := List.mem_map.1 hb
    exact (hdrop it hit).good
  have hev : completeEvents (blocksOf (s.items.drop f)) c =
      ((sliceOf s f c).map (·.ev)).filter (fun e => !e.isEmpty) := by
    unfold completeEvents
    rw [completeCount_blocks s _ hdrop]
    have : (blocksOf (s.items.drop f)).take (ccount (s.items.drop f) c) = blocksOf (sliceOf s f c) := by
      simp [blocksOf, sliceOf, List.map_take]
    rw [this]
    exact eventsOf_blocks s _ (fun it h => hs.item it (mem_slice s f c it h))
  rw [hbody, processBody_prefix s.cfg rfl resume _ hgood c t, hev]
  obtain ⟨h1, h2, h3⟩ := processItems_slice s (sliceOf s f c) (fun it h => hs.item it (mem_slice s f c it h))
    (pairwise_slice s hs.replyLast f c) { lastID := resume }
  unfold processBody
  simp only
  generalize processItems s.cfg { lastID := resume }
    (terminatedItems (((sliceOf s f c).map (·.ev)).filter (fun e => !e.isEmpty))) = r at h1 h2 h3
  obtain ⟨a, early⟩ := r
  simp only at h1 h2 h3
  have hmsgs : ∀ e, (mkBody s.cfg a e).msgs = a.msgs := by intro e; cases e <;> rfl
  refine ⟨by rw [hmsgs, h1]; simp, fun h => ?_, fun h => ?_⟩
  · rw [h2 h]; rfl
  · obtain ⟨j1, j2, j3⟩ := h3 h
    subst j1
    cases t <;> simp [bodyEnd, endOf, mkBody, j2, j3]

end ClientStream
