import McpModel.ClientStream.Model
