import McpModel.ClientStream.LoopLemmas
/-!
C09 — "Streamable client survives stream cuts: exactly-once delivery, or a clean error".
PROPERTY THEOREMS ONLY.  Model: `ClientStream/Model.lean`; vocabulary of the statements
(`Tail`, `completeEvents`, `specMsgs`, `stops`, `lastIdOf`, `Faithful`, `serve`, `cursorAt`, `runF`,
`fruitless`, `bodies`): `Lemmas.lean`, `LoopLemmas.lean`.

Everything is quantified over ALL well-formed streams, ALL byte offsets `n`, ALL termination kinds
`t`, ALL reconnect outcome scripts; nothing is bounded.  The model describes the REPAIRED consumer
(fixes/F05-sse-unterminated-event.patch: `dropUnterminated = true`; fixes/F18-sse-resume-cursor.patch:
`keepCursor = true`, read off the code by the extractor as `Generated.ClientStream.resumeKeepsCursor`).
The unrepaired behaviours are kept as counter-example theorems.
-/
namespace ClientStream
open Generated.ClientStream

/-! ## 1. the scanner on byte prefixes -/

/-- **scan_prefix_terminated_are_complete.** For every well-formed event stream (`blocks`: any field
lines, each block ended by a blank line), every byte offset `n` and either way the body ends (`t`):
the events the scanner yields *as terminated* are exactly the events of the blocks wholly contained
in the first `n` bytes, in order (`completeCount` counts them from the byte lengths alone); they are
followed by at most one further event, flagged unterminated, and only at a clean end of input
(`Tail`); and the scanner never reports corruption (`malformed false`) — a line cut by the end of
input is reported as such (`malformed true`). -/
theorem scan_prefix_terminated_are_complete (blocks : List Block)
    (hg : ∀ b ∈ blocks, ∀ l ∈ b, goodLine l = true) (n : Nat) (t : Term) :
    ∃ rest fin,
      scanBytes ((serialize blocks).take n) t =
        ⟨terminatedItems (completeEvents blocks n) ++ rest, fin⟩ ∧
      Tail ⟨rest, fin⟩ t :=
  scan_prefix blocks hg n t

/-- the line splitting itself: the bytes of complete lines followed by a newline-free rest split
into exactly those lines and that rest (`bufio.Reader.ReadBytes`) -/
theorem split_lines_of_prefix (ls : List Bytes) (h : ∀ l ∈ ls, nl ∉ l) (rest : Bytes) (hr : nl ∉ rest) :
    splitLines (serializeLines ls ++ rest) = (ls, rest) := by
  rw [splitLines_serialize ls h, splitLines_noNl rest hr]; simp

/-! ## 2. `processStream` ignores what is not terminated -/

/-- **process_ignores_unterminated.** On every byte prefix of a well-formed stream, with either
termination kind, the client's body processing does exactly what it does on the completely received
events alone followed by a plain end of the body: it forwards no message, records no id and takes no
retry hint from an unterminated event, and a line cut by the end of input is an interruption, not
corruption.  (Equality of the whole result: messages, lastEventID, retry hint, outcome, synthetic.) -/
theorem process_ignores_unterminated {M} (cfg : Cfg M) (hd : cfg.dropUnterminated = true) (resume : Bytes)
    (blocks : List Block) (hg : ∀ b ∈ blocks, ∀ l ∈ b, goodLine l = true) (n : Nat) (t : Term) :
    processBody cfg resume (scanBytes ((serialize blocks).take n) t) =
      processBody cfg resume ⟨terminatedItems (completeEvents blocks n), endOf t⟩ :=
  processBody_prefix cfg hd resume blocks hg n t

/-- consequence: a cut is never "malformed event" (the connection is not failed for it) -/
theorem cut_is_never_corruption {M} (cfg : Cfg M) (hd : cfg.dropUnterminated = true) (resume : Bytes)
    (blocks : List Block) (hg : ∀ b ∈ blocks, ∀ l ∈ b, goodLine l = true) (n : Nat) (t : Term) :
    (processBody cfg resume (scanBytes ((serialize blocks).take n) t)).fin ≠ .failed .malformed := by
  rw [process_ignores_unterminated cfg hd resume blocks hg n t]
  obtain ⟨_, hns, hst⟩ := processBody_complete cfg resume (completeEvents blocks n) t
  cases hs : stops cfg (completeEvents blocks n) with
  | false => rw [(hns hs).2]; split <;> simp
  | true => rcases hst hs with ⟨h, _⟩ | h <;> rw [h] <;> simp

/-- **last_id_is_last_complete.** Whenever the body ends with an interruption (or is still open),
the `lastEventID` the client holds is the id of the last *completely received* event that has one —
and the cursor it started with if no complete event has one. -/
theorem last_id_is_last_complete {M} (cfg : Cfg M) (hd : cfg.dropUnterminated = true) (resume : Bytes)
    (blocks : List Block) (hg : ∀ b ∈ blocks, ∀ l ∈ b, goodLine l = true) (n : Nat) (t : Term)
    (h : (processBody cfg resume (scanBytes ((serialize blocks).take n) t)).fin = .interrupted ∨
         (processBody cfg resume (scanBytes ((serialize blocks).take n) t)).fin = .streaming) :
    (processBody cfg resume (scanBytes ((serialize blocks).take n) t)).lastID =
      lastIdOf resume (completeEvents blocks n) := by
  rw [process_ignores_unterminated cfg hd resume blocks hg n t] at h ⊢
  obtain ⟨_, hns, hst⟩ := processBody_complete cfg resume (completeEvents blocks n) t
  cases hs : stops cfg (completeEvents blocks n) with
  | false => exact (hns hs).1
  | true =>
    rcases hst hs with ⟨hf, _⟩ | hf <;> rw [hf] at h <;> simp at h

/-- **no_truncated_message.** Every message forwarded to the session is the decoding of the data of
an event wholly contained in the received prefix; more precisely the forwarded messages are exactly
`specMsgs` of the completely received events (each message-carrying event once, in order, up to the
pending call's own response). -/
theorem no_truncated_message {M} (cfg : Cfg M) (hd : cfg.dropUnterminated = true) (resume : Bytes)
    (blocks : List Block) (hg : ∀ b ∈ blocks, ∀ l ∈ b, goodLine l = true) (n : Nat) (t : Term) :
    (processBody cfg resume (scanBytes ((serialize blocks).take n) t)).msgs =
        specMsgs cfg (completeEvents blocks n) ∧
    ∀ m ∈ (processBody cfg resume (scanBytes ((serialize blocks).take n) t)).msgs,
      ∃ b ∈ blocks.take (completeCount blocks n), cfg.decode (eventOf b).data = some m := by
  rw [process_ignores_unterminated cfg hd resume blocks hg n t]
  have hm := (processBody_complete cfg resume (completeEvents blocks n) t).1
  refine ⟨hm, ?_⟩
  rw [hm]
  -- every element of specMsgs is the decoding of some event's data
  have key : ∀ es : List Event, ∀ m ∈ specMsgs cfg es, ∃ e ∈ es, cfg.decode e.data = some m := by
    intro es
    induction es with
    | nil => simp [specMsgs]
    | cons e es ih =>
      intro m hmem
      simp only [specMsgs] at hmem
      split at hmem
      · obtain ⟨e', he', hd'⟩ := ih m hmem; exact ⟨e', List.mem_cons_of_mem _ he', hd'⟩
      · split at hmem
        · obtain ⟨e', he', hd'⟩ := ih m hmem; exact ⟨e', List.mem_cons_of_mem _ he', hd'⟩
        · split at hmem
          · simp at hmem
          · rename_i m' hdec
            split at hmem
            · simp at hmem; exact ⟨e, List.mem_cons_self .., by rw [hdec, hmem]⟩
            · rcases List.mem_cons.1 hmem with h | h
              · exact ⟨e, List.mem_cons_self .., by rw [hdec, h]⟩
              · obtain ⟨e', he', hd'⟩ := ih m h; exact ⟨e', List.mem_cons_of_mem _ he', hd'⟩
  intro m hmem
  obtain ⟨e, he, hdec⟩ := key _ m hmem
  unfold completeEvents eventsOf at he
  obtain ⟨b, hb, rfl⟩ := List.mem_map.1 (List.mem_filter.1 he).1
  exact ⟨b, hb, hdec⟩

/-- what `specMsgs` means when nothing stops the processing: every message-carrying event, once,
in order -/
theorem specMsgs_is_each_once_in_order {M} (cfg : Cfg M) (es : List Event) (h : stops cfg es = false) :
    specMsgs cfg es =
      es.filterMap (fun e => if e.data = [] ∨ (e.name ≠ [] ∧ e.name ≠ messageName) then none else cfg.decode e.data) := by
  induction es with
  | nil => simp [specMsgs]
  | cons e es ih =>
    simp only [specMsgs, stops] at h ⊢
    by_cases h1 : e.data = []
    · simp only [h1, if_true] at h ⊢; simp [List.filterMap_cons, h1, ih h]
    · rw [if_neg h1] at h ⊢
      by_cases h2 : e.name ≠ [] ∧ e.name ≠ messageName
      · rw [if_pos h2] at h ⊢; simp [h2, ih h]
      · rw [if_neg h2] at h ⊢
        cases hdec : cfg.decode e.data with
        | none => simp [hdec] at h
        | some m =>
          simp only [hdec] at h ⊢
          by_cases h3 : (cfg.forCall && cfg.isReply m) = true
          · simp [h3] at h
          · simp only [h3] at h ⊢
            simp [h1, h2, hdec, ih h]

/-! ## 3. end to end against a faithful server -/

/-- **delivered_exactly_once_in_order.** The server is faithful (C08: every event has an id, ids
are distinct, a request carrying `Last-Event-ID: x` is answered with the events after `x`).  The
first body is cut at ANY byte offset `cut0` in either way, and then ANY finite sequence of reconnect
outcomes follows — transport errors, responses with any status, 200 responses whose body is again
cut at any offset in either way.  Then at every moment there is an `n` such that the session has
received exactly the messages of the first `n` events of the server's log — each once, in order, none
truncated (`specMsgs`) —; every `Last-Event-ID` the client ever sent is the cursor of a prefix of the
log (never a truncated or foreign id); while it is reconnecting the id it will send is the id of the
last completely received event (`cursorAt log n`); and if the call has completed normally, the
server's real response is among the delivered messages. -/
theorem delivered_exactly_once_in_order {M} (cfg : Cfg M) (hd : cfg.dropUnterminated = true)
    (hcur : cfg.forCall = true ∨ cfg.keepCursor = true)
    (log : List Block) (hf : Faithful log) (cut0 : Nat) (t0 : Term) (script : List FAttempt) :
    ∃ n, n ≤ log.length ∧
      (runF cfg log cut0 t0 script).msgs = specMsgs cfg (eventsOf (log.take n)) ∧
      (∀ h ∈ (runF cfg log cut0 t0 script).headers, ∃ j, j ≤ log.length ∧ h = cursorAt log j) ∧
      ((runF cfg log cut0 t0 script).phase = .ended .replied →
        ∃ m ∈ (runF cfg log cut0 t0 script).msgs, cfg.isReply m = true) ∧
      (∀ p r l h a, (runF cfg log cut0 t0 script).phase = .reconnecting p r l h a →
        l = cursorAt log n ∧ stops cfg (eventsOf (log.take n)) = false) := by
  obtain ⟨n, hn, hm, hh, hph⟩ := runF_inv cfg hd hcur log hf cut0 t0 script
  refine ⟨n, hn, hm, hh, ?_, ?_⟩
  · intro he; rw [he] at hph; exact hph
  · intro p r l h a he; rw [he] at hph; exact ⟨hph.2.1, hph.1⟩

/-! ## 4. the retry budget -/

/-- while reconnecting, `retriesWithoutProgress ≤ maxRetries` and `connectSSE`'s attempt counter is
within `1 … maxRetries` — for every first body and every sequence of attempts, of any server -/
theorem retry_counters_within_budget {M} (cfg : Cfg M) (first : ScanOut) (script : List Attempt)
    (p : Bytes) (r : Nat) (l : Bytes) (h : Int) (a : Nat)
    (hp : (run cfg first script).phase = .reconnecting p r l h a) :
    r ≤ cfg.maxRetries ∧ 1 ≤ a ∧ a ≤ cfg.maxRetries := by
  have := run_wf cfg first script
  rw [hp] at this
  exact this

/-- **bounded_fruitless_retries.** From any reachable reconnecting state, any sequence of fruitless
attempts (transport errors; statuses or bodies that fail the connection; bodies that end without a
new event id) that contains `maxRetries + 1` responses ends with the pending call failed — synthetic
error or failed connection —: at most `maxRetries + 1` reconnects without progress. -/
theorem bounded_fruitless_retries {M} (cfg : Cfg M) (first : ScanOut) (pre fr : List Attempt)
    (p : Bytes) (r : Nat) (l : Bytes) (h : Int) (a : Nat)
    (hp : (run cfg first pre).phase = .reconnecting p r l h a)
    (hfr : allFruitless cfg (run cfg first pre) fr = true)
    (hn : bodies fr ≥ cfg.maxRetries + 1) :
    ∃ e, (run cfg first (pre ++ fr)).phase = .ended e ∧ e.isFailure = true := by
  have hrun : run cfg first (pre ++ fr) = fr.foldl (step cfg) (run cfg first pre) := by
    simp [run, List.foldl_append]
  rcases fruitless_bound cfg fr (run cfg first pre) p r l h a hp hfr with hE | ⟨l', h', a', hR⟩
  · rw [hrun]; exact hE
  · -- impossible: the retry counter would exceed the budget
    have hwf := run_wf cfg first (pre ++ fr)
    rw [hrun, hR] at hwf
    simp only [WFPhase] at hwf
    omega

/-- `connectSSE` gives up after `maxRetries` transport errors in a row: the connection is failed -/
theorem connect_attempts_bounded {M} (cfg : Cfg M) (first : ScanOut) (pre : List Attempt)
    (p : Bytes) (r : Nat) (l : Bytes) (h : Int) (a : Nat)
    (hp : (run cfg first pre).phase = .reconnecting p r l h a) :
    ∃ e, (run cfg first (pre ++ List.replicate cfg.maxRetries .terr)).phase = .ended e ∧ e.isFailure = true := by
  apply bounded_fruitless_retries_aux
  exact hp
where
  bounded_fruitless_retries_aux {M} {cfg : Cfg M} {first : ScanOut} {pre : List Attempt}
      {p : Bytes} {r : Nat} {l : Bytes} {h : Int} {a : Nat}
      (hp : (run cfg first pre).phase = .reconnecting p r l h a) :
      ∃ e, (run cfg first (pre ++ List.replicate cfg.maxRetries .terr)).phase = .ended e ∧ e.isFailure = true := by
    have hrun : run cfg first (pre ++ List.replicate cfg.maxRetries .terr) =
        (List.replicate cfg.maxRetries Attempt.terr).foldl (step cfg) (run cfg first pre) := by
      simp [run, List.foldl_append]
    rw [hrun]
    have hwf := run_wf cfg first pre
    rw [hp] at hwf
    -- k transport errors from attempt a: ended if a + k > maxRetries
    have key : ∀ (k : Nat) (rn : Run M) (a : Nat), rn.phase = .reconnecting p r l h a → a ≤ cfg.maxRetries →
        a + k > cfg.maxRetries →
        ∃ e, ((List.replicate k Attempt.terr).foldl (step cfg) rn).phase = .ended e ∧ e.isFailure = true := by
      intro k
      induction k with
      | zero => intro rn a _ hle hk; omega
      | succ k ih =>
        intro rn a hph hle hk
        simp only [List.replicate_succ, List.foldl_cons]
        by_cases hlast : a + 1 > cfg.maxRetries
        · have hs : (step cfg rn .terr).phase = .ended (.failed .connect) := by
            unfold step; rw [hph]; simp [hlast]
          rw [foldl_step_ended cfg _ _ hs]
          exact ⟨_, hs, rfl⟩
        · have hs : (step cfg rn .terr).phase = .reconnecting p r l h (a + 1) := by
            unfold step; rw [hph]; simp [hlast]
          exact ih _ (a + 1) hs (by omega) (by omega)
    exact key cfg.maxRetries _ a hp hwf.2.2 (by have := hwf.2.1; omega)

/-! ## 5. unresumable streams -/

/-- **unresumable_fails_call.** A call stream whose first body ends without the client holding any
event id cannot be resumed: the synthetic error response ("request terminated without response") is
sent for the call, no reconnect is ever attempted, and nothing that happens afterwards changes that. -/
theorem unresumable_fails_call {M} (cfg : Cfg M) (hcall : cfg.forCall = true) (first : ScanOut)
    (hfin : (processBody cfg [] first).fin = .interrupted) (hid : (processBody cfg [] first).lastID = [])
    (script : List Attempt) :
    (run cfg first script).phase = .ended .synthetic ∧
    (run cfg first script).headers = [] ∧
    (run cfg first script).msgs = (processBody cfg [] first).msgs ∧
    (processBody cfg [] first).synthetic = true := by
  have hstart : (start cfg first).phase = .ended .synthetic := by
    simp [start, afterBody, hfin, hid, hcall]
  have hrun : run cfg first script = start cfg first := foldl_step_ended cfg _ _ hstart script
  rw [hrun]
  refine ⟨hstart, rfl, rfl, ?_⟩
  -- the synthetic flag of processBody
  simp only [processBody] at hfin hid ⊢
  have he : bodyEnd cfg (processItems cfg { lastID := [] } first.items).2 first.fin = .interrupted := by
    generalize bodyEnd cfg (processItems cfg { lastID := [] } first.items).2 first.fin = e at hfin
    cases e <;> simp [mkBody] at hfin ⊢
  rw [he] at hid ⊢
  simp only [mkBody] at hid ⊢
  simp [hid, hcall]

/-- byte level: a prefix none of whose complete events has an id (e.g. a server without an event
store), cut by an error or a clean end before the call's response: the call fails at once. -/
theorem no_ids_unresumable {M} (cfg : Cfg M) (hd : cfg.dropUnterminated = true) (hcall : cfg.forCall = true)
    (blocks : List Block) (hg : ∀ b ∈ blocks, ∀ l ∈ b, goodLine l = true) (n : Nat) (t : Term) (ht : t ≠ .open)
    (hnoid : ∀ e ∈ completeEvents blocks n, e.id = []) (hns : stops cfg (completeEvents blocks n) = false)
    (script : List Attempt) :
    (run cfg (scanBytes ((serialize blocks).take n) t) script).phase = .ended .synthetic ∧
    (run cfg (scanBytes ((serialize blocks).take n) t) script).headers = [] := by
  have hb := process_ignores_unterminated cfg hd [] blocks hg n t
  obtain ⟨_, hc, _⟩ := processBody_complete cfg [] (completeEvents blocks n) t
  obtain ⟨hl, hf⟩ := hc hns
  have hnil : lastIdOf [] (completeEvents blocks n) = [] := by
    generalize completeEvents blocks n = es at hnoid
    induction es with
    | nil => rfl
    | cons e es ih =>
      rw [lastIdOf_cons, if_pos (hnoid e (List.mem_cons_self ..))]
      exact ih (fun e' h' => hnoid e' (List.mem_cons_of_mem _ h'))
  have h := unresumable_fails_call cfg hcall (scanBytes ((serialize blocks).take n) t)
    (by rw [hb, hf, if_neg ht]) (by rw [hb, hl, hnil]) script
  exact ⟨h.1, h.2.1⟩

/-! ## 6. non-vacuity, and the unrepaired behaviours as counter-examples -/

/-- "id: 1\ndata: AA\n\n" ++ "id: 22\ndata: BB\n\n" -/
def exBlocks : List Block := [[[105, 100, 58, 32, 49], [100, 97, 116, 97, 58, 32, 65, 65]], [[105, 100, 58, 32, 50, 50], [100, 97, 116, 97, 58, 32, 66, 66]]]
def exStream : Bytes := [105, 100, 58, 32, 49, 10, 100, 97, 116, 97, 58, 32, 65, 65, 10, 10, 105, 100, 58, 32, 50, 50, 10, 100, 97, 116, 97, 58, 32, 66, 66, 10, 10]

/-- `dropUnterminated = fix`; decodes exactly "AA" ↦ 1 and "BB" ↦ 2; message 2 is the call's response -/
def exCfg (fix keep : Bool) : Cfg Nat :=
  { decode := fun d => if d = [65, 65] then some 1 else if d = [66, 66] then some 2 else none,
    isReply := fun m => m == 2, forCall := true, maxRetries := 2, dropUnterminated := fix, keepCursor := keep }

example : serialize exBlocks = exStream := by decide
theorem exBlocks_faithful : Faithful exBlocks := ⟨by decide, by decide, by decide⟩
example : exStream.length = 33 := by decide

/-- non-vacuity of the end-to-end statement: cut after the first event by a read error, one transport
error, an empty resumed body, then the rest: both messages, each once; headers all "1" -/
example :
    (runF (exCfg true true) exBlocks 16 .err [.terr, .resp 200 0 .eof, .resp 200 100 .eof]).msgs = [1, 2] ∧
    (runF (exCfg true true) exBlocks 16 .err [.terr, .resp 200 0 .eof, .resp 200 100 .eof]).headers = [[49], [49], [49]] ∧
    (runF (exCfg true true) exBlocks 16 .err [.terr, .resp 200 0 .eof, .resp 200 100 .eof]).phase = .ended .replied := by
  decide

/-- the scanner itself (and therefore the exported `scanEvents`, whose dispatch at the end of input is
pinned by `TestScanEvents`) does yield the trailing incomplete event at a clean end of input: here the
second event with a truncated payload "B" -/
theorem scanner_dispatches_unterminated_at_eof :
    scanEventsPublic (exStream.take 30) .eof =
      ([{ id := [49], data := [65, 65] }, { id := [50, 50], data := [66] }], .clean) := by decide

/-- F5, unrepaired consumer, cut inside `data:`: the truncated payload reaches the decoder and the
connection is failed permanently; the repaired consumer sees an interruption after event "1" -/
theorem unrepaired_surfaces_truncated_data :
    (processBody (exCfg false false) [] (scanBytes (exStream.take 30) .eof)).fin = .failed .decode ∧
    (processBody (exCfg true false) [] (scanBytes (exStream.take 30) .eof)).fin = .interrupted ∧
    (processBody (exCfg true false) [] (scanBytes (exStream.take 30) .eof)).lastID = [49] := by decide

/-- F5, cut right after the `id:` line: the unrepaired consumer records id "22" although its data
never arrived (a resumption from "22" skips message 2) -/
theorem unrepaired_records_id_without_data :
    (processBody (exCfg false false) [] (scanBytes (exStream.take 23) .eof)).lastID = [50, 50] ∧
    (processBody (exCfg false false) [] (scanBytes (exStream.take 23) .eof)).msgs = [1] ∧
    (processBody (exCfg true false) [] (scanBytes (exStream.take 23) .eof)).lastID = [49] := by decide

/-- F5, cut inside the `id:` value: a truncated Last-Event-ID "2" -/
theorem unrepaired_records_truncated_id :
    (processBody (exCfg false false) [] (scanBytes (exStream.take 21) .eof)).lastID = [50] ∧
    (processBody (exCfg true false) [] (scanBytes (exStream.take 21) .eof)).lastID = [49] := by decide

/-- F5, cut inside a field name: "malformed line", a hard failure of the connection -/
theorem unrepaired_fails_on_truncated_line :
    (processBody (exCfg false false) [] (scanBytes (exStream.take 18) .eof)).fin = .failed .malformed ∧
    (processBody (exCfg true false) [] (scanBytes (exStream.take 18) .eof)).fin = .interrupted := by decide

/-- so `process_ignores_unterminated` is false for the unrepaired consumer -/
theorem process_ignores_unterminated_fails_unrepaired :
    ¬ (∀ (n : Nat) (t : Term),
        processBody (exCfg false false) [] (scanBytes ((serialize exBlocks).take n) t) =
        processBody (exCfg false false) [] ⟨terminatedItems (completeEvents exBlocks n), endOf t⟩) := by
  intro h
  have := congrArg (·.lastID) (h 23 .eof)
  revert this
  decide

/-- F18, the cursor is not kept (`keepCursor = false`): a resumed body that ends before its first
complete event makes the client fail a perfectly resumable call (synthetic error after ONE fruitless
reconnect, whatever `maxRetries`); with the cursor kept it asks again with the same id and completes -/
theorem cursor_lost_fails_resumable_call :
    (runF (exCfg true false) exBlocks 16 .err [.resp 200 0 .eof, .resp 200 100 .eof]).phase = .ended .synthetic ∧
    (runF (exCfg true true) exBlocks 16 .err [.resp 200 0 .eof, .resp 200 100 .eof]).phase = .ended .replied ∧
    (runF (exCfg true true) exBlocks 16 .err [.resp 200 0 .eof, .resp 200 100 .eof]).msgs = [1, 2] := by decide

/-- F18 on the standalone stream (`forCall = false`): after the event-less body the next request goes
out WITHOUT Last-Event-ID (`[]`), and a faithful server answers from the start: message 1 twice (a
real server attaches a fresh standalone stream instead and the messages in between are lost) -/
theorem cursor_lost_standalone_drops_header :
    (runF { exCfg true false with forCall := false } exBlocks 16 .err [.resp 200 0 .eof, .resp 200 100 .open]).headers = [[49], []] ∧
    (runF { exCfg true false with forCall := false } exBlocks 16 .err [.resp 200 0 .eof, .resp 200 100 .open]).msgs = [1, 1, 2] ∧
    (runF { exCfg true true with forCall := false } exBlocks 16 .err [.resp 200 0 .eof, .resp 200 100 .open]).headers = [[49], [49]] ∧
    (runF { exCfg true true with forCall := false } exBlocks 16 .err [.resp 200 0 .eof, .resp 200 100 .open]).msgs = [1, 2] := by decide

/-- non-vacuity of `bounded_fruitless_retries`: three (= maxRetries + 1) event-less bodies after a
cut: "exceeded retries without progress" -/
example :
    (runF (exCfg true true) exBlocks 16 .err [.resp 200 0 .eof, .resp 200 0 .err, .resp 200 0 .eof]).phase
      = .ended (.failed .exceeded) := by decide

/-- non-vacuity of `unresumable_fails_call`: a cut before the first complete event -/
example : (runF (exCfg true true) exBlocks 10 .eof [.resp 200 100 .eof]).phase = .ended .synthetic ∧
    (runF (exCfg true true) exBlocks 10 .eof [.resp 200 100 .eof]).headers = [] := by decide

/-- the MaxRetries defaulting and the status classes the loop depends on (regenerated tables) -/
theorem maxRetries_defaulting : maxRetriesOf 0 = 5 ∧ maxRetriesOf (-1) = 0 ∧ maxRetriesOf 3 = 3 := by decide
theorem reconnect_statuses :
    checkResponse 200 = none ∧ checkResponse 404 = some .sessionGone ∧ checkResponse 503 = some (.rejected 503) ∧
    checkResponse 400 = some (.status 400) := by decide

end ClientStream
