import McpModel.ClientStream.LoopLemmas
/-!
C09 — "Streamable client survives stream cuts: exactly-once delivery, or a clean error".
PROPERTY THEOREMS ONLY.  Model: `ClientStream/Model.lean`; vocabulary of the statements
(`Tail`, `completeEvents`, `specMsgs`, `stops`, `lastIdOf`, `Faithful`, `serve`, `cursorAt`, `runF`,
`fruitless`, `bodies`): `Lemmas.lean`, `LoopLemmas.lean`.

Everything is quantified over ALL well-formed streams, ALL byte offsets `n`, ALL termination kinds
`t`, ALL reconnect outcome scripts; nothing is bounded.  The model describes the REPAIRED consumer
(fixes/F05-sse-unterminated-event.patch: `dropUnterminated = true`; fixes/F18-sse-resume-cursor.patch:
`keepCursor = true`, read off the code by the extractor as `Generated.ClientStream.resumeKeepsCursor`).
The unrepaired behaviours are kept as counter-example theorems.
-/
namespace ClientStream
open Generated.ClientStream

/-! ## 1. the scanner on byte prefixes -/

/-- **scan_prefix_terminated_are_complete.** For every well-formed event stream (`blocks`: any field
lines, each block ended by a blank line), every byte offset `n` and either way the body ends (`t`):
the events the scanner yields *as terminated* are exactly the events of the blocks wholly contained
in the first `n` bytes, in order (`completeCount` counts them from the byte lengths alone); they are
followed by at most one further event, flagged unterminated, and only at a clean end of input
(`Tail`); and the scanner never reports corruption (`malformed false`) — a line cut by the end of
input is reported as such (`malformed true`). -/
theorem scan_prefix_terminated_are_complete (blocks : List Block)
    (hg : ∀ b ∈ blocks, ∀ l ∈ b, goodLine l = true) (n : Nat) (t : Term) :
    ∃ rest fin,
      scanBytes ((serialize blocks).take n) t =
        ⟨terminatedItems (completeEvents blocks n) ++ rest, fin⟩ ∧
      Tail ⟨rest, fin⟩ t :=
  scan_prefix blocks hg n t

/-- the line splitting itself: the bytes of complete lines followed by a newline-free rest split
into exactly those lines and that rest (`bufio.Reader.ReadBytes`) -/
theorem split_lines_of_prefix (ls : List Bytes) (h : ∀ l ∈ ls, nl ∉ l) (rest : Bytes) (hr : nl ∉ rest) :
    splitLines (serializeLines ls ++ rest) = (ls, rest) := by
  rw [splitLines_serialize ls h, splitLines_noNl rest hr]; simp

/-! ## 2. `processStream` ignores what is not terminated -/

/-- **process_ignores_unterminated.** On every byte prefix of a well-formed stream, with either
termination kind, the client's body processing does exactly what it does on the completely received
events alone followed by a plain end of the body: it forwards no message, records no id and takes no
retry hint from an unterminated event, and a line cut by the end of input is an interruption, not
corruption.  (Equality of the whole result: messages, lastEventID, retry hint, outcome, synthetic.) -/
theorem process_ignores_unterminated {M} (cfg : Cfg M) (hd : cfg.dropUnterminated = true) (resume : Bytes)
    (blocks : List Block) (hg : ∀ b ∈ blocks, ∀ l ∈ b, goodLine l = true) (n : Nat) (t : Term) :
    processBody cfg resume (scanBytes ((serialize blocks).take n) t) =
      processBody cfg resume ⟨terminatedItems (completeEvents blocks n), endOf t⟩ :=
  processBody_prefix cfg hd resume blocks hg n t

/-- consequence: a cut is never "malformed event" (the connection is not failed for it) -/
theorem cut_is_never_corruption {M} (cfg : Cfg M) (hd : cfg.dropUnterminated = true) (resume : Bytes)
    (blocks : List Block) (hg : ∀ b ∈ blocks, ∀ l ∈ b, goodLine l = true) (n : Nat) (t : Term) :
    (processBody cfg resume (scanBytes ((serialize blocks).take n) t)).fin ≠ .failed .malformed := by
  rw [process_ignores_unterminated cfg hd resume blocks hg n t]
  obtain ⟨_, hns, hst⟩ := processBody_complete cfg resume (completeEvents blocks n) t
  cases hs : stops cfg (completeEvents blocks n) with
  | false => rw [(hns hs).2]; split <;> simp
  | true => rcases hst hs with ⟨h, _⟩ | h <;> rw [h] <;> simp

/-- **last_id_is_last_complete.** Whenever the body ends with an interruption (or is still open),
the `lastEventID` the client holds is the id of the last *completely received* event that has one —
and the cursor it started with if no complete event has one. -/
theorem last_id_is_last_complete {M} (cfg : Cfg M) (hd : cfg.dropUnterminated = true) (resume : Bytes)
    (blocks : List Block) (hg : ∀ b ∈ blocks, ∀ l ∈ b, goodLine l = true) (n : Nat) (t : Term)
    (h : (processBody cfg resume (scanBytes ((serialize blocks).take n) t)).fin = .interrupted ∨
         (processBody cfg resume (scanBytes ((serialize blocks).take n) t)).fin = .streaming) :
    (processBody cfg resume (scanBytes ((serialize blocks).take n) t)).lastID =
      lastIdOf resume (completeEvents blocks n) := by
  rw [process_ignores_unterminated cfg hd resume blocks hg n t] at h ⊢
  obtain ⟨_, hns, hst⟩ := processBody_complete cfg resume (completeEvents blocks n) t
  cases hs : stops cfg (completeEvents blocks n) with
  | false => exact (hns hs).1
  | true =>
    rcases hst hs with ⟨hf, _⟩ | hf <;> rw [hf] at h <;> simp at h

/-- **no_truncated_message.** Every message forwarded to the session is the decoding of the data of
an event wholly contained in the received prefix; more precisely the forwarded messages are exactly
`specMsgs` of the completely received events (each message-carrying event once, in order, up to the
pending call's own response). -/
theorem no_truncated_message {M} (cfg : Cfg M) (hd : cfg.dropUnterminated = true) (resume : Bytes)
    (blocks : List Block) (hg : ∀ b ∈ blocks, ∀ l ∈ b, goodLine l = true) (n : Nat) (t : Term) :
    (processBody cfg resume (scanBytes ((serialize blocks).take n) t)).msgs =
        specMsgs cfg (completeEvents blocks n) ∧
    ∀ m ∈ (processBody cfg resume (scanBytes ((serialize blocks).take n) t)).msgs,
      ∃ b ∈ blocks.take (completeCount blocks n), cfg.decode (eventOf b).data = some m := by
  rw [process_ignores_unterminated cfg hd resume blocks hg n t]
  have hm := (processBody_complete cfg resume (completeEvents blocks n) t).1
  refine ⟨hm, ?_⟩
  rw [hm]
  -- every element of specMsgs is the decoding of some event's data
  have key : ∀ es : List Event, ∀ m ∈ specMsgs cfg es, ∃ e ∈ es, cfg.decode e.data = some m := by
    intro es
    induction es with
    | nil => simp [specMsgs]
    | cons e es ih =>
      intro m hmem
      simp only [specMsgs] at hmem
      split at hmem
      · obtain ⟨e', he', hd'⟩ := ih m hmem; exact ⟨e', List.mem_cons_of_mem _ he', hd'⟩
      · split at hmem
        · obtain ⟨e', he', hd'⟩ := ih m hmem; exact ⟨e', List.mem_cons_of_mem _ he', hd'⟩
        · split at hmem
          · simp at hmem
          · rename_i m' hdec
            split at hmem
            · simp at hmem; exact ⟨e, List.mem_cons_self .., by rw [hdec, hmem]⟩
            · rcases List.mem_cons.1 hmem with h | h
              · exact ⟨e, List.mem_cons_self .., by rw [hdec, h]⟩
              · obtain ⟨e', he', hd'⟩ := ih m h; exact ⟨e', List.mem_cons_of_mem _ he', hd'⟩
  intro m hmem
  obtain ⟨e, he, hdec⟩ := key _ m hmem
  unfold completeEvents eventsOf at he
  obtain ⟨b, hb, rfl⟩ := List.mem_map.1 (List.mem_filter.1 he).1
  exact ⟨b, hb, hdec⟩

/-- what `specMsgs` means when nothing stops the processing: every message-carrying event, once,
in order -/
theorem specMsgs_is_each_once_in_order {M} (cfg : Cfg M) (es : List Event) (h : stops cfg es = false) :
    specMsgs cfg es =
      es.filterMap (fun e => if e.data = [] ∨ (e.name ≠ [] ∧ e.name ≠ messageName) then none else cfg.decode e.data) := by
  induction es with
  | nil => simp [specMsgs]
  | cons e es ih =>
    simp only [specMsgs, stops] at h ⊢
    by_cases h1 : e.data = []
    · simp only [h1, if_true] at h ⊢; simp [List.filterMap_cons, h1, ih h]
    · rw [if_neg h1] at h ⊢
      by_cases h2 : e.name ≠ [] ∧ e.name ≠ messageName
      · rw [if_pos h2] at h ⊢; simp [h2, ih h]
      · rw [if_neg h2] at h ⊢
        cases hdec : cfg.decode e.data with
        | none => simp [hdec] at h
        | some m =>
          simp only [hdec] at h ⊢
          by_cases h3 : (cfg.forCall && cfg.isReply m) = true
          · simp [h3] at h
          · simp only [h3] at h ⊢
            simp [h1, h2, hdec, ih h]

/-! ## 3. end to end against a faithful server -/

/-- **delivered_exactly_once_in_order.** The server is faithful (C08: every event has an id, ids
are distinct, a request carrying `Last-Event-ID: x` is answered with the events after `x`).  The
first body is cut at ANY byte offset `cut0` in either way, and then ANY finite sequence of reconnect
outcomes follows — transport errors, responses with any status, 200 responses whose body is again
cut at any offset in either way.  Then at every moment there is an `n` such that the session has
received exactly the messages of the first `n` events of the server's log — each once, in order, none
truncated (`specMsgs`) —; every `Last-Event-ID` the client ever sent is the cursor of a prefix of the
log (never a truncated or foreign id); while it is reconnecting the id it will send is the id of the
last completely received event (`cursorAt log n`); and if the call has completed normally, the
server's real response is among the delivered messages. -/
theorem delivered_exactly_once_in_order {M} (cfg : Cfg M) (hd : cfg.dropUnterminated = true)
    (hcur : cfg.forCall = true ∨ cfg.keepCursor = true)
    (log : List Block) (hf : Faithful log) (cut0 : Nat) (t0 : Term) (script : List FAttempt) :
    ∃ n, n ≤ log.length ∧
      (runF cfg log cut0 t0 script).msgs = specMsgs cfg (eventsOf (log.take n)) ∧
      (∀ h ∈ (runF cfg log cut0 t0 script).headers, ∃ j, j ≤ log.length ∧ h = cursorAt log j) ∧
      ((runF cfg log cut0 t0 script).phase = .ended .replied →
        ∃ m ∈ (runF cfg log cut0 t0 script).msgs, cfg.isReply m = true) ∧
      (∀ p r l h a, (runF cfg log cut0 t0 script).phase = .reconnecting p r l h a →
        l = cursorAt log n ∧ stops cfg (eventsOf (log.take n)) = false) := by
  obtain ⟨n, hn, hm, hh, hph⟩ := runF_inv cfg hd hcur log hf cut0 t0 script
  refine ⟨n, hn, hm, hh, ?_, ?_⟩
  · intro he; rw [he] at hph; exact hph
  · intro p r l h a he; rw [he] at hph; exact ⟨hph.2.1, hph.1⟩

/-! ## 4. the retry budget -/

/-- while reconnecting, `retriesWithoutProgress ≤ maxRetries` and `connectSSE`'s attempt counter is
within `1 … maxRetries` — for every first body and every sequence of attempts, of any server -/
theorem retry_counters_within_budget {M} (cfg : Cfg M) (first : ScanOut) (script : List Attempt)
    (p : Bytes) (r : Nat) (l : Bytes) (h : Int) (a : Nat)
    (hp : (run cfg first script).phase = .reconnecting p r l h a) :
    r ≤ cfg.maxRetries ∧ 1 ≤ a ∧ a ≤ cfg.maxRetries := by
  have := run_wf cfg first script
  rw [hp] at this
  exact this

/-- **bounded_fruitless_retries.** From any reachable reconnecting state, any sequence of fruitless
attempts (transport errors; statuses or bodies that fail the connection; bodies that end without a
new event id) that contains `maxRetries + 1` responses ends with the pending call failed — synthetic
error or failed connection —: at most `maxRetries + 1` reconnects without progress. -/
theorem bounded_fruitless_retries {M} (cfg : Cfg M) (first : ScanOut) (pre fr : List Attempt)
    (p : Bytes) (r : Nat) (l : Bytes) (h : Int) (a : Nat)
    (hp : (run cfg first pre).phase = .reconnecting p r l h a)
    (hfr : allFruitless cfg (run cfg first pre) fr = true)
    (hn : bodies fr ≥ cfg.maxRetries + 1) :
    ∃ e, (run cfg first (pre ++ fr)).phase = .ended e ∧ e.isFailure = true := by
  have hrun : run cfg first (pre ++ fr) = fr.foldl (step cfg) (run cfg first pre) := by
    simp [run, List.foldl_append]
  rcases fruitless_bound cfg fr (run cfg first pre) p r l h a hp hfr with hE | ⟨l', h', a', hR⟩
  · rw [hrun]; exact hE
  · -- impossible: the retry counter would exceed the budget
    have hwf := run_wf cfg first (pre ++ fr)
    rw [hrun, hR] at hwf
    simp only [WFPhase] at hwf
    omega

/-- `connectSSE` gives up after `maxRetries` transport errors in a row — of ANY kinds —: the
connection is failed -/
theorem connect_attempts_bounded {M} (cfg : Cfg M) (first : ScanOut) (pre : List Attempt) (es : List TErr)
    (hes : es.length = cfg.maxRetries)
    (p : Bytes) (r : Nat) (l : Bytes) (h : Int) (a : Nat)
    (hp : (run cfg first pre).phase = .reconnecting p r l h a) :
    ∃ e, (run cfg first (pre ++ es.map .terr)).phase = .ended e ∧ e.isFailure = true := by
  have hrun : run cfg first (pre ++ es.map .terr) = (es.map Attempt.terr).foldl (step cfg) (run cfg first pre) := by
    simp [run, List.foldl_append]
  rw [hrun]
  have hwf := run_wf cfg first pre
  rw [hp] at hwf
  -- k transport errors from attempt a: ended if a + k > maxRetries
  have key : ∀ (es : List TErr) (rn : Run M) (a : Nat), rn.phase = .reconnecting p r l h a → a ≤ cfg.maxRetries →
      a + es.length > cfg.maxRetries →
      ∃ e, ((es.map Attempt.terr).foldl (step cfg) rn).phase = .ended e ∧ e.isFailure = true := by
    intro es
    induction es with
    | nil => intro rn a _ hle hk; simp at hk; omega
    | cons e es ih =>
      intro rn a hph hle hk
      simp only [List.map_cons, List.foldl_cons]
      by_cases hlast : errStops e = true ∨ a + 1 > cfg.maxRetries
      · have hs : (step cfg rn (.terr e)).phase = .ended (.failed .connect) := by
          unfold step; rw [hph]
          rcases hlast with h1 | h1
          · simp [h1]
          · simp only; split
            · rfl
            · simp [h1]
        rw [foldl_step_ended cfg _ _ hs]
        exact ⟨_, hs, rfl⟩
      · have h1 : errStops e = false := by
          cases hx : errStops e with
          | false => rfl
          | true => exact absurd (.inl hx) hlast
        have h2 : ¬ a + 1 > cfg.maxRetries := fun hx => hlast (.inr hx)
        have hs : (step cfg rn (.terr e)).phase = .reconnecting p r l h (a + 1) := by
          unfold step; rw [hph]; simp [h1, h2]
        exact ih _ (a + 1) hs (by omega) (by simp at hk; omega)
  exact key es _ a hp hwf.2.2 (by have := hwf.2.1; omega)

/-! ## 4b. the KIND of a transport error does not matter: only the caller's context stops the loop -/

-- (`errStops_never`, the regenerated fact the following rests on, is in LoopLemmas.lean)

/-- a failed attempt within the budget, of any kind, changes nothing but the attempt counter (and the
list of headers sent) -/
theorem terr_within_budget {M} (cfg : Cfg M) (r : Run M) (e : TErr)
    (p : Bytes) (rt : Nat) (l : Bytes) (h : Int) (a : Nat)
    (hp : r.phase = .reconnecting p rt l h a) (hb : a + 1 ≤ cfg.maxRetries) :
    (step cfg r (.terr e)).phase = .reconnecting p rt l h (a + 1) ∧ (step cfg r (.terr e)).msgs = r.msgs := by
  unfold step
  rw [hp]
  simp only [errStops_never, Bool.false_eq_true, if_false]
  rw [if_neg (by omega)]
  exact ⟨rfl, rfl⟩

theorem terrs_within_budget {M} (cfg : Cfg M) (es : List TErr) :
    ∀ (r : Run M) (p : Bytes) (rt : Nat) (l : Bytes) (h : Int) (a : Nat),
      r.phase = .reconnecting p rt l h a → a + es.length ≤ cfg.maxRetries →
      ((es.map Attempt.terr).foldl (step cfg) r).phase = .reconnecting p rt l h (a + es.length) ∧
      ((es.map Attempt.terr).foldl (step cfg) r).msgs = r.msgs := by
  induction es with
  | nil => intro r p rt l h a hp _; exact ⟨by simpa using hp, rfl⟩
  | cons e es ih =>
    intro r p rt l h a hp hb
    simp only [List.length_cons] at hb
    obtain ⟨h1, h2⟩ := terr_within_budget cfg r e p rt l h a hp (by omega)
    obtain ⟨h3, h4⟩ := ih _ p rt l h (a + 1) h1 (by omega)
    simp only [List.map_cons, List.foldl_cons, List.length_cons]
    exact ⟨by rw [h3]; congr 1; omega, by rw [h4, h2]⟩

/-- every body is followed by attempt number 1 -/
theorem afterBody_attempt_one {M} (cfg : Cfg M) (prev : Bytes) (retries : Nat) (b : BodyOut M)
    (p : Bytes) (rt : Nat) (l : Bytes) (h : Int) (a : Nat)
    (hp : afterBody cfg prev retries b = .reconnecting p rt l h a) : a = 1 := by
  unfold afterBody at hp
  split at hp
  · cases hp
  · cases hp
  · cases hp
  · split at hp
    · cases hp
    · split at hp
      · split at hp
        · cases hp
        · cases hp; rfl
      · split at hp
        · cases hp
        · cases hp; rfl

/-- a script in which every response is preceded by a list of failed attempts -/
def withFaults (script : List (List TErr × Attempt)) : List Attempt :=
  script.flatMap (fun p => p.1.map Attempt.terr ++ [p.2])

/-- two loop states that differ in the headers sent only, about to make attempt number 1 -/
def SameButHeaders {M} (r r' : Run M) : Prop :=
  r.phase = r'.phase ∧ r.msgs = r'.msgs ∧ ∀ p rt l h a, r.phase = .reconnecting p rt l h a → a = 1

theorem step_resp_same {M} (cfg : Cfg M) (r r' : Run M) (code : Nat) (body : Bytes → ScanOut) (es : List TErr)
    (hs : SameButHeaders r r') (hb : es.length < cfg.maxRetries) :
    SameButHeaders (step cfg ((es.map Attempt.terr).foldl (step cfg) r) (.resp code body)) (step cfg r' (.resp code body)) := by
  obtain ⟨hph, hm, h1⟩ := hs
  cases hp : r.phase with
  | ended e =>
    rw [foldl_step_ended cfg r e hp]
    have hp' : r'.phase = .ended e := by rw [← hph, hp]
    have e1 : step cfg r (.resp code body) = r := by unfold step; rw [hp]
    have e2 : step cfg r' (.resp code body) = r' := by unfold step; rw [hp']
    rw [e1, e2]
    exact ⟨hph, hm, h1⟩
  | reconnecting p rt l h a =>
    have ha : a = 1 := h1 p rt l h a hp
    subst ha
    obtain ⟨h3, h4⟩ := terrs_within_budget cfg es r p rt l h 1 hp (by omega)
    have hp' : r'.phase = .reconnecting p rt l h 1 := by rw [← hph, hp]
    generalize (es.map Attempt.terr).foldl (step cfg) r = q at h3 h4
    unfold step
    rw [h3, hp']
    simp only
    cases hc : checkResponse code with
    | some f => exact ⟨rfl, by rw [h4, hm], fun _ _ _ _ _ hx => by cases hx⟩
    | none =>
      simp only
      refine ⟨rfl, by rw [h4, hm], fun p' rt' l' h' a' hx => ?_⟩
      exact afterBody_attempt_one cfg _ _ _ _ _ _ _ _ hx

/-- **Transient failures within the budget are invisible.**  For ANY server and ANY first body: put
before every response of a script any list of failed attempts — of ANY kinds: plain errors, dial
timeouts, "timeout awaiting response headers", `http.Client.Timeout`, errors that answer
`errors.Is(context.Canceled)` — shorter than the budget (`maxRetries`).  The loop ends up in the same
state (phase, retry counter, cursor) and has forwarded the same messages as without the failures. -/
theorem transient_failures_within_budget_invisible {M} (cfg : Cfg M) (first : ScanOut)
    (script : List (List TErr × Attempt))
    (hb : ∀ p ∈ script, p.1.length < cfg.maxRetries)
    (hr : ∀ p ∈ script, ∃ code body, p.2 = .resp code body) :
    (run cfg first (withFaults script)).phase = (run cfg first (script.map (·.2))).phase ∧
    (run cfg first (withFaults script)).msgs = (run cfg first (script.map (·.2))).msgs := by
  unfold run withFaults
  suffices h : ∀ r r' : Run M, SameButHeaders r r' →
      SameButHeaders ((script.flatMap (fun p => p.1.map Attempt.terr ++ [p.2])).foldl (step cfg) r)
        ((script.map (·.2)).foldl (step cfg) r') by
    have h0 : SameButHeaders (start cfg first) (start cfg first) :=
      ⟨rfl, rfl, fun p rt l h a hx => afterBody_attempt_one cfg _ _ _ _ _ _ _ _ hx⟩
    exact ⟨(h _ _ h0).1, (h _ _ h0).2.1⟩
  induction script with
  | nil => intro r r' hs; simpa using hs
  | cons pr rest ih =>
    intro r r' hs
    obtain ⟨code, body, hresp⟩ := hr pr (List.mem_cons_self ..)
    simp only [List.flatMap_cons, List.map_cons, List.foldl_append, List.foldl_cons, List.foldl_nil, hresp]
    apply ih (fun p hp => hb p (List.mem_cons_of_mem _ hp)) (fun p hp => hr p (List.mem_cons_of_mem _ hp))
    exact step_resp_same cfg r r' code body pr.1 hs (hb pr (List.mem_cons_self ..))

/-- the same against the faithful server -/
def withFaultsF (script : List (List TErr × FAttempt)) : List FAttempt :=
  script.flatMap (fun p => p.1.map (fun e => FAttempt.terr e) ++ [p.2])

/-- **transient_failures_within_budget_complete_the_call.**  Against a faithful server, with the first
body cut anywhere in either way: whatever failed attempts — of any kinds, fewer than the budget in a row
— precede the responses of a script, if the exchange without them completes the pending call with the
server's real response, so does the exchange with them; the session receives exactly the same
messages (each message of a prefix of the server's log once, in order, none truncated), the server's
response among them. -/
theorem transient_failures_within_budget_complete_the_call {M} (cfg : Cfg M) (hd : cfg.dropUnterminated = true)
    (hcur : cfg.forCall = true ∨ cfg.keepCursor = true)
    (log : List Block) (hf : Faithful log) (cut0 : Nat) (t0 : Term)
    (script : List (List TErr × FAttempt))
    (hb : ∀ p ∈ script, p.1.length < cfg.maxRetries)
    (hr : ∀ p ∈ script, ∃ code cut t, p.2 = .resp code cut t)
    (hdone : (runF cfg log cut0 t0 (script.map (·.2))).phase = .ended .replied) :
    (runF cfg log cut0 t0 (withFaultsF script)).phase = .ended .replied ∧
    (runF cfg log cut0 t0 (withFaultsF script)).msgs = (runF cfg log cut0 t0 (script.map (·.2))).msgs ∧
    (∃ n, n ≤ log.length ∧ (runF cfg log cut0 t0 (withFaultsF script)).msgs = specMsgs cfg (eventsOf (log.take n))) ∧
    ∃ m ∈ (runF cfg log cut0 t0 (withFaultsF script)).msgs, cfg.isReply m = true := by
  have e1 : withFaults (script.map (fun p => (p.1, toAttempt log p.2))) = (withFaultsF script).map (toAttempt log) := by
    unfold withFaults withFaultsF
    generalize script = sc
    induction sc with
    | nil => rfl
    | cons p rest ih =>
      simp only [List.map_cons, List.flatMap_cons, List.map_append, List.map_map, List.map_nil, ih]
      congr 1
  have e2 : (script.map (fun p => (p.1, toAttempt log p.2))).map (·.2) = (script.map (·.2)).map (toAttempt log) := by
    simp [List.map_map, Function.comp_def]
  have key := transient_failures_within_budget_invisible cfg (scanBytes ((serialize log).take cut0) t0)
    (script.map (fun p => (p.1, toAttempt log p.2)))
    (by intro p hp; obtain ⟨q, hq, rfl⟩ := List.mem_map.1 hp; exact hb q hq)
    (by
      intro p hp; obtain ⟨q, hq, rfl⟩ := List.mem_map.1 hp
      obtain ⟨code, cut, t, h⟩ := hr q hq
      exact ⟨code, fun hdr => scanBytes ((serialize (serve log hdr)).take cut) t, by simp only [h, toAttempt]⟩)
  rw [e1, e2] at key
  have hph : (runF cfg log cut0 t0 (withFaultsF script)).phase = .ended .replied := by
    unfold runF at hdone ⊢; rw [key.1]; exact hdone
  have hms : (runF cfg log cut0 t0 (withFaultsF script)).msgs = (runF cfg log cut0 t0 (script.map (·.2))).msgs := by
    unfold runF; exact key.2
  obtain ⟨n, hn, hm, _, hrep, _⟩ := delivered_exactly_once_in_order cfg hd hcur log hf cut0 t0 (withFaultsF script)
  exact ⟨hph, hms, ⟨n, hn, hm⟩, hrep hph⟩

/-! ## 4c. the caller's context -/

/-- **caller_context_end_stops_the_loop** (the control): when the CALLER's context ends while the loop
is reconnecting — during the wait, or with a request in flight — the loop stops there: no further
attempt is made whatever follows, nothing more is forwarded, the connection is not failed (the call
completes with the context's error in the layer above: C01/C04). -/
theorem caller_context_end_stops_the_loop {M} (cfg : Cfg M) (first : ScanOut) (pre post : List Attempt) (sent : Bool)
    (p : Bytes) (r : Nat) (l : Bytes) (h : Int) (a : Nat)
    (hp : (run cfg first pre).phase = .reconnecting p r l h a) :
    (run cfg first (pre ++ .ctxEnded sent :: post)).phase = .ended .cancelled ∧
    (run cfg first (pre ++ .ctxEnded sent :: post)).msgs = (run cfg first pre).msgs ∧
    (run cfg first (pre ++ .ctxEnded sent :: post)).headers =
      (run cfg first pre).headers ++ (if sent then [l] else []) := by
  have hrun : run cfg first (pre ++ .ctxEnded sent :: post) =
      post.foldl (step cfg) (step cfg (run cfg first pre) (.ctxEnded sent)) := by
    simp [run, List.foldl_append]
  have hs : (step cfg (run cfg first pre) (.ctxEnded sent)).phase = .ended .cancelled ∧
      (step cfg (run cfg first pre) (.ctxEnded sent)).msgs = (run cfg first pre).msgs ∧
      (step cfg (run cfg first pre) (.ctxEnded sent)).headers =
        (run cfg first pre).headers ++ (if sent then [l] else []) := by
    unfold step; rw [hp]
    refine ⟨rfl, rfl, ?_⟩
    cases sent <;> simp
  rw [hrun, foldl_step_ended cfg _ .cancelled hs.1 post]
  exact hs

/-! ## 4d. the handler of a call's stream never goes quiet (the client side of C01) -/

theorem processItems_early {M} (cfg : Cfg M) (a : Acc M) (items : List Item) (e : BodyEnd)
    (h : (processItems cfg a items).2 = some e) : e ≠ .streaming := by
  induction items generalizing a with
  | nil => simp [processItems] at h
  | cons it rest ih =>
    simp only [processItems] at h
    split at h
    · cases h; simp
    · split at h
      · exact ih _ h
      · split at h
        · exact ih _ h
        · split at h
          · cases h; simp
          · split at h
            · cases h; simp
            · exact ih _ h

/-- a body that has ended is never reported as still streaming -/
theorem processBody_not_streaming {M} (cfg : Cfg M) (resume : Bytes) (out : ScanOut) (h : out.fin ≠ .stillOpen) :
    (processBody cfg resume out).fin ≠ .streaming := by
  unfold processBody
  simp only
  have hb : bodyEnd cfg (processItems cfg { lastID := resume } out.items).2 out.fin ≠ .streaming := by
    unfold bodyEnd
    cases he : (processItems cfg { lastID := resume } out.items).2 with
    | some e => exact processItems_early cfg _ _ e he
    | none =>
      simp only
      cases hf : out.fin with
      | clean => simp
      | readErr => simp
      | malformed b => simp only; split <;> simp
      | stillOpen => exact absurd hf h
  generalize bodyEnd cfg (processItems cfg { lastID := resume } out.items).2 out.fin = e at hb
  cases e <;> simp_all [mkBody]

/-- **call_stream_never_goes_quiet.**  As long as every body the server sends ends (by a clean end of
input, a read error or a malformed line — anything but staying open), after ANY first body and ANY
sequence of attempts (failed ones of any kinds, responses with any status, the caller's context
ending) the handler of a call's stream is in one of these states and in no other: it has forwarded the
call's response, it has sent the synthetic error response for the call, it has failed the connection
(every pending call then fails with the connection's error: C01, conn engine), it has stopped because
the caller's own context ended (the call returns that error), or it is about to make a further
attempt.  It never returns silently while the call is pending. -/
theorem call_stream_never_goes_quiet {M} (cfg : Cfg M) (first : ScanOut) (script : List Attempt)
    (h0 : first.fin ≠ .stillOpen)
    (hs : ∀ code body, Attempt.resp code body ∈ script → ∀ hdr, (body hdr).fin ≠ .stillOpen) :
    (run cfg first script).phase ≠ .ended .streaming := by
  have hab : ∀ prev retries (b : BodyOut M), b.fin ≠ .streaming → afterBody cfg prev retries b ≠ .ended .streaming := by
    intro prev retries b hb
    unfold afterBody
    split
    · simp
    · simp
    · rename_i h; exact absurd h hb
    · split
      · simp
      · split
        · split <;> simp
        · split <;> simp
  unfold run
  suffices h : ∀ r : Run M, r.phase ≠ .ended .streaming → (script.foldl (step cfg) r).phase ≠ .ended .streaming from
    h _ (hab _ _ _ (processBody_not_streaming cfg [] first h0))
  induction script with
  | nil => intro r hr; simpa using hr
  | cons a as ih =>
    intro r hr
    simp only [List.foldl_cons]
    apply ih (fun code body hm => hs code body (List.mem_cons_of_mem _ hm))
    unfold step
    cases hp : r.phase with
    | ended e => simp only; exact hr
    | reconnecting prev retries lastID hint attempt =>
      cases a with
      | terr e =>
        simp only
        split
        · simp
        · split <;> simp
      | ctxEnded sent => simp
      | resp code body =>
        simp only
        split
        · simp
        · exact hab _ _ _ (processBody_not_streaming cfg _ _ (hs code body (List.mem_cons_self ..) lastID))

/-! ## 5. unresumable streams -/

/-- **unresumable_fails_call.** A call stream whose first body ends without the client holding any
event id cannot be resumed: the synthetic error response ("request terminated without response") is
sent for the call, no reconnect is ever attempted, and nothing that happens afterwards changes that. -/
theorem unresumable_fails_call {M} (cfg : Cfg M) (hcall : cfg.forCall = true) (first : ScanOut)
    (hfin : (processBody cfg [] first).fin = .interrupted) (hid : (processBody cfg [] first).lastID = [])
    (script : List Attempt) :
    (run cfg first script).phase = .ended .synthetic ∧
    (run cfg first script).headers = [] ∧
    (run cfg first script).msgs = (processBody cfg [] first).msgs ∧
    (processBody cfg [] first).synthetic = true := by
  have hstart : (start cfg first).phase = .ended .synthetic := by
    simp [start, afterBody, hfin, hid, hcall]
  have hrun : run cfg first script = start cfg first := foldl_step_ended cfg _ _ hstart script
  rw [hrun]
  refine ⟨hstart, rfl, rfl, ?_⟩
  -- the synthetic flag of processBody
  simp only [processBody] at hfin hid ⊢
  have he : bodyEnd cfg (processItems cfg { lastID := [] } first.items).2 first.fin = .interrupted := by
    generalize bodyEnd cfg (processItems cfg { lastID := [] } first.items).2 first.fin = e at hfin
    cases e <;> simp [mkBody] at hfin ⊢
  rw [he] at hid ⊢
  simp only [mkBody] at hid ⊢
  simp [hid, hcall]

/-- byte level: a prefix none of whose complete events has an id (e.g. a server without an event
store), cut by an error or a clean end before the call's response: the call fails at once. -/
theorem no_ids_unresumable {M} (cfg : Cfg M) (hd : cfg.dropUnterminated = true) (hcall : cfg.forCall = true)
    (blocks : List Block) (hg : ∀ b ∈ blocks, ∀ l ∈ b, goodLine l = true) (n : Nat) (t : Term) (ht : t ≠ .open)
    (hnoid : ∀ e ∈ completeEvents blocks n, e.id = []) (hns : stops cfg (completeEvents blocks n) = false)
    (script : List Attempt) :
    (run cfg (scanBytes ((serialize blocks).take n) t) script).phase = .ended .synthetic ∧
    (run cfg (scanBytes ((serialize blocks).take n) t) script).headers = [] := by
  have hb := process_ignores_unterminated cfg hd [] blocks hg n t
  obtain ⟨_, hc, _⟩ := processBody_complete cfg [] (completeEvents blocks n) t
  obtain ⟨hl, hf⟩ := hc hns
  have hnil : lastIdOf [] (completeEvents blocks n) = [] := by
    generalize completeEvents blocks n = es at hnoid
    induction es with
    | nil => rfl
    | cons e es ih =>
      rw [lastIdOf_cons, if_pos (hnoid e (List.mem_cons_self ..))]
      exact ih (fun e' h' => hnoid e' (List.mem_cons_of_mem _ h'))
  have h := unresumable_fails_call cfg hcall (scanBytes ((serialize blocks).take n) t)
    (by rw [hb, hf, if_neg ht]) (by rw [hb, hl, hnil]) script
  exact ⟨h.1, h.2.1⟩

/-! ## 6. non-vacuity, and the unrepaired behaviours as counter-examples -/

/-- "id: 1\ndata: AA\n\n" ++ "id: 22\ndata: BB\n\n" -/
def exBlocks : List Block := [[[105, 100, 58, 32, 49], [100, 97, 116, 97, 58, 32, 65, 65]], [[105, 100, 58, 32, 50, 50], [100, 97, 116, 97, 58, 32, 66, 66]]]
def exStream : Bytes := [105, 100, 58, 32, 49, 10, 100, 97, 116, 97, 58, 32, 65, 65, 10, 10, 105, 100, 58, 32, 50, 50, 10, 100, 97, 116, 97, 58, 32, 66, 66, 10, 10]

/-- `dropUnterminated = fix`; decodes exactly "AA" ↦ 1 and "BB" ↦ 2; message 2 is the call's response -/
def exCfg (fix keep : Bool) : Cfg Nat :=
  { decode := fun d => if d = [65, 65] then some 1 else if d = [66, 66] then some 2 else none,
    isReply := fun m => m == 2, forCall := true, maxRetries := 2, dropUnterminated := fix, keepCursor := keep }

example : serialize exBlocks = exStream := by decide
theorem exBlocks_faithful : Faithful exBlocks := ⟨by decide, by decide, by decide⟩
example : exStream.length = 33 := by decide

/-- non-vacuity of the end-to-end statement: cut after the first event by a read error, one transport
error, an empty resumed body, then the rest: both messages, each once; headers all "1" -/
example :
    (runF (exCfg true true) exBlocks 16 .err [.terr {}, .resp 200 0 .eof, .resp 200 100 .eof]).msgs = [1, 2] ∧
    (runF (exCfg true true) exBlocks 16 .err [.terr {}, .resp 200 0 .eof, .resp 200 100 .eof]).headers = [[49], [49], [49]] ∧
    (runF (exCfg true true) exBlocks 16 .err [.terr {}, .resp 200 0 .eof, .resp 200 100 .eof]).phase = .ended .replied := by
  decide

/-- non-vacuity: the first body cut after event "1" by a read error; a dial timeout (answers
`Is(DeadlineExceeded)` and `Timeout()`) before an empty resumed body, an error that answers
`Is(Canceled)` before the rest: the call completes with both messages, as without the failures -/
example :
    (runF (exCfg true true) exBlocks 16 .err (withFaultsF
      [([{ isDeadline := true, isTimeout := true }], .resp 200 0 .eof), ([{ isCanceled := true }], .resp 200 100 .eof)])).phase
        = .ended .replied ∧
    (runF (exCfg true true) exBlocks 16 .err (withFaultsF
      [([{ isDeadline := true, isTimeout := true }], .resp 200 0 .eof), ([{ isCanceled := true }], .resp 200 100 .eof)])).msgs
        = [1, 2] ∧
    (runF (exCfg true true) exBlocks 16 .err [.resp 200 0 .eof, .resp 200 100 .eof]).phase = .ended .replied := by
  decide

/-- the bound is needed: `maxRetries` (= 2) failed attempts in a row fail the connection although the
server would have answered the third -/
example :
    (runF (exCfg true true) exBlocks 16 .err (withFaultsF
      [([{ isDeadline := true }, { isTimeout := true }], .resp 200 100 .eof)])).phase = .ended (.failed .connect) := by
  decide

/-- the hypothesis is needed: a server that leaves the body of a call open without sending the
response keeps the call pending -/
example : (runF (exCfg true true) exBlocks 16 .open []).phase = .ended .streaming := by decide

/-- the scanner itself (and therefore the exported `scanEvents`, whose dispatch at the end of input is
pinned by `TestScanEvents`) does yield the trailing incomplete event at a clean end of input: here the
second event with a truncated payload "B" -/
theorem scanner_dispatches_unterminated_at_eof :
    scanEventsPublic (exStream.take 30) .eof =
      ([{ id := [49], data := [65, 65] }, { id := [50, 50], data := [66] }], .clean) := by decide

/-- F5, unrepaired consumer, cut inside `data:`: the truncated payload reaches the decoder and the
connection is failed permanently; the repaired consumer sees an interruption after event "1" -/
theorem unrepaired_surfaces_truncated_data :
    (processBody (exCfg false false) [] (scanBytes (exStream.take 30) .eof)).fin = .failed .decode ∧
    (processBody (exCfg true false) [] (scanBytes (exStream.take 30) .eof)).fin = .interrupted ∧
    (processBody (exCfg true false) [] (scanBytes (exStream.take 30) .eof)).lastID = [49] := by decide

/-- F5, cut right after the `id:` line: the unrepaired consumer records id "22" although its data
never arrived (a resumption from "22" skips message 2) -/
theorem unrepaired_records_id_without_data :
    (processBody (exCfg false false) [] (scanBytes (exStream.take 23) .eof)).lastID = [50, 50] ∧
    (processBody (exCfg false false) [] (scanBytes (exStream.take 23) .eof)).msgs = [1] ∧
    (processBody (exCfg true false) [] (scanBytes (exStream.take 23) .eof)).lastID = [49] := by decide

/-- F5, cut inside the `id:` value: a truncated Last-Event-ID "2" -/
theorem unrepaired_records_truncated_id :
    (processBody (exCfg false false) [] (scanBytes (exStream.take 21) .eof)).lastID = [50] ∧
    (processBody (exCfg true false) [] (scanBytes (exStream.take 21) .eof)).lastID = [49] := by decide

/-- F5, cut inside a field name: "malformed line", a hard failure of the connection -/
theorem unrepaired_fails_on_truncated_line :
    (processBody (exCfg false false) [] (scanBytes (exStream.take 18) .eof)).fin = .failed .malformed ∧
    (processBody (exCfg true false) [] (scanBytes (exStream.take 18) .eof)).fin = .interrupted := by decide

/-- so `process_ignores_unterminated` is false for the unrepaired consumer -/
theorem process_ignores_unterminated_fails_unrepaired :
    ¬ (∀ (n : Nat) (t : Term),
        processBody (exCfg false false) [] (scanBytes ((serialize exBlocks).take n) t) =
        processBody (exCfg false false) [] ⟨terminatedItems (completeEvents exBlocks n), endOf t⟩) := by
  intro h
  have := congrArg (·.lastID) (h 23 .eof)
  revert this
  decide

/-- F18, the cursor is not kept (`keepCursor = false`): a resumed body that ends before its first
complete event makes the client fail a perfectly resumable call (synthetic error after ONE fruitless
reconnect, whatever `maxRetries`); with the cursor kept it asks again with the same id and completes -/
theorem cursor_lost_fails_resumable_call :
    (runF (exCfg true false) exBlocks 16 .err [.resp 200 0 .eof, .resp 200 100 .eof]).phase = .ended .synthetic ∧
    (runF (exCfg true true) exBlocks 16 .err [.resp 200 0 .eof, .resp 200 100 .eof]).phase = .ended .replied ∧
    (runF (exCfg true true) exBlocks 16 .err [.resp 200 0 .eof, .resp 200 100 .eof]).msgs = [1, 2] := by decide

/-- F18 on the standalone stream (`forCall = false`): after the event-less body the next request goes
out WITHOUT Last-Event-ID (`[]`), and a faithful server answers from the start: message 1 twice (a
real server attaches a fresh standalone stream instead and the messages in between are lost) -/
theorem cursor_lost_standalone_drops_header :
    (runF { exCfg true false with forCall := false } exBlocks 16 .err [.resp 200 0 .eof, .resp 200 100 .open]).headers = [[49], []] ∧
    (runF { exCfg true false with forCall := false } exBlocks 16 .err [.resp 200 0 .eof, .resp 200 100 .open]).msgs = [1, 1, 2] ∧
    (runF { exCfg true true with forCall := false } exBlocks 16 .err [.resp 200 0 .eof, .resp 200 100 .open]).headers = [[49], [49]] ∧
    (runF { exCfg true true with forCall := false } exBlocks 16 .err [.resp 200 0 .eof, .resp 200 100 .open]).msgs = [1, 2] := by decide

/-- non-vacuity of `bounded_fruitless_retries`: three (= maxRetries + 1) event-less bodies after a
cut: "exceeded retries without progress" -/
example :
    (runF (exCfg true true) exBlocks 16 .err [.resp 200 0 .eof, .resp 200 0 .err, .resp 200 0 .eof]).phase
      = .ended (.failed .exceeded) := by decide

/-- non-vacuity of `unresumable_fails_call`: a cut before the first complete event -/
example : (runF (exCfg true true) exBlocks 10 .eof [.resp 200 100 .eof]).phase = .ended .synthetic ∧
    (runF (exCfg true true) exBlocks 10 .eof [.resp 200 100 .eof]).headers = [] := by decide

/-- the MaxRetries defaulting and the status classes the loop depends on (regenerated tables) -/
theorem maxRetries_defaulting : maxRetriesOf 0 = 5 ∧ maxRetriesOf (-1) = 0 ∧ maxRetriesOf 3 = 3 := by decide
theorem reconnect_statuses :
    checkResponse 200 = none ∧ checkResponse 404 = some .sessionGone ∧ checkResponse 503 = some (.rejected 503) ∧
    checkResponse 400 = some (.status 400) := by decide

end ClientStream
