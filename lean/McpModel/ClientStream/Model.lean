import McpModel.Generated.ClientStreamGen
/-
E6 — model of the streamable client's SSE body processing and reconnect loop.  Serves C09.

Code: mcp/event.go:74-160 (`scanEvents`; after fix F05 `scanEventsT`, the same loop that also says
whether an event was terminated by a blank line and whether a malformed line was cut by the end of
input), mcp/streamable.go:2508-2565 (`handleSSE`), 2571-2604 (`checkResponse`), 2610-2696
(`processStream`), 2712-2764 (`connectSSE`).

Modelling decisions (from notes/sketches/sse_*.lean.txt):
* a body is a list of complete lines (bytes without the '\n') plus the bytes after the last '\n'
  (`bufio.Reader.ReadBytes('\n')` does that splitting; `splitLines` is its model) plus how the
  body ended: `eof` (clean end of input), `err` (a read error), `open` (nothing more has arrived);
* field keys are byte lists regenerated from the Go constants;
* JSON decoding is a parameter `decode : Bytes → Option M` (Go: `jsonrpc.DecodeMessage`, trusted);
* one `step` of the loop = one HTTP attempt of `connectSSE` together with everything `handleSSE`
  does until the next attempt (these run on one goroutine; nothing else touches their variables).
* a failed attempt carries what its error answers to the tests a retry loop could apply to it (`TErr`);
  the tests under which `connectSSE` leaves the loop on the ERROR are regenerated from the code
  (`stopOnIsCanceled` … — none as built); the end of the CALLER's context while the loop is reconnecting
  is an input of its own (`Attempt.ctxEnded`: `connectSSE` returns `ctx.Err()`, `handleSSE` returns
  without failing the connection, the call completes with the context's error in the layer above).
Not modelled: the end of the caller's context while a BODY is processed and `Close` of the connection
(the `ctx.Err() != nil` arm of `processStream` and the `<-c.done` arms), Unicode white space in
`TrimSpace` (ASCII only), the overflow of `time.Duration(n) * time.Millisecond`.
`dropUnterminated = false` and `keepCursor = false` describe the unrepaired code (defects F5 and
"cursor lost"); they are kept for the counter-example theorems.
Core Lean only (linked into the driver).
-/
namespace ClientStream
open Generated.ClientStream

abbrev Bytes := List UInt8

def nl : UInt8 := 10
def colon : UInt8 := 58
def sp : UInt8 := 32

/-- An SSE event (`mcp.Event`). -/
structure Event where
  name  : Bytes := []
  id    : Bytes := []
  data  : Bytes := []
  retry : Bytes := []
deriving DecidableEq, Repr

/-- `Event.Empty` -/
def Event.isEmpty (e : Event) : Bool :=
  e.name.isEmpty && e.id.isEmpty && e.data.isEmpty && e.retry.isEmpty

/-! ### bytes helpers -/

/-- remove the trailing bytes satisfying `p` (`bytes.TrimRight`) -/
def dropTrailing (p : UInt8 → Bool) : Bytes → Bytes
  | [] => []
  | b :: bs =>
    match dropTrailing p bs with
    | [] => if p b then [] else [b]
    | r => b :: r

def isEOL (b : UInt8) : Bool := b == 13 || b == 10
/-- ASCII white space of `unicode.IsSpace` -/
def isSpace (b : UInt8) : Bool := b == 32 || b == 9 || b == 10 || b == 11 || b == 12 || b == 13

/-- `bytes.TrimRight(line, "\r\n")` -/
def trimEOL (l : Bytes) : Bytes := dropTrailing isEOL l
/-- `bytes.TrimSpace` / `strings.TrimSpace` (ASCII) -/
def trimSpace (v : Bytes) : Bytes := dropTrailing isSpace (v.dropWhile isSpace)

/-- `bytes.Cut(line, ":")` -/
def cutColon : Bytes → Option (Bytes × Bytes)
  | [] => none
  | b :: bs =>
    if b = colon then some ([], bs) else
      match cutColon bs with
      | some (k, v) => some (b :: k, v)
      | none => none

/-- What `bufio.Reader.ReadBytes('\n')` makes of a byte string: the complete lines (without their
'\n') and what follows the last '\n'. -/
def splitLines : Bytes → List Bytes × Bytes
  | [] => ([], [])
  | b :: bs =>
    let r := splitLines bs
    if b = nl then ([] :: r.1, r.2)
    else match r.1 with
      | [] => ([], b :: r.2)
      | l :: ls => ((b :: l) :: ls, r.2)

/-! ### the scanner -/

/-- scanner state: the event under construction and `dataBuf != nil` -/
structure Cur where
  ev : Event := {}
  hasData : Bool := false
deriving DecidableEq, Repr

/-- the `switch` on the field key -/
def applyField (c : Cur) (k v : Bytes) : Cur :=
  if k = eventKey then { c with ev := { c.ev with name := trimSpace v } }
  else if k = idKey then { c with ev := { c.ev with id := trimSpace v } }
  else if k = retryKey then { c with ev := { c.ev with retry := trimSpace v } }
  else if k = dataKey then
    { ev := { c.ev with data := if c.hasData then c.ev.data ++ nl :: trimSpace v else trimSpace v },
      hasData := true }
  else c

/-- a non-blank line; `none` = "malformed line" (no colon) -/
def fieldLine (c : Cur) (line : Bytes) : Option Cur :=
  match cutColon line with
  | none => none
  | some (k, v) => some (applyField c k v)

/-- how a body ended -/
inductive Term where
  | eof   -- clean end of input
  | err   -- read error
  | open  -- nothing more has arrived (yet)
deriving DecidableEq, Repr

/-- a yielded event, and whether a blank line terminated it -/
structure Item where
  ev : Event
  terminated : Bool
deriving DecidableEq, Repr

inductive ScanEnd where
  | clean                       -- end of input
  | readErr                     -- "error reading event"
  | malformed (atEOF : Bool)    -- "malformed line"; `atEOF`: the line was ended by the end of input
  | stillOpen
deriving DecidableEq, Repr

structure ScanOut where
  items : List Item
  fin : ScanEnd
deriving DecidableEq, Repr

/-- `yieldEvent` -/
def dispatch (c : Cur) (terminated : Bool) : List Item :=
  if c.ev.isEmpty then [] else [⟨c.ev, terminated⟩]

/-- the `for` loop of `scanEvents(T)` over the complete lines, then the end of the body -/
def scanFrom (c : Cur) : List Bytes → Bytes → Term → ScanOut
  | [], _, .err => ⟨[], .readErr⟩
  | [], _, .open => ⟨[], .stillOpen⟩
  | [], tail, .eof =>
    let l := trimEOL tail
    if l = [] then ⟨dispatch c false, .clean⟩
    else match fieldLine c l with
      | none => ⟨[], .malformed true⟩
      | some c' => ⟨dispatch c' false, .clean⟩
  | raw :: ls, tail, t =>
    let l := trimEOL raw
    if l = [] then
      let r := scanFrom {} ls tail t
      ⟨dispatch c true ++ r.items, r.fin⟩
    else match fieldLine c l with
      | none => ⟨[], .malformed false⟩
      | some c' => scanFrom c' ls tail t

/-- the scanner on the bytes of a body -/
def scanBytes (bs : Bytes) (t : Term) : ScanOut :=
  scanFrom {} (splitLines bs).1 (splitLines bs).2 t

/-- what the exported `scanEvents` yields: the same events without the flags -/
def scanEventsPublic (bs : Bytes) (t : Term) : List Event × ScanEnd :=
  ((scanBytes bs t).items.map (·.ev), (scanBytes bs t).fin)

/-! ### the writer (`writeEvent`) and well-formed streams -/

def field (k v : Bytes) : Bytes := k ++ colon :: sp :: v

/-- the lines `writeEvent` writes for one event, including the terminating blank line -/
def writeEvent (e : Event) : List Bytes :=
  (if e.name = [] then [] else [field eventKey e.name]) ++
  (if e.id = [] then [] else [field idKey e.id]) ++
  (if e.retry = [] then [] else [field retryKey e.retry]) ++
  [field dataKey e.data, []]

def serializeLines (ls : List Bytes) : Bytes := ls.flatMap (· ++ [nl])

/-- A block: the non-blank lines of one event (or comment); it is terminated by a blank line. -/
abbrev Block := List Bytes

def blockLines (b : Block) : List Bytes := b ++ [[]]
def streamLines (bs : List Block) : List Bytes := bs.flatMap blockLines
/-- the bytes of a well-formed event stream -/
def serialize (bs : List Block) : Bytes := serializeLines (streamLines bs)

/-- a line of a block: one line (no '\n'), not blank, with a colon -/
def goodLine (l : Bytes) : Bool :=
  !l.contains nl && !(trimEOL l).isEmpty && (cutColon (trimEOL l)).isSome

def goodBlock (b : Block) : Bool := b.all goodLine

/-- the scanner state after the lines of a block -/
def curOf : Cur → Block → Cur
  | c, [] => c
  | c, l :: ls =>
    match fieldLine c (trimEOL l) with
    | some c' => curOf c' ls
    | none => c
/-- the event a block denotes -/
def eventOf (b : Block) : Event := (curOf {} b).ev

/-- number of bytes of a block on the wire -/
def blockLen (b : Block) : Nat := (serialize [b]).length

/-- how many blocks lie wholly inside the first `n` bytes of the stream -/
def completeCount : List Block → Nat → Nat
  | [], _ => 0
  | b :: bs, n => if blockLen b ≤ n then completeCount bs (n - blockLen b) + 1 else 0

/-- the events of the blocks that the scanner reports (empty ones are never dispatched) -/
def eventsOf (bs : List Block) : List Event := (bs.map eventOf).filter (fun e => !e.isEmpty)

/-! ### `processStream` -/

inductive Fail where
  | decode                    -- "failed to decode event"
  | malformed                 -- "malformed line in SSE stream"
  | exceeded                  -- "exceeded N retries without progress"
  | connect                   -- "failed to reconnect": every attempt of connectSSE failed (or none was allowed)
  | rejected (status : Nat)   -- transient status (wrapped in ErrRejected), connection failed all the same
  | sessionGone               -- ErrSessionMissing
  | status (code : Nat)       -- any other non-2xx
deriving DecidableEq, Repr

inductive BodyEnd where
  | replied          -- the pending call's response was forwarded: `return "", 0, true`
  | failed (f : Fail)
  | interrupted      -- the loop ended: reconnect logic applies
  | streaming        -- the body is still open
deriving DecidableEq, Repr

structure Cfg (M : Type) where
  decode : Bytes → Option M
  /-- a response carrying the id of the pending call -/
  isReply : M → Bool
  /-- `forCall != nil` -/
  forCall : Bool
  maxRetries : Nat
  /-- fix F05: unterminated events are dropped, a line cut by the end of input is an interruption -/
  dropUnterminated : Bool := true
  /-- `handleSSE` hands `prevLastEventID` to `processStream` -/
  keepCursor : Bool := resumeKeepsCursor

structure Acc (M : Type) where
  msgs : List M := []
  lastID : Bytes := []
  hint : Int := 0
deriving Repr

/-- `strconv.ParseInt(s, 10, 64)` -/
def digitsVal : Bytes → Nat → Option Nat
  | [], acc => some acc
  | b :: bs, acc => if 48 ≤ b.toNat ∧ b.toNat ≤ 57 then digitsVal bs (acc * 10 + (b.toNat - 48)) else none

def parseInt64 (s : Bytes) : Option Int :=
  let go (neg : Bool) (r : Bytes) : Option Int :=
    if r = [] then none else
    match digitsVal r 0 with
    | none => none
    | some n =>
      if neg then (if n ≤ 9223372036854775808 then some (-(n : Int)) else none)
      else (if n < 9223372036854775808 then some (n : Int) else none)
  match s with
  | 45 :: r => go true r
  | 43 :: r => go false r
  | r => go false r

/-- the per-event bookkeeping before the data is looked at -/
def noteEvent {M} (a : Acc M) (e : Event) : Acc M :=
  { a with
    lastID := if e.id = [] then a.lastID else e.id,
    hint := if e.retry = [] then a.hint else (match parseInt64 e.retry with | some n => n | none => a.hint) }

/-- the body of the `for evt := range scanEvents(T)` loop; `some end` = the loop was left early -/
def processItems {M} (cfg : Cfg M) : Acc M → List Item → Acc M × Option BodyEnd
  | a, [] => (a, none)
  | a, it :: rest =>
    if cfg.dropUnterminated && !it.terminated then (a, some .interrupted)
    else
      let a := noteEvent a it.ev
      if it.ev.data = [] then processItems cfg a rest
      else if it.ev.name ≠ [] ∧ it.ev.name ≠ messageName then processItems cfg a rest
      else match cfg.decode it.ev.data with
        | none => (a, some (.failed .decode))
        | some m =>
          let a := { a with msgs := a.msgs ++ [m] }
          if cfg.forCall && cfg.isReply m then (a, some .replied) else processItems cfg a rest

structure BodyOut (M : Type) where
  msgs : List M          -- forwarded to `c.incoming`, in order
  lastID : Bytes         -- returned `lastEventID`
  hint : Int             -- returned `reconnectDelay`, ms
  fin : BodyEnd
  synthetic : Bool       -- the synthetic "request terminated without response" was sent
deriving Repr

def bodyEnd {M} (cfg : Cfg M) (early : Option BodyEnd) (fin : ScanEnd) : BodyEnd :=
  match early with
  | some e => e
  | none =>
    match fin with
    | .clean => .interrupted
    | .readErr => .interrupted
    | .malformed atEOF => if cfg.dropUnterminated && atEOF then .interrupted else .failed .malformed
    | .stillOpen => .streaming

/-- what `processStream` returns (and whether it sent the synthetic error) once its loop is over -/
def mkBody {M} (cfg : Cfg M) (a : Acc M) (e : BodyEnd) : BodyOut M :=
  match e with
  | .interrupted =>
    { msgs := a.msgs, lastID := a.lastID, hint := a.hint, fin := .interrupted,
      synthetic := a.lastID.isEmpty && cfg.forCall }
  | .streaming => { msgs := a.msgs, lastID := a.lastID, hint := a.hint, fin := .streaming, synthetic := false }
  | e => { msgs := a.msgs, lastID := [], hint := 0, fin := e, synthetic := false }

/-- `processStream` on one response body; `resume` is the initial value of `lastEventID`
(`prevLastEventID` once the cursor is kept, `""` before) -/
def processBody {M} (cfg : Cfg M) (resume : Bytes) (out : ScanOut) : BodyOut M :=
  let r := processItems cfg { lastID := resume } out.items
  mkBody cfg r.1 (bodyEnd cfg r.2 out.fin)

/-! ### `handleSSE` / `connectSSE` / `checkResponse` -/

inductive Ended where
  | replied          -- the call's own response reached the session
  | synthetic        -- unresumable: the synthetic error response reached the session
  | failed (f : Fail)  -- `c.fail(err)`: the connection is broken, every pending call fails
  | streaming        -- the body stays open
  | cancelled        -- the caller's context ended while reconnecting: the loop stops, the connection is not failed
deriving DecidableEq, Repr

inductive Phase where
  /-- inside `connectSSE`, about to make attempt number `attempt` (1-based) -/
  | reconnecting (prev : Bytes) (retries : Nat) (lastID : Bytes) (hint : Int) (attempt : Nat)
  | ended (e : Ended)
deriving DecidableEq, Repr

structure Run (M : Type) where
  phase : Phase
  msgs : List M            -- everything forwarded to the session so far
  headers : List Bytes     -- Last-Event-ID of every reconnect attempt so far ([] = header absent)
deriving Repr

/-- the part of the `handleSSE` loop between `processStream` and the first attempt of `connectSSE` -/
def afterBody {M} (cfg : Cfg M) (prev : Bytes) (retries : Nat) (b : BodyOut M) : Phase :=
  match b.fin with
  | .replied => .ended .replied
  | .failed f => .ended (.failed f)
  | .streaming => .ended .streaming
  | .interrupted =>
    if b.lastID = [] ∧ cfg.forCall = true then .ended .synthetic
    else if b.lastID ≠ [] ∧ b.lastID ≠ prev then
      -- progress; connectSSE: `for attempt := 1; attempt <= maxRetries`
      if cfg.maxRetries = 0 then .ended (.failed .connect) else .reconnecting b.lastID 0 b.lastID b.hint 1
    else if retries + 1 > cfg.maxRetries then .ended (.failed .exceeded)
    else .reconnecting prev (retries + 1) b.lastID b.hint 1   -- (maxRetries ≥ 1 here)

/-- What the error of a failed `client.Do` answers to the tests a retry loop could apply to it.  Every
timeout of `net` and `net/http` (dial "i/o timeout", "timeout awaiting response headers",
`http.Client.Timeout`) answers `errors.Is(err, context.DeadlineExceeded)` and `Timeout()`, an error of a
request whose OWN context (not the caller's) was cancelled answers `errors.Is(err, context.Canceled)` —
all while the caller's context is live. -/
structure TErr where
  isCanceled : Bool := false
  isDeadline : Bool := false
  isTimeout : Bool := false
deriving DecidableEq, Repr

/-- does the branch taken when `client.Do` fails leave the retry loop on this error? (regenerated tests) -/
def errStops (e : TErr) : Bool :=
  (stopOnIsCanceled && e.isCanceled) || (stopOnIsDeadline && e.isDeadline) || (stopOnTimeout && e.isTimeout) ||
    stopOnOtherTest

/-- one HTTP attempt of `connectSSE` -/
inductive Attempt where
  /-- `client.Do` failed with an error of kind `e`; the caller's context is live -/
  | terr (e : TErr)
  /-- the caller's context ended: while the request was in flight (`sent`: `client.Do` fails with the
  context's error) or during the wait before it (no request goes out) -/
  | ctxEnded (sent : Bool)
  | resp (code : Nat) (body : Bytes → ScanOut)   -- a response; the body may depend on the Last-Event-ID sent

def isTransient (code : Nat) : Bool := transientStatuses.contains code

/-- `checkResponse` -/
def checkResponse (code : Nat) : Option Fail :=
  if isTransient code then some (.rejected code)
  else if code = sessionGoneStatus then some .sessionGone
  else if code < 200 ∨ code ≥ 300 then some (.status code)
  else none

def resumeOf {M} (cfg : Cfg M) (prev : Bytes) : Bytes := if cfg.keepCursor then prev else []

def step {M} (cfg : Cfg M) (r : Run M) (a : Attempt) : Run M :=
  match r.phase with
  | .ended _ => r
  | .reconnecting prev retries lastID hint attempt =>
    let hs := r.headers ++ [lastID]
    match a with
    | .terr e =>
      -- an early exit on the error (none as built): `handleSSE` finds the caller's context live and fails the connection
      if errStops e then { r with phase := .ended (.failed .connect), headers := hs }
      else if attempt + 1 > cfg.maxRetries then { r with phase := .ended (.failed .connect), headers := hs }
      else { r with phase := .reconnecting prev retries lastID hint (attempt + 1), headers := hs }
    | .ctxEnded sent =>
      -- `select { case <-ctx.Done(): return nil, ctx.Err() }`; `handleSSE`: `ctx.Err() != nil`, plain return
      { r with phase := .ended .cancelled, headers := if sent then hs else r.headers }
    | .resp code body =>
      match checkResponse code with
      | some f => { r with phase := .ended (.failed f), headers := hs }
      | none =>
        let b := processBody cfg (resumeOf cfg prev) (body lastID)
        { phase := afterBody cfg prev retries b, msgs := r.msgs ++ b.msgs, headers := hs }

/-- the first body: the POST's response stream, or the initial GET of the standalone stream -/
def start {M} (cfg : Cfg M) (first : ScanOut) : Run M :=
  let b := processBody cfg [] first
  { phase := afterBody cfg [] 0 b, msgs := b.msgs, headers := [] }

def run {M} (cfg : Cfg M) (first : ScanOut) (script : List Attempt) : Run M :=
  script.foldl (step cfg) (start cfg first)

/-! ### the back-off schedule (`calculateReconnectDelay`), for the timing monitor -/

/-- `reconnectInitialDelay * growFactor^(attempt-1)` capped at `reconnectMaxDelay`, in ns -/
def backoffNs (attempt : Nat) : Nat :=
  if attempt = 0 then 0
  else min (initialDelayNs * growNum ^ (attempt - 1) / growDen ^ (attempt - 1)) maxDelayNs

/-- the delay before attempt `attempt`: exactly the server's hint for the first attempt when there is
one, else the back-off plus a jitter in `[0, backoff)`; `(lo, hi)` inclusive-exclusive, ns -/
def delayWindow (hint : Int) (attempt : Nat) : Nat × Nat :=
  if attempt = 1 ∧ hint > 0 then (hint.toNat * 1000000, hint.toNat * 1000000 + 1)
  else (backoffNs attempt, 2 * backoffNs attempt)

end ClientStream
