import McpModel.ClientStream.BridgeBody
/-!
# Bridge, part 2: index lists and slices

The monitor reads the log through indices (`s.items[i]?`); the body lemma of part 1 speaks about the
slice of completely received items.  For the indices `range' f k` of a slice the two views agree.
-/
set_option linter.unusedSimpArgs false
namespace ClientStream
open Generated.ClientStream

variable {L : Type}

theorem map_get_range' (items : List (LItem L)) (f k : Nat) (hk : f + k ≤ items.length) :
    (List.range' f k).map (fun i => items[i]?) = ((items.drop f).take k).map some := by
  apply List.ext_getElem?
  intro n
  simp only [List.getElem?_map, List.getElem?_take, List.getElem?_drop]
  by_cases hn : n < k
  · have : f + n < items.length := by omega
    simp [hn, this, Option.filter]
  · simp [hn]

/-- a strictly increasing list of numbers in `[a, a+n)` is a sublist of `range' a n` -/
theorem sublist_range' (l : List Nat) (a n : Nat) (hp : l.Pairwise (· < ·)) (hb : ∀ i ∈ l, a ≤ i ∧ i < a + n) :
    l.Sublist (List.range' a n) := by
  induction n generalizing a l with
  | zero =>
    cases l with
    | nil => exact .slnil
    | cons x xs => have := hb x (List.mem_cons_self ..); omega
  | succ n ih =>
    rw [List.range'_succ]
    cases l with
    | nil => exact List.nil_sublist _
    | cons x xs =>
      obtain ⟨hx, hxs⟩ := List.pairwise_cons.1 hp
      by_cases hxa : x = a
      · subst hxa
        apply List.Sublist.cons_cons
        apply ih _ _ hxs
        intro i hi
        have := hb i (List.mem_cons_of_mem _ hi)
        have := hx i hi
        omega
      · apply List.Sublist.cons
        apply ih _ _ hp
        intro i hi
        have h1 := hb i hi
        rcases List.mem_cons.1 hi with rfl | hi'
        · omega
        · have := hx i hi'
          have := hb x (List.mem_cons_self ..)
          omega

theorem sublist_range (l : List Nat) (n : Nat) (hp : l.Pairwise (· < ·)) (hb : ∀ i ∈ l, i < n) :
    l.Sublist (List.range n) := by
  rw [List.range_eq_range']
  exact sublist_range' l 0 n hp (fun i hi => ⟨Nat.zero_le _, by have := hb i hi; omega⟩)

theorem pairwise_range'_filter (p : Nat → Bool) (f k : Nat) : ((List.range' f k).filter p).Pairwise (· < ·) :=
  (List.pairwise_lt_range').sublist (List.filter_sublist)

/-! ### the monitor's index functions on a slice -/

/-- the item at index `i` carries a message -/
def carriesIdx (s : Scn L) (i : Nat) : Bool :=
  match s.items[i]? with
  | some it => carries it
  | none => false

def idOfIdx (s : Scn L) (i : Nat) : Bytes := (s.items[i]?).map (·.ev.id) |>.getD []

/-- the cursor after receiving the items `idx` completely, starting from `cur` -/
def lastIdIdx (s : Scn L) (cur : Bytes) (idx : List Nat) : Bytes :=
  idx.foldl (fun c i => if s.hasId i then idOfIdx s i else c) cur

theorem cursor_match_eq (s : Scn L) (cur : Bytes) (idx : List Nat) :
    (match (idx.filter s.hasId).getLast? with
      | some i => (s.items[i]?).map (·.ev.id) |>.getD []
      | none => cur) = lastIdIdx s cur idx := by
  induction idx generalizing cur with
  | nil => simp [lastIdIdx]
  | cons i rest ih =>
    simp only [lastIdIdx, List.foldl_cons, List.filter_cons]
    by_cases h : s.hasId i = true
    · simp only [h, if_true]
      rw [← lastIdIdx, ← ih, List.getLast?_cons]
      cases (rest.filter s.hasId).getLast? <;> simp [idOfIdx]
    · simp only [h, Bool.false_eq_true, if_false]
      exact ih cur

theorem cursorOf_snoc' (s : Scn L) (ex : List Exch) (e : Exch) :
    cursorOf s (ex ++ [e]) = lastIdIdx s (cursorOf s ex) e.complete := by
  rw [cursorOf_snoc]
  exact cursor_match_eq s (cursorOf s ex) e.complete

section slice
variable (s : Scn L) (hs : ScnOK s) (f c : Nat)

theorem slice_bound : f + ccount (s.items.drop f) c ≤ s.items.length ∨ s.items.length < f := by
  have := ccount_le (s.items.drop f) c
  simp at this
  omega

/-- the indices of the completely received items of a body -/
def idxOf (s : Scn L) (f c : Nat) : List Nat := completeIdx (s.items.drop f) f c

theorem idxOf_eq : idxOf s f c = List.range' f (ccount (s.items.drop f) c) := completeIdx_eq _ _ _

theorem idxOf_get : (idxOf s f c).map (fun i => s.items[i]?) = (sliceOf s f c).map some := by
  rw [idxOf_eq]
  rcases slice_bound s f c with h | h
  · exact map_get_range' s.items f _ h
  · have : s.items.drop f = [] := List.drop_eq_nil_iff.2 (by omega)
    simp [sliceOf, this, ccount]

theorem idxOf_mem (i : Nat) (h : i ∈ idxOf s f c) : f ≤ i ∧ i < s.items.length := by
  rw [idxOf_eq] at h
  have hm := List.mem_range'_1.1 h
  rcases slice_bound s f c with hb | hb
  · omega
  · have : s.items.drop f = [] := List.drop_eq_nil_iff.2 (by omega)
    rw [this] at hm
    simp [ccount] at hm
    omega

/-- any function of an index that only looks at `s.items[i]?`, filterMap'ed over the indices of a slice -/
theorem idxOf_filterMap {β} (g : Option (LItem L) → Option β) :
    (idxOf s f c).filterMap (fun i => g s.items[i]?) = (sliceOf s f c).filterMap (fun it => g (some it)) := by
  have := congrArg (List.filterMap g) (idxOf_get s f c)
  simpa [List.filterMap_map, Function.comp_def] using this

theorem idxOf_foldl {β} (g : β → Option (LItem L) → β) (b : β) :
    (idxOf s f c).foldl (fun acc i => g acc s.items[i]?) b = (sliceOf s f c).foldl (fun acc it => g acc (some it)) b := by
  have := congrArg (List.foldl g b) (idxOf_get s f c)
  simpa [List.foldl_map] using this

theorem idxOf_any (g : Option (LItem L) → Bool) :
    (idxOf s f c).any (fun i => g s.items[i]?) = (sliceOf s f c).any (fun it => g (some it)) := by
  have := congrArg (List.any · g) (idxOf_get s f c)
  simpa [List.any_map, Function.comp_def] using this

end slice

theorem filterMap_congr' {α β} {g h : α → Option β} (l : List α) (e : ∀ a ∈ l, g a = h a) :
    l.filterMap g = l.filterMap h := by
  induction l with
  | nil => rfl
  | cons a rest ih =>
    simp only [List.filterMap_cons, e a (List.mem_cons_self ..)]
    rw [ih (fun x hx => e x (List.mem_cons_of_mem _ hx))]

theorem any_congr' {α} {g h : α → Bool} (l : List α) (e : ∀ a ∈ l, g a = h a) : l.any g = l.any h := by
  induction l with
  | nil => rfl
  | cons a rest ih =>
    simp only [List.any_cons, e a (List.mem_cons_self ..)]
    rw [ih (fun x hx => e x (List.mem_cons_of_mem _ hx))]

/-! ### the monitor's quantities for the indices of a slice, in the vocabulary of the body lemma -/

section facts
variable (s : Scn L) (hs : ScnOK s) (f c : Nat)
include hs

theorem hasId_item (it : LItem L) (h : it ∈ s.items) : (!it.raw && it.ev.id != []) = (it.ev.id != []) := by
  cases hr : it.raw with
  | false => simp
  | true => have := (hs.item it h).raw hr; simp [this]

theorem slice_labels : labelsOf s (idxOf s f c) = (slMsgs (sliceOf s f c)).filter s.lab.isNotif := by
  have h := idxOf_filterMap s f c (fun o => o.bind (fun it => if s.lab.isNotif it.label then some it.label else none))
  unfold labelsOf
  rw [h]
  unfold slMsgs
  rw [List.filter_filterMap]
  apply filterMap_congr'
  intro it hit
  have hl := (hs.item it (mem_slice s f c it hit)).lab
  by_cases hn : s.lab.isNotif it.label = true
  · have : carries it = true := by rw [hl, hn]; rfl
    simp [hn, this, Option.filter]
  · have hn' : s.lab.isNotif it.label = false := by simpa using hn
    by_cases hc : carries it = true <;> simp [hn', hc, Option.filter]

theorem slice_lastId (cur : Bytes) :
    lastIdIdx s cur (idxOf s f c) = lastIdOf cur ((sliceOf s f c).map (·.ev)) := by
  have h := idxOf_foldl s f c
    (fun (cu : Bytes) (o : Option (LItem L)) =>
      if (match o with | some it => !it.raw && it.ev.id != [] | none => false) = true
      then (o.map (·.ev.id)).getD [] else cu) cur
  have h1 : lastIdIdx s cur (idxOf s f c) = (sliceOf s f c).foldl (fun cu it =>
      if (!it.raw && it.ev.id != []) = true then it.ev.id else cu) cur := by
    unfold lastIdIdx Scn.hasId idOfIdx; exact h
  rw [h1, lastIdOf, List.foldl_map]
  have key : ∀ (l : List (LItem L)), (∀ it ∈ l, it ∈ s.items) → ∀ cu : Bytes,
      l.foldl (fun cu it => if (!it.raw && it.ev.id != []) = true then it.ev.id else cu) cu =
      l.foldl (fun acc it => if it.ev.id = [] then acc else it.ev.id) cu := by
    intro l
    induction l with
    | nil => intro _ _; rfl
    | cons it rest ih =>
      intro hm cu
      simp only [List.foldl_cons]
      rw [hasId_item s hs it (hm it (List.mem_cons_self ..))]
      have : (if (it.ev.id != []) = true then it.ev.id else cu) = (if it.ev.id = [] then cu else it.ev.id) := by
        by_cases hid : it.ev.id = [] <;> simp [hid]
      rw [this]
      exact ih (fun x hx => hm x (List.mem_cons_of_mem _ hx)) _
  exact key _ (fun it h => mem_slice s f c it h) cur

theorem slice_hint : hintOfIdx s (idxOf s f c) = hintFold 0 ((sliceOf s f c).map (·.ev)) := by
  have h := idxOf_foldl s f c
    (fun (hh : Int) (o : Option (LItem L)) =>
      match o with
      | some it => if it.raw || it.ev.retry == [] then hh else (parseInt64 it.ev.retry).getD hh
      | none => hh) 0
  have h1 : hintOfIdx s (idxOf s f c) = (sliceOf s f c).foldl (fun hh it =>
      if it.raw || it.ev.retry == [] then hh else (parseInt64 it.ev.retry).getD hh) 0 := by
    unfold hintOfIdx; exact h
  rw [h1, hintFold, List.foldl_map]
  have key : ∀ (l : List (LItem L)), (∀ it ∈ l, it ∈ s.items) → ∀ hh : Int,
      l.foldl (fun hh it => if it.raw || it.ev.retry == [] then hh else (parseInt64 it.ev.retry).getD hh) hh =
      l.foldl (fun acc it => hintStep acc it.ev) hh := by
    intro l
    induction l with
    | nil => intro _ _; rfl
    | cons it rest ih =>
      intro hm hh
      simp only [List.foldl_cons]
      have : (if (it.raw || it.ev.retry == []) = true then hh else (parseInt64 it.ev.retry).getD hh) = hintStep hh it.ev := by
        unfold hintStep
        cases hr : it.raw with
        | true => have := (hs.item it (hm it (List.mem_cons_self ..))).raw hr; simp [this]
        | false => by_cases hre : it.ev.retry = [] <;> simp [hre]
      rw [this]
      exact ih (fun x hx => hm x (List.mem_cons_of_mem _ hx)) _
  exact key _ (fun it h => mem_slice s f c it h) 0

theorem slice_anyId : (idxOf s f c).any s.hasId = (sliceOf s f c).any (fun it => it.ev.id != []) := by
  have h := idxOf_any s f c (fun o => match o with | some it => !it.raw && it.ev.id != [] | none => false)
  have h1 : (idxOf s f c).any s.hasId = (sliceOf s f c).any (fun it => !it.raw && it.ev.id != []) := by
    rw [← h]; congr 1
  rw [h1]
  apply any_congr'
  intro it hit
  exact hasId_item s hs it (mem_slice s f c it hit)

end facts

end ClientStream
