import McpModel.ClientStream.Lemmas
/-!
E6 (C09): the reconnect loop against a faithful server (C08's guarantee), and the retry accounting.
-/
namespace ClientStream
open Generated.ClientStream

/-! ### vocabulary: a faithful server -/

/-- The server's log of one stream: well-formed blocks, every event with an id, ids pairwise
distinct (what C08 proves about the streamable server with an event store). -/
structure Faithful (log : List Block) : Prop where
  good : ∀ b ∈ log, ∀ l ∈ b, goodLine l = true
  hasId : ∀ b ∈ log, (eventOf b).id ≠ []
  nodup : (log.map (fun b => (eventOf b).id)).Nodup

/-- the blocks after the one whose event id is `h` -/
def after : List Block → Bytes → List Block
  | [], _ => []
  | b :: bs, h => if (eventOf b).id = h then bs else after bs h

/-- what a faithful server sends on a (re)connection carrying `Last-Event-ID: hdr` (`[]` = none) -/
def serve (log : List Block) (hdr : Bytes) : List Block := if hdr = [] then log else after log hdr

/-- the resume cursor a correct client holds after receiving the first `n` events completely -/
def cursorAt (log : List Block) (n : Nat) : Bytes := lastIdOf [] (eventsOf (log.take n))

/-- one HTTP attempt against the faithful server: a transport error, or a response with a status
whose body is the first `cut` bytes of what the server would send, ended by `t` -/
inductive FAttempt where
  | terr (e : TErr)
  | ctxEnded (sent : Bool)
  | resp (code cut : Nat) (t : Term)

def toAttempt (log : List Block) : FAttempt → Attempt
  | .terr e => .terr e
  | .ctxEnded sent => .ctxEnded sent
  | .resp code cut t => .resp code (fun hdr => scanBytes ((serialize (serve log hdr)).take cut) t)

/-! ### lemmas about the faithful server -/

theorem isEmpty_of_id {e : Event} (h : e.id ≠ []) : e.isEmpty = false := by
  cases hid : e.id with
  | nil => exact absurd hid h
  | cons a b => simp [Event.isEmpty, hid]

theorem Faithful.sub {log : List Block} (hf : Faithful log) (l : List Block) (hsub : ∀ b ∈ l, b ∈ log) :
    eventsOf l = l.map eventOf ∧ ∀ e ∈ l.map eventOf, e.id ≠ [] := by
  constructor
  · unfold eventsOf
    apply List.filter_eq_self.2
    intro e he
    obtain ⟨b, hb, rfl⟩ := List.mem_map.1 he
    simp [isEmpty_of_id (hf.hasId b (hsub b hb))]
  · intro e he
    obtain ⟨b, hb, rfl⟩ := List.mem_map.1 he
    exact hf.hasId b (hsub b hb)

theorem Faithful.tail {b : Block} {bs : List Block} (hf : Faithful (b :: bs)) : Faithful bs :=
  ⟨fun b' h => hf.good b' (List.mem_cons_of_mem _ h), fun b' h => hf.hasId b' (List.mem_cons_of_mem _ h),
   (List.nodup_cons.1 (by have := hf.nodup; rwa [List.map_cons] at this)).2⟩

theorem after_getElem (log : List Block) (hf : Faithful log) (m : Nat) (hm : m < log.length) :
    after log (eventOf log[m]).id = log.drop (m + 1) := by
  induction log generalizing m with
  | nil => simp at hm
  | cons b bs ih =>
    cases m with
    | zero => simp [after]
    | succ m =>
      have hm' : m < bs.length := by simpa using hm
      have hne : (eventOf b).id ≠ (eventOf bs[m]).id := by
        have hnd := (List.nodup_cons.1 (by have := hf.nodup; rwa [List.map_cons] at this)).1
        intro heq
        apply hnd
        rw [heq]
        exact List.mem_map.2 ⟨bs[m], List.getElem_mem hm', rfl⟩
      simp only [List.getElem_cons_succ, after, if_neg hne]
      rw [ih hf.tail m hm']
      simp

theorem cursorAt_zero (log : List Block) : cursorAt log 0 = [] := by simp [cursorAt, eventsOf, lastIdOf]

theorem cursorAt_succ (log : List Block) (hf : Faithful log) (m : Nat) (hm : m < log.length) :
    cursorAt log (m + 1) = (eventOf log[m]).id := by
  unfold cursorAt
  rw [List.take_add_one, eventsOf_append, lastIdOf_append]
  have : log[m]? = some log[m] := by simp [hm]
  rw [this]
  have hne := hf.hasId log[m] (List.getElem_mem hm)
  simp [eventsOf, isEmpty_of_id hne, lastIdOf, hne]

theorem serve_cursor (log : List Block) (hf : Faithful log) (n : Nat) (hn : n ≤ log.length) :
    serve log (cursorAt log n) = log.drop n := by
  cases n with
  | zero => simp [serve, cursorAt_zero]
  | succ m =>
    have hm : m < log.length := hn
    rw [cursorAt_succ log hf m hm]
    unfold serve
    rw [if_neg (hf.hasId _ (List.getElem_mem hm)), after_getElem log hf m hm]

/-- receiving `k` more events completely moves the cursor from `n` to `n + k` -/
theorem cursor_step (log : List Block) (n k : Nat) :
    lastIdOf (cursorAt log n) (eventsOf ((log.drop n).take k)) = cursorAt log (n + k) := by
  unfold cursorAt
  rw [← lastIdOf_append, ← eventsOf_append, List.take_add]

theorem cursor_step_fresh (log : List Block) (hf : Faithful log) (n k : Nat) (hk : 0 < k) (hnk : n + k ≤ log.length) :
    lastIdOf [] (eventsOf ((log.drop n).take k)) = cursorAt log (n + k) := by
  rw [← cursor_step]
  have hsub : ∀ b ∈ (log.drop n).take k, b ∈ log := fun b hb => List.mem_of_mem_drop (List.mem_of_mem_take hb)
  obtain ⟨he, hids⟩ := hf.sub _ hsub
  rw [he]
  apply lastIdOf_allIds _ _ _ _ hids
  intro h
  have : ((log.drop n).take k).length = 0 := by simpa using congrArg List.length h
  simp at this
  omega

/-! ### the loop against a faithful server -/

/-- the run of `handleSSE` against the faithful server for `log`: first body cut at `cut0`/`t0` -/
def runF {M} (cfg : Cfg M) (log : List Block) (cut0 : Nat) (t0 : Term) (script : List FAttempt) : Run M :=
  run cfg (scanBytes ((serialize log).take cut0) t0) (script.map (toAttempt log))

/-- the invariant of the loop: the session has seen exactly the messages of the first `n` events of
the log, every Last-Event-ID sent was a cursor of the log, and while reconnecting the client holds
the cursor of exactly those `n` events -/
def Inv {M} (cfg : Cfg M) (log : List Block) (r : Run M) : Prop :=
  ∃ n, n ≤ log.length ∧ r.msgs = specMsgs cfg (eventsOf (log.take n)) ∧
    (∀ h ∈ r.headers, ∃ j, j ≤ log.length ∧ h = cursorAt log j) ∧
    (match r.phase with
     | .reconnecting prev _ lastID _ _ =>
        stops cfg (eventsOf (log.take n)) = false ∧ lastID = cursorAt log n ∧ (cfg.keepCursor = true → prev = lastID)
     | .ended .replied => ∃ m ∈ r.msgs, cfg.isReply m = true
     | .ended _ => True)

theorem afterBody_inv {M} (cfg : Cfg M) (hd : cfg.dropUnterminated = true) (log : List Block) (hf : Faithful log)
    (n : Nat) (hn : n ≤ log.length) (hs : stops cfg (eventsOf (log.take n)) = false)
    (headers : List Bytes) (hh : ∀ h ∈ headers, ∃ j, j ≤ log.length ∧ h = cursorAt log j)
    (prev resume : Bytes) (retries : Nat)
    (hk : cfg.keepCursor = true → resume = cursorAt log n ∧ prev = cursorAt log n)
    (hnk : cfg.keepCursor = false → resume = [] ∧ cfg.forCall = true)
    (cut : Nat) (t : Term) :
    Inv cfg log
      { phase := afterBody cfg prev retries (processBody cfg resume (scanBytes ((serialize (log.drop n)).take cut) t)),
        msgs := specMsgs cfg (eventsOf (log.take n)) ++
          (processBody cfg resume (scanBytes ((serialize (log.drop n)).take cut) t)).msgs,
        headers := headers } := by
  have hgood : ∀ b ∈ log.drop n, ∀ l ∈ b, goodLine l = true := fun b hb => hf.good b (List.mem_of_mem_drop hb)
  rw [processBody_prefix cfg hd resume _ hgood cut t]
  unfold completeEvents
  have hkle := completeCount_le (log.drop n) cut
  generalize completeCount (log.drop n) cut = k at hkle
  have hnk' : n + k ≤ log.length := by simp at hkle; omega
  obtain ⟨hm, hns, hst⟩ := processBody_complete cfg resume (eventsOf ((log.drop n).take k)) t
  have htake : eventsOf (log.take n) ++ eventsOf ((log.drop n).take k) = eventsOf (log.take (n + k)) := by
    rw [← eventsOf_append, List.take_add]
  have hmsgs : specMsgs cfg (eventsOf (log.take n)) ++ specMsgs cfg (eventsOf ((log.drop n).take k)) =
      specMsgs cfg (eventsOf (log.take (n + k))) := by
    rw [← specMsgs_append cfg _ _ hs, htake]
  have hstops : stops cfg (eventsOf (log.take (n + k))) = stops cfg (eventsOf ((log.drop n).take k)) := by
    rw [← htake, stops_append cfg _ _ hs]
  generalize processBody cfg resume ⟨terminatedItems (eventsOf ((log.drop n).take k)), endOf t⟩ = b at hm hns hst
  refine ⟨n + k, hnk', by rw [hm, hmsgs], hh, ?_⟩
  cases hstop : stops cfg (eventsOf ((log.drop n).take k)) with
  | true =>
    rcases hst hstop with ⟨hfin, m, hmem, hrep⟩ | hfin
    · simp only [afterBody, hfin]
      exact ⟨m, by rw [hm]; exact List.mem_append_right _ hmem, hrep⟩
    · simp only [afterBody, hfin]
  | false =>
    obtain ⟨hid, hfin⟩ := hns hstop
    by_cases hopen : t = .open
    · simp only [hopen, if_true] at hfin
      simp only [afterBody, hfin]
    · simp only [hopen, if_false] at hfin
      -- the cursor after this body
      have hcur : b.lastID = [] ∧ cfg.forCall = true ∨ b.lastID = cursorAt log (n + k) := by
        cases hkc : cfg.keepCursor with
        | true =>
          right
          rw [hid, (hk hkc).1, cursor_step]
        | false =>
          obtain ⟨hr, hfc⟩ := hnk hkc
          by_cases hk0 : k = 0
          · left; subst hk0; simp [hid, hr, eventsOf, lastIdOf, hfc]
          · right; rw [hid, hr, cursor_step_fresh log hf n k (Nat.pos_of_ne_zero hk0) hnk']
      simp only [afterBody, hfin]
      rcases hcur with ⟨hnil, hfc⟩ | hcur
      · simp [hnil, hfc]
      · by_cases hsyn : b.lastID = [] ∧ cfg.forCall = true
        · simp [hsyn]
        · rw [if_neg hsyn]
          by_cases hprog : b.lastID ≠ [] ∧ b.lastID ≠ prev
          · rw [if_pos hprog]
            by_cases hmr : cfg.maxRetries = 0
            · simp [hmr]
            · rw [if_neg hmr]
              exact ⟨by rw [hstops, hstop], hcur, fun _ => rfl⟩
          · rw [if_neg hprog]
            by_cases hex : retries + 1 > cfg.maxRetries
            · simp [hex]
            · rw [if_neg hex]
              refine ⟨by rw [hstops, hstop], hcur, fun hkc => ?_⟩
              -- no progress while the cursor is kept: the cursor is unchanged
              obtain ⟨hr, hp⟩ := hk hkc
              by_cases hnil : b.lastID = []
              · have : resume = [] := lastIdOf_eq_nil _ _ (by rw [← hid]; exact hnil)
                rw [hnil, hp, ← hr, this]
              · have : ¬ (b.lastID ≠ prev) := fun h => hprog ⟨hnil, h⟩
                exact (Classical.not_not.1 this).symm

theorem start_inv {M} (cfg : Cfg M) (hd : cfg.dropUnterminated = true) (hH : cfg.forCall = true ∨ cfg.keepCursor = true)
    (log : List Block) (hf : Faithful log) (cut0 : Nat) (t0 : Term) :
    Inv cfg log (start cfg (scanBytes ((serialize log).take cut0) t0)) := by
  have h := afterBody_inv cfg hd log hf 0 (Nat.zero_le _) (by simp [eventsOf, stops]) [] (by simp) [] [] 0
    (fun _ => ⟨(cursorAt_zero log).symm, (cursorAt_zero log).symm⟩)
    (fun hk => ⟨rfl, by rcases hH with h | h; exact h; rw [h] at hk; cases hk⟩) cut0 t0
  simpa [start, eventsOf, specMsgs] using h

theorem step_inv {M} (cfg : Cfg M) (hd : cfg.dropUnterminated = true) (hH : cfg.forCall = true ∨ cfg.keepCursor = true)
    (log : List Block) (hf : Faithful log) (r : Run M) (hr : Inv cfg log r) (fa : FAttempt) :
    Inv cfg log (step cfg r (toAttempt log fa)) := by
  obtain ⟨n, hn, hmsgs, hh, hph⟩ := hr
  unfold step
  cases hphase : r.phase with
  | ended e => simp only; exact ⟨n, hn, hmsgs, hh, by rw [hphase] at hph ⊢; exact hph⟩
  | reconnecting prev retries lastID hint attempt =>
    rw [hphase] at hph
    obtain ⟨hs, hl, hp⟩ := hph
    have hh' : ∀ h ∈ r.headers ++ [lastID], ∃ j, j ≤ log.length ∧ h = cursorAt log j := by
      intro h hm
      rcases List.mem_append.1 hm with hm | hm
      · exact hh h hm
      · exact ⟨n, hn, by simpa [hl] using hm⟩
    cases fa with
    | terr e =>
      simp only [toAttempt]
      split
      · exact ⟨n, hn, hmsgs, hh', trivial⟩
      · split
        · exact ⟨n, hn, hmsgs, hh', trivial⟩
        · exact ⟨n, hn, hmsgs, hh', hs, hl, hp⟩
    | ctxEnded sent =>
      simp only [toAttempt]
      refine ⟨n, hn, hmsgs, ?_, trivial⟩
      cases sent
      · exact hh
      · exact hh'
    | resp code cut t =>
      simp only [toAttempt]
      cases hc : checkResponse code with
      | some f => exact ⟨n, hn, hmsgs, hh', trivial⟩
      | none =>
        simp only
        subst hl
        rw [serve_cursor log hf n hn, hmsgs]
        apply afterBody_inv cfg hd log hf n hn hs _ hh'
        · intro hk; simp [resumeOf, hk, hp hk]
        · intro hk
          refine ⟨by simp [resumeOf, hk], ?_⟩
          rcases hH with h | h
          · exact h
          · rw [h] at hk; cases hk

theorem runF_inv {M} (cfg : Cfg M) (hd : cfg.dropUnterminated = true) (hH : cfg.forCall = true ∨ cfg.keepCursor = true)
    (log : List Block) (hf : Faithful log) (cut0 : Nat) (t0 : Term) (script : List FAttempt) :
    Inv cfg log (runF cfg log cut0 t0 script) := by
  unfold runF run
  suffices h : ∀ r, Inv cfg log r → Inv cfg log ((script.map (toAttempt log)).foldl (step cfg) r) from
    h _ (start_inv cfg hd hH log hf cut0 t0)
  induction script with
  | nil => intro r hr; simpa using hr
  | cons a as ih =>
    intro r hr
    simp only [List.map_cons, List.foldl_cons]
    exact ih _ (step_inv cfg hd hH log hf r hr a)

/-! ### retry accounting (any server, any attempts) -/

/-- **The retry loop never stops on a property of the attempt's error.**  Read off the code on every
run (`Generated.ClientStream.stopOn…`: the tests of the error under which the branch taken when
`client.Do` fails leaves the loop): whatever the error answers to `errors.Is(context.Canceled)`,
`errors.Is(context.DeadlineExceeded)` or `Timeout()`, the branch stores it and goes on. -/
theorem errStops_never (e : TErr) : errStops e = false := by
  cases e; rfl



/-- while reconnecting, both counters are within the budget -/
def WFPhase {M} (cfg : Cfg M) : Phase → Prop
  | .reconnecting _ retries _ _ attempt => retries ≤ cfg.maxRetries ∧ 1 ≤ attempt ∧ attempt ≤ cfg.maxRetries
  | .ended _ => True

theorem afterBody_wf {M} (cfg : Cfg M) (prev : Bytes) (retries : Nat) (b : BodyOut M) :
    WFPhase cfg (afterBody cfg prev retries b) := by
  unfold afterBody
  split
  · trivial
  · trivial
  · trivial
  · split
    · trivial
    · split
      · split
        · trivial
        · simp only [WFPhase]; omega
      · split
        · trivial
        · simp only [WFPhase]; omega

theorem step_wf {M} (cfg : Cfg M) (r : Run M) (a : Attempt) (h : WFPhase cfg r.phase) :
    WFPhase cfg (step cfg r a).phase := by
  unfold step
  cases hp : r.phase with
  | ended e => simpa [hp] using h
  | reconnecting prev retries lastID hint attempt =>
    rw [hp] at h
    cases a with
    | terr e =>
      simp only
      split
      · trivial
      · split
        · trivial
        · simp only [WFPhase] at h ⊢; omega
    | ctxEnded sent => trivial
    | resp code body =>
      simp only
      split
      · trivial
      · exact afterBody_wf ..

theorem run_wf {M} (cfg : Cfg M) (first : ScanOut) (script : List Attempt) :
    WFPhase cfg (run cfg first script).phase := by
  unfold run
  suffices h : ∀ r : Run M, WFPhase cfg r.phase → WFPhase cfg (script.foldl (step cfg) r).phase from
    h _ (afterBody_wf ..)
  induction script with
  | nil => intro r hr; simpa using hr
  | cons a as ih => intro r hr; exact ih _ (step_wf cfg r a hr)

theorem foldl_step_ended {M} (cfg : Cfg M) (r : Run M) (e : Ended) (h : r.phase = .ended e) (script : List Attempt) :
    script.foldl (step cfg) r = r := by
  induction script with
  | nil => rfl
  | cons a as ih =>
    have : step cfg r a = r := by unfold step; rw [h]
    simp only [List.foldl_cons, this, ih]

/-- The attempt, made in phase `ph`, brings no progress: a transport error, a response whose status
fails the connection, a body that fails the connection, or a body that is interrupted without a new
event id. -/
def fruitless {M} (cfg : Cfg M) (ph : Phase) (a : Attempt) : Bool :=
  match ph, a with
  | .reconnecting prev _ lastID _ _, .resp code body =>
    match checkResponse code with
    | some _ => true
    | none =>
      let b := processBody cfg (resumeOf cfg prev) (body lastID)
      match b.fin with
      | .interrupted => decide (b.lastID = [] ∨ b.lastID = prev)
      | .failed _ => true
      | _ => false
  | _, _ => true

def allFruitless {M} (cfg : Cfg M) : Run M → List Attempt → Bool
  | _, [] => true
  | r, a :: as => fruitless cfg r.phase a && allFruitless cfg (step cfg r a) as

/-- number of responses (bodies) in a script -/
def bodies : List Attempt → Nat
  | [] => 0
  | .terr _ :: as => bodies as
  | .ctxEnded _ :: as => bodies as
  | .resp .. :: as => bodies as + 1

/-- the pending call has been failed: synthetic error response, the connection was failed, or the
caller's own context ended (the call returns the context's error) -/
def Ended.isFailure : Ended → Bool
  | .synthetic => true
  | .failed _ => true
  | .cancelled => true
  | _ => false

theorem afterBody_fruitless {M} (cfg : Cfg M) (prev : Bytes) (retries : Nat) (b : BodyOut M)
    (h : (match b.fin with
          | .interrupted => decide (b.lastID = [] ∨ b.lastID = prev)
          | .failed _ => true
          | _ => false) = true) :
    (∃ e, afterBody cfg prev retries b = .ended e ∧ e.isFailure = true) ∨
    (∃ l hnt a, afterBody cfg prev retries b = .reconnecting prev (retries + 1) l hnt a) := by
  unfold afterBody
  cases hf : b.fin with
  | replied => simp [hf] at h
  | streaming => simp [hf] at h
  | failed f => left; exact ⟨_, rfl, rfl⟩
  | interrupted =>
    simp only [hf, decide_eq_true_eq] at h
    simp only
    split
    · left; exact ⟨_, rfl, rfl⟩
    · have hnp : ¬ (b.lastID ≠ [] ∧ b.lastID ≠ prev) := by
        intro ⟨h1, h2⟩; rcases h with h | h
        · exact h1 h
        · exact h2 h
      rw [if_neg hnp]
      split
      · left; exact ⟨_, rfl, rfl⟩
      · right; exact ⟨_, _, _, rfl⟩

theorem fruitless_bound {M} (cfg : Cfg M) (script : List Attempt) :
    ∀ (r : Run M) (prev : Bytes) (retries : Nat) (lastID : Bytes) (hint : Int) (attempt : Nat),
      r.phase = .reconnecting prev retries lastID hint attempt →
      allFruitless cfg r script = true →
      (∃ e, (script.foldl (step cfg) r).phase = .ended e ∧ e.isFailure = true) ∨
      (∃ l h a, (script.foldl (step cfg) r).phase = .reconnecting prev (retries + bodies script) l h a) := by
  induction script with
  | nil => intro r prev retries lastID hint attempt hp _; right; exact ⟨lastID, hint, attempt, by simpa [bodies] using hp⟩
  | cons a as ih =>
    intro r prev retries lastID hint attempt hp hfr
    simp only [allFruitless, Bool.and_eq_true] at hfr
    obtain ⟨hfa, hfas⟩ := hfr
    simp only [List.foldl_cons]
    -- one step
    have hstep : (∃ e, (step cfg r a).phase = .ended e ∧ e.isFailure = true) ∨
        (∃ l h at', (step cfg r a).phase = .reconnecting prev (retries + bodies [a]) l h at') := by
      unfold step
      rw [hp] at hfa ⊢
      cases a with
      | terr e =>
        simp only
        split
        · left; exact ⟨_, rfl, rfl⟩
        · split
          · left; exact ⟨_, rfl, rfl⟩
          · right; exact ⟨lastID, hint, attempt + 1, by simp [bodies]⟩
      | ctxEnded sent => left; exact ⟨_, rfl, rfl⟩
      | resp code body =>
        simp only [fruitless] at hfa
        simp only
        cases hc : checkResponse code with
        | some f => left; exact ⟨_, rfl, rfl⟩
        | none =>
          simp only [hc] at hfa
          simp only
          rcases afterBody_fruitless cfg prev retries _ hfa with ⟨e, he, hfe⟩ | ⟨l, hnt, a', he⟩
          · left; exact ⟨e, he, hfe⟩
          · right; exact ⟨l, hnt, a', by simpa [bodies] using he⟩
    rcases hstep with ⟨e, he, hfe⟩ | ⟨l, h, at', he⟩
    · left
      rw [foldl_step_ended cfg _ e he]
      exact ⟨e, he, hfe⟩
    · rcases ih (step cfg r a) prev (retries + bodies [a]) l h at' he hfas with h1 | ⟨l', h', a', h2⟩
      · left; exact h1
      · right
        refine ⟨l', h', a', ?_⟩
        rw [h2]
        cases a <;> simp [bodies] <;> omega

end ClientStream
