/-!
Two call streams of one connection cut at once (harness axis `bg=call`): the SECOND stream's part of the property,
as a typed monitor on what the harness saw of it.  The stream under test keeps its own model and monitor
(`ClientStream.run`, `monStep`): the streams of a connection share nothing, so its run is the same function of its own
exchanges whatever the other stream does.  Core Lean only.
-/
namespace ClientStream

/-- what the session got from the second stream: the notifications handed to the handler, in order, and how the
second call ended (`true`: with the second call's own response) -/
structure BgObs where
  got : List String
  own : Bool
  deriving DecidableEq, Repr

inductive BgClause
  | order   -- a message of the second stream was lost, duplicated, reordered, or a foreign one was delivered under its labels
  | reply   -- the second call did not complete with its own response
  deriving DecidableEq, Repr

/-- C09 for the second stream: every message the server sent on it reached the session exactly once, in order (so no
event of a resumed GET went to the other call), and the call completed with its own response -/
def BgSpec (sent : List String) (o : BgObs) : Prop := o.got = sent ∧ o.own = true

instance (sent : List String) (o : BgObs) : Decidable (BgSpec sent o) := by unfold BgSpec; infer_instance

def bgMon (sent : List String) (o : BgObs) : Option BgClause :=
  if o.got ≠ sent then some .order else if o.own ≠ true then some .reply else none

theorem bgMon_none_iff (sent : List String) (o : BgObs) : bgMon sent o = none ↔ BgSpec sent o := by
  unfold bgMon BgSpec
  by_cases h1 : o.got = sent <;> by_cases h2 : o.own = true <;> simp [h1, h2]

theorem sound_bgOrder (sent : List String) (o : BgObs) (h : bgMon sent o = some .order) : o.got ≠ sent := by
  unfold bgMon at h; split at h <;> simp_all

theorem sound_bgReply (sent : List String) (o : BgObs) (h : bgMon sent o = some .reply) : o.got = sent ∧ o.own = false := by
  unfold bgMon at h
  split at h
  · simp at h
  · split at h <;> simp_all

/-- what a faithful second stream gives: everything sent, once, in order, and the call's own response -/
theorem bgMon_accepts_faithful (sent : List String) : bgMon sent { got := sent, own := true } = none := by
  simp [bgMon]

end ClientStream
