import McpModel.ClientStream.Props
/-!
C09 — the one property theorem that depends on a regenerated *flag* rather than on the model's
parameters: `Generated.ClientStream.resumeKeepsCursor` (does `handleSSE` hand `prevLastEventID` to
the body processing? — fix F18).  Kept in its own module so that, on a tree without F18, exactly this
obligation fails to build (and the monitor's `C09: F18 …` clauses give the concrete failing input).
-/
namespace ClientStream
open Generated.ClientStream

/-- The standalone stream of the code as it is built: the cursor survives event-less bodies
(`resumeKeepsCursor`, regenerated from `handleSSE`), so the end-to-end statement holds for it too.
This theorem stops compiling when the regenerated flag is `false` (fix F18 absent). -/
theorem standalone_stream_exactly_once {M} (decode : Bytes → Option M) (maxRetries : Nat)
    (log : List Block) (hf : Faithful log) (cut0 : Nat) (t0 : Term) (script : List FAttempt) :
    let cfg : Cfg M := { decode := decode, isReply := fun _ => false, forCall := false, maxRetries := maxRetries }
    ∃ n, n ≤ log.length ∧ (runF cfg log cut0 t0 script).msgs = specMsgs cfg (eventsOf (log.take n)) := by
  intro cfg
  obtain ⟨n, hn, hm, _⟩ := delivered_exactly_once_in_order cfg rfl (Or.inr (show resumeKeepsCursor = true by decide)) log hf cut0 t0 script
  exact ⟨n, hn, hm⟩

end ClientStream
