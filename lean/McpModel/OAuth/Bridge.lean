import McpModel.OAuth.Monitor
import McpModel.OAuth.Props
/-!
# The bridge between the C15 monitor and the model (E11): no false alarm

`monitor_accepts_round`: for EVERY handler configuration, 401/403 response and scripted network
(lookup tables, the form a record carries) of a well-formed round, the monitor of Monitor.lean,
given the observation of the MODEL (`obsOf (authorize …)`), reports no clause — whatever the
monitor remembers of earlier rounds — and the issuers it records as "registered in this round" are
exactly those at which the model registered (`monitor_regd_model`).  `monitor_accepts_model`: over
ANY history of rounds on one handler (`Handler.run`) the monitor run (`runMon`) reports nothing, and
its state is the list of issuers at which the model's earlier rounds registered
(`histAfter_model`, the invariant).

Together with the driver's comparison of the implementation's observation text with the model's
(`A` = equal) and the run-time self-check `parseObs (model text) = some (obsOf r)`, this says: on a
record the driver answers `A`, the monitor ran on exactly `obsOf r` and cannot have fired; a `V`
always comes with a `D`.  What a `V` then means is Sound.lean.

Monitor repairs made while bridging (the typed monitor differs from the untyped one it replaces in
two places; the driver's output on the recorded streams of the unchanged tree and of the eight seeded
changes is byte-identical):
* the authorization server "asked last" (`lastIssuer`) is the issuer of the LAST metadata GET; it was
  the last element of the de-duplicated list of issuers, i.e. the issuer whose FIRST request came
  latest — a notion with no counterpart in the property;
* the 2025-03-26 fall-back is backed (`all4xx`) when every metadata location of the issuer was
  requested and every requested one answered 4xx; it was "as many requests as locations", a count
  standing for that (a location requested twice passed it).
`eraseDups` in the issuer clause was dropped (it never changed the first hit).

Well-formedness (`MCase.wf`, checked by the driver on every record — a record outside it is
answered `bad-op`): the request URL is a parsed URL (`req.URL` is a `*url.URL`), and the challenge's
`resource_metadata` URL is not itself spelled like an authorization-server metadata location.  Both
are needed: see `false_alarm_unparsable_server_url` and `false_alarm_challenge_at_metadata_location`.
-/
namespace OAuth

/-! ### Generic facts -/

theorem firstSome_eq_none {α β} {f : α → Option β} {l : List α} : firstSome f l = none ↔ ∀ x ∈ l, f x = none := by
  induction l with
  | nil => simp [firstSome]
  | cons a t ih =>
    simp only [firstSome, List.mem_cons, forall_eq_or_imp]
    cases h : f a <;> simp [ih]

theorem firstSome_eq_some {α β} {f : α → Option β} {l : List α} {b : β} (h : firstSome f l = some b) :
    ∃ x ∈ l, f x = some b := by
  induction l with
  | nil => simp [firstSome] at h
  | cons a t ih =>
    simp only [firstSome] at h
    cases hf : f a with
    | some b' => rw [hf] at h; simp at h; exact ⟨a, by simp, by rw [hf, h]⟩
    | none => rw [hf] at h; obtain ⟨x, hx, hx'⟩ := ih h; exact ⟨x, by simp [hx], hx'⟩

theorem getD_doc {α} {o : Option (Resp α)} {d : α} (h : o.getD .status4xx = .doc d) : o = some (.doc d) := by
  cases o with
  | none => simp at h
  | some r => simpa using h

/-! ### Metadata locations and their issuer -/

theorem asBase_derive_not (u : Url) {d : Wk} (h : isAsWk d = false) : asBase (u.derive d) = none := by
  cases u <;> simp [Url.derive, asBase, h]

theorem asBase_derive_at (o : Origin) (s k : Nat) (ds : List Wk) {d : Wk} (h : isAsWk d = true) :
    asBase ((Url.at o s k ds).derive d) = some (.at o s k ds) := by
  simp [Url.derive, asBase, h]

theorem hol_at {u : Url} (h : u.httpsOrLoopback = true) : ∃ o s k ds, u = .at o s k ds := by
  cases u <;> simp [Url.httpsOrLoopback] at h ⊢

theorem mem_asmCandidates_wk {I m : Url} (h : m ∈ asmCandidates I) : ∃ d, isAsWk d = true ∧ m = I.derive d := by
  unfold asmCandidates at h
  split at h
  · simp at h
  · simp only [List.mem_map] at h
    obtain ⟨d, hd, rfl⟩ := h
    refine ⟨d, ?_, rfl⟩
    split at hd <;> simp [asWkWithPath, asWkNoPath] at hd <;> rcases hd with rfl | rfl | rfl <;> rfl

/-- A metadata location that passed the https-or-loopback check is recognised by the monitor as a
location of its issuer. -/
theorem asBase_of_candidate {I m : Url} (h : m ∈ asmCandidates I) (hc : checkHOL m = true) : asBase m = some I := by
  obtain ⟨d, hd, rfl⟩ := mem_asmCandidates_wk h
  obtain ⟨o, s, k, ds, rfl⟩ := hol_at (checkHOL_derive hc)
  exact asBase_derive_at o s k ds hd

/-! ### Well-formed rounds -/

theorem MCase.wf_at {c : MCase} (h : c.wf = true) : ∃ o s k ds, c.cfg.serverUrl = .at o s k ds := by
  simp only [MCase.wf, Bool.and_eq_true] at h
  cases hu : c.cfg.serverUrl <;> simp [hu] at h ⊢

theorem MCase.wf_ch {c : MCase} (h : c.wf = true) : asBase (rmFrom c.inp.challenges) = none := by
  simp only [MCase.wf, Bool.and_eq_true, Option.isNone_iff_eq_none] at h
  exact h.2

/-- No protected-resource metadata location is taken for an authorization-server metadata location. -/
theorem asBase_prmCandidate {c : MCase} (hwf : c.wf = true) {x : Url × Url}
    (hx : x ∈ prmCandidates (rmFrom c.inp.challenges) c.cfg.serverUrl) : asBase x.1 = none := by
  rcases mem_prmCandidates hx with ⟨rfl, _⟩ | rfl | rfl
  · exact MCase.wf_ch hwf
  · exact asBase_derive_not _ rfl
  · exact asBase_derive_not _ rfl

/-! ### The observation of the model: erasure of the GET kind -/

@[simp] theorem erase_url (e : Event) : e.erase.url = e.url := by cases e <;> rfl
@[simp] theorem erase_isRequest (e : Event) : e.erase.isRequest = e.isRequest := by cases e <;> rfl
@[simp] theorem erase_cred (e : Event) : e.erase.cred = e.cred := by cases e <;> rfl

theorem getsOf_map_erase (l : List Event) : getsOf (l.map Event.erase) = getsOf l := by
  induction l with
  | nil => rfl
  | cons e t ih => cases e <;> simp_all [getsOf, Event.erase]

theorem usedOf_map_erase (l : List Event) : usedOf (l.map Event.erase) = usedOf l := by
  induction l with
  | nil => rfl
  | cons e t ih => cases e <;> simp_all [usedOf, Event.erase]

theorem getsOf_append (a b : List Event) : getsOf (a ++ b) = getsOf a ++ getsOf b := by
  simp [getsOf, List.filterMap_append]

theorem mem_getsOf {l : List Event} {u : Url} : u ∈ getsOf l ↔ ∃ k, Event.get k u ∈ l := by
  simp only [getsOf, List.mem_filterMap]
  constructor
  · rintro ⟨e, he, h⟩
    cases e <;> simp at h
    subst h; exact ⟨_, he⟩
  · rintro ⟨k, h⟩
    exact ⟨_, h, rfl⟩

theorem getsOf_eq_nil {l : List Event} (h : ∀ e ∈ l, ∀ k u, e ≠ .get k u) : getsOf l = [] := by
  rw [List.eq_nil_iff_forall_not_mem]
  intro u hu
  obtain ⟨k, hk⟩ := mem_getsOf.1 hu
  exact h _ hk k u rfl

theorem mem_usedOf {l : List Event} {r : Role} {x : Url} (h : (r, x) ∈ usedOf l) :
    (r = .authorization ∧ ∃ c res, Event.fetch x c res ∈ l) ∨ (r = .registration ∧ Event.register x ∈ l) ∨
    (r = .token ∧ ∃ c, Event.token x c ∈ l) := by
  simp only [usedOf, List.mem_filterMap] at h
  obtain ⟨e, he, h⟩ := h
  cases e <;> simp at h
  · obtain ⟨rfl, rfl⟩ := h; exact Or.inr (Or.inl ⟨rfl, he⟩)
  · obtain ⟨rfl, rfl⟩ := h; exact Or.inl ⟨rfl, _, _, he⟩
  · obtain ⟨rfl, rfl⟩ := h; exact Or.inr (Or.inr ⟨rfl, _, he⟩)

theorem mem_map_erase {l : List Event} {e : Event} (h : e ∈ l.map Event.erase) : ∃ e0 ∈ l, e = e0.erase := by
  simp only [List.mem_map] at h
  obtain ⟨e0, h0, rfl⟩ := h
  exact ⟨e0, h0, rfl⟩

theorem erase_eq_fetch {e : Event} {u : Url} {c : Cred} {r : Url} (h : e.erase = .fetch u c r) : e = .fetch u c r := by
  cases e <;> simp_all [Event.erase]

theorem erase_eq_token {e : Event} {u : Url} {c : Cred} (h : e.erase = .token u c) : e = .token u c := by
  cases e <;> simp_all [Event.erase]

theorem erase_eq_register {e : Event} {u : Url} (h : e.erase = .register u) : e = .register u := by
  cases e <;> simp_all [Event.erase]

/-! ### The ordered shape of the authorization-server metadata phase -/

theorem fetchAsm_next_log {w : World} {i : Nat} {m issuer : Url} (h : (fetchAsm w i m issuer).1 = .next) :
    (fetchAsm w i m issuer).2 = [.get .asm m] := by
  unfold fetchAsm at h ⊢
  split
  · rename_i hc; simp [hc] at h
  · split <;> simp_all

/-- Every location answered 4xx: all of them were requested, in order. -/
theorem discoverAsm_next_log {w : World} {issuer : Url} : ∀ {ms : List Url} {i : Nat},
    (discoverAsm w issuer i ms).1 = .next → (discoverAsm w issuer i ms).2 = ms.map (Event.get .asm)
  | [], _, _ => by simp [discoverAsm]
  | m :: ms, i, h => by
    unfold discoverAsm at h ⊢
    split at h
    · rename_i ev heq
      have h0 : (fetchAsm w i m issuer).1 = .next := by rw [heq]
      have h1 : ev = [.get .asm m] := by rw [← fetchAsm_next_log h0, heq]
      simp only at h
      simp only [List.map_cons, h1, List.singleton_append, discoverAsm_next_log h]
    · rename_i hnn
      exact absurd (by rw [← h]) (hnn _)

/-- A document was found: the locations before it answered 4xx, and exactly they and the location
of the document were requested, in order. -/
theorem discoverAsm_found_shape {w : World} {issuer : Url} : ∀ {ms : List Url} {i : Nat} {d : AsmDoc},
    (discoverAsm w issuer i ms).1 = .found d →
    ∃ ms1 m ms2 j, ms = ms1 ++ m :: ms2 ∧ (∀ x ∈ ms1, ∃ j, w.asm j x = .status4xx) ∧ w.asm j m = .doc d ∧
      issuersEqual d.issuer issuer = true ∧ d.pkce = true ∧ asmUrlsOk d = true ∧
      (discoverAsm w issuer i ms).2 = (ms1 ++ [m]).map (Event.get .asm)
  | [], _, _, h => by simp [discoverAsm] at h
  | m :: ms, i, d, h => by
    unfold discoverAsm at h ⊢
    split at h
    · rename_i ev heq
      have h0 : (fetchAsm w i m issuer).1 = .next := by rw [heq]
      have h1 : ev = [.get .asm m] := by rw [← fetchAsm_next_log h0, heq]
      simp only at h
      obtain ⟨ms1, m', ms2, j, e1, e2, e3, e4, e5, e6, e7⟩ := discoverAsm_found_shape h
      refine ⟨m :: ms1, m', ms2, j, by simp [e1], ?_, e3, e4, e5, e6, ?_⟩
      · intro x hx
        simp only [List.mem_cons] at hx
        rcases hx with rfl | hx
        · exact ⟨i, (fetchAsm_next h0).1⟩
        · exact e2 x hx
      · simp only [h1, e7]; simp
    · rename_i hnn
      obtain ⟨e3, e4, e5, e6, e7⟩ := fetchAsm_found h
      exact ⟨[], m, ms, i, rfl, by simp, e3, e4, e5, e6, by simpa using e7⟩

/-! ### The model's round, as the monitor reads it -/

section Round
variable (c : MCase)

/-- The result of the model for the round. -/
abbrev MCase.result (c : MCase) : Result := authorize c.cfg c.inp c.tabs.world

theorem world_asm (t : Tabs) (i : Nat) (m : Url) : t.world.asm i m = (t.asm.lookup m).getD .status4xx := rfl
theorem world_prm (t : Tabs) (i : Nat) (m : Url) : t.world.prm i m = (t.prm.lookup m).getD .status4xx := rfl

/-- The issuer the flow continues with is never an unparsable URL (given a parsed request URL). -/
theorem issuer_not_bad {c : MCase} (hwf : c.wf = true) {l : List Event} {I res : Url}
    (h : PrmJustifies c.cfg c.inp c.tabs.world l I res) : ∀ n, I ≠ .bad n := by
  obtain ⟨o, s, k, ds, hU⟩ := MCase.wf_at hwf
  rcases h with ⟨rfl, _⟩ | ⟨x, _, i, d, _, _, _, hsafe, hhead, _⟩
  · rw [hU]; simp [Url.root]
  · have hmem : I ∈ d.authServers := List.mem_of_mem_head? hhead
    rcases hsafe I hmem with h | ⟨_, h⟩
    · subst h; simp
    · obtain ⟨o', s', k', ds', rfl⟩ := hol_at h; simp

/-- Shape of a round that got as far as choosing metadata `a`: the GETs are those of the two
discovery phases, in order. -/
theorem authorize_asm_shape (cfg : Config) (inp : Input) (w : World) (a : AsmDoc)
    (h : (authorize cfg inp w).asm = some a) :
    ∃ p I q, p = discoverPrm w 0 (prmCandidates (rmFrom inp.challenges) cfg.serverUrl) ∧
      I = p.1.issuer cfg.serverUrl ∧ q = discoverAsm w I 0 (asmCandidates I) ∧
      (∀ o, q.1 ≠ .err o) ∧ a = effAsm q.1 I ∧ (authorize cfg inp w).issuer = some I ∧
      getsOf (authorize cfg inp w).log = getsOf p.2 ++ getsOf q.2 := by
  refine ⟨_, _, _, rfl, rfl, rfl, ?_⟩
  have hc := authorize_cases cfg inp w
  simp only [] at hc
  generalize discoverPrm w 0 (prmCandidates (rmFrom inp.challenges) cfg.serverUrl) = p at hc ⊢
  generalize p.1.issuer cfg.serverUrl = I at hc ⊢
  generalize p.1.resource cfg.serverUrl = res at hc
  generalize discoverAsm w I 0 (asmCandidates I) = q at hc ⊢
  generalize effAsm q.1 I = a' at hc ⊢
  have hreg : getsOf (register cfg w a').2 = [] := by
    apply getsOf_eq_nil
    intro e he k u hu
    obtain ⟨h1, _⟩ := register_log he
    rw [h1] at hu; cases hu
  rcases hc with h' | h' | ⟨_, h'⟩ | ⟨_, o, _, h'⟩ | ⟨_, hq1, o, _, h'⟩ | ⟨_, hq1, cred, probe, _, h'⟩
  · rw [h'] at h; simp at h
  · rw [h'] at h; simp at h
  · rw [h'] at h; simp at h
  · rw [h'] at h; simp at h
  · rw [h'] at h ⊢
    simp only [Option.some.injEq] at h
    refine ⟨hq1, h.symm, rfl, ?_⟩
    simp only [getsOf_append]
    rw [hreg]; simp
  · obtain ⟨f1, _, f3, f4⟩ := finish_cases w a' I res cred probe
      (p.2 ++ q.2 ++ (register cfg w a').2 ++ [.fetch a'.authorizationEndpoint cred res])
    rw [h'] at h ⊢
    rw [f3] at h
    simp only [Option.some.injEq] at h
    refine ⟨hq1, h.symm, f1, ?_⟩
    have hx : getsOf (exchange w a'.tokenEndpoint cred probe).2 = [] := by
      apply getsOf_eq_nil
      intro e he k u hu
      obtain ⟨h1, _⟩ := exchange_log he
      rw [h1] at hu; cases hu
    rcases f4 with ⟨hl, _⟩ | ⟨_, hl, _⟩
    · rw [hl]; simp only [getsOf_append]; rw [hreg]; simp [getsOf]
    · rw [hl]; simp only [getsOf_append]; rw [hreg, hx]; simp [getsOf]


theorem getsOf_map_get (k : Kind) (l : List Url) : getsOf (l.map (Event.get k)) = l := by
  induction l with
  | nil => rfl
  | cons a t ih => simp_all [getsOf]

theorem filterMap_asBase_const {I : Url} {l : List Url} (h : ∀ m ∈ l, asBase m = some I) :
    l.filterMap asBase = l.map fun _ => I := by
  induction l with
  | nil => rfl
  | cons a t ih =>
    have h1 := h a (by simp)
    have h2 := ih (fun m hm => h m (by simp [hm]))
    simp [h1, h2]

theorem filterMap_asBase_nil {l : List Url} (h : ∀ m ∈ l, asBase m = none) : l.filterMap asBase = [] := by
  induction l with
  | nil => rfl
  | cons a t ih =>
    have h1 := h a (by simp)
    have h2 := ih (fun m hm => h m (by simp [hm]))
    simp [h1, h2]

theorem getLast?_map_const {α β} {b : β} : ∀ {l : List α}, l ≠ [] → (l.map fun _ => b).getLast? = some b
  | [], h => absurd rfl h
  | [_], _ => rfl
  | _ :: a :: t, _ => by
    have := getLast?_map_const (b := b) (l := a :: t) (by simp)
    simpa [List.getLast?_cons_cons] using this

theorem lastIssuer_append {I : Url} {Gp Gq : List Url} (hp : ∀ u ∈ Gp, asBase u = none)
    (hq : ∀ m ∈ Gq, asBase m = some I) (hne : Gq ≠ []) : lastIssuer (Gp ++ Gq) = some I := by
  unfold lastIssuer
  rw [List.filterMap_append, filterMap_asBase_nil hp, filterMap_asBase_const hq, List.nil_append]
  exact getLast?_map_const hne

theorem mineOf_append {I : Url} {Gp Gq : List Url} (hp : ∀ u ∈ Gp, asBase u = none)
    (hq : ∀ m ∈ Gq, asBase m = some I) : mineOf (Gp ++ Gq) I = Gq := by
  unfold mineOf
  rw [List.filter_append]
  have h1 : Gp.filter (fun m => asBase m == some I) = [] := by
    rw [List.filter_eq_nil_iff]; intro u hu; simp [hp u hu]
  have h2 : Gq.filter (fun m => asBase m == some I) = Gq := by
    rw [List.filter_eq_self]; intro m hm; simp [hq m hm]
  rw [h1, h2, List.nil_append]

theorem specAsmOk_of_checks {d : AsmDoc} {I : Url} (h2 : issuersEqual d.issuer I = true) (h3 : d.pkce = true)
    (h4 : asmUrlsOk d = true) : specAsmOk d I = true := by
  obtain ⟨h5, h6⟩ := asmUrlsOk_spec h4
  simp only [specAsmOk, Bool.and_eq_true, List.all_eq_true, Bool.or_eq_true, beq_iff_eq, Bool.not_eq_true']
  refine ⟨⟨⟨h2, h3⟩, ?_⟩, ?_⟩
  · intro x hx
    obtain ⟨h7, h8⟩ := h5 x hx
    right
    refine ⟨h7, ?_⟩
    cases x <;> simp_all
  · intro x hx
    rcases h6 x hx with h | h
    · exact Or.inl h
    · exact Or.inr h

theorem docAt_of_4xx {t : Tabs} {I x : Url} (h : (t.asm.lookup x).getD .status4xx = .status4xx) : docAt t I x = none := by
  unfold docAt
  cases hl : t.asm.lookup x with
  | none => rfl
  | some r => cases r <;> simp_all

theorem is4xx_of_4xx {t : Tabs} {x : Url} (h : (t.asm.lookup x).getD .status4xx = .status4xx) : is4xx t x = true := by
  unfold is4xx; rw [h]

/-- The documents the monitor accepts as backing for `I`, when the requested locations of `I` are
`ms1` (all 4xx) followed by `m` (a valid document `d`): exactly `d`. -/
theorem asmDocsFor_found {t : Tabs} {I : Url} {Gp ms1 : List Url} {m : Url} {d : AsmDoc}
    (hp : ∀ u ∈ Gp, asBase u = none) (hq : ∀ x ∈ ms1 ++ [m], asBase x = some I)
    (h1 : ∀ x ∈ ms1, (t.asm.lookup x).getD .status4xx = .status4xx)
    (hm : (t.asm.lookup m).getD .status4xx = .doc d) (hok : specAsmOk d I = true) :
    asmDocsFor t (Gp ++ (ms1 ++ [m])) I = [d] := by
  unfold asmDocsFor all4xx
  rw [mineOf_append hp hq]
  have e1 : ms1.filterMap (docAt t I) = [] := by
    rw [List.filterMap_eq_nil_iff]
    intro x hx
    exact docAt_of_4xx (h1 x hx)
  have e2 : docAt t I m = some d := by
    unfold docAt; rw [getD_doc hm]; simp [hok]
  have e3 : is4xx t m = false := by
    unfold is4xx; rw [hm]
  rw [List.filterMap_append, e1]
  simp [e2, e3]

/-- … and when every location of `I` was requested and answered 4xx: exactly the fall-back. -/
theorem asmDocsFor_next {t : Tabs} {I : Url} {Gp : List Url}
    (hp : ∀ u ∈ Gp, asBase u = none) (hq : ∀ x ∈ asmCandidates I, asBase x = some I)
    (h1 : ∀ x ∈ asmCandidates I, (t.asm.lookup x).getD .status4xx = .status4xx) :
    asmDocsFor t (Gp ++ asmCandidates I) I = [fallbackAsm I] := by
  unfold asmDocsFor all4xx
  rw [mineOf_append hp hq]
  have e1 : (asmCandidates I).filterMap (docAt t I) = [] := by
    rw [List.filterMap_eq_nil_iff]
    intro x hx
    exact docAt_of_4xx (h1 x hx)
  have e2 : (asmCandidates I).all (is4xx t) = true := by
    rw [List.all_eq_true]; intro x hx; exact is4xx_of_4xx (h1 x hx)
  rw [e1, e2]; simp
  intro x hx _; exact hx

/-- The endpoints the model uses are those of the metadata it chose. -/
theorem matchesUsed_model (cfg : Config) (inp : Input) (w : World) {a : AsmDoc}
    (h : (authorize cfg inp w).asm = some a) : matchesUsed ((authorize cfg inp w).log.map Event.erase) a = true := by
  unfold matchesUsed
  rw [usedOf_map_erase, List.all_eq_true]
  rintro ⟨r, x⟩ hx
  obtain ⟨_, h2, h3, h4⟩ := asm_used_only_if_issuer_matches_and_pkce cfg inp w
  rcases mem_usedOf hx with ⟨rfl, cr, res, he⟩ | ⟨rfl, he⟩ | ⟨rfl, cr, he⟩
  · obtain ⟨a', ha', rfl⟩ := h3 _ _ _ he
    rw [h] at ha'; cases ha'; simp [roleOf]
  · obtain ⟨a', ha', rfl⟩ := h2 _ he
    rw [h] at ha'; cases ha'; simp [roleOf]
  · obtain ⟨a', ha', rfl⟩ := h4 _ _ he
    rw [h] at ha'; cases ha'; simp [roleOf]

/-- **The monitor reconstructs the model's metadata.** In a well-formed round in which the model
chose metadata `a` (a fetched document or the fall-back), the monitor's set of metadata that can be
"in use" — computed from the bare GET log and the network tables — is exactly `[a]`. -/
theorem effDocs_model {c : MCase} (hwf : c.wf = true) {a : AsmDoc} (h : c.result.asm = some a) :
    effDocs c (obsOf c.result) = [a] := by
  obtain ⟨p, I, q, hp, hI, hq, hq1, ha, hiss, hgets⟩ := authorize_asm_shape c.cfg c.inp c.tabs.world a h
  have F := authorize_facts c.cfg c.inp c.tabs.world
  have hnb := issuer_not_bad hwf (F.issuer I hiss)
  have hGp : ∀ u ∈ getsOf p.2, asBase u = none := by
    intro u hu
    obtain ⟨k, hk⟩ := mem_getsOf.1 hu
    rw [hp] at hk
    obtain ⟨x, hx, he, _⟩ := discoverPrm_log hk
    cases he
    exact asBase_prmCandidate hwf hx
  have hGq : ∀ m ∈ getsOf q.2, asBase m = some I := by
    intro m hm
    obtain ⟨k, hk⟩ := mem_getsOf.1 hm
    rw [hq] at hk
    obtain ⟨m', hm', he, hc⟩ := discoverAsm_log hk
    cases he
    exact asBase_of_candidate hm' hc
  have hmu := matchesUsed_model c.cfg c.inp c.tabs.world h
  unfold effDocs
  simp only [obsOf, MCase.result] at hmu ⊢
  rw [getsOf_map_erase, hgets]
  cases hq1' : q.1 with
  | err o => exact absurd hq1' (hq1 o)
  | next =>
    have hq1'' : (discoverAsm c.tabs.world I 0 (asmCandidates I)).1 = .next := by rw [← hq]; exact hq1'
    have hlog : getsOf q.2 = asmCandidates I := by
      rw [hq, discoverAsm_next_log hq1'', getsOf_map_get]
    have hall := discoverAsm_next hq1''
    rw [hlog] at hGq ⊢
    rw [lastIssuer_append hGp hGq (asmCandidates_ne_nil hnb)]
    simp only
    rw [asmDocsFor_next hGp hGq (fun x hx => by obtain ⟨_, j, hj⟩ := hall x hx; exact hj)]
    have : a = fallbackAsm I := by rw [ha, hq1']; rfl
    subst this
    simp [hmu]
  | found d =>
    have hq1'' : (discoverAsm c.tabs.world I 0 (asmCandidates I)).1 = .found d := by rw [← hq]; exact hq1'
    obtain ⟨ms1, m, ms2, j, _, e2, e3, e4, e5, e6, e7⟩ := discoverAsm_found_shape hq1''
    have hlog : getsOf q.2 = ms1 ++ [m] := by
      rw [hq, e7, getsOf_map_get]
    rw [hlog] at hGq ⊢
    rw [lastIssuer_append hGp hGq (by simp)]
    simp only
    rw [asmDocsFor_found hGp hGq (fun x hx => by obtain ⟨j, hj⟩ := e2 x hx; exact hj) e3 (specAsmOk_of_checks e4 e5 e6)]
    have : a = d := by rw [ha, hq1']; rfl
    subst this
    simp [hmu]

/-- Before metadata is chosen the model only issues GETs. -/
theorem only_gets_of_no_asm (cfg : Config) (inp : Input) (w : World) (h : (authorize cfg inp w).asm = none)
    {e : Event} (he : e ∈ (authorize cfg inp w).log) : ∃ k u, e = .get k u := by
  rcases (authorize_facts cfg inp w).mem e he with ⟨x, _, rfl, _⟩ | ⟨_, _, m, _, rfl, _⟩ | ⟨a, ha, _⟩ | ⟨a, _, ha, _⟩ |
      ⟨a, _, ha, _⟩
  · exact ⟨_, _, rfl⟩
  · exact ⟨_, _, rfl⟩
  · rw [h] at ha; cases ha
  · rw [h] at ha; cases ha
  · rw [h] at ha; cases ha

/-! ### No clause fires on the model's observation -/

theorem chkHttps_model (hreq : Generated.OAuth.tokenEndpointRequired = true) :
    chkHttps (obsOf c.result) = none := by
  unfold chkHttps
  rw [firstSome_eq_none]
  intro e he
  simp only [obsOf, List.mem_filter] at he
  obtain ⟨e0, h0, rfl⟩ := mem_map_erase he.1
  have := requests_https_or_loopback_if_endpoint_required hreq c.cfg c.inp c.tabs.world e0 h0 (by simpa using he.2)
  simp [this]

theorem chkScript_model : chkScript c (obsOf c.result) = none := by
  unfold chkScript
  rw [firstSome_eq_none]
  intro e he
  obtain ⟨e0, h0, rfl⟩ := mem_map_erase he
  cases hs : e0.url.isScript with
  | false => simp [hs]
  | true =>
    rcases no_script_scheme_used c.cfg c.inp c.tabs.world e0 h0 hs with h | h
    · simp [h]
    · subst h; simp [Event.erase]

theorem prmJust_model {c : MCase} {I res : Url}
    (h : PrmJustifies c.cfg c.inp c.tabs.world c.result.log I res) :
    prmJust c (getsOf c.result.log) I = true ∧ (res = c.cfg.serverUrl ∨ res = c.cfg.serverUrl.root) := by
  unfold prmJust
  rcases h with ⟨rfl, rfl⟩ | ⟨x, hx, i, d, hw, hlog, hres, hsafe, hhead, rfl⟩
  · simp
  · constructor
    · rw [Bool.or_eq_true]; right
      rw [List.any_eq_true]
      refine ⟨x, hx, ?_⟩
      have hl := getD_doc (world_prm c.tabs i x.1 ▸ hw)
      have hg : x.1 ∈ getsOf c.result.log := mem_getsOf.2 ⟨_, hlog⟩
      have hsp : specPrmOk d x.2 = true := by
        simp only [specPrmOk, Bool.and_eq_true, beq_iff_eq, List.all_eq_true, Bool.or_eq_true]
        refine ⟨hres, fun y hy => ?_⟩
        rcases hsafe y hy with h | ⟨h1, h2⟩
        · exact Or.inl h
        · right; simp [safeUrl, h1, h2]
      simp [prmBacks, hl, hsp, hhead, hg]
    · rw [hres]
      rcases mem_prmCandidates hx with ⟨rfl, _⟩ | rfl | rfl <;> simp

theorem chkPrmIssuer_model (hwf : c.wf = true) : chkPrmIssuer c (obsOf c.result) = none := by
  unfold chkPrmIssuer
  rw [firstSome_eq_none]
  intro I hI
  simp only [obsOf, getsOf_map_erase] at hI ⊢
  obtain ⟨m, hm, hb⟩ := List.mem_filterMap.1 hI
  obtain ⟨k, hk⟩ := mem_getsOf.1 hm
  have F := authorize_facts c.cfg c.inp c.tabs.world
  rcases F.mem _ hk with ⟨x, hx, he, _⟩ | ⟨I', hI', m', hm', he, hc⟩ | ⟨_, _, he, _⟩ | ⟨_, _, _, he, _⟩ | ⟨_, _, _, he, _⟩
  · cases he
    rw [asBase_prmCandidate hwf hx] at hb; cases hb
  · cases he
    rw [asBase_of_candidate hm' hc] at hb
    cases hb
    simp [(prmJust_model (F.issuer _ hI')).1]
  · cases he
  · cases he
  · cases he

theorem chkPrmResource_model : chkPrmResource c (obsOf c.result) = none := by
  unfold chkPrmResource
  rw [firstSome_eq_none]
  intro e he
  obtain ⟨e0, h0, rfl⟩ := mem_map_erase he
  cases e0 with
  | fetch u cr r =>
    simp only [Event.erase]
    obtain ⟨hr, I, hI⟩ := (prm_used_only_if_resource_matches c.cfg c.inp c.tabs.world).2.2 u cr r h0
    have F := authorize_facts c.cfg c.inp c.tabs.world
    rcases (prmJust_model (F.issuer _ hI)).2 with h | h
    · simp [hr, h]
    · simp [hr, h]
  | _ => rfl

theorem chkAsm_model (hwf : c.wf = true) : chkAsm c (obsOf c.result) = none := by
  unfold chkAsm
  cases ha : c.result.asm with
  | some a => simp [effDocs_model hwf ha]
  | none =>
    have : usedOf (obsOf c.result).events = [] := by
      simp only [obsOf, usedOf_map_erase]
      rw [List.eq_nil_iff_forall_not_mem]
      rintro ⟨r, x⟩ hx
      rcases mem_usedOf hx with ⟨_, _, _, he⟩ | ⟨_, he⟩ | ⟨_, _, he⟩ <;>
        obtain ⟨k, u, h⟩ := only_gets_of_no_asm c.cfg c.inp c.tabs.world ha he <;> cases h
    simp [this]

theorem hasTok_erase {l : List Event} (h : hasTok (l.map Event.erase) = true) : ∃ u cr, Event.token u cr ∈ l := by
  simp only [hasTok, List.any_eq_true] at h
  obtain ⟨e, he, h⟩ := h
  obtain ⟨e0, h0, rfl⟩ := mem_map_erase he
  cases e0 <;> simp [Event.erase] at h
  exact ⟨_, _, h0⟩

theorem chkExchange_model (hwf : c.wf = true) : chkExchange c (obsOf c.result) = none := by
  unfold chkExchange
  cases ht : hasTok (obsOf c.result).events with
  | false => simp
  | true =>
    obtain ⟨u, cr, he⟩ := hasTok_erase ht
    obtain ⟨a, ha, _, iss, hf, hic⟩ := exchange_requires_state_and_iss c.cfg c.inp c.tabs.world u cr he
    have hf' : c.tabs.fetch = .result true iss := hf
    simp [hf', effDocs_model hwf ha, hic]

theorem chkPre_model (hwf : c.wf = true) : chkPre c (obsOf c.result) = none := by
  unfold chkPre
  cases hu : (obsOf c.result).events.any (fun e => e.cred == .pre) with
  | false => simp
  | true =>
    simp only [obsOf, List.any_eq_true, beq_iff_eq] at hu
    obtain ⟨e, he, hp⟩ := hu
    obtain ⟨e0, h0, rfl⟩ := mem_map_erase he
    obtain ⟨a, pi, ha, hpre, hb⟩ := preregistered_issuer_binding c.cfg c.inp c.tabs.world e0 h0 (by simpa using hp)
    simp only [Bool.not_true, hpre, effDocs_model hwf ha]
    rcases hb with rfl | hb
    · simp
    · simp [hb]

/-- The monitor's "registered in this round" agrees with the model's log and network. -/
theorem registeredNow_model (a : AsmDoc) :
    registeredNow c (obsOf c.result) a =
      (c.result.log.contains (.register a.registrationEndpoint) && regCreated c.tabs a.registrationEndpoint) := by
  unfold registeredNow
  simp only [obsOf]
  rw [Bool.eq_iff_iff]
  simp only [List.any_eq_true, Bool.and_eq_true, List.contains_iff_mem]
  constructor
  · rintro ⟨e, he, h⟩
    obtain ⟨e0, h0, rfl⟩ := mem_map_erase he
    cases e0 <;> simp [Event.erase] at h
    obtain ⟨rfl, h2⟩ := h
    exact ⟨h0, h2⟩
  · rintro ⟨h1, h2⟩
    exact ⟨_, List.mem_map.2 ⟨_, h1, rfl⟩, by simp [Event.erase, h2]⟩

theorem regCreated_of_world {t : Tabs} {u : Url} {urls : List Url} (h : t.world.reg u = .created true urls) :
    regCreated t u = true := by
  have h' : (t.reg.lookup u).getD .fail = .created true urls := h
  unfold regCreated
  cases hl : t.reg.lookup u with
  | none => rw [hl] at h'; simp at h'
  | some r => rw [hl] at h'; simp at h'; subst h'; rfl

theorem chkDcr_model (hwf : c.wf = true) (hist : List Url) : chkDcr c hist (obsOf c.result) = none := by
  unfold chkDcr
  cases hu : (obsOf c.result).events.any (fun e => e.cred == .dcr) with
  | false => simp
  | true =>
    simp only [obsOf, List.any_eq_true, beq_iff_eq] at hu
    obtain ⟨e, he, hp⟩ := hu
    obtain ⟨e0, h0, rfl⟩ := mem_map_erase he
    obtain ⟨hd, a, urls, ha, hreg, hw⟩ :=
      (credentials_resolved_in_this_call c.cfg c.inp c.tabs.world e0 h0).1 (by simpa using hp)
    have hrn : registeredNow c (obsOf c.result) a = true := by
      rw [registeredNow_model]
      simp [hreg, regCreated_of_world hw]
    simp [hd, effDocs_model hwf ha, hrn]

theorem chkCimd_model : chkCimd c (obsOf c.result) = none := by
  unfold chkCimd
  cases hu : (obsOf c.result).events.any (fun e => e.cred == .cimd) with
  | false => simp
  | true =>
    simp only [obsOf, List.any_eq_true, beq_iff_eq] at hu
    obtain ⟨e, he, hp⟩ := hu
    obtain ⟨e0, h0, rfl⟩ := mem_map_erase he
    obtain ⟨hd, _⟩ := (credentials_resolved_in_this_call c.cfg c.inp c.tabs.world e0 h0).2 (by simpa using hp)
    simp [hd]

theorem tokGood_of_world {t : Tabs} {u : Url} {i : Nat} (h : t.world.tok i u ≠ .fail) : tokGood t u = true := by
  have h' : ((t.tok.lookup u).getD []).getD i .fail ≠ .fail := h
  unfold tokGood
  rw [List.any_eq_true]
  rw [List.getD_eq_getElem?_getD] at h'
  cases hl : ((t.tok.lookup u).getD [])[i]? with
  | none => rw [hl] at h'; simp at h'
  | some r =>
    rw [hl] at h'
    exact ⟨r, List.mem_of_getElem? hl, by simpa using h'⟩

theorem chkInstall_model : chkInstall c (obsOf c.result) = none := by
  unfold chkInstall
  cases hi : c.result.installed with
  | false => simp [obsOf, hi]
  | true =>
    obtain ⟨ho, a, _, _, cr, i, hlog, hw⟩ := (authorize_facts c.cfg c.inp c.tabs.world).inst hi
    have h1 : ((obsOf c.result).out == "ok" || (obsOf c.result).out == "post") = true := by
      rcases ho with h | h <;> simp only [obsOf] <;> rw [h] <;> decide
    have h2 : goodTok c (obsOf c.result) = true := by
      unfold goodTok
      simp only [obsOf, List.any_eq_true]
      exact ⟨_, List.mem_map.2 ⟨_, hlog, rfl⟩, by simp [Event.erase, tokGood_of_world hw]⟩
    have h3 : (obsOf c.result).inst = true := hi
    rw [h1, h2, h3]; rfl

/-- **No false alarm, one round.** On the observation of the model no clause fires, whatever the
monitor remembers of earlier rounds. -/
theorem chkAll_model (hreq : Generated.OAuth.tokenEndpointRequired = true) (hwf : c.wf = true) (hist : List Url) :
    chkAll c hist (obsOf c.result) = none := by
  unfold chkAll
  rw [chkHttps_model c hreq, chkScript_model, chkPrmIssuer_model c hwf, chkPrmResource_model, chkAsm_model c hwf,
    chkExchange_model c hwf, chkPre_model c hwf, chkDcr_model c hwf, chkCimd_model, chkInstall_model]
  rfl

/-- The model's own account of "this round registered dynamically, at this issuer": the metadata in
use, a registration request to its registration endpoint in the log, answered with a client id. -/
def modelRegd (t : Tabs) (R : Result) : List Url :=
  match R.asm with
  | some a =>
    if R.log.contains (.register a.registrationEndpoint) && regCreated t a.registrationEndpoint then [a.issuer] else []
  | none => []

/-- **The monitor's bookkeeping is the model's.** The issuers the monitor records for a round of the
model are exactly those at which the model registered in that round. -/
theorem regdOf_model (hwf : c.wf = true) : regdOf c (obsOf c.result) = modelRegd c.tabs c.result := by
  unfold regdOf modelRegd
  cases ha : c.result.asm with
  | some a =>
    rw [effDocs_model hwf ha]
    simp only [List.filter_cons, List.filter_nil, registeredNow_model]
    split <;> simp
  | none =>
    have : (effDocs c (obsOf c.result)).filter (registeredNow c (obsOf c.result)) = [] := by
      rw [List.filter_eq_nil_iff]
      intro d _
      rw [registeredNow_model]
      have : Event.register d.registrationEndpoint ∉ c.result.log := by
        intro hm
        obtain ⟨k, u, h⟩ := only_gets_of_no_asm c.cfg c.inp c.tabs.world ha hm
        cases h
      simp [this]
    rw [this]; rfl

/-- **monitor_accepts_round.** For every well-formed round — ALL configurations, request URLs,
401/403 responses and scripted networks — and every monitor state, the monitor, given the
observation of the model, reports no clause and records exactly the model's registrations. -/
theorem monitor_accepts_round_of (hreq : Generated.OAuth.tokenEndpointRequired = true) (hwf : c.wf = true)
    (hist : List Url) : monitor c hist (obsOf c.result) = (none, modelRegd c.tabs c.result) := by
  unfold monitor
  rw [chkAll_model c hreq hwf hist, regdOf_model c hwf]

theorem monitor_accepts_round (hwf : c.wf = true) (hist : List Url) :
    monitor c hist (obsOf c.result) = (none, modelRegd c.tabs c.result) :=
  monitor_accepts_round_of c rfl hwf hist

end Round

/-! ### Histories -/

/-- One round of a history, in the form a record carries it. -/
structure TRound where
  serverUrl : Url
  inp : Input
  tabs : Tabs

def TRound.round (r : TRound) : Round := { serverUrl := r.serverUrl, inp := r.inp, world := r.tabs.world }
def TRound.mcase (hc : HConfig) (r : TRound) : MCase := { cfg := hc.at r.serverUrl, inp := r.inp, tabs := r.tabs }

/-- The observation trace of the MODEL handler `h` over the rounds `rs`: what the driver's monitor is
given on a case on which the implementation agrees with the model in every round. -/
def modelTrace (h : Handler) (rs : List TRound) : List (MCase × Obs) :=
  List.zipWith (fun r R => (r.mcase h.cfg, obsOf R)) rs (h.run (rs.map TRound.round)).2

theorem zipWith_map_self {α β γ} (f : α → β → γ) (g : α → β) (l : List α) :
    List.zipWith f l (l.map g) = l.map fun a => f a (g a) := by
  induction l with
  | nil => rfl
  | cons a t ih => simp [ih]

theorem modelTrace_eq (h : Handler) (rs : List TRound) :
    modelTrace h rs = rs.map fun r => (r.mcase h.cfg, obsOf (r.mcase h.cfg).result) := by
  unfold modelTrace
  rw [(history_rounds_independent h (rs.map TRound.round)).1, List.map_map, zipWith_map_self]
  rfl

theorem runMonFrom_model (hc : HConfig) : ∀ (rs : List TRound) (hist : List Url) (i : Nat),
    (∀ r ∈ rs, (r.mcase hc).wf = true) →
    runMonFrom hist i (rs.map fun r => (r.mcase hc, obsOf (r.mcase hc).result)) = none
  | [], _, _, _ => rfl
  | r :: rs, hist, i, hwf => by
    simp only [List.map_cons, runMonFrom]
    rw [chkAll_model (r.mcase hc) rfl (hwf r (by simp)) hist]
    exact runMonFrom_model hc rs _ _ (fun r' hr' => hwf r' (by simp [hr']))

theorem histAfter_model_from (hc : HConfig) : ∀ (rs : List TRound) (hist : List Url),
    (∀ r ∈ rs, (r.mcase hc).wf = true) →
    histAfter hist (rs.map fun r => (r.mcase hc, obsOf (r.mcase hc).result)) =
      hist ++ rs.flatMap fun r => modelRegd r.tabs (r.mcase hc).result
  | [], hist, _ => by simp [histAfter]
  | r :: rs, hist, hwf => by
    simp only [List.map_cons, histAfter, List.flatMap_cons]
    rw [regdOf_model (r.mcase hc) (hwf r (by simp)),
      histAfter_model_from hc rs _ (fun r' hr' => hwf r' (by simp [hr'])), List.append_assoc]
    rfl

/-- **monitor_accepts_model.** Over ANY history of `Authorize` rounds on one handler — every round
with its own request URL, response and network — the C15 monitor reports no clause on the model's
observation trace. -/
theorem monitor_accepts_model (h : Handler) (rs : List TRound) (hwf : ∀ r ∈ rs, (r.mcase h.cfg).wf = true) :
    runMon (modelTrace h rs) = none := by
  rw [modelTrace_eq]
  exact runMonFrom_model h.cfg rs [] 0 hwf

/-- **The history invariant.** After any prefix of the model's trace the monitor's state — the
issuers at which earlier rounds registered dynamically, as observed — is the list of issuers at
which the MODEL's earlier rounds registered (metadata in use, registration request in the log of that
round, answered with a client id by that round's network). -/
theorem histAfter_model (h : Handler) (rs : List TRound) (hwf : ∀ r ∈ rs, (r.mcase h.cfg).wf = true) :
    histAfter [] (modelTrace h rs) = rs.flatMap fun r => modelRegd r.tabs (roundResult h.cfg r.round) := by
  rw [modelTrace_eq, histAfter_model_from h.cfg rs [] hwf]
  rfl

/-- Non-vacuity: the trace has one observation per round. -/
theorem modelTrace_length (h : Handler) (rs : List TRound) : (modelTrace h rs).length = rs.length := by
  rw [modelTrace_eq]; simp

/-! ### The challenge stream -/

/-- The `wwwfuzz` clause does not fire on the model's observation (`www` records have no clause: they
are judged by equality with the Lean parser alone). -/
theorem fuzz_accepts_model : chkFuzz fuzzOk = false := by decide

/-! ### Non-vacuity, and why well-formedness is needed -/

section Witness

/-- The honest network of Props.lean, as lookup tables; `reg` answers a registration with a client id. -/
def tHonest (doc : AsmDoc) : Tabs :=
  { prm := [(wServer.derive .prmPath, .doc { resource := wServer, authServers := [wAS] })]
    asm := [(wAS.derive .asOAuth, .doc doc)]
    tok := [(wHttps 2 12, [.good])]
    reg := [(wHttps 2 13, .created true [])]
    fetch := .result true wAS }

def tCase : MCase := { cfg := wCfg, inp := wInp, tabs := tHonest wDoc }
/-- Dynamic registration instead of pre-registered credentials. -/
def tCaseDcr : MCase :=
  { cfg := { wCfg with pre := none, dcr := true }, inp := wInp,
    tabs := tHonest { wDoc with registrationEndpoint := wHttps 2 13 } }

/-- The hypotheses of `monitor_accepts_round` are satisfiable by a round that runs to completion (two
GETs, the fetcher, a token request, a token installed): the monitor is silent and records nothing. -/
example : tCase.wf = true ∧ tCase.result.installed = true ∧ tCase.result.log.length = 4 ∧
    monitor tCase [] (obsOf tCase.result) = (none, []) := by decide

/-- … and by a round that registers dynamically: the monitor records the issuer, as the model does. -/
example : tCaseDcr.wf = true ∧ tCaseDcr.result.installed = true ∧
    monitor tCaseDcr [] (obsOf tCaseDcr.result) = (none, [wAS]) ∧ modelRegd tCaseDcr.tabs tCaseDcr.result = [wAS] := by
  decide

/-- A two-round history on one handler (the second round against the same network): silent, and the
monitor's state is the model's registrations. -/
example :
    let h : Handler := { cfg := { cimd := false, pre := none, dcr := true } }
    let r : TRound := { serverUrl := wServer, inp := wInp, tabs := tCaseDcr.tabs }
    runMon (modelTrace h [r, r]) = none ∧ histAfter [] (modelTrace h [r, r]) = [wAS, wAS] := by decide

/-- WITNESS 1 (why `wf` asks for a parsed request URL).  With an unparsable request URL and
pre-registered credentials the model skips both discovery phases (no location can be derived), falls
back to endpoints "derived" from the unparsable URL and hands the fetcher an authorization URL — no
GET at all, so the monitor finds no metadata backing the endpoint and reports
`asm_used_only_if_issuer_matches_and_pkce` on a behaviour of the model.  `req.URL` is a `*url.URL`:
the input does not exist for the code; the record language excludes it (`bad-op`). -/
def tBadServer : MCase :=
  { cfg := { cimd := false, pre := some .empty, dcr := false, serverUrl := .bad 0 }, inp := wInp, tabs := {} }

theorem false_alarm_unparsable_server_url :
    tBadServer.wf = false ∧ tBadServer.result.log = [.fetch (.bad 0) .pre (.bad 0)] ∧
    chkAll tBadServer [] (obsOf tBadServer.result) = some .asm := by decide

/-- WITNESS 2 (why `wf` asks that the challenge's URL is not spelled like a metadata location).  The
observation carries bare URLs: a GET of the challenge's `resource_metadata` URL
`https://h7/.well-known/oauth-authorization-server` cannot be told from an authorization-server
metadata request to issuer `https://h7`, for which no protected-resource document vouches — the
monitor reports `prm_used_only_if_resource_matches` on a behaviour of the model.  The harness's URL
values are injective only without such spellings; the record language excludes it (`bad-op`). -/
def tChallengeAtLocation : MCase :=
  { cfg := { cimd := false, pre := some .empty, dcr := false, serverUrl := wServer },
    inp := { wInp with challenges := [{ bearer := true, resourceMetadata := (wHttps 7 0).derive .asOAuth }] }, tabs := {} }

theorem false_alarm_challenge_at_metadata_location :
    tChallengeAtLocation.wf = false ∧
    chkAll tChallengeAtLocation [] (obsOf tChallengeAtLocation.result) = some (.prmIssuer (wHttps 7 0)) := by decide

end Witness

end OAuth
