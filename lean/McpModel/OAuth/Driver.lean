import McpModel.Base.Proto
import McpModel.OAuth.Monitor
import McpModel.OAuth.Challenge
import McpModel.OAuth.NewHandler
import McpModel.OAuth.Scopes
/-!
Driver for E11 (C15).

Flow records:   `auth st=… cimd=… pre=… dcr=… u=<url> hm=… ch=… hdr=… prm=… asm=… reg=… tok=… f=… [init=… sty=…]`
                creates a NEW handler with that configuration and runs one `Authorize` round on it;
                `again st=… u=<url> hm=… ch=… hdr=… prm=… asm=… reg=… tok=… f=… [sty=…]` runs ANOTHER round on the
                handler of the case (same configuration; its own request URL, response and network);
                `begin <as again>` STARTS a further `Authorize` call on the handler and leaves it in flight (observation
                `parked` = it waits in the fetcher, `done` = it ended before), `answer <k>` lets the fetcher of attempt `k`
                return and holds the attempt at its first token request (`held`; `done` = it ended without one),
                `end <k>` lets attempt `k` (numbered in
                start order) return from the fetcher and finish (observation as for a round): any number of
                attempts in flight, finished in any order; `auth`/`again` = `begin` + `end` at once.  In `f=R|<state>|<iss>`
                the state is `g` (generated for this attempt), `s<k>` (generated for attempt `k`: one in flight or
                finished) or `f`/`e` (forged / empty).
                `nts=1` on `auth`: `NewTokenSource` is configured (its source wraps the default one); `nt=E` on a round: it
                returns an error in that round.
                Scopes: `sf=<n|d|r|x>` / `rr=<0|1>` on `auth` (ScopeFilter variant, RequestRefreshToken), `ps=` / `as=` (the
                `scopes_supported` of the round's protected-resource / authorization-server documents), `ts=` (`scope`
                of the token response, `-` = absent); the observation ends with `sc=<sorted scope set of the authorization
                URL>` when the fetcher was reached.
                Observation `out=<outcome> inst=<0|1> cur=<i|k> log=<events>` (`Authorize` returning nil is `ok` both
                for a completed flow and for the 403-without-insufficient_scope skip; `inst` = TokenSource()
                changed in this round; `cur` = the round that installed the source now served, `i` = the
                initial one); the driver runs `Handler.authorize` on the state of the case and the
                world of the record, prints the same form, and evaluates the C15 monitor on the
                IMPLEMENTATION's observation (request log, outcome, token source changed?) — the monitor
                uses only the specification predicates, the scripted world of the round and what the
                implementation did in earlier rounds of the case, never `authorize`.  The monitor is
                the typed `monitor` of Monitor.lean (bridged to the model by Bridge.lean, to the
                property clauses by Sound.lean); this file is the string layer: token parser,
                renderer, clause texts (`Clause.text`).
Parser records: `www <hex> <hex> …` (one token per header value) observation `err` | `ok <challenge>…`;
                `wwwfuzz <hex>` (arbitrary bytes) observation `nopanic`.
-/
namespace OAuth
open Proto

/-! ### URL tokens -/

def wkName : Wk → String
  | .prmPath => "pp" | .prmRoot => "pr" | .asOAuth => "ao" | .asOIDC => "ai" | .asOAuthIns => "aoi"
  | .asOIDCIns => "aii" | .asOIDCApp => "aia" | .authorize => "fa" | .token => "ft" | .register => "fr"

def wkOfName : String → Option Wk
  | "pp" => some .prmPath | "pr" => some .prmRoot | "ao" => some .asOAuth | "ai" => some .asOIDC
  | "aoi" => some .asOAuthIns | "aii" => some .asOIDCIns | "aia" => some .asOIDCApp
  | "fa" => some .authorize | "ft" => some .token | "fr" => some .register | _ => none

def showUrl : Url → String
  | .empty => "-"
  | .bad n => s!"!{n}"
  | .at o s k ds =>
    let sch := if o.scheme == "" then "_" else o.scheme
    let base := s!"{sch}~{if o.loopback then "L" else "N"}{o.host}~{s}~{k}"
    if ds.isEmpty then base else base ++ "~" ++ ".".intercalate (ds.map wkName)

def parseUrl (t : String) : Option Url :=
  if t == "-" then some .empty
  else if t.startsWith "!" then (t.drop 1).toString.toNat?.map .bad
  else if t.startsWith "?" then
    -- a URL the harness could not map back: keep its class for the monitor
    match (t.drop 1).toString.splitOn "~" with
    | [sch, l, _] => some (.at ⟨if sch == "_" then "" else sch, l == "L", 999999⟩ 999999 0 [])
    | _ => none
  else
    match t.splitOn "~" with
    | sch :: h :: s :: k :: rest =>
      let ds : Option (List Wk) := match rest with
        | [] => some []
        | [d] => (d.splitOn ".").mapM wkOfName
        | _ => none
      let lb := h.startsWith "L"
      if !(lb || h.startsWith "N") then none else
      match (h.drop 1).toString.toNat?, s.toNat?, k.toNat?, ds with
      | some hn, some sn, some kn, some ds => some (.at ⟨if sch == "_" then "" else sch, lb, hn⟩ sn kn ds)
      | _, _, _, _ => none
    | _ => none

def parseUrlList (t : String) : Option (List Url) :=
  if t == "." then some [] else (t.splitOn ",").mapM parseUrl

/-! ### World tokens -/

def parsePrmResp (t : String) : Option (Resp PrmDoc) :=
  match t.splitOn "|" with
  | ["T"] => some .transportErr
  | ["S4"] => some .status4xx
  | ["S5"] => some .statusOther
  | ["S3"] => some .statusOther
  | ["S2"] => some .statusOther
  | ["C"] => some .wrongContentType
  | ["J"] => some .badJSON
  | ["L"] => some .badJSON      -- larger than the 1 MiB limit: the truncated text does not decode
  | ["D", r, as] => do some (.doc { resource := ← parseUrl r, authServers := ← parseUrlList as })
  | _ => none

def parseAsmResp (t : String) : Option (Resp AsmDoc) :=
  match t.splitOn "|" with
  | ["T"] => some .transportErr
  | ["S4"] => some .status4xx
  | ["S5"] => some .statusOther
  | ["S3"] => some .statusOther
  | ["S2"] => some .statusOther
  | ["C"] => some .wrongContentType
  | ["J"] => some .badJSON
  | ["L"] => some .badJSON      -- larger than the 1 MiB limit: the truncated text does not decode
  | ["D", iss, az, tk, rg, intro, others, flags] => do
    let fl := flags.toList
    some (.doc { issuer := ← parseUrl iss, authorizationEndpoint := ← parseUrl az, tokenEndpoint := ← parseUrl tk,
                 registrationEndpoint := ← parseUrl rg, introspectionEndpoint := ← parseUrl intro,
                 otherUrls := ← parseUrlList others, pkce := fl.contains 'k', cimdSupported := fl.contains 'c',
                 issParamSupported := fl.contains 'i', methodPost := fl.contains 'p', methodBasic := fl.contains 'b' })
  | _ => none

def parseRegResp (t : String) : Option RegResp :=
  match t.splitOn "|" with
  | ["FT"] => some .fail | ["F5"] => some .fail | ["F4"] => some .fail | ["FJ"] => some .fail | ["F3"] => some .fail
  | ["F4J"] => some .fail | ["FB"] => some .fail
  | ["R", hasId, urls, _method] => do some (.created (hasId == "1") (← parseUrlList urls))
  | _ => none

def parseTokResp (t : String) : Option TokResp :=
  match t with
  | "G" => some .good
  | "X" => some .goodExpired
  | "FT" => some .fail | "F4" => some .fail | "F5" => some .fail | "FE" => some .fail | "FN" => some .fail | "FJ" => some .fail
  | _ => none

def parseMap {α} (f : String → Option α) (t : String) : Option (List (Url × α)) :=
  if t == "." then some [] else
  (t.splitOn ";").mapM fun e =>
    match e.splitOn ">" with
    | [u, r] => do some (← parseUrl u, ← f r)
    | _ => none

/-- `R|<state>|<iss>`: state `g` = the one generated for THIS attempt (`own`), `s<k>` = the one generated for
attempt `k` of the handler, anything else (`f` forged, `e` empty) = a value no attempt generated. -/
def parseFetch (own : Nat) (t : String) : Option FetchV :=
  match t.splitOn "|" with
  | ["E"] => some .err
  | ["R", st, iss] => do
    let sv : StateVal :=
      if st == "g" then .gen own
      else if st.startsWith "s" then (match (st.drop 1).toString.toNat? with | some k => .gen k | none => .foreign)
      else .foreign
    some (.result sv (← parseUrl iss))
  | _ => none

def parseChallenge (t : String) : Option (Challenge × String) :=
  match t.splitOn ":" with
  | [b, rm, e, hexs] => do
    let err ← match e with
      | "n" => some ChErr.none | "i" => some ChErr.insufficientScope | "o" => some ChErr.other | _ => none
    some ({ bearer := b == "b", resourceMetadata := ← parseUrl rm, error := err }, hexs)
  | _ => none

/-- A parsed flow record: the typed round the monitor reads (`m`), and the string-level extras. -/
structure Case where
  m : MCase
  ps : List Scope := []                -- `scopes_supported` of the protected-resource documents of the round
  asS : List Scope := []               -- `scopes_supported` of the authorization-server documents of the round
  ts : Option (List Scope) := none     -- `scope` member of the token response (`none` = absent)
  sc : Option (List Scope) := none     -- set at `start`: the scopes of the authorization request (canonical), if the fetcher is reached
  key : Url := .empty                  -- the issuer string `grantedScopes` is keyed by in this attempt
  fv : FetchV                          -- the fetcher's answer with the state VALUE (`m.tabs.fetch = fv.answer own`)
  hdr : Option (List String)           -- rendered header values (hex), for the parser cross-check
  chHex : List String

def kvs (toks : List String) : List (String × String) :=
  toks.filterMap fun t =>
    match t.splitOn "=" with
    | k :: v :: rest => some (k, "=".intercalate (v :: rest))
    | _ => none

/-- `over` = the configuration of the handler of the case (`again` records carry none of their own). -/
def parseCase (over : Option (HConfig × Bool)) (own : Nat) (toks : List String) : Option Case := do
  let m := kvs toks
  let get := fun k => m.lookup k
  let st ← get "st"
  -- `nts=1` (configuration): NewTokenSource is set; `nt=E` (round): it returns an error in this round
  let nts : Bool := match over with
    | some c => c.2
    | none => get "nts" == some "1"
  let hc : HConfig ← match over with
    | some c => some c.1
    | none => do
      let cimd ← get "cimd"
      let pre ← get "pre"
      let dcr ← get "dcr"
      let preCfg : Option Url ← if pre == "none" then some none else (parseUrl pre).map some
      some { cimd := cimd == "1", pre := preCfg, dcr := dcr == "1" }
  let u ← (← get "u") |> parseUrl
  let hm ← get "hm"
  let cht ← get "ch"
  let chs ← if cht == "." then some [] else (cht.splitOn "/").mapM parseChallenge
  let prmTab ← parseMap parsePrmResp (← get "prm")
  let asmTab ← parseMap parseAsmResp (← get "asm")
  let regTab ← parseMap parseRegResp (← get "reg")
  let tokTab ← parseMap (fun s => (s.splitOn ",").mapM parseTokResp) (← get "tok")
  let f ← parseFetch own (← get "f")
  let hdr : Option (List String) := (get "hdr").map fun h => if h == "." then [] else h.splitOn ","
  let scopeList := fun (t : String) => if t == "." then [] else t.splitOn ","
  let ps : List Scope := match get "ps" with | some t => scopeList t | none => ["mcp:read"]
  let asS : List Scope := match get "as" with | some t => scopeList t | none => []
  let ts : Option (List Scope) := match get "ts" with | some "-" => none | some t => some (scopeList t) | none => none
  some { m := { cfg := hc.at u,
                inp := { status403 := st == "403", headerMalformed := hm == "1", challenges := chs.map (·.1) },
                tabs := { prm := prmTab, asm := asmTab, tok := tokTab, reg := regTab, fetch := f.answer own,
                          ntsFails := nts && get "nt" == some "E" } },
         ps := ps, asS := asS, ts := ts, fv := f, hdr := hdr, chHex := chs.map (·.2) }

/-! ### Observations -/

def showCred : Cred → String
  | .none => "n" | .cimd => "c" | .pre => "p" | .dcr => "d"

def parseCred : String → Cred
  | "c" => .cimd | "p" => .pre | "d" => .dcr | _ => .none

def showEvent : Event → String
  | .get _ u => s!"G:{showUrl u}"
  | .register u => s!"R:{showUrl u}"
  | .fetch u c r => s!"F:{showUrl u}:{showCred c}:{showUrl r}"
  | .token u c => s!"T:{showUrl u}:{showCred c}"

def showServed : Served → String
  | .initial => "i"
  | .round n => toString n

def showResult (r : Result) (cur : Served) : String :=
  let lg := if r.log.isEmpty then "." else ",".intercalate (r.log.map showEvent)
  s!"out={outName r.outcome} inst={if r.installed then 1 else 0} cur={showServed cur} log={lg}"

def parseEvent (t : String) : Option Event :=
  match t.splitOn ":" with
  | ["G", u] => (parseUrl u).map (.get .prm)
  | ["R", u] => (parseUrl u).map .register
  | ["T", u, c] => (parseUrl u).map (.token · (parseCred c))
  | ["F", u, c, r] => do some (.fetch (← parseUrl u) (parseCred c) (← parseUrl r))
  | _ => none

def parseObs (s : String) : Option Obs := do
  let m := kvs (words s)
  let out ← m.lookup "out"
  let inst ← m.lookup "inst"
  let lg ← m.lookup "log"
  let evs ← if lg == "." then some [] else (lg.splitOn ",").mapM parseEvent
  some { out := out, inst := inst == "1", events := evs }

/-! ### Clause texts (the monitor itself is Monitor.lean) -/

def Clause.text : Clause → String
  | .httpsEmptyToken => "C15: requests_https_or_loopback: token request issued to an EMPTY token_endpoint (metadata without the REQUIRED endpoint was accepted)"
  | .https e => s!"C15: requests_https_or_loopback: {showEvent e} is neither https nor loopback"
  | .script e => s!"C15: no_script_scheme_used: {showEvent e} has a script-capable scheme"
  | .prmIssuer I => s!"C15: prm_used_only_if_resource_matches: authorization server {showUrl I} comes from no valid protected-resource metadata"
  | .prmResource r => s!"C15: prm_used_only_if_resource_matches: resource parameter {showUrl r} is not the server's"
  | .asm => "C15: asm_used_only_if_issuer_matches_and_pkce: an endpoint in use is not backed by valid authorization-server metadata (issuer match, PKCE, safe URLs) nor by the 4xx fall-back"
  | .exchFetcher => "C15: exchange_requires_state_and_iss: token request although the fetcher failed"
  | .exchState => "C15: exchange_requires_state_and_iss: token request although the returned state differs from the generated one"
  | .exchIss => "C15: exchange_requires_state_and_iss: token request although the RFC 9207 iss check fails"
  | .preNone => "C15: preregistered_issuer_binding: pre-registered credentials used but none configured"
  | .preOther => "C15: preregistered_issuer_binding: credentials registered for another issuer were presented"
  | .dcrNotConfigured => "C15: registered_credentials_bound_to_issuer: dynamically registered credentials used but dynamic registration is not configured"
  | .dcrForeign => "C15: registered_credentials_bound_to_issuer: dynamically registered credentials presented to an authorization server that did not issue them (no successful registration there in this round or an earlier one)"
  | .cimdNotConfigured => "C15: registered_credentials_bound_to_issuer: a client-id metadata document URL is used but none is configured"
  | .instOutcome out => s!"C15: failed_check_installs_nothing: Authorize returned {out} but installed a token source"
  | .instNoExchange => "C15: failed_check_installs_nothing: token source installed without a successful exchange"

/-! ### Challenge parser records -/

def hexL (l : List Char) : String := stringToHex (String.ofList l)

def insertSorted (p : List Char × List Char) : List (List Char × List Char) → List (List Char × List Char)
  | [] => [p]
  | q :: t => if String.ofList p.1 < String.ofList q.1 then p :: q :: t else q :: insertSorted p t

def showParsed (p : Challenge.Parsed) : String :=
  let ps := p.params.foldl (fun acc x => insertSorted x acc) []
  let body := ",".intercalate (ps.map fun (k, v) => s!"{hexL k}={hexL v}")
  s!"{hexL p.scheme}:{body}"

def wwwModel (hexes : List String) : String :=
  match hexes.mapM hexToString with
  | none => "bad-op"
  | some hs =>
    match Challenge.parseHeaders (hs.map String.toList) with
    | none => "err"
    | some cs => " ".intercalate ("ok" :: cs.map showParsed)

/-- Cross-check of a flow record: the model parser applied to the rendered header must give the
structural challenges of the record. -/
def hdrConsistent (c : Case) : Bool :=
  match c.hdr with
  | none => true
  | some hexes =>
    match hexes.mapM hexToString with
    | none => false
    | some hs =>
      match Challenge.parseHeaders (hs.map String.toList) with
      | none => c.m.inp.headerMalformed
      | some ps =>
        !c.m.inp.headerMalformed && ps.length == c.m.inp.challenges.length &&
        (List.zip ps (List.zip c.m.inp.challenges c.chHex)).all fun (p, ch, hx) =>
          (String.ofList p.scheme == "bearer") == ch.bearer &&
          hexL (p.get "resource_metadata") == hx &&
          (hx == "") == (ch.resourceMetadata == .empty) &&
          (match String.ofList (p.get "error") with
           | "" => ch.error == .none
           | "insufficient_scope" => ch.error == .insufficientScope
           | _ => ch.error == .other)

/-! ### Handler construction records

`new nil=<0|1> cimd=<-|phq> pre=<-|<idEmpty><n|0|1>> dcr=<-|<metaNil>:<apptype>:<id.kind,…|.>> fetcher=<0|1> rd=<-|id>`
(`phq`: parses / https / has a path; secret `n` = no ClientSecretAuth, `1` = empty secret; apptype `u|n|w|o<k>`;
kind `x|l|r|c`), observation `ok rd=<id> at=<-|apptype>` or `err=<class>`. -/

def parseAppType (t : String) : Option AppType :=
  if t == "u" then some .unset else if t == "n" then some .native else if t == "w" then some .web
  else if t.startsWith "o" then (t.drop 1).toString.toNat?.map .other else none

def showAppType : AppType → String
  | .unset => "u" | .native => "n" | .web => "w" | .other k => s!"o{k}"

def parseRedirect (t : String) : Option Redirect :=
  match t.splitOn "." with
  | [i, k] => do
    let kind ← match k with
      | "x" => some RedirKind.unparsable | "l" => some .webLoopback | "r" => some .webRemote | "c" => some .custom | _ => none
    some { id := ← i.toNat?, kind := kind }
  | _ => none

def parseRaw (toks : List String) : Option RawConfig := do
  let m := kvs toks
  let get := fun k => m.lookup k
  let cimd : Option CimdRaw ← match ← get "cimd" with
    | "-" => some none
    | t => match t.toList with
      | [p, h, q] => some (some { parses := p == '1', https := h == '1', hasPath := q == '1' })
      | _ => none
  let pre : Option PreRaw ← match ← get "pre" with
    | "-" => some none
    | t => match t.toList with
      | [e, sa] => some (some { clientIdEmpty := e == '1', secretAuth := if sa == 'n' then none else some (sa == '1'), issuer := .empty })
      | _ => none
  let dcr : Option DcrRaw ← match ← get "dcr" with
    | "-" => some none
    | t => match t.splitOn ":" with
      | [mn, apt, rs] => do
        let rl ← if rs == "." then some [] else (rs.splitOn ",").mapM parseRedirect
        some (some { metadataNil := mn == "1", redirects := rl, appType := ← parseAppType apt })
      | _ => none
  let rd : Option Nat ← match ← get "rd" with
    | "-" => some none
    | t => t.toNat?.map some
  some { isNil := (← get "nil") == "1", cimd := cimd, pre := pre, dcr := dcr, fetcher := (← get "fetcher") == "1", redirectURL := rd }

def showNewErr : NewErr → String
  | .nilConfig => "nil-config" | .noRegistration => "no-registration" | .noFetcher => "no-fetcher" | .cimdUrl => "cimd-url"
  | .preInvalid => "pre-invalid" | .dcrNoMetadata => "dcr-no-metadata" | .dcrNoRedirects => "dcr-no-redirects"
  | .redirectNotAllowed => "redirect-not-allowed" | .appTypeConflict => "app-type-conflict" | .noRedirect => "no-redirect"

def showNew (c : RawConfig) : String :=
  match newHandler c with
  | .error e => s!"err={showNewErr e}"
  | .ok h => s!"ok rd={h.redirect} at={match h.appType with | none => "-" | some t => showAppType t}"

def newStep (toks : List String) (impl : String) : Verdict :=
  match parseRaw toks with
  | none => { model := "bad-op" }
  | some c =>
    { model := showNew c,
      violated := if chkNew c (impl.startsWith "ok ") then
          some "C15: handler_configuration: NewAuthorizationCodeHandler created a handler from an unusable configuration (no registration mode / no fetcher / client-id document URL not non-root https / invalid pre-registered credentials / redirect URL outside the registered ones / contradicting application type)"
        else none }

/-! ### Scopes (Scopes.lean): the `sc=` field of the observation -/

def insertScope (x : Scope) : List Scope → List Scope
  | [] => [x]
  | y :: t => if x < y then x :: y :: t else if x == y then y :: t else y :: insertScope x t

/-- Sorted, without duplicates: how both sides print a scope SET. -/
def canonScopes (l : List Scope) : List Scope := l.foldl (fun acc x => insertScope x acc) []

def showScopes (l : List Scope) : String := if l.isEmpty then "." else ",".intercalate l

/-- `strings.Fields` on the alphabet the generator uses (blank, tab). -/
def fieldsAux : List Char → List Char → List String → List String
  | [], cur, acc => (if cur.isEmpty then acc else String.ofList cur.reverse :: acc).reverse
  | c :: t, cur, acc =>
    if c == ' ' || c == '\t' then fieldsAux t [] (if cur.isEmpty then acc else String.ofList cur.reverse :: acc)
    else fieldsAux t (c :: cur) acc

/-- `scopesFromChallenges` on the rendered header: first Bearer challenge with a non-empty `scope`. -/
def challengeScopes (c : Case) : List Scope :=
  match c.hdr with
  | none => []
  | some hexes =>
    match hexes.mapM hexToString with
    | none => []
    | some hs =>
      match Challenge.parseHeaders (hs.map String.toList) with
      | none => []
      | some ps =>
        match ps.find? (fun p => String.ofList p.scheme == "bearer" && !(p.get "scope").isEmpty) with
        | some p => fieldsAux (p.get "scope") [] []
        | none => []

/-- The `ScopeFilter` variants of the harness. -/
def scopeFilterOf : String → Option (List Scope → List Scope)
  | "d" => some fun _ => []
  | "r" => some fun l => l.filter (·.endsWith ":read")
  | "x" => some fun l => l ++ ["extra:scope"]
  | _ => none

/-- The state of a case: the model handler with its attempts in flight (`CHandler`), the parsed record
of every attempt in flight, and what the monitor remembers of the implementation's earlier rounds
(issuers at which it registered dynamically). -/
structure HState where
  c : CHandler
  nts : Bool := false                   -- NewTokenSource is configured
  sf : String := "n"                    -- ScopeFilter variant
  rr : Bool := false                    -- RequestRefreshToken
  granted : Granted := []               -- `grantedScopes`
  cases : List (Nat × Case) := []
  dcrIssuers : List Url := []

def Case.attempt (c : Case) : Attempt :=
  { serverUrl := c.m.cfg.serverUrl, inp := c.m.inp, world := c.m.tabs.world, fetchV := fun _ => c.fv }

def isFetchEv : Event → Bool
  | .fetch _ _ _ => true
  | _ => false

/-- `start`: the attempt gets the next number; the observation says whether it reached the fetcher
(`parked`) or ended before (`done`). -/
def startStep (st : HState) (c : Case) : Option HState × String :=
  if !hdrConsistent c then (some st, "model-header-mismatch") else
  if !c.m.wf then (some st, "bad-op") else   -- outside the domain of `monitor_accepts_schedule`
  let k := st.c.started
  let c' := (st.c.step (.start c.attempt)).1
  let r := attemptResult st.c.cfg k c.attempt
  -- the scopes of the authorization request are fixed BEFORE the fetcher is called: `grantedScopes` is read here
  let c := if !r.log.any isFetchEv then c else
    let w := c.m.tabs.world
    let p := discoverPrm w 0 (prmCandidates (rmFrom c.m.inp.challenges) c.m.cfg.serverUrl)
    let prmS := match p.1 with | .found _ => c.ps | _ => []
    let issuer := p.1.issuer c.m.cfg.serverUrl
    let q := discoverAsm w issuer 0 (asmCandidates issuer)
    let asmS := match q.1 with | .found _ => c.asS | _ => []
    let key := match r.asm with | some a => a.issuer | none => .empty
    let sc := requestedScopes { filter := scopeFilterOf st.sf, refresh := st.rr } (challengeScopes c) prmS asmS (st.granted.get key)
    { c with sc := some (canonScopes sc), key := key }
  (some { st with c := c', cases := st.cases ++ [(k, c)] }, if r.log.any isFetchEv then "parked" else "done")

/-- `finish k`: the model's result of attempt `k`, the C15 monitor on the IMPLEMENTATION's observation of it. -/
def finishStep (st : HState) (k : Nat) (impl : String) : Option HState × Verdict :=
  match st.cases.lookup k, st.c.step (.finish k) with
  | some c, (c', some (_, r)) =>
    let modelText := showResult r c'.served ++ (match c.sc with | some l => " sc=" ++ showScopes l | none => "")
    -- `updateGrantedScopes`: after a completed flow whose token can be read
    let granted' := match c.sc with
      | some l => if r.installed && r.outcome == .ok then st.granted.set c.key (canonScopes (grantedAfter c.ts l)) else st.granted
      | none => st.granted
    -- run-time self-check of the string layer: the model's text parses back to the typed observation the
    -- bridge theorems are about (`monitor_accepts_schedule` is a statement about `obsOf r`)
    if parseObs modelText != some (obsOf r) then (some st, { model := "model-render-mismatch" }) else
    let (viol, regd) := match parseObs impl with
      | none => (some "C15: unparsable observation", [])
      | some o => let (cl, regd) := monitor c.m st.dcrIssuers o; (cl.map Clause.text, regd)
    (some { st with c := c', cases := st.cases.filter (fun p => p.1 != k), dcrIssuers := st.dcrIssuers ++ regd, granted := granted' },
     { model := modelText, violated := viol })
  | _, _ => (some st, { model := "no-such-attempt" })

/-- `auth` / `again`: `start` immediately followed by `finish` (`sequential_is_concurrent`). -/
def roundStep (st : HState) (c : Case) (impl : String) : Option HState × Verdict :=
  match startStep st c with
  | (some st', "parked") | (some st', "done") => finishStep st' st.c.started impl
  | (st', e) => (st', { model := e })

def engine : Engine (Option HState) where
  init := none
  step st toks impl :=
    match toks with
    | ["reset"] => (none, { model := "ok" })
    | "www" :: hexes => (st, { model := wwwModel hexes })
    | ["wwwfuzz", _] =>
      (st, { model := fuzzOk, violated := if chkFuzz impl then some "C15: ParseWWWAuthenticate panics" else none })
    | "new" :: rest => (st, newStep rest impl)
    | "auth" :: rest =>
      match parseCase none 0 rest with
      | none => (none, { model := "bad-op" })
      | some c => roundStep { c := { cfg := { cimd := c.m.cfg.cimd, pre := c.m.cfg.pre, dcr := c.m.cfg.dcr } },
                              nts := (kvs rest).lookup "nts" == some "1", sf := ((kvs rest).lookup "sf").getD "n",
                              rr := (kvs rest).lookup "rr" == some "1" } c impl
    | "again" :: rest =>
      match st with
      | none => (none, { model := "no-handler" })
      | some hs =>
        match parseCase (some (hs.c.cfg, hs.nts)) hs.c.started rest with
        | none => (st, { model := "bad-op" })
        | some c => roundStep hs c impl
    | "begin" :: rest =>
      match st with
      | none => (none, { model := "no-handler" })
      | some hs =>
        match parseCase (some (hs.c.cfg, hs.nts)) hs.c.started rest with
        | none => (st, { model := "bad-op" })
        | some c => let (st', m) := startStep hs c; (st', { model := m })
    | ["answer", k] =>
      -- the fetcher of attempt `k` returns; the attempt is held at its first token request (`held`) or ends (`done`:
      -- reported by its `end` record).  No effect on the model handler (`Step.answer`, `answer_is_invisible`).
      match st, k.toNat? with
      | some hs, some k =>
        match hs.cases.lookup k with
        | some c =>
          let r := attemptResult hs.c.cfg k c.attempt
          (some { hs with c := (hs.c.step (.answer k)).1 }, { model := if hasTok (obsOf r).events then "held" else "done" })
        | none => (st, { model := "no-such-attempt" })
      | _, _ => (st, { model := "bad-op" })
    | ["ctor", k] =>
      -- attempt `k` goes on up to the configured NewTokenSource and is held INSIDE it (`ctor`): the code is exchanged, its
      -- next statement is `h.tokenSource = ts`; `done` = it ended without reaching the constructor.  Still no effect on the
      -- model handler (`Step.answer`: any progress of an attempt before its last statement).
      match st, k.toNat? with
      | some hs, some k =>
        match hs.cases.lookup k with
        | some c =>
          let r := attemptResult hs.c.cfg k c.attempt
          (some { hs with c := (hs.c.step (.answer k)).1 },
           { model := if hs.nts && (r.installed || r.outcome == .tsErr) then "ctor" else "done" })
        | none => (st, { model := "no-such-attempt" })
      | _, _ => (st, { model := "bad-op" })
    | ["end", k] =>
      match st, k.toNat? with
      | some hs, some k => finishStep hs k impl
      | _, _ => (st, { model := "bad-op" })
    | _ => (st, { model := "bad-op" })

end OAuth

def main : IO Unit := Proto.run OAuth.engine
