import McpModel.Base.Proto
import McpModel.OAuth.Model
import McpModel.OAuth.Challenge
/-!
Driver for E11 (C15).

Flow records:   `auth st=… cimd=… pre=… dcr=… u=<url> hm=… ch=… hdr=… prm=… asm=… reg=… tok=… f=… [init=… sty=…]`
                creates a NEW handler with that configuration and runs one `Authorize` round on it;
                `again st=… u=<url> hm=… ch=… hdr=… prm=… asm=… reg=… tok=… f=… [sty=…]` runs ANOTHER round on the
                handler of the case (same configuration; its own request URL, response and network).
                Observation `out=<outcome> inst=<0|1> cur=<i|k> log=<events>` (`Authorize` returning nil is `ok` both
                for a completed flow and for the 403-without-insufficient_scope skip; `inst` = TokenSource()
                changed in this round; `cur` = the round that installed the source now served, `i` = the
                initial one); the driver runs `Handler.authorize` on the state of the case and the
                world of the record, prints the same form, and evaluates the C15 monitor on the
                IMPLEMENTATION's observation (request log, outcome, token source changed?) — the monitor
                uses only the specification predicates, the scripted world of the round and what the
                implementation did in earlier rounds of the case, never `authorize`.
Parser records: `www <hex> <hex> …` (one token per header value) observation `err` | `ok <challenge>…`;
                `wwwfuzz <hex>` (arbitrary bytes) observation `nopanic`.
-/
namespace OAuth
open Proto

/-! ### URL tokens -/

def wkName : Wk → String
  | .prmPath => "pp" | .prmRoot => "pr" | .asOAuth => "ao" | .asOIDC => "ai" | .asOAuthIns => "aoi"
  | .asOIDCIns => "aii" | .asOIDCApp => "aia" | .authorize => "fa" | .token => "ft" | .register => "fr"

def wkOfName : String → Option Wk
  | "pp" => some .prmPath | "pr" => some .prmRoot | "ao" => some .asOAuth | "ai" => some .asOIDC
  | "aoi" => some .asOAuthIns | "aii" => some .asOIDCIns | "aia" => some .asOIDCApp
  | "fa" => some .authorize | "ft" => some .token | "fr" => some .register | _ => none

def showUrl : Url → String
  | .empty => "-"
  | .bad n => s!"!{n}"
  | .at o s k ds =>
    let sch := if o.scheme == "" then "_" else o.scheme
    let base := s!"{sch}~{if o.loopback then "L" else "N"}{o.host}~{s}~{k}"
    if ds.isEmpty then base else base ++ "~" ++ ".".intercalate (ds.map wkName)

def parseUrl (t : String) : Option Url :=
  if t == "-" then some .empty
  else if t.startsWith "!" then (t.drop 1).toString.toNat?.map .bad
  else if t.startsWith "?" then
    -- a URL the harness could not map back: keep its class for the monitor
    match (t.drop 1).toString.splitOn "~" with
    | [sch, l, _] => some (.at ⟨if sch == "_" then "" else sch, l == "L", 999999⟩ 999999 0 [])
    | _ => none
  else
    match t.splitOn "~" with
    | sch :: h :: s :: k :: rest =>
      let ds : Option (List Wk) := match rest with
        | [] => some []
        | [d] => (d.splitOn ".").mapM wkOfName
        | _ => none
      let lb := h.startsWith "L"
      if !(lb || h.startsWith "N") then none else
      match (h.drop 1).toString.toNat?, s.toNat?, k.toNat?, ds with
      | some hn, some sn, some kn, some ds => some (.at ⟨if sch == "_" then "" else sch, lb, hn⟩ sn kn ds)
      | _, _, _, _ => none
    | _ => none

def parseUrlList (t : String) : Option (List Url) :=
  if t == "." then some [] else (t.splitOn ",").mapM parseUrl

/-! ### World tokens -/

def parsePrmResp (t : String) : Option (Resp PrmDoc) :=
  match t.splitOn "|" with
  | ["T"] => some .transportErr
  | ["S4"] => some .status4xx
  | ["S5"] => some .statusOther
  | ["S3"] => some .statusOther
  | ["S2"] => some .statusOther
  | ["C"] => some .wrongContentType
  | ["J"] => some .badJSON
  | ["D", r, as] => do some (.doc { resource := ← parseUrl r, authServers := ← parseUrlList as })
  | _ => none

def parseAsmResp (t : String) : Option (Resp AsmDoc) :=
  match t.splitOn "|" with
  | ["T"] => some .transportErr
  | ["S4"] => some .status4xx
  | ["S5"] => some .statusOther
  | ["S3"] => some .statusOther
  | ["S2"] => some .statusOther
  | ["C"] => some .wrongContentType
  | ["J"] => some .badJSON
  | ["D", iss, az, tk, rg, intro, others, flags] => do
    let fl := flags.toList
    some (.doc { issuer := ← parseUrl iss, authorizationEndpoint := ← parseUrl az, tokenEndpoint := ← parseUrl tk,
                 registrationEndpoint := ← parseUrl rg, introspectionEndpoint := ← parseUrl intro,
                 otherUrls := ← parseUrlList others, pkce := fl.contains 'k', cimdSupported := fl.contains 'c',
                 issParamSupported := fl.contains 'i', methodPost := fl.contains 'p', methodBasic := fl.contains 'b' })
  | _ => none

def parseRegResp (t : String) : Option RegResp :=
  match t.splitOn "|" with
  | ["FT"] => some .fail | ["F5"] => some .fail | ["F4"] => some .fail | ["FJ"] => some .fail | ["F3"] => some .fail
  | ["R", hasId, urls, _method] => do some (.created (hasId == "1") (← parseUrlList urls))
  | _ => none

def parseTokResp (t : String) : Option TokResp :=
  match t with
  | "G" => some .good
  | "X" => some .goodExpired
  | "FT" => some .fail | "F4" => some .fail | "F5" => some .fail | "FE" => some .fail | "FN" => some .fail | "FJ" => some .fail
  | _ => none

def parseMap {α} (f : String → Option α) (t : String) : Option (List (Url × α)) :=
  if t == "." then some [] else
  (t.splitOn ";").mapM fun e =>
    match e.splitOn ">" with
    | [u, r] => do some (← parseUrl u, ← f r)
    | _ => none

def parseFetch (t : String) : Option FetchAnswer :=
  match t.splitOn "|" with
  | ["E"] => some .err
  | ["R", st, iss] => do some (.result (st == "g") (← parseUrl iss))
  | _ => none

def parseChallenge (t : String) : Option (Challenge × String) :=
  match t.splitOn ":" with
  | [b, rm, e, hexs] => do
    let err ← match e with
      | "n" => some ChErr.none | "i" => some ChErr.insufficientScope | "o" => some ChErr.other | _ => none
    some ({ bearer := b == "b", resourceMetadata := ← parseUrl rm, error := err }, hexs)
  | _ => none

structure Case where
  cfg : Config
  inp : Input
  world : World
  prmTab : List (Url × Resp PrmDoc)
  asmTab : List (Url × Resp AsmDoc)
  tokTab : List (Url × List TokResp)
  regTab : List (Url × RegResp)
  fetch : FetchAnswer
  hdr : Option (List String)           -- rendered header values (hex), for the parser cross-check
  chHex : List String

def kvs (toks : List String) : List (String × String) :=
  toks.filterMap fun t =>
    match t.splitOn "=" with
    | k :: v :: rest => some (k, "=".intercalate (v :: rest))
    | _ => none

/-- `over` = the configuration of the handler of the case (`again` records carry none of their own). -/
def parseCase (over : Option HConfig) (toks : List String) : Option Case := do
  let m := kvs toks
  let get := fun k => m.lookup k
  let st ← get "st"
  let hc : HConfig ← match over with
    | some c => some c
    | none => do
      let cimd ← get "cimd"
      let pre ← get "pre"
      let dcr ← get "dcr"
      let preCfg : Option Url ← if pre == "none" then some none else (parseUrl pre).map some
      some { cimd := cimd == "1", pre := preCfg, dcr := dcr == "1" }
  let u ← (← get "u") |> parseUrl
  let hm ← get "hm"
  let cht ← get "ch"
  let chs ← if cht == "." then some [] else (cht.splitOn "/").mapM parseChallenge
  let prmTab ← parseMap parsePrmResp (← get "prm")
  let asmTab ← parseMap parseAsmResp (← get "asm")
  let regTab ← parseMap parseRegResp (← get "reg")
  let tokTab ← parseMap (fun s => (s.splitOn ",").mapM parseTokResp) (← get "tok")
  let f ← parseFetch (← get "f")
  let hdr : Option (List String) := (get "hdr").map fun h => if h == "." then [] else h.splitOn ","
  let world : World := {
    prm := fun _ x => (prmTab.lookup x).getD .status4xx
    asm := fun _ x => (asmTab.lookup x).getD .status4xx
    reg := fun x => (regTab.lookup x).getD .fail
    tok := fun i x => ((tokTab.lookup x).getD []).getD i .fail
    fetch := fun _ => f }
  some { cfg := hc.at u,
         inp := { status403 := st == "403", headerMalformed := hm == "1", challenges := chs.map (·.1) },
         world := world, prmTab := prmTab, asmTab := asmTab, tokTab := tokTab, regTab := regTab, fetch := f, hdr := hdr,
         chHex := chs.map (·.2) }

/-! ### Observations -/

def showCred : Cred → String
  | .none => "n" | .cimd => "c" | .pre => "p" | .dcr => "d"

def parseCred : String → Cred
  | "c" => .cimd | "p" => .pre | "d" => .dcr | _ => .none

def showEvent : Event → String
  | .get _ u => s!"G:{showUrl u}"
  | .register u => s!"R:{showUrl u}"
  | .fetch u c r => s!"F:{showUrl u}:{showCred c}:{showUrl r}"
  | .token u c => s!"T:{showUrl u}:{showCred c}"

def showOutcome : Outcome → String
  | .ok => "ok" | .skip => "ok" | .hdr => "hdr" | .noas => "noas"
  | .asmUrl => "asm-url" | .asmFetch => "asm-fetch" | .asmIssuer => "asm-issuer" | .asmPkce => "asm-pkce" | .asmField => "asm-field"
  | .preIss => "pre-iss" | .reg => "reg" | .noReg => "no-reg"
  | .fetch => "fetch" | .state => "state" | .issMissing => "iss-missing" | .issMismatch => "iss-mismatch" | .issUnexpected => "iss-unexpected"
  | .exch => "exch" | .post => "post"

def showServed : Served → String
  | .initial => "i"
  | .round n => toString n

def showResult (r : Result) (cur : Served) : String :=
  let lg := if r.log.isEmpty then "." else ",".intercalate (r.log.map showEvent)
  s!"out={showOutcome r.outcome} inst={if r.installed then 1 else 0} cur={showServed cur} log={lg}"

structure Obs where
  out : String
  inst : Bool
  events : List Event

def parseEvent (t : String) : Option Event :=
  match t.splitOn ":" with
  | ["G", u] => (parseUrl u).map (.get .prm)
  | ["R", u] => (parseUrl u).map .register
  | ["T", u, c] => (parseUrl u).map (.token · (parseCred c))
  | ["F", u, c, r] => do some (.fetch (← parseUrl u) (parseCred c) (← parseUrl r))
  | _ => none

def parseObs (s : String) : Option Obs := do
  let m := kvs (words s)
  let out ← m.lookup "out"
  let inst ← m.lookup "inst"
  let lg ← m.lookup "log"
  let evs ← if lg == "." then some [] else (lg.splitOn ",").mapM parseEvent
  some { out := out, inst := inst == "1", events := evs }

/-! ### The C15 monitor (specification predicates only) -/

def isAsWk : Wk → Bool
  | .asOAuth | .asOIDC | .asOAuthIns | .asOIDCIns | .asOIDCApp => true
  | _ => false

/-- If `u` is an authorization-server metadata location, the issuer URL it was derived from. -/
def asBase : Url → Option Url
  | .at o s k ds =>
    match ds.getLast? with
    | some d => if isAsWk d then some (.at o s k ds.dropLast) else none
    | none => none
  | _ => none

/-- SPEC: an identifier a client may contact or show: not script-capable, https or loopback. -/
def safeUrl (u : Url) : Bool := !u.isScript && u.httpsOrLoopback

def specPrmOk (d : PrmDoc) (res : Url) : Bool :=
  d.resource == res && d.authServers.all fun a => a == .empty || safeUrl a

def specAsmOk (d : AsmDoc) (issuer : Url) : Bool :=
  issuersEqual d.issuer issuer && d.pkce &&
  ([d.authorizationEndpoint, d.tokenEndpoint, d.registrationEndpoint, d.introspectionEndpoint] ++ d.otherUrls).all
    (fun x => x == .empty || (!x.isScript && match x with | .bad _ => false | _ => true)) &&
  [d.authorizationEndpoint, d.tokenEndpoint, d.registrationEndpoint, d.introspectionEndpoint].all
    (fun x => x == .empty || x.httpsOrLoopback)

def firstSome {α β} (f : α → Option β) : List α → Option β
  | [] => none
  | a :: t => match f a with
    | some b => some b
    | none => firstSome f t

/-- `hist`: issuers at which EARLIER rounds of this handler registered dynamically (as observed).
Returns the violated clause and the issuers at which THIS round registered. -/
def monitor (c : Case) (hist : List Url) (o : Obs) : Option String × List Url :=
  let U := c.cfg.serverUrl
  let ch := rmFrom c.inp.challenges
  let reqs := o.events.filter Event.isRequest
  let gets := o.events.filterMap fun e => match e with | .get _ u => some u | _ => none
  -- (1) every request goes to an https or loopback URL
  let c1 := firstSome (fun (e : Event) =>
      if e.url.httpsOrLoopback then none
      else match e with
        | .token .empty _ => some "C15: requests_https_or_loopback: token request issued to an EMPTY token_endpoint (metadata without the REQUIRED endpoint was accepted)"
        | _ => some s!"C15: requests_https_or_loopback: {showEvent e} is neither https nor loopback") reqs
  -- (2) no script-capable scheme requested or shown, unless the server URL itself has one / it is the challenge's own URL
  let c2 := firstSome (fun (e : Event) =>
      if e.url.isScript && !U.isScript && !(e == .get .prm ch) then
        some s!"C15: no_script_scheme_used: {showEvent e} has a script-capable scheme"
      else none) o.events
  -- (3) the authorization server contacted is the fall-back or comes from a valid PRM document that was fetched
  let bases := (gets.filterMap asBase).eraseDups
  let prmJust := fun (I : Url) =>
    I == U.root || (prmCandidates ch U).any fun (m, res) =>
      gets.contains m && match c.prmTab.lookup m with
        | some (.doc d) => specPrmOk d res && d.authServers.head? == some I
        | _ => false
  let c3 := firstSome (fun I => if prmJust I then none else
      some s!"C15: prm_used_only_if_resource_matches: authorization server {showUrl I} comes from no valid protected-resource metadata") bases
  let c3r := firstSome (fun (e : Event) => match e with
      | .fetch _ _ r => if r == U || r == U.root then none else
          some s!"C15: prm_used_only_if_resource_matches: resource parameter {showUrl r} is not the server's"
      | _ => none) o.events
  -- (4) endpoints in use are backed by a valid metadata document of that issuer, or by the fall-back after 4xx everywhere
  let I? := bases.getLast?
  let asmDocs : List AsmDoc := match I? with
    | none => []
    | some I =>
      let mine := gets.filter fun m => asBase m == some I
      let docs := mine.filterMap fun m => match c.asmTab.lookup m with
        | some (.doc d) => if specAsmOk d I then some d else none
        | _ => none
      let all4xx := mine.length == (asmCandidates I).length && mine.all fun m =>
        match (c.asmTab.lookup m).getD .status4xx with
        | .status4xx => true
        | _ => false
      docs ++ (if all4xx then [fallbackAsm I] else [])
  let used : List (String × Url) := o.events.filterMap fun e => match e with
    | .fetch u _ _ => some ("authorization_endpoint", u)
    | .register u => some ("registration_endpoint", u)
    | .token u _ => some ("token_endpoint", u)
    | _ => none
  let roleOf := fun (d : AsmDoc) (r : String) =>
    if r == "authorization_endpoint" then d.authorizationEndpoint
    else if r == "registration_endpoint" then d.registrationEndpoint else d.tokenEndpoint
  let eff := asmDocs.filter fun d => used.all fun (r, x) => roleOf d r == x
  let c4 := if used.isEmpty || !eff.isEmpty then none else
    some "C15: asm_used_only_if_issuer_matches_and_pkce: an endpoint in use is not backed by valid authorization-server metadata (issuer match, PKCE, safe URLs) nor by the 4xx fall-back"
  -- (5) code exchanged only if the state matches and the RFC 9207 check passes
  let hasTok := o.events.any fun e => match e with | .token _ _ => true | _ => false
  let c5 := if !hasTok then none else
    match c.fetch with
    | .err => some "C15: exchange_requires_state_and_iss: token request although the fetcher failed"
    | .result sm iss =>
      if !sm then some "C15: exchange_requires_state_and_iss: token request although the returned state differs from the generated one"
      else if eff.isEmpty then none   -- already reported by (4)
      else if eff.any fun d => issCheck iss d.issuer d.issParamSupported then none
      else some "C15: exchange_requires_state_and_iss: token request although the RFC 9207 iss check fails"
  -- (6) pre-registered credentials bound to an issuer
  let usesPre := o.events.any fun e => e.cred == .pre
  let c6 := if !usesPre then none else
    match c.cfg.pre with
    | none => some "C15: preregistered_issuer_binding: pre-registered credentials used but none configured"
    | some pi =>
      if pi == .empty || eff.isEmpty then none
      else if eff.any fun d => issuersEqual pi d.issuer then none
      else some "C15: preregistered_issuer_binding: credentials registered for another issuer were presented"
  -- (6b) credentials of the other modes: configured, and presented only to the server that issued them
  let registeredNow := fun (d : AsmDoc) => o.events.any fun e => match e with
    | .register u => u == d.registrationEndpoint && (match c.regTab.lookup u with
        | some (.created true _) => true
        | _ => false)
    | _ => false
  let usesDcr := o.events.any fun e => e.cred == .dcr
  let c6d := if !usesDcr then none
    else if !c.cfg.dcr then some "C15: registered_credentials_bound_to_issuer: dynamically registered credentials used but dynamic registration is not configured"
    else if eff.isEmpty then none
    else if eff.any fun d => registeredNow d || hist.any (issuersEqual · d.issuer) then none
    else some "C15: registered_credentials_bound_to_issuer: dynamically registered credentials presented to an authorization server that did not issue them (no successful registration there in this round or an earlier one)"
  let c6c := if (o.events.any fun e => e.cred == .cimd) && !c.cfg.cimd then
      some "C15: registered_credentials_bound_to_issuer: a client-id metadata document URL is used but none is configured"
    else none
  -- (7) no installation on failure
  let goodTok := o.events.any fun e => match e with
    | .token u _ => ((c.tokTab.lookup u).getD []).any fun r => r != .fail
    | _ => false
  let c7 := if o.inst && !(o.out == "ok" || o.out == "post") then
      some s!"C15: failed_check_installs_nothing: Authorize returned {o.out} but installed a token source"
    else if o.inst && !goodTok then some "C15: failed_check_installs_nothing: token source installed without a successful exchange"
    else none
  (c1 <|> c2 <|> c3 <|> c3r <|> c4 <|> c5 <|> c6 <|> c6d <|> c6c <|> c7, (eff.filter registeredNow).map (·.issuer))

/-! ### Challenge parser records -/

def hexL (l : List Char) : String := stringToHex (String.ofList l)

def insertSorted (p : List Char × List Char) : List (List Char × List Char) → List (List Char × List Char)
  | [] => [p]
  | q :: t => if String.ofList p.1 < String.ofList q.1 then p :: q :: t else q :: insertSorted p t

def showParsed (p : Challenge.Parsed) : String :=
  let ps := p.params.foldl (fun acc x => insertSorted x acc) []
  let body := ",".intercalate (ps.map fun (k, v) => s!"{hexL k}={hexL v}")
  s!"{hexL p.scheme}:{body}"

def wwwModel (hexes : List String) : String :=
  match hexes.mapM hexToString with
  | none => "bad-op"
  | some hs =>
    match Challenge.parseHeaders (hs.map String.toList) with
    | none => "err"
    | some cs => " ".intercalate ("ok" :: cs.map showParsed)

/-- Cross-check of a flow record: the model parser applied to the rendered header must give the
structural challenges of the record. -/
def hdrConsistent (c : Case) : Bool :=
  match c.hdr with
  | none => true
  | some hexes =>
    match hexes.mapM hexToString with
    | none => false
    | some hs =>
      match Challenge.parseHeaders (hs.map String.toList) with
      | none => c.inp.headerMalformed
      | some ps =>
        !c.inp.headerMalformed && ps.length == c.inp.challenges.length &&
        (List.zip ps (List.zip c.inp.challenges c.chHex)).all fun (p, ch, hx) =>
          (String.ofList p.scheme == "bearer") == ch.bearer &&
          hexL (p.get "resource_metadata") == hx &&
          (hx == "") == (ch.resourceMetadata == .empty) &&
          (match String.ofList (p.get "error") with
           | "" => ch.error == .none
           | "insufficient_scope" => ch.error == .insufficientScope
           | _ => ch.error == .other)

/-- The state of a case: the model handler, and what the monitor remembers of the implementation's
earlier rounds (issuers at which it registered dynamically). -/
structure HState where
  h : Handler
  dcrIssuers : List Url := []

def roundStep (st : HState) (c : Case) (impl : String) : Option HState × Verdict :=
  if !hdrConsistent c then (some st, { model := "model-header-mismatch" }) else
  let (h', r) := st.h.authorize { serverUrl := c.cfg.serverUrl, inp := c.inp, world := c.world }
  let (viol, regd) := match parseObs impl with
    | none => (some "C15: unparsable observation", [])
    | some o => monitor c st.dcrIssuers o
  (some { h := h', dcrIssuers := st.dcrIssuers ++ regd }, { model := showResult r h'.served, violated := viol })

def engine : Engine (Option HState) where
  init := none
  step st toks impl :=
    match toks with
    | ["reset"] => (none, { model := "ok" })
    | "www" :: hexes => (st, { model := wwwModel hexes })
    | ["wwwfuzz", _] =>
      (st, { model := "nopanic", violated := if impl == "nopanic" then none else some "C15: ParseWWWAuthenticate panics" })
    | "auth" :: rest =>
      match parseCase none rest with
      | none => (none, { model := "bad-op" })
      | some c => roundStep { h := { cfg := { cimd := c.cfg.cimd, pre := c.cfg.pre, dcr := c.cfg.dcr } } } c impl
    | "again" :: rest =>
      match st with
      | none => (none, { model := "no-handler" })
      | some hs =>
        match parseCase (some hs.h.cfg) rest with
        | none => (st, { model := "bad-op" })
        | some c => roundStep hs c impl
    | _ => (st, { model := "bad-op" })

end OAuth

def main : IO Unit := Proto.run OAuth.engine
