import McpModel.OAuth.Bridge
/-!
# Clause soundness of the C15 monitor (E11)

For every clause the monitor can report (`Clause`) the corresponding clause of the property is stated
as a predicate `P_…` on observation traces — a trace is the list of rounds of one handler, each the
round's inputs (configuration, request URL, 401/403 response, the scripted network) and what the
IMPLEMENTATION did (`Obs`: request log, outcome class, token source changed?) — written from the
property text with quantifiers over rounds, log entries, documents; no monitor state, no `authorize`.
`sound_<clause>`: whenever the monitor run reports the clause at round `j` (`FiresAt`), the predicate
fails on the trace.  `monitor_sound` packages them: `runMon tr = some (j, cl) → ¬ P_of cl tr`.

Vocabulary (all about the observation and the scripted network):
* `AskedLast o I` — `I` is the authorization server whose metadata was asked for last: the last GET
  spelled as an authorization-server metadata location is a location of `I`.
* `Backed c o I d` — metadata `d` may be used for `I`: the network serves `d` at a REQUESTED location
  of `I` and `d` is valid for `I` (issuer equal up to one trailing slash, PKCE advertised, no
  script-capable or unparsable URL field, contacted endpoints https/loopback or absent); or `d` is the
  2025-03-26 fall-back, every location of `I` was requested and every requested one answered 4xx.
* `InUse c o d` — `d` is backed for the server asked last and every endpoint the round used
  (authorization URL, registration request, token request) is `d`'s.
-/
namespace OAuth

abbrev Trace := List (MCase × Obs)

/-! ## The property clauses, as predicates on traces -/

/-- "every metadata, registration and token request goes to an https or loopback URL". -/
def P_requests_https_or_loopback (tr : Trace) : Prop :=
  ∀ c o, (c, o) ∈ tr → ∀ e ∈ o.events, e.isRequest = true → e.url.httpsOrLoopback = true

/-- "no URL field has a script-capable scheme": a URL with such a scheme is requested or placed in
the authorization URL only if the request URL itself has one, or it is the challenge's own
`resource_metadata` URL being fetched. -/
def P_no_script_scheme_used (tr : Trace) : Prop :=
  ∀ c o, (c, o) ∈ tr → ∀ e ∈ o.events, e.url.isScript = true →
    c.cfg.serverUrl.isScript = true ∨ e = .get .prm (rmFrom c.inp.challenges)

/-- `I` is the 2025-03-26 fall-back (the server's own root) or the first authorization server of a
protected-resource document that was REQUESTED at a candidate location, names exactly the resource
that location stands for and lists only safe authorization servers. -/
def PrmVouches (c : MCase) (o : Obs) (I : Url) : Prop :=
  I = c.cfg.serverUrl.root ∨
  ∃ x ∈ prmCandidates (rmFrom c.inp.challenges) c.cfg.serverUrl, x.1 ∈ getsOf o.events ∧
    ∃ d, c.tabs.prm.lookup x.1 = some (.doc d) ∧ d.resource = x.2 ∧ (∀ a ∈ d.authServers, Safe a) ∧
      d.authServers.head? = some I

/-- "protected-resource metadata are used only if their resource identifier matches what was asked
for": every authorization server whose metadata is requested is vouched for, and the `resource`
parameter of the authorization URL is the server's. -/
def P_prm_used_only_if_resource_matches (tr : Trace) : Prop :=
  ∀ c o, (c, o) ∈ tr →
    (∀ m ∈ getsOf o.events, ∀ I, asBase m = some I → PrmVouches c o I) ∧
    (∀ u cr r, Event.fetch u cr r ∈ o.events → r = c.cfg.serverUrl ∨ r = c.cfg.serverUrl.root)

def AskedLast (o : Obs) (I : Url) : Prop :=
  ∃ pre m post, getsOf o.events = pre ++ m :: post ∧ asBase m = some I ∧ ∀ x ∈ post, asBase x = none

/-- The checks a metadata document must pass for issuer `I` (property text: issuer identifier
matches, PKCE support advertised, no URL field with a script-capable scheme; contacted endpoints
https or loopback). -/
def AsmValid (d : AsmDoc) (I : Url) : Prop :=
  issuersEqual d.issuer I = true ∧ d.pkce = true ∧
  (∀ x ∈ [d.authorizationEndpoint, d.tokenEndpoint, d.registrationEndpoint, d.introspectionEndpoint] ++ d.otherUrls,
    x.isScript = false ∧ ∀ n, x ≠ .bad n) ∧
  (∀ x ∈ [d.authorizationEndpoint, d.tokenEndpoint, d.registrationEndpoint, d.introspectionEndpoint],
    x = .empty ∨ x.httpsOrLoopback = true)

def Answers4xx (t : Tabs) (m : Url) : Prop := (t.asm.lookup m).getD .status4xx = .status4xx

def Backed (c : MCase) (o : Obs) (I : Url) (d : AsmDoc) : Prop :=
  (∃ m ∈ getsOf o.events, asBase m = some I ∧ c.tabs.asm.lookup m = some (.doc d) ∧ AsmValid d I) ∨
  (d = fallbackAsm I ∧ (∀ m ∈ asmCandidates I, m ∈ getsOf o.events) ∧
    ∀ m ∈ getsOf o.events, asBase m = some I → Answers4xx c.tabs m)

def InUse (c : MCase) (o : Obs) (d : AsmDoc) : Prop :=
  ∃ I, AskedLast o I ∧ Backed c o I d ∧ ∀ r x, (r, x) ∈ usedOf o.events → roleOf d r = x

/-- "authorization-server metadata are used only if their issuer identifier matches what was asked
for, PKCE support is advertised, and no URL field has a script-capable scheme": a round that uses an
endpoint at all has metadata in use. -/
def P_asm_used_only_if_issuer_matches_and_pkce (tr : Trace) : Prop :=
  ∀ c o, (c, o) ∈ tr → usedOf o.events ≠ [] → ∃ d, InUse c o d

/-- "an authorization code is exchanged only if the returned state equals the one generated for this
attempt and the RFC 9207 issuer check passes" (against the issuer of metadata in use, when there is
any — otherwise the previous clause is violated). -/
def P_exchange_requires_state_and_iss (tr : Trace) : Prop :=
  ∀ c o, (c, o) ∈ tr → (∃ u cr, Event.token u cr ∈ o.events) →
    ∃ iss, c.tabs.fetch = .result true iss ∧
      ((∃ d, InUse c o d) → ∃ d, InUse c o d ∧ issCheck iss d.issuer d.issParamSupported = true)

/-- "credentials pre-registered for a named issuer are never used with a different one". -/
def P_preregistered_issuer_binding (tr : Trace) : Prop :=
  ∀ c o, (c, o) ∈ tr → (∃ e ∈ o.events, e.cred = .pre) →
    ∃ pi, c.cfg.pre = some pi ∧
      (pi = .empty ∨ ((∃ d, InUse c o d) → ∃ d, InUse c o d ∧ issuersEqual pi d.issuer = true))

/-- A registration request to `d`'s registration endpoint is in the log and the network answered it
with a client id. -/
def RegisteredAt (c : MCase) (o : Obs) (d : AsmDoc) : Prop :=
  Event.register d.registrationEndpoint ∈ o.events ∧
  ∃ urls, c.tabs.reg.lookup d.registrationEndpoint = some (.created true urls)

/-- Credentials of the other two modes (the same binding, for credentials the client obtained
itself): dynamically registered credentials are presented only when dynamic registration is
configured, and only to an authorization server at which THIS round or an EARLIER round of the
history registered successfully; a client-id metadata document URL only when one is configured. -/
def P_registered_credentials_bound_to_issuer (tr : Trace) : Prop :=
  ∀ i c o, tr[i]? = some (c, o) →
    ((∃ e ∈ o.events, e.cred = .dcr) → c.cfg.dcr = true ∧
      ((∃ d, InUse c o d) → ∃ d, InUse c o d ∧
        (RegisteredAt c o d ∨ ∃ (j : Nat) (c' : MCase) (o' : Obs) (d' : AsmDoc), j < i ∧ tr[j]? = some (c', o') ∧ InUse c' o' d' ∧ RegisteredAt c' o' d' ∧
          issuersEqual d'.issuer d.issuer = true))) ∧
    ((∃ e ∈ o.events, e.cred = .cimd) → c.cfg.cimd = true)

/-- "after any failed check no new token is installed": the token source changes only in a round that
returns success (or the error of the post-installation token read) and in which a token request was
answered with a token. -/
def P_failed_check_installs_nothing (tr : Trace) : Prop :=
  ∀ c o, (c, o) ∈ tr → o.inst = true →
    (o.out = "ok" ∨ o.out = "post") ∧
    ∃ u cr, Event.token u cr ∈ o.events ∧ ∃ r ∈ (c.tabs.tok.lookup u).getD [], r ≠ TokResp.fail

/-- The property clause a monitor clause stands for. -/
def P_of : Clause → Trace → Prop
  | .httpsEmptyToken | .https _ => P_requests_https_or_loopback
  | .script _ => P_no_script_scheme_used
  | .prmIssuer _ | .prmResource _ => P_prm_used_only_if_resource_matches
  | .asm => P_asm_used_only_if_issuer_matches_and_pkce
  | .exchFetcher | .exchState | .exchIss => P_exchange_requires_state_and_iss
  | .preNone | .preOther => P_preregistered_issuer_binding
  | .dcrNotConfigured | .dcrForeign | .cimdNotConfigured => P_registered_credentials_bound_to_issuer
  | .instOutcome _ | .instNoExchange => P_failed_check_installs_nothing

/-! ## The monitor's computations say what the vocabulary says -/

theorem filterMap_getLast?_iff {α β} (f : α → Option β) (l : List α) (b : β) :
    (l.filterMap f).getLast? = some b ↔
      ∃ pre m post, l = pre ++ m :: post ∧ f m = some b ∧ ∀ x ∈ post, f x = none := by
  constructor
  · intro h
    obtain ⟨ys, hys⟩ := List.getLast?_eq_some_iff.1 h
    obtain ⟨l1, l2, rfl, _, h2⟩ := List.filterMap_eq_append_iff.1 hys
    obtain ⟨l3, a, l4, rfl, h3, h4, h5⟩ := List.filterMap_eq_cons_iff.1 h2
    refine ⟨l1 ++ l3, a, l4, by simp, h4, ?_⟩
    exact List.filterMap_eq_nil_iff.1 h5
  · rintro ⟨pre, m, post, rfl, hm, hpost⟩
    have : post.filterMap f = [] := List.filterMap_eq_nil_iff.2 hpost
    rw [List.filterMap_append, List.filterMap_cons, hm, this]
    simp

theorem lastIssuer_iff (o : Obs) (I : Url) : lastIssuer (getsOf o.events) = some I ↔ AskedLast o I :=
  filterMap_getLast?_iff asBase _ I

theorem specAsmOk_iff (d : AsmDoc) (I : Url) : specAsmOk d I = true ↔ AsmValid d I := by
  simp only [specAsmOk, AsmValid, Bool.and_eq_true, List.all_eq_true, Bool.or_eq_true, beq_iff_eq, Bool.not_eq_true']
  constructor
  · rintro ⟨⟨⟨h1, h2⟩, h3⟩, h4⟩
    refine ⟨h1, h2, fun x hx => ?_, h4⟩
    rcases h3 x hx with rfl | ⟨h5, h6⟩
    · simp [Url.isScript]
    · refine ⟨h5, ?_⟩
      cases x <;> simp_all
  · rintro ⟨h1, h2, h3, h4⟩
    refine ⟨⟨⟨h1, h2⟩, fun x hx => ?_⟩, h4⟩
    obtain ⟨h5, h6⟩ := h3 x hx
    right
    refine ⟨h5, ?_⟩
    cases x <;> simp_all

theorem docAt_eq_some {t : Tabs} {I m : Url} {d : AsmDoc} :
    docAt t I m = some d ↔ t.asm.lookup m = some (.doc d) ∧ AsmValid d I := by
  unfold docAt
  rw [← specAsmOk_iff]
  cases hl : t.asm.lookup m with
  | none => simp
  | some r =>
    cases r <;> simp
    rename_i d'
    constructor
    · rintro ⟨h1, rfl⟩; exact ⟨rfl, h1⟩
    · rintro ⟨rfl, h1⟩; exact ⟨h1, rfl⟩

theorem is4xx_iff (t : Tabs) (m : Url) : is4xx t m = true ↔ Answers4xx t m := by
  unfold is4xx Answers4xx
  cases (t.asm.lookup m).getD .status4xx <;> simp

theorem mem_mineOf {gets : List Url} {I m : Url} : m ∈ mineOf gets I ↔ m ∈ gets ∧ asBase m = some I := by
  simp [mineOf]

theorem mem_asmDocsFor {c : MCase} {o : Obs} {I : Url} {d : AsmDoc} :
    d ∈ asmDocsFor c.tabs (getsOf o.events) I ↔ Backed c o I d := by
  unfold asmDocsFor Backed
  rw [List.mem_append, List.mem_filterMap]
  constructor
  · rintro (⟨m, hm, hd⟩ | h)
    · obtain ⟨h1, h2⟩ := mem_mineOf.1 hm
      obtain ⟨h3, h4⟩ := docAt_eq_some.1 hd
      exact Or.inl ⟨m, h1, h2, h3, h4⟩
    · split at h
      · rename_i h4
        simp only [List.mem_singleton] at h
        simp only [all4xx, Bool.and_eq_true, List.all_eq_true, List.contains_iff_mem] at h4
        refine Or.inr ⟨h, h4.1, fun m hm hb => (is4xx_iff _ _).1 (h4.2 m (mem_mineOf.2 ⟨hm, hb⟩))⟩
      · simp at h
  · rintro (⟨m, h1, h2, h3, h4⟩ | ⟨rfl, h1, h2⟩)
    · exact Or.inl ⟨m, mem_mineOf.2 ⟨h1, h2⟩, docAt_eq_some.2 ⟨h3, h4⟩⟩
    · right
      have : all4xx c.tabs (getsOf o.events) I = true := by
        simp only [all4xx, Bool.and_eq_true, List.all_eq_true, List.contains_iff_mem]
        exact ⟨h1, fun m hm => (is4xx_iff _ _).2 (h2 m (mem_mineOf.1 hm).1 (mem_mineOf.1 hm).2)⟩
      simp [this]

/-- **The monitor's set `effDocs` is exactly the metadata that can be in use.** -/
theorem mem_effDocs {c : MCase} {o : Obs} {d : AsmDoc} : d ∈ effDocs c o ↔ InUse c o d := by
  unfold effDocs InUse
  constructor
  · intro h
    split at h
    · simp at h
    · rename_i I hI
      rw [List.mem_filter] at h
      refine ⟨I, (lastIssuer_iff o I).1 hI, mem_asmDocsFor.1 h.1, ?_⟩
      have := h.2
      simp only [matchesUsed, List.all_eq_true, beq_iff_eq] at this
      exact fun r x hx => this (r, x) hx
  · rintro ⟨I, h1, h2, h3⟩
    rw [(lastIssuer_iff o I).2 h1]
    simp only
    rw [List.mem_filter]
    refine ⟨mem_asmDocsFor.2 h2, ?_⟩
    simp only [matchesUsed, List.all_eq_true, beq_iff_eq]
    rintro ⟨r, x⟩ hx
    exact h3 r x hx

theorem effDocs_isEmpty_false {c : MCase} {o : Obs} : (effDocs c o).isEmpty = false ↔ ∃ d, InUse c o d := by
  rw [List.isEmpty_eq_false_iff_exists_mem]
  exact ⟨fun ⟨d, h⟩ => ⟨d, mem_effDocs.1 h⟩, fun ⟨d, h⟩ => ⟨d, mem_effDocs.2 h⟩⟩

theorem prmJust_of_vouches {c : MCase} {o : Obs} {I : Url} (h : PrmVouches c o I) :
    prmJust c (getsOf o.events) I = true := by
  unfold prmJust
  rcases h with rfl | ⟨x, hx, hg, d, hl, hres, hsafe, hhead⟩
  · simp
  · rw [Bool.or_eq_true]; right
    rw [List.any_eq_true]
    refine ⟨x, hx, ?_⟩
    have hsp : specPrmOk d x.2 = true := by
      simp only [specPrmOk, Bool.and_eq_true, beq_iff_eq, List.all_eq_true, Bool.or_eq_true]
      refine ⟨hres, fun y hy => ?_⟩
      rcases hsafe y hy with h | ⟨h1, h2⟩
      · exact Or.inl h
      · right; simp [safeUrl, h1, h2]
    simp [prmBacks, hl, hsp, hhead, hg]

theorem registeredNow_iff {c : MCase} {o : Obs} {d : AsmDoc} : registeredNow c o d = true ↔ RegisteredAt c o d := by
  unfold registeredNow RegisteredAt
  rw [List.any_eq_true]
  have hrc : ∀ u, regCreated c.tabs u = true ↔ ∃ urls, c.tabs.reg.lookup u = some (.created true urls) := by
    intro u
    unfold regCreated
    cases c.tabs.reg.lookup u with
    | none => simp
    | some r =>
      cases r with
      | fail => simp
      | created b urls => cases b <;> simp
  constructor
  · rintro ⟨e, he, h⟩
    cases e <;> simp at h
    obtain ⟨rfl, h2⟩ := h
    exact ⟨he, (hrc _).1 h2⟩
  · rintro ⟨h1, h2⟩
    exact ⟨_, h1, by simp [(hrc _).2 h2]⟩

/-! ## Where the monitor run fires -/

/-- The monitor reports clause `cl` at round `j` of the trace: the checks of that round, with the
monitor state accumulated over the rounds before it, return `cl`. -/
def FiresAt (tr : Trace) (j : Nat) (cl : Clause) : Prop :=
  ∃ c o, tr[j]? = some (c, o) ∧ chkAll c (histAfter [] (tr.take j)) o = some cl

theorem runMonFrom_fires : ∀ (tr : Trace) (h : List Url) (i j : Nat) (cl : Clause),
    runMonFrom h i tr = some (j, cl) →
    ∃ k c o, j = i + k ∧ tr[k]? = some (c, o) ∧ chkAll c (histAfter h (tr.take k)) o = some cl
  | [], _, _, _, _, hr => by simp [runMonFrom] at hr
  | (c, o) :: tr, h, i, j, cl, hr => by
    simp only [runMonFrom] at hr
    cases hc : chkAll c h o with
    | some cl' =>
      rw [hc] at hr
      simp only [Option.some.injEq, Prod.mk.injEq] at hr
      obtain ⟨rfl, rfl⟩ := hr
      exact ⟨0, c, o, rfl, rfl, by simpa [histAfter] using hc⟩
    | none =>
      rw [hc] at hr
      obtain ⟨k, c', o', rfl, h1, h2⟩ := runMonFrom_fires tr _ _ _ _ hr
      exact ⟨k + 1, c', o', by omega, by simpa using h1, by simpa [histAfter] using h2⟩

theorem runMon_fires {tr : Trace} {j : Nat} {cl : Clause} (h : runMon tr = some (j, cl)) : FiresAt tr j cl := by
  obtain ⟨k, c, o, rfl, h1, h2⟩ := runMonFrom_fires tr [] 0 j cl h
  exact ⟨c, o, by simpa using h1, by simpa using h2⟩

/-- What the monitor state holds: the issuers recorded by the rounds so far. -/
theorem mem_histAfter : ∀ (tr : Trace) (h : List Url) (x : Url),
    x ∈ histAfter h tr ↔ x ∈ h ∨ ∃ (j : Nat) (c : MCase) (o : Obs), tr[j]? = some (c, o) ∧ x ∈ regdOf c o
  | [], h, x => by simp [histAfter]
  | (c, o) :: tr, h, x => by
    simp only [histAfter]
    rw [mem_histAfter tr _ x, List.mem_append]
    constructor
    · rintro ((h1 | h1) | ⟨j, c', o', h1, h2⟩)
      · exact Or.inl h1
      · exact Or.inr ⟨0, c, o, rfl, h1⟩
      · exact Or.inr ⟨j + 1, c', o', by simpa using h1, h2⟩
    · rintro (h1 | ⟨j, c', o', h1, h2⟩)
      · exact Or.inl (Or.inl h1)
      · cases j with
        | zero => simp at h1; obtain ⟨rfl, rfl⟩ := h1; exact Or.inl (Or.inr h2)
        | succ j => exact Or.inr ⟨j, c', o', by simpa using h1, h2⟩

theorem mem_regdOf {c : MCase} {o : Obs} {x : Url} :
    x ∈ regdOf c o ↔ ∃ d, InUse c o d ∧ RegisteredAt c o d ∧ x = d.issuer := by
  unfold regdOf
  simp only [List.mem_map, List.mem_filter]
  constructor
  · rintro ⟨d, ⟨h1, h2⟩, rfl⟩; exact ⟨d, mem_effDocs.1 h1, registeredNow_iff.1 h2, rfl⟩
  · rintro ⟨d, h1, h2, rfl⟩; exact ⟨d, ⟨mem_effDocs.2 h1, registeredNow_iff.2 h2⟩, rfl⟩

/-! ## What it takes for a check to fire -/

/-- The condition under which `chkAll c hist o` can report clause `cl`, read off the checks. -/
def Fires (c : MCase) (hist : List Url) (o : Obs) : Clause → Prop
  | .httpsEmptyToken => ∃ cr, Event.token .empty cr ∈ o.events
  | .https e => e ∈ o.events ∧ e.isRequest = true ∧ e.url.httpsOrLoopback = false
  | .script e => e ∈ o.events ∧ e.url.isScript = true ∧ c.cfg.serverUrl.isScript = false ∧
      e ≠ .get .prm (rmFrom c.inp.challenges)
  | .prmIssuer I => ∃ m ∈ getsOf o.events, asBase m = some I ∧ prmJust c (getsOf o.events) I = false
  | .prmResource r => ∃ u cr, Event.fetch u cr r ∈ o.events ∧ r ≠ c.cfg.serverUrl ∧ r ≠ c.cfg.serverUrl.root
  | .asm => usedOf o.events ≠ [] ∧ effDocs c o = []
  | .exchFetcher => hasTok o.events = true ∧ c.tabs.fetch = .err
  | .exchState => hasTok o.events = true ∧ ∃ iss, c.tabs.fetch = .result false iss
  | .exchIss => hasTok o.events = true ∧ ∃ iss, c.tabs.fetch = .result true iss ∧ effDocs c o ≠ [] ∧
      ∀ d ∈ effDocs c o, issCheck iss d.issuer d.issParamSupported = false
  | .preNone => (∃ e ∈ o.events, e.cred = .pre) ∧ c.cfg.pre = none
  | .preOther => (∃ e ∈ o.events, e.cred = .pre) ∧ ∃ pi, c.cfg.pre = some pi ∧ pi ≠ .empty ∧ effDocs c o ≠ [] ∧
      ∀ d ∈ effDocs c o, issuersEqual pi d.issuer = false
  | .dcrNotConfigured => (∃ e ∈ o.events, e.cred = .dcr) ∧ c.cfg.dcr = false
  | .dcrForeign => (∃ e ∈ o.events, e.cred = .dcr) ∧ effDocs c o ≠ [] ∧
      ∀ d ∈ effDocs c o, registeredNow c o d = false ∧ ∀ x ∈ hist, issuersEqual x d.issuer = false
  | .cimdNotConfigured => (∃ e ∈ o.events, e.cred = .cimd) ∧ c.cfg.cimd = false
  | .instOutcome out => o.inst = true ∧ out = o.out ∧ o.out ≠ "ok" ∧ o.out ≠ "post"
  | .instNoExchange => o.inst = true ∧ goodTok c o = false

theorem orElse_some {α : Type} {a b : Option α} {x : α} (h : (a <|> b) = some x) : a = some x ∨ b = some x := by
  cases a <;> simp_all

section checks
variable {c : MCase} {hist : List Url} {o : Obs} {cl : Clause}

theorem chkHttps_fires (h : chkHttps o = some cl) : Fires c hist o cl := by
  obtain ⟨e, he, hf⟩ := firstSome_eq_some h
  rw [List.mem_filter] at he
  split at hf
  · cases hf
  · rename_i hh
    split at hf
    · cases hf; exact ⟨_, he.1⟩
    · cases hf; exact ⟨he.1, he.2, by simpa using hh⟩

theorem chkScript_fires (h : chkScript c o = some cl) : Fires c hist o cl := by
  obtain ⟨e, he, hf⟩ := firstSome_eq_some h
  split at hf
  · rename_i hc
    cases hf
    simp only [Bool.and_eq_true, Bool.not_eq_true', beq_eq_false_iff_ne] at hc
    exact ⟨he, hc.1.1, hc.1.2, hc.2⟩
  · cases hf

theorem chkPrmIssuer_fires (h : chkPrmIssuer c o = some cl) : Fires c hist o cl := by
  obtain ⟨I, hI, hf⟩ := firstSome_eq_some h
  obtain ⟨m, hm, hb⟩ := List.mem_filterMap.1 hI
  split at hf
  · cases hf
  · rename_i hj
    cases hf
    exact ⟨m, hm, hb, by simpa using hj⟩

theorem chkPrmResource_fires (h : chkPrmResource c o = some cl) : Fires c hist o cl := by
  obtain ⟨e, he, hf⟩ := firstSome_eq_some h
  split at hf
  · split at hf
    · cases hf
    · rename_i hr
      cases hf
      simp only [Bool.or_eq_true, beq_iff_eq, not_or] at hr
      exact ⟨_, _, he, hr.1, hr.2⟩
  · cases hf

theorem chkAsm_fires (h : chkAsm c o = some cl) : Fires c hist o cl := by
  unfold chkAsm at h
  split at h
  · cases h
  · rename_i hc
    cases h
    simp only [Bool.or_eq_true, Bool.not_eq_true', not_or, List.isEmpty_eq_false_iff,
      List.isEmpty_iff] at hc
    exact ⟨hc.1, Classical.not_not.1 hc.2⟩

theorem chkExchange_fires (h : chkExchange c o = some cl) : Fires c hist o cl := by
  unfold chkExchange at h
  split at h
  · cases h
  · rename_i ht
    have ht' : hasTok o.events = true := by simpa using ht
    split at h
    · cases h; rename_i hf; exact ⟨ht', hf⟩
    · rename_i sm iss hf
      split at h
      · cases h
        rename_i hsm
        have : sm = false := by simpa using hsm
        subst this
        exact ⟨ht', iss, hf⟩
      · rename_i hsm
        have : sm = true := by simpa using hsm
        subst this
        split at h
        · cases h
        · rename_i hne
          split at h
          · cases h
          · rename_i hany
            cases h
            refine ⟨ht', iss, hf, by simpa using hne, ?_⟩
            intro d hd
            simp only [List.any_eq_true, not_exists, not_and, Bool.not_eq_true] at hany
            exact hany d hd

theorem uses_of_any {evs : List Event} {k : Cred} (h : ¬(!evs.any fun e => e.cred == k) = true) :
    ∃ e ∈ evs, e.cred = k := by
  simp only [Bool.not_eq_true', Bool.not_eq_false, List.any_eq_true, beq_iff_eq] at h
  exact h

theorem chkPre_fires (h : chkPre c o = some cl) : Fires c hist o cl := by
  unfold chkPre at h
  split at h
  · cases h
  · rename_i hu
    have hu' := uses_of_any hu
    split at h
    · cases h; rename_i hp; exact ⟨hu', hp⟩
    · rename_i pi hp
      split at h
      · cases h
      · rename_i hc
        simp only [Bool.or_eq_true, beq_iff_eq, not_or, List.isEmpty_iff] at hc
        split at h
        · cases h
        · rename_i hany
          cases h
          refine ⟨hu', pi, hp, hc.1, hc.2, ?_⟩
          intro d hd
          simp only [List.any_eq_true, not_exists, not_and, Bool.not_eq_true] at hany
          exact hany d hd

theorem chkDcr_fires (h : chkDcr c hist o = some cl) : Fires c hist o cl := by
  unfold chkDcr at h
  split at h
  · cases h
  · rename_i hu
    have hu' := uses_of_any hu
    split at h
    · cases h; rename_i hd; exact ⟨hu', by simpa using hd⟩
    · split at h
      · cases h
      · rename_i hne
        split at h
        · cases h
        · rename_i hany
          cases h
          refine ⟨hu', by simpa using hne, ?_⟩
          intro d hd
          simp only [List.any_eq_true, not_exists, not_and, Bool.not_eq_true, Bool.or_eq_false_iff] at hany
          obtain ⟨h1, h2⟩ := hany d hd
          refine ⟨h1, fun x hx => ?_⟩
          cases hie : issuersEqual x d.issuer with
          | false => rfl
          | true =>
            have : (hist.any fun x => issuersEqual x d.issuer) = true := List.any_eq_true.2 ⟨x, hx, hie⟩
            rw [this] at h2; cases h2

theorem chkCimd_fires (h : chkCimd c o = some cl) : Fires c hist o cl := by
  unfold chkCimd at h
  split at h
  · rename_i hc
    cases h
    simp only [Bool.and_eq_true, List.any_eq_true, beq_iff_eq, Bool.not_eq_true'] at hc
    exact ⟨hc.1, hc.2⟩
  · cases h

theorem chkInstall_fires (h : chkInstall c o = some cl) : Fires c hist o cl := by
  unfold chkInstall at h
  split at h
  · rename_i hc
    cases h
    simp only [Bool.and_eq_true, Bool.not_eq_true', Bool.or_eq_false_iff, beq_eq_false_iff_ne] at hc
    exact ⟨hc.1, rfl, hc.2.1, hc.2.2⟩
  · split at h
    · rename_i hc
      cases h
      simp only [Bool.and_eq_true, Bool.not_eq_true'] at hc
      exact ⟨hc.1, hc.2⟩
    · cases h

/-- Every report of the round's checks comes with its firing condition. -/
theorem chkAll_fires (h : chkAll c hist o = some cl) : Fires c hist o cl := by
  unfold chkAll at h
  rcases orElse_some h with h | h
  · exact chkHttps_fires h
  rcases orElse_some h with h | h
  · exact chkScript_fires h
  rcases orElse_some h with h | h
  · exact chkPrmIssuer_fires h
  rcases orElse_some h with h | h
  · exact chkPrmResource_fires h
  rcases orElse_some h with h | h
  · exact chkAsm_fires h
  rcases orElse_some h with h | h
  · exact chkExchange_fires h
  rcases orElse_some h with h | h
  · exact chkPre_fires h
  rcases orElse_some h with h | h
  · exact chkDcr_fires h
  rcases orElse_some h with h | h
  · exact chkCimd_fires h
  · exact chkInstall_fires h

end checks

/-! ## Clause soundness -/

theorem FiresAt.fires {tr : Trace} {j : Nat} {cl : Clause} (h : FiresAt tr j cl) :
    ∃ c o, tr[j]? = some (c, o) ∧ (c, o) ∈ tr ∧ Fires c (histAfter [] (tr.take j)) o cl := by
  obtain ⟨c, o, h1, h2⟩ := h
  exact ⟨c, o, h1, List.mem_of_getElem? h1, chkAll_fires h2⟩

theorem hasTok_iff {evs : List Event} : hasTok evs = true ↔ ∃ u cr, Event.token u cr ∈ evs := by
  simp only [hasTok, List.any_eq_true]
  constructor
  · rintro ⟨e, he, h⟩
    cases e <;> simp at h
    exact ⟨_, _, he⟩
  · rintro ⟨u, cr, h⟩
    exact ⟨_, h, rfl⟩

theorem exists_inUse_of_ne_nil {c : MCase} {o : Obs} (h : effDocs c o ≠ []) : ∃ d, InUse c o d := by
  obtain ⟨d, hd⟩ := List.exists_mem_of_ne_nil _ h
  exact ⟨d, mem_effDocs.1 hd⟩

theorem sound_httpsEmptyToken (tr : Trace) (j : Nat) (h : FiresAt tr j .httpsEmptyToken) :
    ¬ P_requests_https_or_loopback tr := by
  obtain ⟨c, o, _, hm, cr, he⟩ := h.fires
  intro hP
  have := hP c o hm _ he rfl
  simp [Event.url, Url.httpsOrLoopback] at this

theorem sound_https (tr : Trace) (j : Nat) (e : Event) (h : FiresAt tr j (.https e)) :
    ¬ P_requests_https_or_loopback tr := by
  obtain ⟨c, o, _, hm, he, hr, hh⟩ := h.fires
  intro hP
  rw [hP c o hm e he hr] at hh; cases hh

theorem sound_script (tr : Trace) (j : Nat) (e : Event) (h : FiresAt tr j (.script e)) :
    ¬ P_no_script_scheme_used tr := by
  obtain ⟨c, o, _, hm, he, hs, hU, hne⟩ := h.fires
  intro hP
  rcases hP c o hm e he hs with h1 | h1
  · rw [h1] at hU; cases hU
  · exact hne h1

theorem sound_prmIssuer (tr : Trace) (j : Nat) (I : Url) (h : FiresAt tr j (.prmIssuer I)) :
    ¬ P_prm_used_only_if_resource_matches tr := by
  obtain ⟨c, o, _, hm, m, hg, hb, hj⟩ := h.fires
  intro hP
  rw [prmJust_of_vouches ((hP c o hm).1 m hg I hb)] at hj; cases hj

theorem sound_prmResource (tr : Trace) (j : Nat) (r : Url) (h : FiresAt tr j (.prmResource r)) :
    ¬ P_prm_used_only_if_resource_matches tr := by
  obtain ⟨c, o, _, hm, u, cr, he, h1, h2⟩ := h.fires
  intro hP
  rcases (hP c o hm).2 u cr r he with h | h
  · exact h1 h
  · exact h2 h

theorem sound_asm (tr : Trace) (j : Nat) (h : FiresAt tr j .asm) :
    ¬ P_asm_used_only_if_issuer_matches_and_pkce tr := by
  obtain ⟨c, o, _, hm, hu, he⟩ := h.fires
  intro hP
  obtain ⟨d, hd⟩ := hP c o hm hu
  have := mem_effDocs.2 hd
  rw [he] at this; cases this

theorem sound_exchFetcher (tr : Trace) (j : Nat) (h : FiresAt tr j .exchFetcher) :
    ¬ P_exchange_requires_state_and_iss tr := by
  obtain ⟨c, o, _, hm, ht, hf⟩ := h.fires
  intro hP
  obtain ⟨iss, h1, _⟩ := hP c o hm (hasTok_iff.1 ht)
  rw [hf] at h1; cases h1

theorem sound_exchState (tr : Trace) (j : Nat) (h : FiresAt tr j .exchState) :
    ¬ P_exchange_requires_state_and_iss tr := by
  obtain ⟨c, o, _, hm, ht, iss, hf⟩ := h.fires
  intro hP
  obtain ⟨iss', h1, _⟩ := hP c o hm (hasTok_iff.1 ht)
  rw [hf] at h1; cases h1

theorem sound_exchIss (tr : Trace) (j : Nat) (h : FiresAt tr j .exchIss) :
    ¬ P_exchange_requires_state_and_iss tr := by
  obtain ⟨c, o, _, hm, ht, iss, hf, hne, hall⟩ := h.fires
  intro hP
  obtain ⟨iss', h1, h2⟩ := hP c o hm (hasTok_iff.1 ht)
  rw [hf] at h1
  simp only [FetchAnswer.result.injEq, true_and] at h1
  subst h1
  obtain ⟨d, hd, hic⟩ := h2 (exists_inUse_of_ne_nil hne)
  rw [hall d (mem_effDocs.2 hd)] at hic; cases hic

theorem sound_preNone (tr : Trace) (j : Nat) (h : FiresAt tr j .preNone) :
    ¬ P_preregistered_issuer_binding tr := by
  obtain ⟨c, o, _, hm, hu, hp⟩ := h.fires
  intro hP
  obtain ⟨pi, h1, _⟩ := hP c o hm hu
  rw [hp] at h1; cases h1

theorem sound_preOther (tr : Trace) (j : Nat) (h : FiresAt tr j .preOther) :
    ¬ P_preregistered_issuer_binding tr := by
  obtain ⟨c, o, _, hm, hu, pi, hp, hpe, hne, hall⟩ := h.fires
  intro hP
  obtain ⟨pi', h1, h2⟩ := hP c o hm hu
  rw [hp] at h1
  simp only [Option.some.injEq] at h1
  subst h1
  rcases h2 with h2 | h2
  · exact hpe h2
  · obtain ⟨d, hd, hie⟩ := h2 (exists_inUse_of_ne_nil hne)
    rw [hall d (mem_effDocs.2 hd)] at hie; cases hie

theorem sound_dcrNotConfigured (tr : Trace) (j : Nat) (h : FiresAt tr j .dcrNotConfigured) :
    ¬ P_registered_credentials_bound_to_issuer tr := by
  obtain ⟨c, o, hj, _, hu, hd⟩ := h.fires
  intro hP
  rw [((hP j c o hj).1 hu).1] at hd; cases hd

theorem sound_cimdNotConfigured (tr : Trace) (j : Nat) (h : FiresAt tr j .cimdNotConfigured) :
    ¬ P_registered_credentials_bound_to_issuer tr := by
  obtain ⟨c, o, hj, _, hu, hd⟩ := h.fires
  intro hP
  rw [(hP j c o hj).2 hu] at hd; cases hd

/-- The clause that needs HISTORY: the monitor's state at round `j` holds exactly the issuers of
metadata in use at which an earlier round registered (`mem_histAfter`, `mem_regdOf`), so a report
means that no round up to `j` registered at the server the credentials are presented to. -/
theorem sound_dcrForeign (tr : Trace) (j : Nat) (h : FiresAt tr j .dcrForeign) :
    ¬ P_registered_credentials_bound_to_issuer tr := by
  obtain ⟨c, o, hj, _, hu, hne, hall⟩ := h.fires
  intro hP
  obtain ⟨d, hd, hreg⟩ := ((hP j c o hj).1 hu).2 (exists_inUse_of_ne_nil hne)
  obtain ⟨hrn, hhist⟩ := hall d (mem_effDocs.2 hd)
  rcases hreg with hreg | ⟨j', c', o', d', hlt, hj', hd', hreg', hie⟩
  · rw [registeredNow_iff.2 hreg] at hrn; cases hrn
  · have hmem : d'.issuer ∈ histAfter [] (tr.take j) := by
      rw [mem_histAfter]
      right
      refine ⟨j', c', o', ?_, mem_regdOf.2 ⟨d', hd', hreg', rfl⟩⟩
      rw [List.getElem?_take, if_pos hlt]; exact hj'
    rw [hhist _ hmem] at hie; cases hie

theorem sound_instOutcome (tr : Trace) (j : Nat) (out : String) (h : FiresAt tr j (.instOutcome out)) :
    ¬ P_failed_check_installs_nothing tr := by
  obtain ⟨c, o, _, hm, hi, _, h1, h2⟩ := h.fires
  intro hP
  rcases (hP c o hm hi).1 with h | h
  · exact h1 h
  · exact h2 h

theorem sound_instNoExchange (tr : Trace) (j : Nat) (h : FiresAt tr j .instNoExchange) :
    ¬ P_failed_check_installs_nothing tr := by
  obtain ⟨c, o, _, hm, hi, hg⟩ := h.fires
  intro hP
  obtain ⟨_, u, cr, he, r, hr, hne⟩ := hP c o hm hi
  have : goodTok c o = true := by
    unfold goodTok
    rw [List.any_eq_true]
    refine ⟨_, he, ?_⟩
    simp only [tokGood, List.any_eq_true]
    exact ⟨r, hr, by simpa using hne⟩
  rw [this] at hg; cases hg

/-- **monitor_sound.** Whatever the implementation did: if the monitor run over the trace of a case
reports clause `cl` (at any round `j`), the property clause `cl` stands for fails on that trace. -/
theorem monitor_sound (tr : Trace) (j : Nat) (cl : Clause) (h : runMon tr = some (j, cl)) : ¬ P_of cl tr := by
  have hf := runMon_fires h
  cases cl with
  | httpsEmptyToken => exact sound_httpsEmptyToken tr j hf
  | https e => exact sound_https tr j e hf
  | script e => exact sound_script tr j e hf
  | prmIssuer I => exact sound_prmIssuer tr j I hf
  | prmResource r => exact sound_prmResource tr j r hf
  | asm => exact sound_asm tr j hf
  | exchFetcher => exact sound_exchFetcher tr j hf
  | exchState => exact sound_exchState tr j hf
  | exchIss => exact sound_exchIss tr j hf
  | preNone => exact sound_preNone tr j hf
  | preOther => exact sound_preOther tr j hf
  | dcrNotConfigured => exact sound_dcrNotConfigured tr j hf
  | dcrForeign => exact sound_dcrForeign tr j hf
  | cimdNotConfigured => exact sound_cimdNotConfigured tr j hf
  | instOutcome out => exact sound_instOutcome tr j out hf
  | instNoExchange => exact sound_instNoExchange tr j hf

/-- Challenge stream: "ParseWWWAuthenticate does not panic on any header value"; the clause fires
only on an observation other than `nopanic`. -/
def P_no_panic (impl : String) : Prop := impl = fuzzOk

theorem sound_fuzz (impl : String) (h : chkFuzz impl = true) : ¬ P_no_panic impl := by
  simpa [chkFuzz, P_no_panic] using h

example : chkFuzz "panic" = true := by decide

/-! ## Completeness: a silent monitor run means every clause holds

The converse of `monitor_sound`, so that the predicates above are exactly what the monitor decides:
if the run reports nothing, every `P_…` holds on the trace.  With `monitor_accepts_model` this gives
`model_satisfies_P`: the property clauses, as stated here on observation traces, hold on every
history of the model — the predicates are satisfiable, and by the model. -/

theorem orElse_none {α : Type} {a b : Option α} (h : (a <|> b) = none) : a = none ∧ b = none := by
  cases a <;> simp_all

theorem runMonFrom_none : ∀ (tr : Trace) (h : List Url) (i : Nat), runMonFrom h i tr = none →
    ∀ (k : Nat) (c : MCase) (o : Obs), tr[k]? = some (c, o) → chkAll c (histAfter h (tr.take k)) o = none
  | [], _, _, _, k, c, o, hk => by simp at hk
  | (c0, o0) :: tr, h, i, hr, k, c, o, hk => by
    simp only [runMonFrom] at hr
    cases hc : chkAll c0 h o0 with
    | some cl => rw [hc] at hr; cases hr
    | none =>
      rw [hc] at hr
      cases k with
      | zero => simp at hk; obtain ⟨rfl, rfl⟩ := hk; simpa [histAfter] using hc
      | succ k =>
        have := runMonFrom_none tr _ _ hr k c o (by simpa using hk)
        simpa [histAfter] using this

theorem vouches_of_prmJust {c : MCase} {o : Obs} {I : Url} (h : prmJust c (getsOf o.events) I = true) :
    PrmVouches c o I := by
  unfold prmJust at h
  rw [Bool.or_eq_true] at h
  rcases h with h | h
  · exact Or.inl (by simpa using h)
  · right
    rw [List.any_eq_true] at h
    obtain ⟨x, hx, h⟩ := h
    rw [Bool.and_eq_true] at h
    obtain ⟨hg, hb⟩ := h
    refine ⟨x, hx, by simpa using hg, ?_⟩
    unfold prmBacks at hb
    cases hl : c.tabs.prm.lookup x.1 with
    | none => rw [hl] at hb; cases hb
    | some r =>
      rw [hl] at hb
      cases r <;> simp at hb
      rename_i d
      obtain ⟨hsp, hhead⟩ := hb
      simp only [specPrmOk, Bool.and_eq_true, beq_iff_eq, List.all_eq_true, Bool.or_eq_true] at hsp
      refine ⟨d, rfl, hsp.1, fun a ha => ?_, hhead⟩
      rcases hsp.2 a ha with h | h
      · exact Or.inl h
      · right; simpa [safeUrl] using h

section complete
variable {c : MCase} {hist : List Url} {o : Obs}

theorem any_cred_of_exists {evs : List Event} {k : Cred} (h : ∃ e ∈ evs, e.cred = k) :
    (evs.any fun e => e.cred == k) = true := by
  obtain ⟨e, he, hk⟩ := h
  exact List.any_eq_true.2 ⟨e, he, by simp [hk]⟩

theorem https_of_silent (h : chkHttps o = none) : ∀ e ∈ o.events, e.isRequest = true → e.url.httpsOrLoopback = true := by
  intro e he hr
  have := firstSome_eq_none.1 h e (List.mem_filter.2 ⟨he, hr⟩)
  cases hh : e.url.httpsOrLoopback with
  | true => rfl
  | false =>
    rw [hh] at this
    simp only [Bool.false_eq_true, ↓reduceIte] at this
    split at this <;> cases this

theorem script_of_silent (h : chkScript c o = none) : ∀ e ∈ o.events, e.url.isScript = true →
    c.cfg.serverUrl.isScript = true ∨ e = .get .prm (rmFrom c.inp.challenges) := by
  intro e he hs
  have := firstSome_eq_none.1 h e he
  simp only [hs, Bool.true_and, ite_eq_right_iff, reduceCtorEq, imp_false, Bool.and_eq_true, Bool.not_eq_true',
    beq_eq_false_iff_ne, not_and, Classical.not_not] at this
  cases hU : c.cfg.serverUrl.isScript with
  | true => exact Or.inl rfl
  | false => exact Or.inr (this hU)

theorem prm_of_silent (h1 : chkPrmIssuer c o = none) (h2 : chkPrmResource c o = none) :
    (∀ m ∈ getsOf o.events, ∀ I, asBase m = some I → PrmVouches c o I) ∧
    (∀ u cr r, Event.fetch u cr r ∈ o.events → r = c.cfg.serverUrl ∨ r = c.cfg.serverUrl.root) := by
  constructor
  · intro m hm I hb
    have := firstSome_eq_none.1 h1 I (List.mem_filterMap.2 ⟨m, hm, hb⟩)
    apply vouches_of_prmJust
    cases hj : prmJust c (getsOf o.events) I with
    | true => rfl
    | false => simp [hj] at this
  · intro u cr r he
    have := firstSome_eq_none.1 h2 _ he
    simp only [ite_eq_left_iff, reduceCtorEq, imp_false, Classical.not_not, Bool.or_eq_true, beq_iff_eq] at this
    exact this

theorem asm_of_silent (h : chkAsm c o = none) : usedOf o.events ≠ [] → ∃ d, InUse c o d := by
  intro hu
  unfold chkAsm at h
  split at h
  · rename_i hc
    simp only [Bool.or_eq_true, List.isEmpty_iff, Bool.not_eq_true'] at hc
    rcases hc with hc | hc
    · exact absurd hc hu
    · exact effDocs_isEmpty_false.1 hc
  · cases h

theorem exchange_of_silent (h : chkExchange c o = none) : (∃ u cr, Event.token u cr ∈ o.events) →
    ∃ iss, c.tabs.fetch = .result true iss ∧
      ((∃ d, InUse c o d) → ∃ d, InUse c o d ∧ issCheck iss d.issuer d.issParamSupported = true) := by
  intro ht
  have ht' := hasTok_iff.2 ht
  unfold chkExchange at h
  rw [ht'] at h
  simp only [Bool.not_true, Bool.false_eq_true, ↓reduceIte] at h
  split at h
  · cases h
  · rename_i sm iss hf
    split at h
    · cases h
    · rename_i hsm
      have : sm = true := by simpa using hsm
      subst this
      refine ⟨iss, hf, fun hex => ?_⟩
      have hne := effDocs_isEmpty_false.2 hex
      rw [hne] at h
      simp only [Bool.false_eq_true, ↓reduceIte] at h
      split at h
      · rename_i hany
        obtain ⟨d, hd, hic⟩ := List.any_eq_true.1 hany
        exact ⟨d, mem_effDocs.1 hd, hic⟩
      · cases h

theorem pre_of_silent (h : chkPre c o = none) : (∃ e ∈ o.events, e.cred = .pre) →
    ∃ pi, c.cfg.pre = some pi ∧
      (pi = .empty ∨ ((∃ d, InUse c o d) → ∃ d, InUse c o d ∧ issuersEqual pi d.issuer = true)) := by
  intro hu
  unfold chkPre at h
  rw [any_cred_of_exists hu] at h
  simp only [Bool.not_true, Bool.false_eq_true, ↓reduceIte] at h
  split at h
  · cases h
  · rename_i pi hp
    refine ⟨pi, hp, ?_⟩
    by_cases hpe : pi = .empty
    · exact Or.inl hpe
    · right
      intro hex
      have hne := effDocs_isEmpty_false.2 hex
      simp only [hne, Bool.or_false, beq_iff_eq, hpe, ↓reduceIte] at h
      split at h
      · rename_i hany
        obtain ⟨d, hd, hie⟩ := List.any_eq_true.1 hany
        exact ⟨d, mem_effDocs.1 hd, hie⟩
      · cases h

theorem dcr_of_silent (h : chkDcr c hist o = none) : (∃ e ∈ o.events, e.cred = .dcr) →
    c.cfg.dcr = true ∧ ((∃ d, InUse c o d) → ∃ d, InUse c o d ∧
      (RegisteredAt c o d ∨ ∃ x ∈ hist, issuersEqual x d.issuer = true)) := by
  intro hu
  unfold chkDcr at h
  rw [any_cred_of_exists hu] at h
  simp only [Bool.not_true, Bool.false_eq_true, ↓reduceIte] at h
  split at h
  · cases h
  · rename_i hd
    refine ⟨by simpa using hd, fun hex => ?_⟩
    have hne := effDocs_isEmpty_false.2 hex
    simp only [hne, Bool.false_eq_true, ↓reduceIte] at h
    split at h
    · rename_i hany
      obtain ⟨d, hd, hor⟩ := List.any_eq_true.1 hany
      refine ⟨d, mem_effDocs.1 hd, ?_⟩
      rw [Bool.or_eq_true] at hor
      rcases hor with h1 | h1
      · exact Or.inl (registeredNow_iff.1 h1)
      · exact Or.inr (List.any_eq_true.1 h1)
    · cases h

theorem cimd_of_silent (h : chkCimd c o = none) : (∃ e ∈ o.events, e.cred = .cimd) → c.cfg.cimd = true := by
  intro hu
  unfold chkCimd at h
  rw [any_cred_of_exists hu] at h
  cases hc : c.cfg.cimd with
  | true => rfl
  | false => simp [hc] at h

theorem install_of_silent (h : chkInstall c o = none) : o.inst = true →
    (o.out = "ok" ∨ o.out = "post") ∧
    ∃ u cr, Event.token u cr ∈ o.events ∧ ∃ r ∈ (c.tabs.tok.lookup u).getD [], r ≠ TokResp.fail := by
  intro hi
  unfold chkInstall at h
  rw [hi] at h
  simp only [Bool.true_and] at h
  split at h
  · cases h
  · rename_i h1
    split at h
    · cases h
    · rename_i h2
      simp only [Bool.not_eq_true', Bool.not_eq_false, Bool.or_eq_true, beq_iff_eq] at h1 h2
      refine ⟨h1, ?_⟩
      unfold goodTok at h2
      obtain ⟨e, he, hg⟩ := List.any_eq_true.1 h2
      cases e <;> simp at hg
      rename_i u cr
      simp only [tokGood, List.any_eq_true] at hg
      obtain ⟨r, hr, hne⟩ := hg
      exact ⟨u, cr, he, r, hr, by simpa using hne⟩

end complete

/-- **monitor_complete.** If the monitor run over a trace reports nothing, every clause of the
property (as stated above) holds on the trace. -/
theorem monitor_complete (tr : Trace) (h : runMon tr = none) (cl : Clause) : P_of cl tr := by
  have hall := runMonFrom_none tr [] 0 h
  have hmem : ∀ c o, (c, o) ∈ tr → ∃ hist, chkAll c hist o = none := by
    intro c o hm
    obtain ⟨k, hk⟩ := List.getElem?_of_mem hm
    exact ⟨_, hall k c o hk⟩
  have split10 : ∀ {c hist o}, chkAll c hist o = none →
      chkHttps o = none ∧ chkScript c o = none ∧ chkPrmIssuer c o = none ∧ chkPrmResource c o = none ∧
      chkAsm c o = none ∧ chkExchange c o = none ∧ chkPre c o = none ∧ chkDcr c hist o = none ∧
      chkCimd c o = none ∧ chkInstall c o = none := by
    intro c hist o h
    unfold chkAll at h
    obtain ⟨h1, h⟩ := orElse_none h
    obtain ⟨h2, h⟩ := orElse_none h
    obtain ⟨h3, h⟩ := orElse_none h
    obtain ⟨h4, h⟩ := orElse_none h
    obtain ⟨h5, h⟩ := orElse_none h
    obtain ⟨h6, h⟩ := orElse_none h
    obtain ⟨h7, h⟩ := orElse_none h
    obtain ⟨h8, h⟩ := orElse_none h
    obtain ⟨h9, h10⟩ := orElse_none h
    exact ⟨h1, h2, h3, h4, h5, h6, h7, h8, h9, h10⟩
  have hreg : P_registered_credentials_bound_to_issuer tr := by
    intro i c o hi
    obtain ⟨_, _, _, _, _, _, _, h8, h9, _⟩ := split10 (hall i c o hi)
    refine ⟨fun hu => ?_, cimd_of_silent h9⟩
    obtain ⟨hd, hrest⟩ := dcr_of_silent h8 hu
    refine ⟨hd, fun hex => ?_⟩
    obtain ⟨d, hin, hor⟩ := hrest hex
    refine ⟨d, hin, ?_⟩
    rcases hor with h1 | ⟨x, hx, hie⟩
    · exact Or.inl h1
    · right
      rw [mem_histAfter] at hx
      rcases hx with hx | ⟨j, c', o', hj, hx⟩
      · cases hx
      · obtain ⟨d', hd', hr', rfl⟩ := mem_regdOf.1 hx
        have hlt : j < i := by
          by_cases hlt : j < i
          · exact hlt
          · rw [List.getElem?_take, if_neg hlt] at hj; cases hj
        rw [List.getElem?_take, if_pos hlt] at hj
        exact ⟨j, c', o', d', hlt, hj, hd', hr', hie⟩
  cases cl with
  | httpsEmptyToken | https e =>
    intro c o hm
    obtain ⟨hist, hs⟩ := hmem c o hm
    exact https_of_silent (split10 hs).1
  | script e =>
    intro c o hm
    obtain ⟨hist, hs⟩ := hmem c o hm
    exact script_of_silent (split10 hs).2.1
  | prmIssuer I | prmResource r =>
    intro c o hm
    obtain ⟨hist, hs⟩ := hmem c o hm
    exact prm_of_silent (split10 hs).2.2.1 (split10 hs).2.2.2.1
  | asm =>
    intro c o hm
    obtain ⟨hist, hs⟩ := hmem c o hm
    exact asm_of_silent (split10 hs).2.2.2.2.1
  | exchFetcher | exchState | exchIss =>
    intro c o hm
    obtain ⟨hist, hs⟩ := hmem c o hm
    exact exchange_of_silent (split10 hs).2.2.2.2.2.1
  | preNone | preOther =>
    intro c o hm
    obtain ⟨hist, hs⟩ := hmem c o hm
    exact pre_of_silent (split10 hs).2.2.2.2.2.2.1
  | dcrNotConfigured | dcrForeign | cimdNotConfigured => exact hreg
  | instOutcome out | instNoExchange =>
    intro c o hm
    obtain ⟨hist, hs⟩ := hmem c o hm
    exact install_of_silent (split10 hs).2.2.2.2.2.2.2.2.2

/-- **model_satisfies_P.** Every clause of C15, as stated here on observation traces, holds on the
observation trace of the model over ANY history of well-formed rounds: the predicates the soundness
theorems refute are satisfiable — by every behaviour the model allows. -/
theorem model_satisfies_P (h : Handler) (rs : List TRound) (hwf : ∀ r ∈ rs, (r.mcase h.cfg).wf = true) (cl : Clause) :
    P_of cl (modelTrace h rs) :=
  monitor_complete _ (monitor_accepts_model h rs hwf) cl

/-! ## Non-vacuity: every clause can be reported

For each clause an observation the model does not allow, on which the monitor run reports exactly
that clause (the hypothesis `FiresAt` of each `sound_…` theorem is satisfiable).  The network is the
honest one of Bridge.lean unless said otherwise. -/

section Witness

def oHonest : List Event :=
  [.get .prm (wServer.derive .prmPath), .get .prm (wAS.derive .asOAuth), .fetch (wHttps 2 11) .pre wServer,
   .token (wHttps 2 12) .pre]
def oWith (cr : Cred) : List Event :=
  [.get .prm (wServer.derive .prmPath), .get .prm (wAS.derive .asOAuth), .fetch (wHttps 2 11) cr wServer,
   .token (wHttps 2 12) cr]
def oOk (evs : List Event) : Obs := { out := "ok", inst := true, events := evs }

/-- The honest observation itself is accepted. -/
example : runMon [(tCase, oOk oHonest)] = none := by decide
/-- A registration request to a plain-http, non-loopback URL. -/
example : runMon [(tCase, oOk (oHonest ++ [.register (.at ⟨"http", false, 9⟩ 0 0 [])]))] =
    some (0, .https (.register (.at ⟨"http", false, 9⟩ 0 0 []))) := by decide
example : runMon [(tCase, oOk [.token .empty .pre])] = some (0, .httpsEmptyToken) := by decide
/-- A `javascript:` URL on a loopback host that is not the challenge's. -/
example : runMon [(tCase, oOk [.get .prm (.at ⟨"javascript", true, 0⟩ 5 0 [])])] =
    some (0, .script (.get .prm (.at ⟨"javascript", true, 0⟩ 5 0 []))) := by decide
/-- Metadata of an authorization server nobody vouches for is requested. -/
example : runMon [(tCase, oOk [.get .prm ((wHttps 9 0).derive .asOAuth)])] = some (0, .prmIssuer (wHttps 9 0)) := by
  decide
/-- A foreign `resource` parameter. -/
example : runMon [(tCase, oOk [.get .prm (wServer.derive .prmPath), .get .prm (wAS.derive .asOAuth),
    .fetch (wHttps 2 11) .pre (wHttps 9 0)])] = some (0, .prmResource (wHttps 9 0)) := by decide
/-- The served metadata does not advertise PKCE, yet its endpoints are used. -/
example : runMon [({ tCase with tabs := tHonest { wDoc with pkce := false } }, oOk oHonest)] = some (0, .asm) := by decide
example : runMon [({ tCase with tabs := { tHonest wDoc with fetch := .err } }, oOk oHonest)] = some (0, .exchFetcher) := by
  decide
example : runMon [({ tCase with tabs := { tHonest wDoc with fetch := .result false wAS } }, oOk oHonest)] =
    some (0, .exchState) := by decide
example : runMon [({ tCase with tabs := { tHonest wDoc with fetch := .result true (wHttps 3 0) } }, oOk oHonest)] =
    some (0, .exchIss) := by decide
example : runMon [({ tCase with cfg := { wCfg with pre := none } }, oOk oHonest)] = some (0, .preNone) := by decide
example : runMon [({ tCase with cfg := { wCfg with pre := some (wHttps 3 0) } }, oOk oHonest)] = some (0, .preOther) := by
  decide
example : runMon [(tCase, oOk (oWith .dcr))] = some (0, .dcrNotConfigured) := by decide
/-- Dynamically registered credentials without any registration, in this round or before. -/
example : runMon [(tCaseDcr, oOk (oWith .dcr))] = some (0, .dcrForeign) := by decide
example : runMon [(tCase, oOk (oWith .cimd))] = some (0, .cimdNotConfigured) := by decide
example : runMon [(tCase, { oOk oHonest with out := "exch" })] = some (0, .instOutcome "exch") := by decide
example : runMon [({ tCase with tabs := { tHonest wDoc with tok := [(wHttps 2 12, [.fail])] } }, oOk oHonest)] =
    some (0, .instNoExchange) := by decide

/-- The clause with history.  Round 0 registers at `wAS` (the model's own observation).  Round 1
presents the registered credentials without registering again: to `wAS` — accepted, the monitor
remembers the registration; to another, perfectly valid server `wAS2` — reported at round 1. -/
def tCaseDcr2 : MCase :=
  { cfg := tCaseDcr.cfg, inp := wInp,
    tabs := { prm := [(wServer.derive .prmPath, .doc { resource := wServer, authServers := [wAS2] })],
              asm := [(wAS2.derive .asOAuth, .doc wDoc2)], tok := [(wHttps 4 12, [.good])], fetch := .result true .empty } }

example : runMon [(tCaseDcr, obsOf tCaseDcr.result), (tCaseDcr, oOk (oWith .dcr))] = none := by decide
example : runMon [(tCaseDcr, obsOf tCaseDcr.result),
    (tCaseDcr2, oOk [.get .prm (wServer.derive .prmPath), .get .prm (wAS2.derive .asOAuth),
      .fetch (wHttps 4 11) .dcr wServer, .token (wHttps 4 12) .dcr])] = some (1, .dcrForeign) := by decide

end Witness

end OAuth
