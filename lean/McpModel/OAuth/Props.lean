import McpModel.OAuth.Lemmas
/-!
C15 — "OAuth client flow trusts only matching, safe metadata and a matching state/iss".

The `history_*` theorems are about ANY list of `Authorize` calls on one handler (`Handler.run`), each
call with its own request, response and network.  Every other theorem is about one call,
`authorize cfg inp w`, for ALL handler configurations `cfg`, ALL 401/403
responses `inp` (status, challenges, malformed header) and ALL worlds `w` (arbitrary functions from
step number and URL to a response variant, arbitrary fetcher), and is an invariant of the request
log of that sequential function.  The specification predicates (`Url.httpsOrLoopback`,
`Url.isScript`, `issuersEqual`, `issCheck`) are hand-written in Model.lean; the predicates the model
decides with are regenerated from /repo, and `Lemmas.lean` proves the former from the latter.
-/
namespace OAuth

/-! ### What "justified" means -/

/-- SPEC: an identifier a client may contact or show — absent, or not script-capable and https/loopback. -/
def Safe (u : Url) : Prop := u = .empty ∨ (u.isScript = false ∧ u.httpsOrLoopback = true)

/-- The authorization server `I` and the resource identifier `res` the flow continues with are the
2025-03-26 fall-back (the server's own root), or come from a protected-resource document that was
actually fetched from a candidate location, names exactly the resource asked for, lists only safe
authorization servers, and whose first entry is `I`. -/
def PrmJustifies (cfg : Config) (inp : Input) (w : World) (log : List Event) (I res : Url) : Prop :=
  (I = cfg.serverUrl.root ∧ res = cfg.serverUrl) ∨
  ∃ c ∈ prmCandidates (rmFrom inp.challenges) cfg.serverUrl, ∃ i d,
    w.prm i c.1 = .doc d ∧ Event.get .prm c.1 ∈ log ∧ d.resource = c.2 ∧ (∀ x ∈ d.authServers, Safe x) ∧
    d.authServers.head? = some I ∧ res = d.resource

/-- The checks a metadata document must pass for issuer `I`. -/
def AsmDocOk (a : AsmDoc) (I : Url) : Prop :=
  issuersEqual a.issuer I = true ∧ a.pkce = true ∧
  (∀ x ∈ [a.authorizationEndpoint, a.tokenEndpoint, a.registrationEndpoint, a.introspectionEndpoint] ++ a.otherUrls,
      x.isScript = false ∧ ∀ n, x ≠ .bad n) ∧
  (∀ x ∈ [a.authorizationEndpoint, a.tokenEndpoint, a.registrationEndpoint, a.introspectionEndpoint],
      x = .empty ∨ x.httpsOrLoopback = true) ∧
  (Generated.OAuth.tokenEndpointRequired = true → a.tokenEndpoint ≠ .empty)

/-- The metadata in use is a document fetched from a candidate location of `I` that passes the
checks, or the fall-back after EVERY candidate location answered 4xx. -/
def AsmJustifies (w : World) (log : List Event) (I : Url) (a : AsmDoc) : Prop :=
  (∃ m ∈ asmCandidates I, ∃ i, w.asm i m = .doc a ∧ Event.get .asm m ∈ log ∧ AsmDocOk a I) ∨
  (a = fallbackAsm I ∧ ∀ m ∈ asmCandidates I, checkHOL m = true ∧ ∃ i, w.asm i m = .status4xx)

/-- Classification of one log entry of a result `R`. -/
def Classified (cfg : Config) (inp : Input) (w : World) (R : Result) (e : Event) : Prop :=
  (∃ c ∈ prmCandidates (rmFrom inp.challenges) cfg.serverUrl, e = .get .prm c.1 ∧ checkHOL c.1 = true) ∨
  (∃ I, R.issuer = some I ∧ ∃ m ∈ asmCandidates I, e = .get .asm m ∧ checkHOL m = true) ∨
  (∃ a, R.asm = some a ∧ e = .register a.registrationEndpoint ∧ a.registrationEndpoint ≠ .empty ∧
      ∀ n, a.registrationEndpoint ≠ .bad n) ∨
  (∃ a cred, R.asm = some a ∧ e = .fetch a.authorizationEndpoint cred R.resource ∧ CredOk cfg a cred) ∨
  (∃ a cred, R.asm = some a ∧ e = .token a.tokenEndpoint cred ∧ (∀ n, a.tokenEndpoint ≠ .bad n) ∧
      CredOk cfg a cred ∧ ExchangeOk w a)

/-- Everything the theorems below need, established by ONE pass over the cases of `authorize`. -/
structure Facts (cfg : Config) (inp : Input) (w : World) (R : Result) : Prop where
  mem : ∀ e ∈ R.log, Classified cfg inp w R e
  issuer : ∀ I, R.issuer = some I → PrmJustifies cfg inp w R.log I R.resource
  asm : ∀ a, R.asm = some a → ∃ I, R.issuer = some I ∧ AsmJustifies w R.log I a
  inst : R.installed = true →
    (R.outcome = .ok ∨ R.outcome = .post) ∧
    ∃ a, R.asm = some a ∧ ExchangeOk w a ∧ ∃ cred i, Event.token a.tokenEndpoint cred ∈ R.log ∧ w.tok i a.tokenEndpoint ≠ .fail

/-! ### Justification of each phase's result -/

theorem prmDocOk_safe {d : PrmDoc} {r : Url} (h : prmDocOk d r = true) : d.resource = r ∧ ∀ x ∈ d.authServers, Safe x := by
  simp only [prmDocOk, Bool.and_eq_true, beq_iff_eq, List.all_eq_true] at h
  refine ⟨h.1, fun x hx => ?_⟩
  obtain ⟨h1, h2⟩ := h.2 x hx
  rcases checkHOL_spec h2 with h2 | h2
  · exact Or.inl h2
  · exact Or.inr ⟨(checkScheme_spec h1).1, h2⟩

theorem prm_justified (cfg : Config) (inp : Input) (w : World)
    (h : (discoverPrm w 0 (prmCandidates (rmFrom inp.challenges) cfg.serverUrl)).1 ≠ .noAS) :
    PrmJustifies cfg inp w (discoverPrm w 0 (prmCandidates (rmFrom inp.challenges) cfg.serverUrl)).2
      ((discoverPrm w 0 (prmCandidates (rmFrom inp.challenges) cfg.serverUrl)).1.issuer cfg.serverUrl)
      ((discoverPrm w 0 (prmCandidates (rmFrom inp.challenges) cfg.serverUrl)).1.resource cfg.serverUrl) := by
  generalize hp : discoverPrm w 0 (prmCandidates (rmFrom inp.challenges) cfg.serverUrl) = p at h ⊢
  cases hp1 : p.1 with
  | noAS => exact absurd hp1 h
  | fallback => exact Or.inl ⟨by simp [PrmRes.issuer], by simp [PrmRes.resource]⟩
  | found d =>
    right
    have hf : (discoverPrm w 0 (prmCandidates (rmFrom inp.challenges) cfg.serverUrl)).1 = .found d := by rw [hp, hp1]
    obtain ⟨c, hc, j, hw, hok, hmem, hne⟩ := discoverPrm_found hf
    obtain ⟨hres, hsafe⟩ := prmDocOk_safe hok
    refine ⟨c, hc, j, d, hw, by rw [← hp]; exact hmem, hres, hsafe, ?_, by simp [PrmRes.resource]⟩
    simp only [PrmRes.issuer]
    cases hd : d.authServers with
    | nil => exact absurd hd hne
    | cons x xs => simp

theorem asmUrlsOk_spec {d : AsmDoc} (h : asmUrlsOk d = true) :
    (∀ x ∈ [d.authorizationEndpoint, d.tokenEndpoint, d.registrationEndpoint, d.introspectionEndpoint] ++ d.otherUrls,
      x.isScript = false ∧ ∀ n, x ≠ .bad n) ∧
    (∀ x ∈ [d.authorizationEndpoint, d.tokenEndpoint, d.registrationEndpoint, d.introspectionEndpoint],
      x = .empty ∨ x.httpsOrLoopback = true) := by
  simp only [asmUrlsOk, Bool.and_eq_true, List.all_eq_true] at h
  exact ⟨fun x hx => checkScheme_spec (h.1.2 x hx), fun x hx => checkHOL_spec (h.2 x hx)⟩

theorem asmUrlsOk_required {d : AsmDoc} (h : asmUrlsOk d = true) (hr : Generated.OAuth.tokenEndpointRequired = true) :
    d.tokenEndpoint ≠ .empty := by
  simp only [asmUrlsOk, Bool.and_eq_true, hr] at h
  simpa using h.1.1.2

theorem asm_justified (w : World) (I : Url) (h : ∀ o, (discoverAsm w I 0 (asmCandidates I)).1 ≠ .err o) :
    AsmJustifies w (discoverAsm w I 0 (asmCandidates I)).2 I (effAsm (discoverAsm w I 0 (asmCandidates I)).1 I) := by
  cases hq : (discoverAsm w I 0 (asmCandidates I)).1 with
  | err o => exact absurd hq (h o)
  | next =>
    right
    exact ⟨by simp [effAsm], discoverAsm_next hq⟩
  | found d =>
    left
    obtain ⟨m, hm, j, h1, h2, h3, h4, h5⟩ := discoverAsm_found hq
    obtain ⟨h6, h7⟩ := asmUrlsOk_spec h4
    exact ⟨m, hm, j, by simpa [effAsm] using h1, h5, by simpa [effAsm] using ⟨h2, h3, h6, h7, fun hr => asmUrlsOk_required h4 hr⟩⟩

theorem PrmJustifies.mono {cfg : Config} {inp : Input} {w : World} {l l' : List Event} {I r : Url}
    (h : PrmJustifies cfg inp w l I r) (hs : ∀ e ∈ l, e ∈ l') : PrmJustifies cfg inp w l' I r := by
  rcases h with h | ⟨c, hc, i, d, h1, h2, h3⟩
  · exact Or.inl h
  · exact Or.inr ⟨c, hc, i, d, h1, hs _ h2, h3⟩

theorem AsmJustifies.mono {w : World} {l l' : List Event} {I : Url} {a : AsmDoc}
    (h : AsmJustifies w l I a) (hs : ∀ e ∈ l, e ∈ l') : AsmJustifies w l' I a := by
  rcases h with ⟨m, hm, i, h1, h2, h3⟩ | h
  · exact Or.inl ⟨m, hm, i, h1, hs _ h2, h3⟩
  · exact Or.inr h

/-! ### The master invariant -/

theorem authorize_facts (cfg : Config) (inp : Input) (w : World) : Facts cfg inp w (authorize cfg inp w) := by
  have hc := authorize_cases cfg inp w
  simp only [] at hc
  generalize hp : discoverPrm w 0 (prmCandidates (rmFrom inp.challenges) cfg.serverUrl) = p at hc
  have hpl : ∀ e ∈ p.2, ∃ c ∈ prmCandidates (rmFrom inp.challenges) cfg.serverUrl, e = .get .prm c.1 ∧ checkHOL c.1 = true := by
    intro e he; rw [← hp] at he; exact discoverPrm_log he
  have hpj : p.1 ≠ .noAS → PrmJustifies cfg inp w p.2 (p.1.issuer cfg.serverUrl) (p.1.resource cfg.serverUrl) := by
    intro h; rw [← hp] at h ⊢; exact prm_justified cfg inp w h
  generalize hI : p.1.issuer cfg.serverUrl = I at hc hpj
  generalize hres : p.1.resource cfg.serverUrl = res at hc hpj
  generalize hq : discoverAsm w I 0 (asmCandidates I) = q at hc
  have hql : ∀ e ∈ q.2, ∃ m ∈ asmCandidates I, e = .get .asm m ∧ checkHOL m = true := by
    intro e he; rw [← hq] at he; exact discoverAsm_log he
  have hqj : (∀ o, q.1 ≠ .err o) → AsmJustifies w q.2 I (effAsm q.1 I) := by
    intro h; rw [← hq] at h ⊢; exact asm_justified w I h
  generalize ha : effAsm q.1 I = a at hc hqj
  generalize hr : register cfg w a = r at hc
  have hrl : ∀ e ∈ r.2, e = .register a.registrationEndpoint ∧ a.registrationEndpoint ≠ .empty ∧
      (∀ n, a.registrationEndpoint ≠ .bad n) := by
    intro e he; rw [← hr] at he
    obtain ⟨h1, h2, h3, _⟩ := register_log he
    exact ⟨h1, h2, h3⟩
  have hrc : ∀ cred probe, r.1 = .ok cred probe → CredOk cfg a cred := by
    intro cred probe h; rw [← hr] at h; exact register_ok h
  rcases hc with h | h | ⟨_, h⟩ | ⟨hp1, o, _, h⟩ | ⟨hp1, hq1, o, _, h⟩ | ⟨hp1, hq1, cred, probe, hr1, h⟩
  · rw [h]; exact ⟨by simp, by simp, by simp, by simp⟩
  · rw [h]; exact ⟨by simp, by simp, by simp, by simp⟩
  · rw [h]
    refine ⟨?_, by simp, by simp, by simp⟩
    intro e he
    exact Or.inl (hpl e he)
  · rw [h]
    refine ⟨?_, ?_, by simp, by simp⟩
    · intro e he
      simp only [List.mem_append] at he
      rcases he with he | he
      · exact Or.inl (hpl e he)
      · exact Or.inr (Or.inl ⟨I, rfl, hql e he⟩)
    · intro I' hI'
      simp only [Option.some.injEq] at hI'
      subst hI'
      exact (hpj hp1).mono (by intro e he; simp [he])
  · rw [h]
    refine ⟨?_, ?_, ?_, by simp⟩
    · intro e he
      simp only [List.mem_append] at he
      rcases he with (he | he) | he
      · exact Or.inl (hpl e he)
      · exact Or.inr (Or.inl ⟨I, rfl, hql e he⟩)
      · exact Or.inr (Or.inr (Or.inl ⟨a, rfl, hrl e he⟩))
    · intro I' hI'
      simp only [Option.some.injEq] at hI'
      subst hI'
      exact (hpj hp1).mono (by intro e he; simp [he])
    · intro a' ha'
      simp only [Option.some.injEq] at ha'
      subst ha'
      exact ⟨I, rfl, (hqj hq1).mono (by intro e he; simp [he])⟩
  · obtain ⟨f1, f2, f3, f4⟩ := finish_cases w a I res cred probe (p.2 ++ q.2 ++ r.2 ++ [.fetch a.authorizationEndpoint cred res])
    rw [h]
    have hpre : ∀ e ∈ p.2 ++ q.2 ++ r.2 ++ [Event.fetch a.authorizationEndpoint cred res],
        Classified cfg inp w (finish w a I res cred probe (p.2 ++ q.2 ++ r.2 ++ [.fetch a.authorizationEndpoint cred res])) e := by
      intro e he
      simp only [List.mem_append, List.mem_singleton] at he
      rcases he with ((he | he) | he) | he
      · exact Or.inl (hpl e he)
      · exact Or.inr (Or.inl ⟨I, f1, hql e he⟩)
      · exact Or.inr (Or.inr (Or.inl ⟨a, f3, hrl e he⟩))
      · exact Or.inr (Or.inr (Or.inr (Or.inl ⟨a, cred, f3, by rw [f2]; exact he, hrc cred probe hr1⟩)))
    have hsub1 : ∀ e ∈ p.2, e ∈ (finish w a I res cred probe (p.2 ++ q.2 ++ r.2 ++ [.fetch a.authorizationEndpoint cred res])).log := by
      intro e he
      rcases f4 with ⟨hl, _⟩ | ⟨_, hl, _⟩ <;> rw [hl] <;> simp [he]
    have hsub2 : ∀ e ∈ q.2, e ∈ (finish w a I res cred probe (p.2 ++ q.2 ++ r.2 ++ [.fetch a.authorizationEndpoint cred res])).log := by
      intro e he
      rcases f4 with ⟨hl, _⟩ | ⟨_, hl, _⟩ <;> rw [hl] <;> simp [he]
    refine ⟨?_, ?_, ?_, ?_⟩
    · intro e he
      rcases f4 with ⟨hl, _⟩ | ⟨hx, hl, _⟩
      · rw [hl] at he; exact hpre e he
      · rw [hl] at he
        rw [List.mem_append] at he
        rcases he with he | he
        · exact hpre e he
        · obtain ⟨h1, h2⟩ := exchange_log he
          exact Or.inr (Or.inr (Or.inr (Or.inr ⟨a, cred, f3, h1, h2, hrc cred probe hr1, hx⟩)))
    · intro I' hI'
      rw [f1] at hI'
      simp only [Option.some.injEq] at hI'
      subst hI'
      rw [f2]
      exact (hpj hp1).mono hsub1
    · intro a' ha'
      rw [f3] at ha'
      simp only [Option.some.injEq] at ha'
      subst ha'
      exact ⟨I, f1, (hqj hq1).mono hsub2⟩
    · intro hi
      rcases f4 with ⟨_, hni, _⟩ | ⟨hx, hl, hcases⟩
      · rw [hni] at hi; exact absurd hi (by simp)
      · rcases hcases with ⟨_, hni, _⟩ | ⟨hg, _, ho⟩ | ⟨hg, _, ho⟩
        · rw [hni] at hi; exact absurd hi (by simp)
        · have hne : (exchange w a.tokenEndpoint cred probe).1 ≠ .fail := by rw [hg]; simp
          obtain ⟨hm, i, hi'⟩ := exchange_success hne
          exact ⟨Or.inl ho, a, f3, hx, cred, i, by rw [hl]; simp [hm], by rw [hi', hg]; simp⟩
        · have hne : (exchange w a.tokenEndpoint cred probe).1 ≠ .fail := by rw [hg]; simp
          obtain ⟨hm, i, hi'⟩ := exchange_success hne
          exact ⟨Or.inr ho, a, f3, hx, cred, i, by rw [hl]; simp [hm], by rw [hi', hg]; simp⟩

/-! ### Consequences used below -/

theorem issuer_script {cfg : Config} {inp : Input} {w : World} {l : List Event} {I r : Url}
    (h : PrmJustifies cfg inp w l I r) (hs : I.isScript = true) : cfg.serverUrl.isScript = true := by
  rcases h with ⟨rfl, _⟩ | ⟨c, _, i, d, _, _, _, hsafe, hhead, _⟩
  · simpa using hs
  · have hmem : I ∈ d.authServers := List.mem_of_mem_head? hhead
    rcases hsafe I hmem with h | ⟨h, _⟩
    · subst h; simp [Url.isScript] at hs
    · rw [h] at hs; simp at hs

theorem fallback_endpoint_hol {w : World} {I : Url} {d : Wk}
    (h : ∀ m ∈ asmCandidates I, checkHOL m = true ∧ ∃ i, w.asm i m = .status4xx)
    (hb : ∀ n, I.derive d ≠ .bad n) : (I.derive d).httpsOrLoopback = true := by
  have hI : ∀ n, I ≠ .bad n := by
    intro n hn; subst hn; exact hb n rfl
  obtain ⟨m, hm⟩ := List.exists_mem_of_ne_nil _ (asmCandidates_ne_nil hI)
  obtain ⟨d', rfl⟩ := mem_asmCandidates hm
  simpa using checkHOL_derive (h _ hm).1

/-! ### The theorems of C15 -/

/-- **requests_https_or_loopback** — FULL STATEMENT (DESIGN §5 C15):
`∀ e ∈ (authorize cfg inp w).log, e.isRequest → e.url.httpsOrLoopback`.
It does NOT hold of the code as it is: `checkHTTPSOrLoopback("")` is nil, so a metadata document
WITHOUT the (REQUIRED) `token_endpoint` passes validation and the code exchange is then POSTed to
the empty URL through the injected client (`empty_token_endpoint_is_requested` below; exhibited on
the real code by the monitor clause "token request issued to an EMPTY token_endpoint").
Proved here: every request — protected-resource metadata at the three candidate locations,
authorization-server metadata at the up-to-three locations of the issuer, registration, token, and
the 2025-03-26 fall-back endpoints — goes to an https or loopback URL, the ONLY exception being a
token request to the empty URL. -/
theorem requests_https_or_loopback_partial (cfg : Config) (inp : Input) (w : World) (e : Event)
    (he : e ∈ (authorize cfg inp w).log) (hr : e.isRequest = true) :
    e.url.httpsOrLoopback = true ∨ ∃ c, e = .token .empty c := by
  have F := authorize_facts cfg inp w
  rcases F.mem e he with ⟨c, hc, rfl, hh⟩ | ⟨I, _, m, hm, rfl, hh⟩ | ⟨a, ha, rfl, hne, hnb⟩ | ⟨a, cred, _, rfl, _⟩ |
      ⟨a, cred, ha, rfl, hnb, _, _⟩
  · left
    rcases checkHOL_spec hh with h | h
    · rcases mem_prmCandidates hc with ⟨rfl, hne⟩ | rfl | rfl
      · exact absurd h hne
      · exact absurd h (derive_ne_empty _ _)
      · exact absurd h (derive_ne_empty _ _)
    · exact h
  · left
    obtain ⟨d, rfl⟩ := mem_asmCandidates hm
    rcases checkHOL_spec hh with h | h
    · exact absurd h (derive_ne_empty _ _)
    · exact h
  · left
    obtain ⟨I, _, hj⟩ := F.asm a ha
    rcases hj with ⟨m, _, i, _, _, _, _, _, h4, h5⟩ | ⟨rfl, h⟩
    · rcases h4 a.registrationEndpoint (by simp) with h | h
      · exact absurd h hne
      · exact h
    · exact fallback_endpoint_hol h hnb
  · simp [Event.isRequest] at hr
  · obtain ⟨I, _, hj⟩ := F.asm a ha
    rcases hj with ⟨m, _, i, _, _, _, _, _, h4, h5⟩ | ⟨rfl, h⟩
    · rcases h4 a.tokenEndpoint (by simp) with h | h
      · right; exact ⟨cred, by rw [h]⟩
      · left; exact h
    · left; exact fallback_endpoint_hol h hnb

/-- The exclusion made explicit: in a world that never serves authorization-server metadata without
a token endpoint, EVERY request goes to an https or loopback URL. -/
theorem requests_https_or_loopback_of_token_endpoints (cfg : Config) (inp : Input) (w : World)
    (hw : ∀ i m d, w.asm i m = .doc d → d.tokenEndpoint ≠ .empty)
    (e : Event) (he : e ∈ (authorize cfg inp w).log) (hr : e.isRequest = true) : e.url.httpsOrLoopback = true := by
  rcases requests_https_or_loopback_partial cfg inp w e he hr with h | ⟨c, rfl⟩
  · exact h
  · exfalso
    have F := authorize_facts cfg inp w
    rcases F.mem _ he with ⟨_, _, h, _⟩ | ⟨_, _, _, _, h, _⟩ | ⟨_, _, h, _⟩ | ⟨_, _, _, h, _⟩ | ⟨a, cred, ha, h, _⟩
    · cases h
    · cases h
    · cases h
    · cases h
    · obtain ⟨I, _, hj⟩ := F.asm a ha
      have ht : a.tokenEndpoint = .empty := by injection h with h1 _; exact h1.symm
      rcases hj with ⟨m, _, i, hd, _⟩ | ⟨rfl, _⟩
      · exact hw i m a hd ht
      · exact absurd ht (derive_ne_empty _ _)

/-- The FULL statement, for a tree in which `validateAuthServerMetaURLs` refuses metadata without a
token endpoint (regenerated flag `tokenEndpointRequired`; it is `false` in the pinned tree, where
this theorem is vacuous and the finding stands; it becomes the unconditional theorem once the
candidate fix `proposed_findings/C15-empty-token-endpoint.candidate-fix.patch` is applied). -/
theorem requests_https_or_loopback_if_endpoint_required (hreq : Generated.OAuth.tokenEndpointRequired = true)
    (cfg : Config) (inp : Input) (w : World) (e : Event)
    (he : e ∈ (authorize cfg inp w).log) (hr : e.isRequest = true) : e.url.httpsOrLoopback = true := by
  rcases requests_https_or_loopback_partial cfg inp w e he hr with h | ⟨c, rfl⟩
  · exact h
  · exfalso
    have F := authorize_facts cfg inp w
    rcases F.mem _ he with ⟨_, _, h, _⟩ | ⟨_, _, _, _, h, _⟩ | ⟨_, _, h, _⟩ | ⟨_, _, _, h, _⟩ | ⟨a, cred, ha, h, _⟩
    · cases h
    · cases h
    · cases h
    · cases h
    · obtain ⟨I, _, hj⟩ := F.asm a ha
      have ht : a.tokenEndpoint = .empty := by injection h with h1 _; exact h1.symm
      rcases hj with ⟨m, _, i, _, _, _, _, _, _, h5⟩ | ⟨rfl, _⟩
      · exact h5 hreq ht
      · exact absurd ht (derive_ne_empty _ _)

/-- **prm_used_only_if_resource_matches**: the authorization server the flow continues with (and the
`resource` parameter it sends) is the 2025-03-26 fall-back or comes from a protected-resource
document that was fetched from a candidate location, names exactly the resource that location
stands for, and lists only safe authorization servers; every authorization-server metadata request
is derived from that server, and the `resource` handed to the fetcher is that resource.  A document
failing the check therefore contributes nothing to any later request. -/
theorem prm_used_only_if_resource_matches (cfg : Config) (inp : Input) (w : World) :
    (∀ I, (authorize cfg inp w).issuer = some I →
        PrmJustifies cfg inp w (authorize cfg inp w).log I (authorize cfg inp w).resource) ∧
    (∀ m, Event.get .asm m ∈ (authorize cfg inp w).log →
        ∃ I, (authorize cfg inp w).issuer = some I ∧ m ∈ asmCandidates I) ∧
    (∀ u c r, Event.fetch u c r ∈ (authorize cfg inp w).log →
        r = (authorize cfg inp w).resource ∧ ∃ I, (authorize cfg inp w).issuer = some I) := by
  have F := authorize_facts cfg inp w
  refine ⟨F.issuer, ?_, ?_⟩
  · intro m hm
    rcases F.mem _ hm with ⟨_, _, h, _⟩ | ⟨I, hI, m', hm', h, _⟩ | ⟨_, _, h, _⟩ | ⟨_, _, _, h, _⟩ | ⟨_, _, _, h, _⟩
    · cases h
    · injection h with _ h2; subst h2; exact ⟨I, hI, hm'⟩
    · cases h
    · cases h
    · cases h
  · intro u c r hm
    rcases F.mem _ hm with ⟨_, _, h, _⟩ | ⟨_, _, _, _, h, _⟩ | ⟨_, _, h, _⟩ | ⟨a, cred, ha, h, _⟩ | ⟨_, _, _, h, _⟩
    · cases h
    · cases h
    · cases h
    · injection h with _ _ h3
      obtain ⟨I, hI, _⟩ := F.asm a ha
      exact ⟨h3, I, hI⟩
    · cases h

/-- **asm_used_only_if_issuer_matches_and_pkce**: the metadata in use is a document fetched from a
candidate location of the trusted issuer whose `issuer` equals it up to one trailing slash, that
advertises PKCE and whose URL fields are neither script-capable nor (for the endpoints the client
contacts) off https/loopback — or the fall-back after every location answered 4xx; and the
registration request, the authorization URL and the token request use exactly its endpoints. -/
theorem asm_used_only_if_issuer_matches_and_pkce (cfg : Config) (inp : Input) (w : World) :
    (∀ a, (authorize cfg inp w).asm = some a →
        ∃ I, (authorize cfg inp w).issuer = some I ∧ AsmJustifies w (authorize cfg inp w).log I a) ∧
    (∀ u, Event.register u ∈ (authorize cfg inp w).log →
        ∃ a, (authorize cfg inp w).asm = some a ∧ u = a.registrationEndpoint) ∧
    (∀ u c r, Event.fetch u c r ∈ (authorize cfg inp w).log →
        ∃ a, (authorize cfg inp w).asm = some a ∧ u = a.authorizationEndpoint) ∧
    (∀ u c, Event.token u c ∈ (authorize cfg inp w).log →
        ∃ a, (authorize cfg inp w).asm = some a ∧ u = a.tokenEndpoint) := by
  have F := authorize_facts cfg inp w
  refine ⟨F.asm, ?_, ?_, ?_⟩
  · intro u hm
    rcases F.mem _ hm with ⟨_, _, h, _⟩ | ⟨_, _, _, _, h, _⟩ | ⟨a, ha, h, _⟩ | ⟨_, _, _, h, _⟩ | ⟨_, _, _, h, _⟩
    · cases h
    · cases h
    · injection h with h1; exact ⟨a, ha, h1⟩
    · cases h
    · cases h
  · intro u c r hm
    rcases F.mem _ hm with ⟨_, _, h, _⟩ | ⟨_, _, _, _, h, _⟩ | ⟨_, _, h, _⟩ | ⟨a, cred, ha, h, _⟩ | ⟨_, _, _, h, _⟩
    · cases h
    · cases h
    · cases h
    · injection h with h1 _ _; exact ⟨a, ha, h1⟩
    · cases h
  · intro u c hm
    rcases F.mem _ hm with ⟨_, _, h, _⟩ | ⟨_, _, _, _, h, _⟩ | ⟨_, _, h, _⟩ | ⟨_, _, _, h, _⟩ | ⟨a, cred, ha, h, _⟩
    · cases h
    · cases h
    · cases h
    · cases h
    · injection h with h1 _; exact ⟨a, ha, h1⟩

/-- **no_script_scheme_used**: a URL with a javascript/data/vbscript scheme is requested, or placed
in the authorization URL, only if the MCP server URL itself (the user's own input) has such a scheme,
or it is the `resource_metadata` URL of the challenge being fetched (a GET through the injected
client; `checkHTTPSOrLoopback` admits any scheme on a loopback host). In particular no URL FIELD of a
metadata document with a script-capable scheme is ever used. -/
theorem no_script_scheme_used (cfg : Config) (inp : Input) (w : World) (e : Event)
    (he : e ∈ (authorize cfg inp w).log) (hs : e.url.isScript = true) :
    cfg.serverUrl.isScript = true ∨ e = .get .prm (rmFrom inp.challenges) := by
  have F := authorize_facts cfg inp w
  have endpoint : ∀ a, (authorize cfg inp w).asm = some a → ∀ x,
      (x ∈ [a.authorizationEndpoint, a.tokenEndpoint, a.registrationEndpoint]) → x.isScript = true →
      cfg.serverUrl.isScript = true := by
    intro a ha x hx hxs
    obtain ⟨I, hI, hj⟩ := F.asm a ha
    rcases hj with ⟨m, _, i, _, _, _, _, h3, _⟩ | ⟨rfl, _⟩
    · have hx' : x ∈ [a.authorizationEndpoint, a.tokenEndpoint, a.registrationEndpoint, a.introspectionEndpoint] ++ a.otherUrls := by
        simp only [List.mem_cons, List.not_mem_nil, or_false] at hx
        rcases hx with rfl | rfl | rfl <;> simp
      rw [(h3 x hx').1] at hxs; simp at hxs
    · have hIs : I.isScript = true := by
        simp only [fallbackAsm, List.mem_cons, List.not_mem_nil, or_false] at hx
        rcases hx with rfl | rfl | rfl <;> simpa using hxs
      exact issuer_script (F.issuer I hI) hIs
  rcases F.mem e he with ⟨c, hc, rfl, _⟩ | ⟨I, hI, m, hm, rfl, _⟩ | ⟨a, ha, rfl, _⟩ | ⟨a, cred, ha, rfl, _⟩ |
      ⟨a, cred, ha, rfl, _⟩
  · rcases mem_prmCandidates hc with ⟨rfl, _⟩ | rfl | rfl
    · exact Or.inr rfl
    · left; simpa [Event.url] using hs
    · left; simpa [Event.url] using hs
  · left
    obtain ⟨d, rfl⟩ := mem_asmCandidates hm
    exact issuer_script (F.issuer I hI) (by simpa [Event.url] using hs)
  · exact Or.inl (endpoint a ha _ (by simp [Event.url]) hs)
  · exact Or.inl (endpoint a ha _ (by simp [Event.url]) hs)
  · exact Or.inl (endpoint a ha _ (by simp [Event.url]) hs)

/-- **exchange_requires_state_and_iss**: a token request appears in the log only if the fetcher
returned the generated state and the RFC 9207 check passes against the issuer of the metadata in use
(`iss` absent ⇒ the server did not advertise it; present ⇒ advertised and equal). -/
theorem exchange_requires_state_and_iss (cfg : Config) (inp : Input) (w : World) (u : Url) (c : Cred)
    (h : Event.token u c ∈ (authorize cfg inp w).log) :
    ∃ a, (authorize cfg inp w).asm = some a ∧ u = a.tokenEndpoint ∧
      ∃ iss, w.fetch a.authorizationEndpoint = .result true iss ∧ issCheck iss a.issuer a.issParamSupported = true := by
  have F := authorize_facts cfg inp w
  rcases F.mem _ h with ⟨_, _, h, _⟩ | ⟨_, _, _, _, h, _⟩ | ⟨_, _, h, _⟩ | ⟨_, _, _, h, _⟩ | ⟨a, cred, ha, h, _, _, hx⟩
  · cases h
  · cases h
  · cases h
  · cases h
  · injection h with h1 _; exact ⟨a, ha, h1, hx⟩

/-- **preregistered_issuer_binding**: pre-registered credentials appear in the authorization URL or in
a token request only if they are configured and either not bound to an issuer or bound to the issuer
of the metadata in use, up to one trailing slash. -/
theorem preregistered_issuer_binding (cfg : Config) (inp : Input) (w : World) (e : Event)
    (he : e ∈ (authorize cfg inp w).log) (hp : e.cred = .pre) :
    ∃ a pi, (authorize cfg inp w).asm = some a ∧ cfg.pre = some pi ∧ (pi = .empty ∨ issuersEqual pi a.issuer = true) := by
  have F := authorize_facts cfg inp w
  rcases F.mem e he with ⟨_, _, rfl, _⟩ | ⟨_, _, _, _, rfl, _⟩ | ⟨_, _, rfl, _⟩ | ⟨a, cred, ha, rfl, hc⟩ |
      ⟨a, cred, ha, rfl, _, hc, _⟩
  · simp [Event.cred] at hp
  · simp [Event.cred] at hp
  · simp [Event.cred] at hp
  · obtain ⟨pi, h1, h2⟩ := hc (by simpa [Event.cred] using hp)
    exact ⟨a, pi, ha, h1, h2⟩
  · obtain ⟨pi, h1, h2⟩ := hc (by simpa [Event.cred] using hp)
    exact ⟨a, pi, ha, h1, h2⟩

/-- **failed_check_installs_nothing**: a token source is installed only when `Authorize` got through
EVERY check — justified metadata, matching state, RFC 9207 — and a token round trip succeeded; the
only error returned after an installation is the post-installation token read of
`updateGrantedScopes` (outcome `post`: the token is already expired and has no refresh token), which
is not a check.  Contrapositive: any other error ⇒ token source unchanged. -/
theorem failed_check_installs_nothing (cfg : Config) (inp : Input) (w : World) :
    ((authorize cfg inp w).installed = true →
      ((authorize cfg inp w).outcome = .ok ∨ (authorize cfg inp w).outcome = .post) ∧
      ∃ a I, (authorize cfg inp w).asm = some a ∧ (authorize cfg inp w).issuer = some I ∧
        PrmJustifies cfg inp w (authorize cfg inp w).log I (authorize cfg inp w).resource ∧
        AsmJustifies w (authorize cfg inp w).log I a ∧ ExchangeOk w a ∧
        ∃ cred i, Event.token a.tokenEndpoint cred ∈ (authorize cfg inp w).log ∧ w.tok i a.tokenEndpoint ≠ .fail) ∧
    (((authorize cfg inp w).outcome ≠ .ok ∧ (authorize cfg inp w).outcome ≠ .post) →
      (authorize cfg inp w).installed = false) := by
  have F := authorize_facts cfg inp w
  constructor
  · intro hi
    obtain ⟨ho, a, ha, hx, cred, i, ht⟩ := F.inst hi
    obtain ⟨I, hI, hj⟩ := F.asm a ha
    exact ⟨ho, a, I, ha, hI, F.issuer I hI, hj, hx, cred, i, ht⟩
  · intro ⟨h1, h2⟩
    cases hi : (authorize cfg inp w).installed
    · rfl
    · rcases (F.inst hi).1 with h | h
      · exact absurd h h1
      · exact absurd h h2

/-! ### Credentials are resolved in the call that uses them -/

/-- **credentials_resolved_in_this_call**: credentials of the dynamic-registration mode appear in the
authorization URL or a token request only if that mode is configured and the registration request
to the registration endpoint of the metadata in use is in the log of THIS call, answered with a
client id; a client-id-metadata-document URL only if configured and the metadata in use advertises
support.  (With `preregistered_issuer_binding`: every credential presented is resolved against the
metadata in use in the same call.) -/
theorem credentials_resolved_in_this_call (cfg : Config) (inp : Input) (w : World) (e : Event)
    (he : e ∈ (authorize cfg inp w).log) :
    (e.cred = .dcr → cfg.dcr = true ∧ ∃ a urls, (authorize cfg inp w).asm = some a ∧
        Event.register a.registrationEndpoint ∈ (authorize cfg inp w).log ∧
        w.reg a.registrationEndpoint = .created true urls) ∧
    (e.cred = .cimd → cfg.cimd = true ∧ ∃ a, (authorize cfg inp w).asm = some a ∧ a.cimdSupported = true) := by
  have hc := authorize_cases cfg inp w
  simp only [] at hc
  generalize hp : discoverPrm w 0 (prmCandidates (rmFrom inp.challenges) cfg.serverUrl) = p at hc
  have hpl : ∀ e ∈ p.2, e.cred = .none := by
    intro e he; rw [← hp] at he
    obtain ⟨c, _, rfl, _⟩ := discoverPrm_log he; rfl
  generalize hI : p.1.issuer cfg.serverUrl = I at hc
  generalize hres : p.1.resource cfg.serverUrl = res at hc
  generalize hq : discoverAsm w I 0 (asmCandidates I) = q at hc
  have hql : ∀ e ∈ q.2, e.cred = .none := by
    intro e he; rw [← hq] at he
    obtain ⟨m, _, rfl, _⟩ := discoverAsm_log he; rfl
  generalize ha : effAsm q.1 I = a at hc
  have hrl : ∀ e ∈ (register cfg w a).2, e.cred = .none := by
    intro e he
    obtain ⟨rfl, _⟩ := register_log he; rfl
  have none_dcr : ∀ e : Event, e.cred = .none → (e.cred = .dcr → False) ∧ (e.cred = .cimd → False) := by
    intro e h; rw [h]; simp
  rcases hc with h | h | ⟨_, h⟩ | ⟨hp1, o, _, h⟩ | ⟨hp1, hq1, o, _, h⟩ | ⟨hp1, hq1, cred, probe, hr1, h⟩
  · rw [h] at he; simp at he
  · rw [h] at he; simp at he
  · rw [h] at he
    obtain ⟨h1, h2⟩ := none_dcr e (hpl e he)
    exact ⟨fun x => (h1 x).elim, fun x => (h2 x).elim⟩
  · rw [h] at he
    simp only [List.mem_append] at he
    have hn : e.cred = .none := by
      rcases he with he | he
      · exact hpl e he
      · exact hql e he
    obtain ⟨h1, h2⟩ := none_dcr e hn
    exact ⟨fun x => (h1 x).elim, fun x => (h2 x).elim⟩
  · rw [h] at he
    simp only [List.mem_append] at he
    have hn : e.cred = .none := by
      rcases he with (he | he) | he
      · exact hpl e he
      · exact hql e he
      · exact hrl e he
    obtain ⟨h1, h2⟩ := none_dcr e hn
    exact ⟨fun x => (h1 x).elim, fun x => (h2 x).elim⟩
  · obtain ⟨f1, f2, f3, f4⟩ := finish_cases w a I res cred probe (p.2 ++ q.2 ++ (register cfg w a).2 ++ [.fetch a.authorizationEndpoint cred res])
    have hmode := register_mode hr1
    have hsub : ∀ x ∈ (register cfg w a).2, x ∈ (authorize cfg inp w).log := by
      intro x hx
      rw [h]
      rcases f4 with ⟨hl, _⟩ | ⟨_, hl, _⟩ <;> rw [hl] <;> simp [hx]
    have hcred : e.cred = .none ∨ e.cred = cred := by
      rw [h] at he
      have hpre : ∀ x ∈ p.2 ++ q.2 ++ (register cfg w a).2 ++ [Event.fetch a.authorizationEndpoint cred res],
          x.cred = .none ∨ x.cred = cred := by
        intro x hx
        simp only [List.mem_append, List.mem_singleton] at hx
        rcases hx with ((hx | hx) | hx) | hx
        · exact Or.inl (hpl x hx)
        · exact Or.inl (hql x hx)
        · exact Or.inl (hrl x hx)
        · right; rw [hx]; rfl
      rcases f4 with ⟨hl, _⟩ | ⟨_, hl, _⟩
      · rw [hl] at he; exact hpre e he
      · rw [hl, List.mem_append] at he
        rcases he with he | he
        · exact hpre e he
        · right; rw [(exchange_log he).1]; rfl
    have hasm : (authorize cfg inp w).asm = some a := by rw [h]; exact f3
    constructor
    · intro hd
      rcases hcred with hn | hn
      · rw [hn] at hd; cases hd
      · rw [hn] at hd; subst hd
        obtain ⟨hreg, hdcr, urls, hw⟩ := register_dcr hr1
        exact ⟨hdcr, a, urls, hasm, hsub _ hreg, hw⟩
    · intro hd
      rcases hcred with hn | hn
      · rw [hn] at hd; cases hd
      · rw [hn] at hd
        obtain ⟨h1, h2⟩ := hmode.1 hd
        exact ⟨h1, a, hasm, h2⟩

/-! ### Histories: many `Authorize` calls on one handler -/

theorem finish_installed_nts (w : World) (a : AsmDoc) (I res : Url) (cred : Cred) (probe : Bool) (pre : List Event)
    (h : (finish w a I res cred probe pre).installed = true) : w.ntsFails = false := by
  unfold finish at h
  cases hn : w.ntsFails with
  | false => rfl
  | true =>
    exfalso
    revert h
    simp only [hn]
    repeat' split
    all_goals simp_all

/-- **token_source_constructor_error_installs_nothing**: when the configured `NewTokenSource` returns an
error — AFTER every check passed and the code was exchanged — `Authorize` fails and `TokenSource()` is
what it was (the token obtained is dropped, not half-installed). -/
theorem token_source_constructor_error_installs_nothing (cfg : Config) (inp : Input) (w : World)
    (hn : w.ntsFails = true) :
    (authorize cfg inp w).installed = false := by
  cases hh : (authorize cfg inp w).installed with
  | false => rfl
  | true =>
    exfalso
    rcases authorize_cases cfg inp w with h | h | ⟨_, h⟩ | ⟨_, _, _, h⟩ | ⟨_, _, _, _, h⟩ | ⟨_, _, _, _, _, h⟩
    · rw [h] at hh; cases hh
    · rw [h] at hh; cases hh
    · rw [h] at hh; cases hh
    · rw [h] at hh; cases hh
    · rw [h] at hh; cases hh
    · rw [h] at hh
      have := finish_installed_nts _ _ _ _ _ _ _ hh
      rw [hn] at this; cases this

/-- The result of one round on a handler, as a function of the handler's FIXED configuration and the round alone. -/
def roundResult (c : HConfig) (r : Round) : Result := authorize (c.at r.serverUrl) r.inp r.world

theorem Handler.authorize_cfg (h : Handler) (r : Round) : (h.authorize r).1.cfg = h.cfg := rfl

theorem Handler.run_cfg (h : Handler) (rs : List Round) : (h.run rs).1.cfg = h.cfg := by
  induction rs generalizing h with
  | nil => rfl
  | cons r rs ih => simp only [Handler.run]; rw [ih]; rfl

/-- **history_rounds_independent**: over ANY history of `Authorize` calls on one handler, the result of
every round is `authorize` applied to the handler's fixed configuration and THAT round's request,
response and network — nothing resolved in an earlier round (authorization server, metadata, client
registration, fetcher answer) is reused; the configuration never changes and the round counter counts. -/
theorem history_rounds_independent (h : Handler) (rs : List Round) :
    (h.run rs).2 = rs.map (roundResult h.cfg) ∧ (h.run rs).1.cfg = h.cfg ∧
    (h.run rs).1.rounds = h.rounds + rs.length := by
  induction rs generalizing h with
  | nil => exact ⟨rfl, rfl, rfl⟩
  | cons r rs ih =>
    obtain ⟨h1, h2, h3⟩ := ih (h.authorize r).1
    simp only [Handler.run, List.map_cons, List.length_cons]
    refine ⟨?_, ?_, ?_⟩
    · rw [h1]; rfl
    · rw [h2]; rfl
    · rw [h3]; simp only [Handler.authorize]; omega

/-- Index form: the `i`-th result belongs to the `i`-th round. -/
theorem history_round_result (h : Handler) (rs : List Round) (i : Nat) (R : Result)
    (hR : (h.run rs).2[i]? = some R) : ∃ r, rs[i]? = some r ∧ R = roundResult h.cfg r := by
  rw [(history_rounds_independent h rs).1, List.getElem?_map] at hR
  cases hr : rs[i]? with
  | none => simp [hr] at hR
  | some r => simp [hr] at hR; exact ⟨r, rfl, hR.symm⟩

/-- **history_preregistered_issuer_binding**: in EVERY round of ANY history — whatever earlier rounds did,
e.g. a completed authorization against the issuer the credentials are bound to, followed by a round
in which the protected-resource metadata names another (perfectly valid) authorization server —
pre-registered credentials appear in the authorization URL or a token request only if they are
unbound or bound to the issuer of the metadata in use IN THAT ROUND. -/
theorem history_preregistered_issuer_binding (h : Handler) (rs : List Round) (R : Result)
    (hR : R ∈ (h.run rs).2) (e : Event) (he : e ∈ R.log) (hp : e.cred = .pre) :
    ∃ a pi, R.asm = some a ∧ h.cfg.pre = some pi ∧ (pi = .empty ∨ issuersEqual pi a.issuer = true) := by
  rw [(history_rounds_independent h rs).1, List.mem_map] at hR
  obtain ⟨r, _, rfl⟩ := hR
  exact preregistered_issuer_binding (h.cfg.at r.serverUrl) r.inp r.world e he hp

/-- **history_registered_credentials_bound_to_round**: dynamically registered credentials presented in
round `i` were issued in round `i`: the registration request to the registration endpoint of the
metadata in use in that round is in that round's log and that round's network answered it with a
client id.  Credentials obtained from one authorization server are never presented to another. -/
theorem history_registered_credentials_bound_to_round (h : Handler) (rs : List Round) (i : Nat) (R : Result)
    (hR : (h.run rs).2[i]? = some R) (e : Event) (he : e ∈ R.log) (hd : e.cred = .dcr) :
    h.cfg.dcr = true ∧ ∃ r a urls, rs[i]? = some r ∧ R.asm = some a ∧
      Event.register a.registrationEndpoint ∈ R.log ∧ r.world.reg a.registrationEndpoint = .created true urls := by
  obtain ⟨r, hr, rfl⟩ := history_round_result h rs i R hR
  obtain ⟨h1, a, urls, h2, h3, h4⟩ := (credentials_resolved_in_this_call (h.cfg.at r.serverUrl) r.inp r.world e he).1 hd
  exact ⟨h1, r, a, urls, hr, h2, h3, h4⟩

/-- A round that ends with an error of any check leaves `TokenSource()` as it was. -/
theorem failed_round_keeps_token_source (h : Handler) (r : Round)
    (hf : (h.authorize r).2.outcome ≠ .ok ∧ (h.authorize r).2.outcome ≠ .post) :
    (h.authorize r).1.served = h.served := by
  have := (failed_check_installs_nothing (h.cfg.at r.serverUrl) r.inp r.world).2 hf
  simp only [Handler.authorize] at this ⊢
  rw [this]; rfl

/-- **history_served_token_passed_every_check**: after ANY history the handler serves the token source it
started with, or the one installed by a round `k` of the history whose own run installed it (and
therefore — `failed_check_installs_nothing` — passed every check against the network of round `k`). -/
theorem history_served_token_passed_every_check (h : Handler) (rs : List Round) :
    (h.run rs).1.served = h.served ∨
    ∃ k r, (h.run rs).1.served = .round (h.rounds + k) ∧ rs[k]? = some r ∧
      (roundResult h.cfg r).installed = true := by
  induction rs generalizing h with
  | nil => exact Or.inl rfl
  | cons r rs ih =>
    simp only [Handler.run]
    rcases ih (h.authorize r).1 with h1 | ⟨k, r', h1, h2, h3⟩
    · rw [h1]
      cases hi : (roundResult h.cfg r).installed with
      | false => left; simp only [Handler.authorize]; simp only [roundResult] at hi; rw [hi]; rfl
      | true =>
        right
        refine ⟨0, r, ?_, by simp, hi⟩
        simp only [Handler.authorize]; simp only [roundResult] at hi; rw [hi]; rfl
    · right
      refine ⟨k + 1, r', ?_, by simpa using h2, h3⟩
      rw [h1]; simp only [Handler.authorize]; congr 1; omega

/-- The served token, spelled out: it comes from a round with justified metadata, matching state,
passing RFC 9207 check and a successful token round trip — all with respect to THAT round's network. -/
theorem history_served_token_justified (h : Handler) (rs : List Round) (n : Nat)
    (hs : (h.run rs).1.served = .round n) (hne : h.served ≠ .round n) :
    ∃ k r, n = h.rounds + k ∧ rs[k]? = some r ∧
      ((roundResult h.cfg r).outcome = .ok ∨ (roundResult h.cfg r).outcome = .post) ∧
      ∃ a I, (roundResult h.cfg r).asm = some a ∧ (roundResult h.cfg r).issuer = some I ∧
        PrmJustifies (h.cfg.at r.serverUrl) r.inp r.world (roundResult h.cfg r).log I (roundResult h.cfg r).resource ∧
        AsmJustifies r.world (roundResult h.cfg r).log I a ∧ ExchangeOk r.world a ∧
        ∃ cred i, Event.token a.tokenEndpoint cred ∈ (roundResult h.cfg r).log ∧ r.world.tok i a.tokenEndpoint ≠ .fail := by
  rcases history_served_token_passed_every_check h rs with h1 | ⟨k, r, h1, h2, h3⟩
  · rw [h1] at hs; exact absurd hs hne
  · rw [h1] at hs
    injection hs with hs
    obtain ⟨ho, rest⟩ := (failed_check_installs_nothing (h.cfg.at r.serverUrl) r.inp r.world).1 h3
    exact ⟨k, r, hs.symm, h2, ho, rest⟩

/-! ### Non-vacuity and the counter-example -/

section Witness
def wHttps (host seg : Nat) : Url := .at ⟨"https", false, host⟩ seg 0 []
def wServer : Url := wHttps 1 1
def wAS : Url := wHttps 2 0
def wDoc : AsmDoc :=
  { issuer := wAS, authorizationEndpoint := wHttps 2 11, tokenEndpoint := wHttps 2 12, registrationEndpoint := .empty,
    introspectionEndpoint := .empty, pkce := true, issParamSupported := true, methodPost := true }
/-- An honest world: PRM at the path location, metadata at the first location, good token. -/
def wWorld (doc : AsmDoc) : World :=
  { prm := fun _ u => if u = wServer.derive .prmPath then .doc { resource := wServer, authServers := [wAS] } else .status4xx
    asm := fun _ u => if u = wAS.derive .asOAuth then .doc doc else .status4xx
    reg := fun _ => .fail
    tok := fun _ _ => .good
    fetch := fun _ => .result true wAS }
def wCfg : Config := { cimd := false, pre := some wAS, dcr := false, serverUrl := wServer }
def wInp : Input := { status403 := false, headerMalformed := false, challenges := [{ bearer := true }] }

/-- The honest world ends with a token installed after 4 events (2 GETs, the fetcher, 1 token POST),
pre-registered credentials in use: the premises of the theorems above are satisfiable. -/
example : (authorize wCfg wInp (wWorld wDoc)).installed = true ∧ (authorize wCfg wInp (wWorld wDoc)).outcome = .ok ∧
    (authorize wCfg wInp (wWorld wDoc)).log =
      [.get .prm (wServer.derive .prmPath), .get .asm (wAS.derive .asOAuth),
       .fetch (wHttps 2 11) .pre wServer, .token (wHttps 2 12) .pre] := by decide

/-- Forged state: no token request, nothing installed. -/
example : (authorize wCfg wInp { wWorld wDoc with fetch := fun _ => .result false wAS }).outcome = .state ∧
    (authorize wCfg wInp { wWorld wDoc with fetch := fun _ => .result false wAS }).installed = false := by decide

/-- Attacker's `iss`: rejected before the exchange. -/
example : (authorize wCfg wInp { wWorld wDoc with fetch := fun _ => .result true (wHttps 3 0) }).outcome = .issMismatch := by
  decide

/-- COUNTER-EXAMPLE to the full statement of `requests_https_or_loopback`: metadata without a
`token_endpoint` is accepted and the code exchange goes to the EMPTY URL (which is neither https nor
loopback). The replay of this world on the real code is the known finding
`C15-empty-token-endpoint`. -/
theorem empty_token_endpoint_is_requested (h : Generated.OAuth.tokenEndpointRequired = false) :
    ∃ cfg inp w e, e ∈ (authorize cfg inp w).log ∧ e.isRequest = true ∧ e.url.httpsOrLoopback = false :=
  ⟨wCfg, wInp, wWorld { wDoc with tokenEndpoint := .empty }, .token .empty .pre,
    (by decide : Generated.OAuth.tokenEndpointRequired = false →
      Event.token .empty .pre ∈ (authorize wCfg wInp (wWorld { wDoc with tokenEndpoint := .empty })).log) h,
    by decide, by decide⟩
/-- BOUNDARY of `no_script_scheme_used`: the `resource_metadata` URL of the CHALLENGE is only checked
with `checkHTTPSOrLoopback`, which admits any scheme on a loopback host — `javascript://localhost/…`
is fetched through the injected client (a GET; nothing is shown to a browser). The literal reading
"no script-scheme URL is ever requested" is therefore false of the code; the property as written
(no URL FIELD OF A METADATA DOCUMENT with such a scheme is used) is what the theorem proves.
Replayed on the real code by corpus/oauth/02-…ops. -/
theorem script_challenge_url_is_fetched :
    ∃ cfg inp w e, e ∈ (authorize cfg inp w).log ∧ e.isRequest = true ∧ e.url.isScript = true ∧
      cfg.serverUrl.isScript = false :=
  ⟨wCfg, { wInp with challenges := [{ bearer := true, resourceMetadata := .at ⟨"javascript", true, 0⟩ 9 0 [] }] },
   wWorld wDoc, .get .prm (.at ⟨"javascript", true, 0⟩ 9 0 []), by decide, by decide, by decide, by decide⟩

/-- BOUNDARY of `failed_check_installs_nothing`: an already-expired token without refresh token is
installed and `Authorize` then returns the error of the post-installation token read (`post`). -/
theorem expired_token_installed_then_error :
    ∃ cfg inp w, (authorize cfg inp w).installed = true ∧ (authorize cfg inp w).outcome = .post :=
  ⟨wCfg, wInp, { wWorld wDoc with tok := fun _ _ => .goodExpired }, by decide, by decide⟩
/-- A second authorization server with perfectly valid metadata of its own. -/
def wAS2 : Url := wHttps 4 0
def wDoc2 : AsmDoc :=
  { issuer := wAS2, authorizationEndpoint := wHttps 4 11, tokenEndpoint := wHttps 4 12, registrationEndpoint := .empty,
    introspectionEndpoint := .empty, pkce := true, methodPost := true }
/-- The network after the protected-resource metadata started naming the second server. -/
def wWorld2 : World :=
  { prm := fun _ u => if u = wServer.derive .prmPath then .doc { resource := wServer, authServers := [wAS2] } else .status4xx
    asm := fun _ u => if u = wAS2.derive .asOAuth then .doc wDoc2 else .status4xx
    reg := fun _ => .fail
    tok := fun _ _ => .good
    fetch := fun _ => .result true .empty }
def wHandler : Handler := { cfg := { cimd := false, pre := some wAS, dcr := false } }
def wRound1 : Round := { serverUrl := wServer, inp := wInp, world := wWorld wDoc }
def wRound2 : Round :=
  { serverUrl := wServer, inp := { status403 := true, headerMalformed := false,
                                   challenges := [{ bearer := true, error := .insufficientScope }] }, world := wWorld2 }

/-- The history the binding theorem is about: round 1 completes against the issuer the credentials are
bound to; in round 2 (a 403 step-up) the resource names another, valid server.  Round 2 stops at the
binding check — two metadata GETs, no authorization URL, no token request — and the handler keeps
serving round 1's token. -/
example : ((wHandler.run [wRound1, wRound2]).2.map (·.outcome)) = [.ok, .preIss] ∧
    ((wHandler.run [wRound1, wRound2]).2.map (·.log.length)) = [4, 2] ∧
    (wHandler.run [wRound1, wRound2]).1.served = .round 0 := by decide

/-- …and an unbound pre-registration goes through in both rounds (the premise `e.cred = .pre` of the
history theorem is satisfiable in a later round, and `served` moves on). -/
example : ((({ wHandler with cfg := { cimd := false, pre := some .empty, dcr := false } } : Handler).run
      [wRound1, wRound2]).2.map (·.outcome)) = [.ok, .ok] ∧
    (({ wHandler with cfg := { cimd := false, pre := some .empty, dcr := false } } : Handler).run
      [wRound1, wRound2]).1.served = .round 1 := by decide
end Witness

end OAuth
