import McpModel.Generated.OAuthGen
/-!
E11 — model of the OAuth client flow `AuthorizationCodeHandler.Authorize`
(auth/authorization_code.go:278-700, auth/shared.go, oauthex/{oauth2,resource_meta,auth_meta,dcr}.go,
internal/authutil/util.go).  Serves C15.

`authorize` is a SEQUENTIAL function over a scripted *world*: the world answers every HTTP request
(by step number and URL) and plays the authorization-code fetcher; the function returns the ordered
log of what was requested / handed to the fetcher, the outcome, and whether a token source was
installed.  URLs are structured values: parsing (`net/url`) and `util.IsLoopback` are the harness's
job — a URL value carries its scheme string (as `url.Parse` reports it, lower-case), whether its
host is a loopback address, an opaque host name, an opaque path segment, the number of trailing
slashes and the string operations (`Wk`) applied to it by the code.  Equality of URL values is
equality of the strings they stand for (the harness renders them injectively).

`Handler.run` (end of the file) is the handler across MANY `Authorize` calls: a list of rounds, each
with its own request URL, 401/403 response and world; the handler carries only its fixed
configuration and the token source installed last.

The predicates the code decides with (`scriptSchemes`, `holReject`, `validateIssuerResponse`) are
REGENERATED from /repo (Generated/OAuthGen.lean); the specification predicates
(`Url.httpsOrLoopback`, `Url.isScript`, `issCheck`) are written by hand here. Props.lean proves the
flow properties about the specification predicates, so a changed Go predicate re-opens the proofs.
Core Lean only (linked into the driver).
-/
namespace OAuth
open Generated.OAuth

/-- String operations the code applies to a URL to obtain the next URL it contacts. -/
inductive Wk
  | prmPath      -- "/.well-known/oauth-protected-resource/" + TrimLeft(path)
  | prmRoot      -- "/.well-known/oauth-protected-resource"
  | asOAuth      -- "/.well-known/oauth-authorization-server"           (issuer without path)
  | asOIDC       -- "/.well-known/openid-configuration"                 (issuer without path)
  | asOAuthIns   -- "/.well-known/oauth-authorization-server/" + path   (insertion)
  | asOIDCIns    -- "/.well-known/openid-configuration/" + path         (insertion)
  | asOIDCApp    -- "/" + path + "/.well-known/openid-configuration"    (appending)
  | authorize    -- issuer + "/authorize"   (2025-03-26 fall-back)
  | token        -- issuer + "/token"
  | register     -- issuer + "/register"
deriving DecidableEq, Repr

/-- The literals each operation uses, for the tie to the regenerated tables. -/
def Wk.lits : Wk → List String
  | .prmPath => ["/.well-known/oauth-protected-resource/"]
  | .prmRoot => ["/.well-known/oauth-protected-resource"]
  | .asOAuth => ["/.well-known/oauth-authorization-server"]
  | .asOIDC => ["/.well-known/openid-configuration"]
  | .asOAuthIns => ["/.well-known/oauth-authorization-server/"]
  | .asOIDCIns => ["/.well-known/openid-configuration/"]
  | .asOIDCApp => ["/", "/.well-known/openid-configuration"]
  | .authorize => ["/authorize"]
  | .token => ["/token"]
  | .register => ["/register"]

/-- Candidate order of `protectedResourceMetadataURLs` (after the challenge's own URL). -/
def prmWk : List Wk := [.prmPath, .prmRoot]
/-- Candidate order of `authorizationServerMetadataURLs` for an issuer without / with a path. -/
def asWkNoPath : List Wk := [.asOAuth, .asOIDC]
def asWkWithPath : List Wk := [.asOAuthIns, .asOIDCIns, .asOIDCApp]
def fallbackWk : List Wk := [.authorize, .token, .register]

structure Origin where
  scheme : String      -- as reported by url.Parse (lower-case); "" for a scheme-less reference
  loopback : Bool      -- util.IsLoopback(u.Host)
  host : Nat           -- opaque authority
deriving DecidableEq, Repr

inductive Url
  | empty                                                   -- the Go string ""
  | bad (n : Nat)                                           -- url.Parse fails
  | at (o : Origin) (seg : Nat) (slashes : Nat) (ds : List Wk)  -- scheme://host[/p<seg>] + "/"*slashes, then ds
deriving DecidableEq, Repr

namespace Url
/-- Apply one string operation. All of them keep scheme and authority. On "" the result is a
scheme-less, host-less reference. `url.Parse` failures propagate. -/
def derive (u : Url) (d : Wk) : Url :=
  match u with
  | .empty => .at ⟨"", false, 0⟩ 0 0 [d]
  | .bad n => .bad n
  | .at o s k ds => .at o s k (ds ++ [d])

/-- `u.Path = ""; u.String()`. -/
def root : Url → Url
  | .at o _ _ _ => .at o 0 0 []
  | u => u

/-- `baseURL.Path != ""`. -/
def hasPath : Url → Bool
  | .at _ s k ds => s != 0 || k != 0 || !ds.isEmpty
  | _ => false

/-- `strings.TrimSuffix(s, "/")`. -/
def trimSlash : Url → Url
  | .at o s (k + 1) [] => .at o s k []
  | u => u

/-- SPEC: an https URL or a URL whose host is a loopback address. -/
def httpsOrLoopback : Url → Bool
  | .at o _ _ _ => o.loopback || o.scheme == "https"
  | _ => false

/-- SPEC: a script-capable scheme. -/
def isScript : Url → Bool
  | .at o _ _ _ => o.scheme == "javascript" || o.scheme == "data" || o.scheme == "vbscript"
  | _ => false

def scheme : Url → String
  | .at o _ _ _ => o.scheme
  | _ => ""
end Url

/-- `authutil.IssuersEqual`: equal after removing ONE trailing slash from each. -/
def issuersEqual (a b : Url) : Bool := a.trimSlash == b.trimSlash

/-- `oauthex.checkURLScheme` (true = accepted): "" passes, a parse error fails, a scheme on the
regenerated list fails. -/
def checkScheme : Url → Bool
  | .empty => true
  | .bad _ => false
  | .at o _ _ _ => !scriptSchemes.contains o.scheme

/-- `oauthex.checkHTTPSOrLoopback` (true = accepted): "" passes, a parse error fails, otherwise the
regenerated rejecting condition decides. -/
def checkHOL : Url → Bool
  | .empty => true
  | .bad _ => false
  | .at o _ _ _ => !holReject o.loopback o.scheme

/-- SPEC of the RFC 9207 check: `iss` absent ⇒ the server must not have advertised it; present ⇒
the server advertised it and it equals the issuer of the metadata in use. -/
def issCheck (iss issuer : Url) (advertised : Bool) : Bool :=
  if iss = .empty then !advertised else advertised && iss == issuer

/-! ### Documents and the world -/

structure PrmDoc where
  resource : Url
  authServers : List Url
deriving Repr, DecidableEq

structure AsmDoc where
  issuer : Url
  authorizationEndpoint : Url
  tokenEndpoint : Url
  registrationEndpoint : Url
  introspectionEndpoint : Url
  otherUrls : List Url := []     -- jwks_uri, service_documentation, op_policy_uri, op_tos_uri, revocation_endpoint
  pkce : Bool := false           -- code_challenge_methods_supported non-empty
  cimdSupported : Bool := false
  issParamSupported : Bool := false
  methodPost : Bool := false     -- token_endpoint_auth_methods_supported ∋ client_secret_post
  methodBasic : Bool := false    -- … ∋ client_secret_basic
deriving Repr, DecidableEq

/-- What `getJSON` can see. -/
inductive Resp (α : Type)
  | transportErr
  | status4xx          -- 400 … 499
  | statusOther        -- any other status ≠ 200 (redirects are not followed: a 3xx lands here)
  | wrongContentType
  | badJSON
  | doc (d : α)
deriving Repr

/-- What `RegisterClient` can see: a decodable 200/201 document (has a client_id?, its URL fields),
or any failure (transport, other status, 400 error document, undecodable body). -/
inductive RegResp
  | fail
  | created (hasClientId : Bool) (urls : List Url)
deriving Repr

/-- What one token round trip yields: failure (transport, non-2xx, `error` member, no access_token,
undecodable), a usable token, or a token that is already expired and has no refresh token. -/
inductive TokResp
  | fail | good | goodExpired
deriving Repr, DecidableEq

/-- The authorization-code fetcher: an error, or a result whose `state` equals the generated one or
not, with the `iss` parameter (`.empty` = absent). -/
inductive FetchAnswer
  | err
  | result (stateMatches : Bool) (iss : Url)
deriving Repr

/-- A world answers each request by step number (candidate index / attempt number) and URL. -/
structure World where
  prm : Nat → Url → Resp PrmDoc
  asm : Nat → Url → Resp AsmDoc
  reg : Url → RegResp
  tok : Nat → Url → TokResp
  fetch : Url → FetchAnswer      -- by authorization endpoint
  /-- `AuthorizationCodeHandlerConfig.NewTokenSource` is set AND returns an error in this round (a configured
  callback, like the fetcher).  When it is set and succeeds the source it returns is the one installed; the
  harness's constructor wraps `oauth2.Config.TokenSource`, so its expiry behaviour is the default one. -/
  ntsFails : Bool := false

/-! ### Handler configuration and the 401/403 response -/

structure Config where
  cimd : Bool                 -- ClientIDMetadataDocumentConfig set
  pre : Option Url            -- PreregisteredClient set; its Issuer (`.empty` = not bound)
  dcr : Bool                  -- DynamicClientRegistrationConfig set
  serverUrl : Url             -- req.URL
deriving Repr

inductive ChErr | none | insufficientScope | other
deriving DecidableEq, Repr

/-- One parsed challenge, reduced to what `Authorize` reads. -/
structure Challenge where
  bearer : Bool
  resourceMetadata : Url := .empty     -- `.empty` = parameter absent
  error : ChErr := .none
deriving Repr

structure Input where
  status403 : Bool
  headerMalformed : Bool
  challenges : List Challenge
deriving Repr

/-- `resourceMetadataURLFromChallenges`: first non-empty parameter of ANY scheme. -/
def rmFrom : List Challenge → Url
  | [] => .empty
  | c :: cs => if c.resourceMetadata != .empty then c.resourceMetadata else rmFrom cs

/-- `errorFromChallenges`: first non-empty `error` of a Bearer challenge. -/
def errorFrom : List Challenge → ChErr
  | [] => .none
  | c :: cs => if c.bearer && c.error != .none then c.error else errorFrom cs

/-! ### The log -/

inductive Cred | none | cimd | pre | dcr
deriving DecidableEq, Repr

inductive Kind | prm | asm
deriving DecidableEq, Repr

inductive Event
  | get (k : Kind) (url : Url)                          -- GET through the injected client
  | register (url : Url)                                -- POST (dynamic registration)
  | fetch (endpoint : Url) (cred : Cred) (resource : Url)  -- authorization URL handed to the fetcher
  | token (url : Url) (cred : Cred)                     -- POST (code exchange)
deriving DecidableEq, Repr

def Event.url : Event → Url
  | .get _ u => u
  | .register u => u
  | .fetch u _ _ => u
  | .token u _ => u

def Event.isRequest : Event → Bool
  | .fetch _ _ _ => false
  | _ => true

def Event.cred : Event → Cred
  | .fetch _ c _ => c
  | .token _ c => c
  | _ => .none

inductive Outcome
  | ok | skip | hdr | noas
  | asmUrl | asmFetch | asmIssuer | asmPkce | asmField
  | preIss | reg | noReg
  | fetch | state | issMissing | issMismatch | issUnexpected
  | exch | tsErr | post
deriving DecidableEq, Repr

/-! ### Protected-resource metadata discovery -/

/-- `protectedResourceMetadataURLs`: (metadata URL, resource it must name). -/
def prmCandidates (ch u : Url) : List (Url × Url) :=
  (if ch != .empty then [(ch, u)] else []) ++
  prmWk.map fun d => (u.derive d, if d = .prmRoot then u.root else u)

/-- The checks of `GetProtectedResourceMetadata` on a fetched document. -/
def prmDocOk (d : PrmDoc) (resource : Url) : Bool :=
  d.resource == resource && d.authServers.all fun a => checkScheme a && checkHOL a

/-- `oauthex.GetProtectedResourceMetadata`: `none` = error (the caller moves on). -/
def fetchPrm (w : World) (i : Nat) (c : Url × Url) : Option PrmDoc × List Event :=
  if !checkHOL c.1 then (none, [])
  else match w.prm i c.1 with
    | .doc d => (if prmDocOk d c.2 then some d else none, [.get .prm c.1])
    | _ => (none, [.get .prm c.1])

inductive PrmRes
  | noAS                  -- a valid document without authorization servers: hard error
  | found (d : PrmDoc)    -- d.authServers ≠ []
  | fallback              -- 2025-03-26: the MCP server's root is the authorization server
deriving Repr

def discoverPrm (w : World) : Nat → List (Url × Url) → PrmRes × List Event
  | _, [] => (.fallback, [])
  | i, c :: cs =>
    match fetchPrm w i c with
    | (some d, ev) => (if d.authServers.isEmpty then .noAS else .found d, ev)
    | (none, ev) => ((discoverPrm w (i + 1) cs).1, ev ++ (discoverPrm w (i + 1) cs).2)

/-- The authorization server and the resource identifier the flow continues with. -/
def PrmRes.issuer (u : Url) : PrmRes → Url
  | .found d => d.authServers.headD .empty
  | _ => u.root

def PrmRes.resource (u : Url) : PrmRes → Url
  | .found d => d.resource
  | _ => u

/-! ### Authorization-server metadata discovery -/

/-- `authorizationServerMetadataURLs`. -/
def asmCandidates (issuer : Url) : List Url :=
  match issuer with
  | .bad _ => []
  | _ => (if issuer.hasPath then asWkWithPath else asWkNoPath).map issuer.derive

/-- `validateAuthServerMetaURLs`. The first line is present only once the code refuses metadata
without the REQUIRED endpoints (regenerated flags; `false` in the pinned tree). -/
def asmUrlsOk (d : AsmDoc) : Bool :=
  (!authorizationEndpointRequired || d.authorizationEndpoint != .empty) && (!tokenEndpointRequired || d.tokenEndpoint != .empty) &&
  ([d.authorizationEndpoint, d.tokenEndpoint, d.registrationEndpoint, d.introspectionEndpoint] ++ d.otherUrls).all checkScheme &&
  [d.authorizationEndpoint, d.tokenEndpoint, d.registrationEndpoint, d.introspectionEndpoint].all checkHOL

inductive AsmStep
  | err (o : Outcome)
  | next
  | found (d : AsmDoc)
deriving Repr

/-- `oauthex.GetAuthServerMeta`. -/
def fetchAsm (w : World) (i : Nat) (m issuer : Url) : AsmStep × List Event :=
  if !checkHOL m then (.err .asmUrl, [])
  else match w.asm i m with
    | .status4xx => (.next, [.get .asm m])
    | .doc d =>
      (if !issuersEqual d.issuer issuer then .err .asmIssuer
       else if !d.pkce then .err .asmPkce
       else if !asmUrlsOk d then .err .asmField
       else .found d, [.get .asm m])
    | _ => (.err .asmFetch, [.get .asm m])

/-- `auth.GetAuthServerMetadata`: `.next` = (nil, nil), no location answered with a document. -/
def discoverAsm (w : World) (issuer : Url) : Nat → List Url → AsmStep × List Event
  | _, [] => (.next, [])
  | i, m :: ms =>
    match fetchAsm w i m issuer with
    | (.next, ev) => ((discoverAsm w issuer (i + 1) ms).1, ev ++ (discoverAsm w issuer (i + 1) ms).2)
    | r => r

/-- 2025-03-26 fall-back: predefined endpoints under the authorization server URL. -/
def fallbackAsm (issuer : Url) : AsmDoc :=
  { issuer := issuer, authorizationEndpoint := issuer.derive .authorize, tokenEndpoint := issuer.derive .token,
    registrationEndpoint := issuer.derive .register, introspectionEndpoint := .empty }

/-! ### Registration, authorization, exchange -/

inductive RegRes
  | err (o : Outcome)
  | ok (cred : Cred) (probe : Bool)    -- probe: oauth2.AuthStyleAutoDetect (a failed exchange is retried once)
deriving Repr

/-- `handleRegistration`. -/
def register (cfg : Config) (w : World) (a : AsmDoc) : RegRes × List Event :=
  if cfg.cimd && a.cimdSupported then (.ok .cimd true, [])
  else match cfg.pre with
    | some pi =>
      if pi != .empty && !issuersEqual pi a.issuer then (.err .preIss, [])
      else (.ok .pre (!(a.methodPost || a.methodBasic)), [])
    | none =>
      if cfg.dcr && a.registrationEndpoint != .empty then
        match a.registrationEndpoint with
        | .bad _ => (.err .reg, [])      -- http.NewRequest fails
        | r =>
          match w.reg r with
          | .created true urls => (if urls.all checkScheme then .ok .dcr false else .err .reg, [.register r])
          | _ => (.err .reg, [.register r])
      else (.err .noReg, [])

/-- `oauth2.Config.Exchange` (internal.RetrieveToken): one round trip, a second one when the
authentication style is being probed and the first failed. -/
def exchange (w : World) (t : Url) (cred : Cred) (probe : Bool) : TokResp × List Event :=
  match t with
  | .bad _ => (.fail, [])
  | _ =>
    match w.tok 0 t with
    | .fail => if probe then (w.tok 1 t, [.token t cred, .token t cred]) else (.fail, [.token t cred])
    | r => (r, [.token t cred])

structure Result where
  log : List Event := []
  outcome : Outcome
  installed : Bool := false
  /- ghost fields (what was trusted), for the statements of the theorems -/
  issuer : Option Url := none       -- prm.AuthorizationServers[0]
  resource : Url := .empty          -- prm.Resource (the `resource` parameter of the flow)
  asm : Option AsmDoc := none       -- the metadata in use (document or fall-back)
deriving Repr

/-- After the fetcher returned: state comparison, RFC 9207 check, exchange, construction of the token source
(`NewTokenSource` if configured: its error ends the call with NOTHING installed), installation, and the
post-installation token read of `updateGrantedScopes`. -/
def finish (w : World) (a : AsmDoc) (issuer resource : Url) (cred : Cred) (probe : Bool) (pre : List Event) : Result :=
  match w.fetch a.authorizationEndpoint with
  | .err => { log := pre, outcome := .fetch, issuer := some issuer, resource := resource, asm := some a }
  | .result sm iss =>
    if !sm then { log := pre, outcome := .state, issuer := some issuer, resource := resource, asm := some a }
    else match validateIssuerResponse Url.empty iss a.issuer a.issParamSupported with
      | 0 =>
        match exchange w a.tokenEndpoint cred probe with
        | (.fail, l4) => { log := pre ++ l4, outcome := .exch, issuer := some issuer, resource := resource, asm := some a }
        | (.good, l4) =>
          if w.ntsFails then { log := pre ++ l4, outcome := .tsErr, issuer := some issuer, resource := resource, asm := some a }
          else { log := pre ++ l4, outcome := .ok, installed := true, issuer := some issuer, resource := resource, asm := some a }
        | (.goodExpired, l4) =>
          if w.ntsFails then { log := pre ++ l4, outcome := .tsErr, issuer := some issuer, resource := resource, asm := some a }
          else { log := pre ++ l4, outcome := .post, installed := true, issuer := some issuer, resource := resource, asm := some a }
      | 1 => { log := pre, outcome := .issMissing, issuer := some issuer, resource := resource, asm := some a }
      | 2 => { log := pre, outcome := .issMismatch, issuer := some issuer, resource := resource, asm := some a }
      | _ => { log := pre, outcome := .issUnexpected, issuer := some issuer, resource := resource, asm := some a }

/-- The metadata in use after discovery: the document found, else the 2025-03-26 fall-back. -/
def effAsm (q : AsmStep) (issuer : Url) : AsmDoc :=
  match q with
  | .found d => d
  | _ => fallbackAsm issuer

/-- `AuthorizationCodeHandler.Authorize`. -/
def authorize (cfg : Config) (inp : Input) (w : World) : Result :=
  if inp.headerMalformed then { outcome := .hdr }
  else if inp.status403 && errorFrom inp.challenges != .insufficientScope then { outcome := .skip }
  else
    let p := discoverPrm w 0 (prmCandidates (rmFrom inp.challenges) cfg.serverUrl)
    match p.1 with
    | .noAS => { log := p.2, outcome := .noas }
    | pr =>
      let issuer := pr.issuer cfg.serverUrl
      let resource := pr.resource cfg.serverUrl
      let q := discoverAsm w issuer 0 (asmCandidates issuer)
      match q.1 with
      | .err o => { log := p.2 ++ q.2, outcome := o, issuer := some issuer, resource := resource }
      | qr =>
        let a := effAsm qr issuer
        let r := register cfg w a
        match r.1 with
        | .err o => { log := p.2 ++ q.2 ++ r.2, outcome := o, issuer := some issuer, resource := resource, asm := some a }
        | .ok cred probe =>
          finish w a issuer resource cred probe (p.2 ++ q.2 ++ r.2 ++ [.fetch a.authorizationEndpoint cred resource])

/-! ### The handler across authorization rounds

One `AuthorizationCodeHandler` serves many `Authorize` calls (a 401, later 403 step-ups, a token that
stopped working…), each against whatever the network answers AT THAT TIME: the protected-resource
metadata may name another authorization server, metadata documents may change, the fetcher may be
answered by somebody else.  The only thing the handler carries from one round to the next is the
token source installed by the last successful exchange (and the granted scopes, which are not
modelled): in particular the client registration is resolved afresh — and the pre-registered issuer
binding re-checked — in EVERY round against the metadata in use in THAT round. -/

/-- The part of the configuration that is fixed when the handler is created. -/
structure HConfig where
  cimd : Bool
  pre : Option Url
  dcr : Bool
deriving Repr

def HConfig.at (c : HConfig) (u : Url) : Config := { cimd := c.cimd, pre := c.pre, dcr := c.dcr, serverUrl := u }

/-- One call of `Authorize`: the request URL, the 401/403 response, and the network of that moment. -/
structure Round where
  serverUrl : Url
  inp : Input
  world : World

/-- What `TokenSource()` returns: the configured initial source (possibly nil), or the one installed by round `n`. -/
inductive Served
  | initial
  | round (n : Nat)
deriving DecidableEq, Repr

structure Handler where
  cfg : HConfig
  rounds : Nat := 0
  served : Served := .initial
deriving Repr

/-- One `Authorize` call on a handler. -/
def Handler.authorize (h : Handler) (r : Round) : Handler × Result :=
  let res := OAuth.authorize (h.cfg.at r.serverUrl) r.inp r.world
  ({ h with rounds := h.rounds + 1, served := if res.installed then .round h.rounds else h.served }, res)

/-- A history of `Authorize` calls on one handler: the final handler and the result of every round. -/
def Handler.run (h : Handler) : List Round → Handler × List Result
  | [] => (h, [])
  | r :: rs => ((Handler.run (h.authorize r).1 rs).1, (h.authorize r).2 :: (Handler.run (h.authorize r).1 rs).2)

/-! ### Attempts in flight: several `Authorize` calls on one handler at the same time

The transport calls `Authorize` from every `Write` that is answered 401/403, and several transports may
share one handler: two or more calls can be in flight at once, each parked in the
`AuthorizationCodeFetcher` with ITS OWN freshly generated `state` (`getAuthorizationCode`: `state :=
rand.Text()`, a local variable; trusted: values of `crypto/rand.Text` generated for different attempts
differ).  What comes back from the fetcher carries a state VALUE: the one generated for some attempt of
this handler — this one, one still in flight, one long finished — or a value no attempt generated
(forged, empty).  The code compares it with the local variable and nothing else: the handler keeps no
table of outstanding states (structural fact `oauth.handler.fields`), so an attempt accepts exactly
the state generated for it.

An attempt is ATOMIC in two pieces: `start` (everything up to the call of the fetcher: it reads the
fixed configuration, the network and — for the scopes it asks for, Scopes.lean — `grantedScopes`; it writes
nothing on the handler) and `finish` (from the
fetcher's return: state comparison, RFC 9207 check, exchange, `h.tokenSource = ts` under `mu`).  The
model therefore computes the whole result of an attempt at its `finish` step from the attempt alone;
the only effect on the handler is the token source served.  The finishing piece itself touches the
handler only in its last statement, so the moment the fetcher returns (`answer`: the checks run and the
token request leaves) is a step of its own WITHOUT effect: other attempts may start, be answered and
finish while the token request of this one is under way. -/

/-- The `state` of an authorization response: generated for attempt `k` of this handler (attempts are
numbered in the order they start), or a value no attempt of this handler generated. -/
inductive StateVal
  | gen (attempt : Nat)
  | foreign
deriving DecidableEq, Repr

/-- The fetcher's answer with the state VALUE it carries. -/
inductive FetchV
  | err
  | result (state : StateVal) (iss : Url)
deriving Repr

/-- What the answer is for attempt `own`: `authRes.State != state` compares with the state generated
for THIS attempt. -/
def FetchV.answer (own : Nat) : FetchV → FetchAnswer
  | .err => .err
  | .result s iss => .result (s == .gen own) iss

/-- One call of `Authorize` that may overlap others: request URL, 401/403 response, the network it
sees (the `fetch` field of `world` is not read), and what the fetcher is answered. -/
structure Attempt where
  serverUrl : Url
  inp : Input
  world : World
  fetchV : Url → FetchV

/-- The attempt as a round of the sequential model, once its number is known. -/
def Attempt.round (a : Attempt) (own : Nat) : Round :=
  { serverUrl := a.serverUrl, inp := a.inp,
    world := { prm := a.world.prm, asm := a.world.asm, reg := a.world.reg, tok := a.world.tok,
               fetch := fun u => (a.fetchV u).answer own, ntsFails := a.world.ntsFails } }

/-- A handler with attempts in flight. -/
structure CHandler where
  cfg : HConfig
  started : Nat := 0
  served : Served := .initial
  flight : List (Nat × Attempt) := []

inductive Step
  | start (a : Attempt)      -- `Authorize` is called; the attempt gets the next number
  | answer (k : Nat)         -- the fetcher of attempt `k` returns: state comparison, RFC 9207 check, the token request
                             -- leaves — none of which reads or writes the handler; the attempt now waits for the token response
  | finish (k : Nat)         -- attempt `k` runs to its end (from wherever it waits): token response, installation

/-- The result of attempt `k` of a handler with configuration `c`. -/
def attemptResult (c : HConfig) (k : Nat) (a : Attempt) : Result :=
  authorize (c.at (a.round k).serverUrl) (a.round k).inp (a.round k).world

/-- One step; `finish k` reports the number and the result of the attempt (nothing if no such attempt is in flight). -/
def CHandler.step (c : CHandler) : Step → CHandler × Option (Nat × Result)
  | .start a => ({ c with started := c.started + 1, flight := c.flight ++ [(c.started, a)] }, none)
  | .answer _ => (c, none)
  | .finish k =>
    match c.flight.lookup k with
    | none => (c, none)
    | some a =>
      let res := attemptResult c.cfg k a
      ({ c with served := if res.installed then .round k else c.served, flight := c.flight.filter fun p => p.1 != k },
       some (k, res))

/-- Any schedule of starts and finishes: the final handler and the reported results, in order. -/
def CHandler.run (c : CHandler) : List Step → CHandler × List (Nat × Result)
  | [] => (c, [])
  | s :: ss =>
    let r := CHandler.run (c.step s).1 ss
    (r.1, match (c.step s).2 with | some x => x :: r.2 | none => r.2)

end OAuth
