import McpModel.OAuth.Model
/-!
Helper lemmas for E11 (C15): the bridge from the REGENERATED predicates to the specification
predicates, facts about the string operations, and one lemma per phase of `authorize`.
-/
namespace OAuth
open Generated.OAuth

/-! ### Regenerated predicate ⇒ specification predicate (these re-open when the Go code changes) -/

/-- The regenerated tables are the ones the model's candidate order stands for. -/
theorem wk_tables_match :
    prmWk.flatMap Wk.lits = prmWellKnown ∧
    asWkNoPath.flatMap Wk.lits = asWellKnownNoPath ∧
    asWkWithPath.flatMap Wk.lits = asWellKnownWithPath ∧
    fallbackWk.flatMap Wk.lits = fallbackSuffixes := by decide

theorem holReject_false {l : Bool} {s : String} (h : holReject l s = false) : l = true ∨ s = "https" := by
  simp [holReject] at h
  cases l <;> simp_all

theorem checkHOL_spec {u : Url} (h : checkHOL u = true) : u = .empty ∨ u.httpsOrLoopback = true := by
  cases u with
  | empty => exact Or.inl rfl
  | bad n => simp [checkHOL] at h
  | «at» o s k ds =>
    right
    simp only [checkHOL, Bool.not_eq_true'] at h
    rcases holReject_false h with h | h <;> simp [Url.httpsOrLoopback, h]

theorem scriptSchemes_spec (s : String) :
    scriptSchemes.contains s = true ↔ (s = "javascript" ∨ s = "data" ∨ s = "vbscript") := by
  simp [scriptSchemes]

theorem checkScheme_spec {u : Url} (h : checkScheme u = true) : u.isScript = false ∧ ∀ n, u ≠ .bad n := by
  cases u with
  | empty => simp [Url.isScript]
  | bad n => simp [checkScheme] at h
  | «at» o s k ds =>
    have h' : ¬ (o.scheme = "javascript" ∨ o.scheme = "data" ∨ o.scheme = "vbscript") := by
      rw [← scriptSchemes_spec]; simpa [checkScheme] using h
    refine ⟨?_, by simp⟩
    simp only [Url.isScript]
    simp only [not_or] at h'
    simp [h'.1, h'.2.1, h'.2.2]

theorem validateIssuerResponse_spec (iss issuer : Url) (sup : Bool) :
    (validateIssuerResponse Url.empty iss issuer sup = 0) ↔ issCheck iss issuer sup = true := by
  simp only [validateIssuerResponse, issCheck]
  by_cases h1 : iss = Url.empty <;> by_cases h2 : iss = issuer <;> cases sup <;> simp_all

/-! ### String operations keep scheme and authority -/

@[simp] theorem derive_hol (u : Url) (d : Wk) : (u.derive d).httpsOrLoopback = u.httpsOrLoopback := by
  cases u <;> simp [Url.derive, Url.httpsOrLoopback]

@[simp] theorem derive_isScript (u : Url) (d : Wk) : (u.derive d).isScript = u.isScript := by
  cases u <;> simp [Url.derive, Url.isScript]

@[simp] theorem derive_ne_empty (u : Url) (d : Wk) : u.derive d ≠ .empty := by
  cases u <;> simp [Url.derive]

@[simp] theorem root_isScript (u : Url) : u.root.isScript = u.isScript := by
  cases u <;> simp [Url.root, Url.isScript]

@[simp] theorem root_hol (u : Url) : u.root.httpsOrLoopback = u.httpsOrLoopback := by
  cases u <;> simp [Url.root, Url.httpsOrLoopback]

theorem derive_bad {u : Url} {d : Wk} {n : Nat} (h : u.derive d = .bad n) : u = .bad n := by
  cases u <;> simp_all [Url.derive]

theorem checkHOL_derive {u : Url} {d : Wk} (h : checkHOL (u.derive d) = true) : u.httpsOrLoopback = true := by
  rcases checkHOL_spec h with h | h
  · exact absurd h (derive_ne_empty u d)
  · simpa using h

/-- Every candidate location is the issuer URL with one operation applied. -/
theorem mem_asmCandidates {issuer m : Url} (h : m ∈ asmCandidates issuer) : ∃ d, m = issuer.derive d := by
  unfold asmCandidates at h
  split at h
  · simp at h
  · simp only [List.mem_map] at h
    obtain ⟨d, _, rfl⟩ := h
    exact ⟨d, rfl⟩

theorem asmCandidates_ne_nil {issuer : Url} (h : ∀ n, issuer ≠ .bad n) : asmCandidates issuer ≠ [] := by
  unfold asmCandidates
  split
  · rename_i n; exact absurd rfl (h n)
  · split <;> simp [asWkWithPath, asWkNoPath]

theorem mem_prmCandidates {ch u : Url} {c : Url × Url} (h : c ∈ prmCandidates ch u) :
    (c = (ch, u) ∧ ch ≠ .empty) ∨ (c = (u.derive .prmPath, u)) ∨ (c = (u.derive .prmRoot, u.root)) := by
  unfold prmCandidates at h
  simp only [List.mem_append, prmWk, List.map_cons, List.map_nil, List.mem_cons, List.not_mem_nil, or_false] at h
  rcases h with h | h | h
  · split at h
    · simp at h; rename_i hne; exact Or.inl ⟨h, by simpa using hne⟩
    · simp at h
  · right; left; simpa using h
  · right; right; simpa using h

/-! ### Phase 1: protected-resource metadata -/

theorem fetchPrm_log {w : World} {i : Nat} {c : Url × Url} {e : Event} (h : e ∈ (fetchPrm w i c).2) :
    e = .get .prm c.1 ∧ checkHOL c.1 = true := by
  unfold fetchPrm at h
  split at h
  · simp at h
  · rename_i hc
    simp only [Bool.not_eq_true, Bool.not_eq_false'] at hc
    have : checkHOL c.1 = true := by cases hh : checkHOL c.1 <;> simp_all
    split at h <;> simp at h <;> exact ⟨h, this⟩

theorem fetchPrm_some {w : World} {i : Nat} {c : Url × Url} {d : PrmDoc} (h : (fetchPrm w i c).1 = some d) :
    w.prm i c.1 = .doc d ∧ prmDocOk d c.2 = true ∧ (fetchPrm w i c).2 = [.get .prm c.1] := by
  unfold fetchPrm at h ⊢
  split at h
  · simp at h
  · split at h
    · rename_i d' hw
      simp only at h
      split at h
      · rename_i hok
        simp at h; subst h
        simp_all
      · simp at h
    · simp at h

theorem discoverPrm_log {w : World} : ∀ {cs : List (Url × Url)} {i : Nat} {e : Event},
    e ∈ (discoverPrm w i cs).2 → ∃ c ∈ cs, e = .get .prm c.1 ∧ checkHOL c.1 = true
  | [], _, _, h => by simp [discoverPrm] at h
  | c :: cs, i, e, h => by
    unfold discoverPrm at h
    split at h
    · rename_i d ev heq
      have : ev = (fetchPrm w i c).2 := by rw [heq]
      subst this
      obtain ⟨h1, h2⟩ := fetchPrm_log h
      exact ⟨c, by simp, h1, h2⟩
    · rename_i ev heq
      have : ev = (fetchPrm w i c).2 := by rw [heq]
      subst this
      simp only [List.mem_append] at h
      rcases h with h | h
      · obtain ⟨h1, h2⟩ := fetchPrm_log h
        exact ⟨c, by simp, h1, h2⟩
      · obtain ⟨c', hc', h'⟩ := discoverPrm_log h
        exact ⟨c', by simp [hc'], h'⟩

theorem discoverPrm_found {w : World} : ∀ {cs : List (Url × Url)} {i : Nat} {d : PrmDoc},
    (discoverPrm w i cs).1 = .found d →
    ∃ c ∈ cs, ∃ j, w.prm j c.1 = .doc d ∧ prmDocOk d c.2 = true ∧ Event.get .prm c.1 ∈ (discoverPrm w i cs).2 ∧
      d.authServers ≠ []
  | [], _, _, h => by simp [discoverPrm] at h
  | c :: cs, i, d, h => by
    unfold discoverPrm at h ⊢
    split at h
    · rename_i d' ev heq
      have h1 : (fetchPrm w i c).1 = some d' := by rw [heq]
      obtain ⟨hw, hok, hl⟩ := fetchPrm_some h1
      have hev : ev = (fetchPrm w i c).2 := by rw [heq]
      simp only at h
      split at h
      · simp at h
      · rename_i hne
        simp at h; subst h
        refine ⟨c, by simp, i, hw, hok, ?_, ?_⟩
        · simp [hev, hl]
        · intro hnil; simp [hnil] at hne
    · rename_i ev heq
      simp only at h
      obtain ⟨c', hc', j, hw, hok, hmem, hne⟩ := discoverPrm_found h
      refine ⟨c', by simp [hc'], j, hw, hok, ?_, hne⟩
      simp [hmem]

/-! ### Phase 2: authorization-server metadata -/

theorem fetchAsm_log {w : World} {i : Nat} {m issuer : Url} {e : Event} (h : e ∈ (fetchAsm w i m issuer).2) :
    e = .get .asm m ∧ checkHOL m = true := by
  unfold fetchAsm at h
  split at h
  · simp at h
  · rename_i hc
    have : checkHOL m = true := by cases hh : checkHOL m <;> simp_all
    split at h <;> simp at h <;> exact ⟨h, this⟩

theorem fetchAsm_found {w : World} {i : Nat} {m issuer : Url} {d : AsmDoc} (h : (fetchAsm w i m issuer).1 = .found d) :
    w.asm i m = .doc d ∧ issuersEqual d.issuer issuer = true ∧ d.pkce = true ∧ asmUrlsOk d = true ∧
    (fetchAsm w i m issuer).2 = [.get .asm m] := by
  unfold fetchAsm at h ⊢
  split at h
  · simp at h
  · split at h
    · simp at h
    · rename_i d' hw
      simp only at h
      split at h
      · simp at h
      · split at h
        · simp at h
        · split at h
          · simp at h
          · rename_i h1 h2 h3
            simp at h; subst h
            simp_all
    · simp at h

theorem fetchAsm_next {w : World} {i : Nat} {m issuer : Url} (h : (fetchAsm w i m issuer).1 = .next) :
    w.asm i m = .status4xx ∧ checkHOL m = true := by
  unfold fetchAsm at h
  split at h
  · simp at h
  · rename_i hc
    have : checkHOL m = true := by cases hh : checkHOL m <;> simp_all
    split at h
    · rename_i hw; exact ⟨hw, this⟩
    · simp only at h
      split at h
      · simp at h
      · split at h
        · simp at h
        · split at h <;> simp at h
    · simp at h

theorem discoverAsm_log {w : World} {issuer : Url} : ∀ {ms : List Url} {i : Nat} {e : Event},
    e ∈ (discoverAsm w issuer i ms).2 → ∃ m ∈ ms, e = .get .asm m ∧ checkHOL m = true
  | [], _, _, h => by simp [discoverAsm] at h
  | m :: ms, i, e, h => by
    unfold discoverAsm at h
    split at h
    · rename_i ev heq
      have hev : ev = (fetchAsm w i m issuer).2 := by rw [heq]
      subst hev
      simp only [List.mem_append] at h
      rcases h with h | h
      · obtain ⟨h1, h2⟩ := fetchAsm_log h
        exact ⟨m, by simp, h1, h2⟩
      · obtain ⟨m', hm', h'⟩ := discoverAsm_log h
        exact ⟨m', by simp [hm'], h'⟩
    · obtain ⟨h1, h2⟩ := fetchAsm_log h
      exact ⟨m, by simp, h1, h2⟩

theorem discoverAsm_found {w : World} {issuer : Url} : ∀ {ms : List Url} {i : Nat} {d : AsmDoc},
    (discoverAsm w issuer i ms).1 = .found d →
    ∃ m ∈ ms, ∃ j, w.asm j m = .doc d ∧ issuersEqual d.issuer issuer = true ∧ d.pkce = true ∧ asmUrlsOk d = true ∧
      Event.get .asm m ∈ (discoverAsm w issuer i ms).2
  | [], _, _, h => by simp [discoverAsm] at h
  | m :: ms, i, d, h => by
    unfold discoverAsm at h ⊢
    split at h
    · rename_i ev heq
      simp only at h
      obtain ⟨m', hm', j, h1, h2, h3, h4, h5⟩ := discoverAsm_found h
      refine ⟨m', by simp [hm'], j, h1, h2, h3, h4, ?_⟩
      simp [h5]
    · rename_i hnn
      obtain ⟨h1, h2, h3, h4, h5⟩ := fetchAsm_found h
      refine ⟨m, by simp, i, h1, h2, h3, h4, ?_⟩
      rw [h5]; simp

theorem discoverAsm_next {w : World} {issuer : Url} : ∀ {ms : List Url} {i : Nat},
    (discoverAsm w issuer i ms).1 = .next → ∀ m ∈ ms, checkHOL m = true ∧ ∃ j, w.asm j m = .status4xx
  | [], _, _, m, hm => by simp at hm
  | m0 :: ms, i, h, m, hm => by
    unfold discoverAsm at h
    split at h
    · rename_i ev heq
      have h0 : (fetchAsm w i m0 issuer).1 = .next := by rw [heq]
      simp only at h
      simp only [List.mem_cons] at hm
      rcases hm with rfl | hm
      · obtain ⟨a, b⟩ := fetchAsm_next h0
        exact ⟨b, i, a⟩
      · exact discoverAsm_next h m hm
    · rename_i hnn
      exfalso
      exact hnn _ (by rw [← h])

/-! ### Phase 3: registration, fetcher, exchange -/

/-- Pre-registered credentials are only ever selected for the issuer they are bound to. -/
def CredOk (cfg : Config) (a : AsmDoc) (cred : Cred) : Prop :=
  cred = .pre → ∃ pi, cfg.pre = some pi ∧ (pi = .empty ∨ issuersEqual pi a.issuer = true)

theorem register_ok {cfg : Config} {w : World} {a : AsmDoc} {cred : Cred} {probe : Bool}
    (h : (register cfg w a).1 = .ok cred probe) : CredOk cfg a cred := by
  intro hc; subst hc
  unfold register at h
  split at h
  · simp at h
  · split at h
    · rename_i pi hpre
      split at h
      · simp at h
      · rename_i hn
        refine ⟨pi, hpre, ?_⟩
        by_cases hpi : pi = Url.empty
        · exact Or.inl hpi
        · right
          cases hie : issuersEqual pi a.issuer
          · simp [hpi, hie] at hn
          · rfl
    · split at h
      · split at h
        · simp at h
        · split at h
          · simp only at h
            split at h <;> simp at h
          · simp at h
      · simp at h

theorem register_log {cfg : Config} {w : World} {a : AsmDoc} {e : Event} (h : e ∈ (register cfg w a).2) :
    e = .register a.registrationEndpoint ∧ a.registrationEndpoint ≠ .empty ∧ (∀ n, a.registrationEndpoint ≠ .bad n) ∧
    cfg.dcr = true ∧ cfg.pre = none := by
  unfold register at h
  split at h
  · simp at h
  · split at h
    · split at h <;> simp at h
    · rename_i hpre
      split at h
      · rename_i hg
        simp only [Bool.and_eq_true, bne_iff_ne, ne_eq] at hg
        split at h
        · simp at h
        · rename_i hnb
          have hnb' : ∀ n, a.registrationEndpoint ≠ .bad n := fun n hn => hnb n hn
          split at h
          · simp only at h
            have : e = .register a.registrationEndpoint := by simpa using h
            exact ⟨this, hg.2, hnb', hg.1, hpre⟩
          · simp at h
            exact ⟨h, hg.2, hnb', hg.1, hpre⟩
      · simp at h

/-- Dynamically registered credentials come from a registration request answered in THIS call: the
request is in the log of `register` and the world answered it with a client id. -/
theorem register_dcr {cfg : Config} {w : World} {a : AsmDoc} {probe : Bool}
    (h : (register cfg w a).1 = .ok .dcr probe) :
    Event.register a.registrationEndpoint ∈ (register cfg w a).2 ∧ cfg.dcr = true ∧
    ∃ urls, w.reg a.registrationEndpoint = .created true urls := by
  unfold register at h ⊢
  by_cases hc : (cfg.cimd && a.cimdSupported) = true
  · simp [hc] at h
  · rw [if_neg hc] at h ⊢
    cases hpre : cfg.pre with
    | some pi =>
      rw [hpre] at h
      simp only at h
      split at h <;> simp at h
    | none =>
      rw [hpre] at h
      simp only at h ⊢
      by_cases hg : (cfg.dcr && a.registrationEndpoint != .empty) = true
      · rw [if_pos hg] at h ⊢
        simp only [Bool.and_eq_true] at hg
        generalize a.registrationEndpoint = r at h hg ⊢
        cases r with
        | bad n => simp at h
        | empty =>
          simp only at h ⊢
          cases hreg : w.reg .empty with
          | fail => simp [hreg] at h
          | created b urls =>
            cases b
            · simp [hreg] at h
            · exact ⟨by simp, hg.1, urls, rfl⟩
        | «at» o s k ds =>
          simp only at h ⊢
          cases hreg : w.reg (.at o s k ds) with
          | fail => simp [hreg] at h
          | created b urls =>
            cases b
            · simp [hreg] at h
            · exact ⟨by simp, hg.1, urls, rfl⟩
      · rw [if_neg hg] at h
        simp at h

/-- Credentials of a mode are only selected when that mode is configured. -/
theorem register_mode {cfg : Config} {w : World} {a : AsmDoc} {cred : Cred} {probe : Bool}
    (h : (register cfg w a).1 = .ok cred probe) :
    (cred = .cimd → cfg.cimd = true ∧ a.cimdSupported = true) ∧ (cred = .pre → cfg.pre ≠ none) ∧
    (cred = .dcr → cfg.dcr = true) ∧ cred ≠ .none := by
  unfold register at h
  split at h
  · rename_i hc
    simp only [Bool.and_eq_true] at hc
    simp only [RegRes.ok.injEq] at h
    obtain ⟨rfl, _⟩ := h
    simp [hc]
  · split at h
    · rename_i pi hpre
      split at h
      · simp at h
      · simp only [RegRes.ok.injEq] at h
        obtain ⟨rfl, _⟩ := h
        simp [hpre]
    · split at h
      · rename_i hg
        simp only [Bool.and_eq_true] at hg
        split at h
        · simp at h
        · split at h
          · simp only at h
            split at h
            · simp only [RegRes.ok.injEq] at h
              obtain ⟨rfl, _⟩ := h
              simp [hg.1]
            · simp at h
          · simp at h
      · simp at h

theorem exchange_log {w : World} {t : Url} {cred : Cred} {probe : Bool} {e : Event}
    (h : e ∈ (exchange w t cred probe).2) : e = .token t cred ∧ ∀ n, t ≠ .bad n := by
  unfold exchange at h
  split at h
  · simp at h
  · rename_i hnb
    have hb : ∀ n, t ≠ .bad n := fun n hn => hnb n hn
    split at h
    · split at h
      · simp at h; exact ⟨h, hb⟩
      · simp at h; exact ⟨h, hb⟩
    · simp at h; exact ⟨h, hb⟩

theorem exchange_success {w : World} {t : Url} {cred : Cred} {probe : Bool}
    (h : (exchange w t cred probe).1 ≠ .fail) :
    Event.token t cred ∈ (exchange w t cred probe).2 ∧ ∃ i, w.tok i t = (exchange w t cred probe).1 := by
  unfold exchange at h ⊢
  split
  · simp at h
  · split
    · rename_i h0
      split
      · exact ⟨by simp, 1, rfl⟩
      · rename_i hp; simp [hp, h0] at h
    · rename_i r hr hne
      exact ⟨by simp, 0, by simp⟩

/-- The RFC 9207 gate and the state gate, as seen from the world. -/
def ExchangeOk (w : World) (a : AsmDoc) : Prop :=
  ∃ iss, w.fetch a.authorizationEndpoint = .result true iss ∧ issCheck iss a.issuer a.issParamSupported = true

theorem finish_cases (w : World) (a : AsmDoc) (I res : Url) (cred : Cred) (probe : Bool) (pre : List Event) :
    (finish w a I res cred probe pre).issuer = some I ∧ (finish w a I res cred probe pre).resource = res ∧
    (finish w a I res cred probe pre).asm = some a ∧
    (((finish w a I res cred probe pre).log = pre ∧ (finish w a I res cred probe pre).installed = false ∧
        (finish w a I res cred probe pre).outcome ≠ .ok ∧ (finish w a I res cred probe pre).outcome ≠ .post) ∨
     (ExchangeOk w a ∧ (finish w a I res cred probe pre).log = pre ++ (exchange w a.tokenEndpoint cred probe).2 ∧
        ((((exchange w a.tokenEndpoint cred probe).1 = .fail ∨ w.ntsFails = true) ∧ (finish w a I res cred probe pre).installed = false ∧
            ((finish w a I res cred probe pre).outcome = .exch ∨ (finish w a I res cred probe pre).outcome = .tsErr)) ∨
         ((exchange w a.tokenEndpoint cred probe).1 = .good ∧ (finish w a I res cred probe pre).installed = true ∧
            (finish w a I res cred probe pre).outcome = .ok) ∨
         ((exchange w a.tokenEndpoint cred probe).1 = .goodExpired ∧ (finish w a I res cred probe pre).installed = true ∧
            (finish w a I res cred probe pre).outcome = .post)))) := by
  unfold finish
  split
  · simp
  · rename_i sm iss hf
    split
    · simp
    · rename_i hsm
      have hsm' : sm = true := by cases sm <;> simp_all
      subst hsm'
      split
      · rename_i hv
        have hic : issCheck iss a.issuer a.issParamSupported = true := (validateIssuerResponse_spec _ _ _).1 hv
        have hx : ExchangeOk w a := ⟨iss, hf, hic⟩
        split
        · rename_i l4 he; simp [hx, he]
        · rename_i l4 he; split <;> simp_all
        · rename_i l4 he; split <;> simp_all
      · simp
      · simp
      · simp

/-! ### The shape of `authorize`: the case analysis of the definition, done once -/

theorem authorize_cases (cfg : Config) (inp : Input) (w : World) :
    let U := cfg.serverUrl
    let p := discoverPrm w 0 (prmCandidates (rmFrom inp.challenges) U)
    let I := p.1.issuer U
    let res := p.1.resource U
    let q := discoverAsm w I 0 (asmCandidates I)
    let a := effAsm q.1 I
    let r := register cfg w a
    (authorize cfg inp w = { outcome := .hdr }) ∨
    (authorize cfg inp w = { outcome := .skip }) ∨
    (p.1 = .noAS ∧ authorize cfg inp w = { log := p.2, outcome := .noas }) ∨
    (p.1 ≠ .noAS ∧ ∃ o, q.1 = .err o ∧
      authorize cfg inp w = { log := p.2 ++ q.2, outcome := o, issuer := some I, resource := res }) ∨
    (p.1 ≠ .noAS ∧ (∀ o, q.1 ≠ .err o) ∧ ∃ o, r.1 = .err o ∧
      authorize cfg inp w = { log := p.2 ++ q.2 ++ r.2, outcome := o, issuer := some I, resource := res, asm := some a }) ∨
    (p.1 ≠ .noAS ∧ (∀ o, q.1 ≠ .err o) ∧ ∃ cred probe, r.1 = .ok cred probe ∧
      authorize cfg inp w =
        finish w a I res cred probe (p.2 ++ q.2 ++ r.2 ++ [.fetch a.authorizationEndpoint cred res])) := by
  intro U p I res q a r
  unfold authorize
  split
  · exact Or.inl rfl
  · split
    · exact Or.inr (Or.inl rfl)
    · simp only []
      split
      · rename_i hp
        exact Or.inr (Or.inr (Or.inl ⟨hp, rfl⟩))
      · rename_i pr hp
        have hp' : p.1 ≠ .noAS := by
          intro hc; exact hp (by simpa [p, U] using hc)
        split
        · rename_i o hq
          exact Or.inr (Or.inr (Or.inr (Or.inl ⟨hp', o, hq, rfl⟩)))
        · rename_i qr hq
          have hq' : ∀ o, q.1 ≠ .err o := by
            intro o hc; exact hq o (by simpa [q, I, p, U] using hc)
          split
          · rename_i o hr
            refine Or.inr (Or.inr (Or.inr (Or.inr (Or.inl ⟨hp', hq', o, ?_, ?_⟩))))
            · exact hr
            · rfl
          · rename_i cred probe hr
            refine Or.inr (Or.inr (Or.inr (Or.inr (Or.inr ⟨hp', hq', cred, probe, ?_, ?_⟩))))
            · exact hr
            · rfl

end OAuth
