/-!
E11 — model of `oauthex.ParseWWWAuthenticate` (oauthex/resource_meta.go:140-304), transliterated
over character lists (the tokens the Go code distinguishes are: `"`, `\`, `,`, `=`, the ASCII blank
that separates scheme from parameters, Unicode white space, everything else).
For valid UTF-8 input the Go code's byte-indexed tests (`header[i-1] != '\\'`, the quoted-string
loop) coincide with the character-indexed ones below because every byte they test for is ASCII.
`strings.ToLower` is modelled on ASCII letters only (the harness's alphabet has no other cased letters).
Core Lean only (linked into the driver).
-/
namespace OAuth.Challenge

/-- `unicode.IsSpace`. -/
def isSpace (c : Char) : Bool :=
  c == '\t' || c == '\n' || c.toNat == 0x0b || c.toNat == 0x0c || c == '\r' || c == ' ' ||
  c.toNat == 0x85 || c.toNat == 0xa0 || c.toNat == 0x1680 || (0x2000 ≤ c.toNat && c.toNat ≤ 0x200a) ||
  c.toNat == 0x2028 || c.toNat == 0x2029 || c.toNat == 0x202f || c.toNat == 0x205f || c.toNat == 0x3000

def trimLeft : List Char → List Char
  | [] => []
  | c :: cs => if isSpace c then trimLeft cs else c :: cs

/-- `strings.TrimSpace`. -/
def trimSpace (l : List Char) : List Char := (trimLeft (trimLeft l).reverse).reverse

/-- `strings.Index(l, string(c))`: position of the first `c`. -/
def indexOf (c : Char) : List Char → Option Nat
  | [] => none
  | x :: xs => if x == c then some 0 else (indexOf c xs).map (· + 1)

def lower (l : List Char) : List Char := l.map Char.toLower

/-- Does the text after a comma look like `token=`? (`splitChallenges`' look-ahead) -/
def looksLikeParam (rest : List Char) : Bool :=
  let la := trimSpace rest
  match indexOf '=' la with
  | some (n + 1) => !((la.take (n + 1)).any isSpace)
  | _ => false

/-- `splitChallenges`. `cur` is the current challenge reversed, `prev` the previous character of the
whole header. `none` = error (header begins with a quote). -/
def splitGo : Option Char → Bool → List Char → List (List Char) → List Char → Option (List (List Char))
  | _, _, cur, acc, [] => some (acc ++ [cur.reverse])
  | prev, inQ, cur, acc, c :: rest =>
    if c == '"' then
      match prev with
      | none => none
      | some p => splitGo (some c) (if p != '\\' then !inQ else inQ) (c :: cur) acc rest
    else if c == ',' && !inQ then
      if looksLikeParam rest then splitGo (some c) inQ (c :: cur) acc rest
      else splitGo (some c) inQ [] (acc ++ [cur.reverse]) rest
    else splitGo (some c) inQ (c :: cur) acc rest

def splitChallenges (h : List Char) : Option (List (List Char)) := splitGo none false [] [] h

/-- The quoted-string loop: returns the value and what follows the closing quote; `none` = unterminated. -/
def quoted : List Char → List Char → Option (List Char × List Char)
  | _, [] => none
  | acc, '\\' :: c :: rest => quoted (c :: acc) rest
  | acc, '"' :: rest => some (acc.reverse, rest)
  | acc, c :: rest => quoted (c :: acc) rest

abbrev Params := List (List Char × List Char)

def setParam (k v : List Char) : Params → Params
  | [] => [(k, v)]
  | (k', v') :: t => if k' = k then (k, v) :: t else (k', v') :: setParam k v t

/-- The parameter loop of `parseSingleChallenge`; fuel = length of the text (every round consumes
at least the `=`). `none` = error. -/
def paramsGo : Nat → List Char → Params → Option Params
  | 0, p, acc => if p.isEmpty then some acc else none
  | fuel + 1, p, acc =>
    if p.isEmpty then some acc else
    match indexOf '=' p with
    | some (n + 1) =>
      let key := trimSpace (p.take (n + 1))
      let p1 := trimSpace (p.drop (n + 2))
      let r : Option (List Char × List Char) :=
        match p1 with
        | '"' :: q =>
          match quoted [] q with
          | none => none
          | some (v, rest) => some (v, trimSpace rest)
        | _ =>
          match indexOf ',' p1 with
          | none => some (p1, [])
          | some m => some (trimSpace (p1.take m), trimSpace (p1.drop m))
      match r with
      | none => none
      | some (v, p2) =>
        if v.isEmpty then none else
        let acc' := setParam (lower key) v acc
        match p2 with
        | ',' :: p3 => paramsGo fuel (trimSpace p3) acc'
        | [] => some acc'
        | _ => none
    | _ => none

structure Parsed where
  scheme : List Char
  params : Params

/-- `parseSingleChallenge`. -/
def parseSingle (s : List Char) : Option Parsed :=
  let s := trimSpace s
  if s.isEmpty then none else
  match indexOf ' ' s with
  | none => some { scheme := lower s, params := [] }
  | some n =>
    match paramsGo (s.length + 1) (s.drop (n + 1)) [] with
    | none => none
    | some ps => some { scheme := lower (s.take n), params := ps }

def parseAll : List (List Char) → Option (List Parsed)
  | [] => some []
  | cs :: t =>
    if (trimSpace cs).isEmpty then parseAll t
    else match parseSingle cs, parseAll t with
      | some c, some r => some (c :: r)
      | _, _ => none

/-- `ParseWWWAuthenticate`. -/
def parseHeaders : List (List Char) → Option (List Parsed)
  | [] => some []
  | h :: t =>
    match splitChallenges h with
    | none => none
    | some css =>
      match parseAll css, parseHeaders t with
      | some a, some b => some (a ++ b)
      | _, _ => none

def Parsed.get (p : Parsed) (k : String) : List Char :=
  (p.params.lookup k.toList).getD []

/-! ### Duplicate parameters: the last one of a name counts -/

/-- **duplicate_param_last_wins**: after `params[strings.ToLower(key)] = value` the parameter `k` has the value
just set, whatever was stored under that name before (an attacker-supplied earlier `resource_metadata`, `scope`
or `error` of the same challenge does not survive a later one). -/
theorem duplicate_param_last_wins (k v : List Char) : ∀ (acc : Params), (setParam k v acc).lookup k = some v
  | [] => by simp [setParam, List.lookup]
  | (k', v') :: t => by
    simp only [setParam]
    split
    · simp [List.lookup]
    · rename_i h
      have : (k == k') = false := by simpa using fun e => h e.symm
      simp only [List.lookup, this]
      exact duplicate_param_last_wins k v t

/-- Setting `k` leaves every other parameter as it was. -/
theorem setParam_other (k v k2 : List Char) (h : k2 ≠ k) : ∀ (acc : Params), (setParam k v acc).lookup k2 = acc.lookup k2
  | [] => by
    have : (k2 == k) = false := by simpa using h
    simp [setParam, List.lookup, this]
  | (k', v') :: t => by
    simp only [setParam]
    split
    · rename_i he
      subst he
      have : (k2 == k') = false := by simpa using h
      simp [List.lookup, this]
    · simp only [List.lookup]
      split
      · rfl
      · exact setParam_other k v k2 h t

end OAuth.Challenge
