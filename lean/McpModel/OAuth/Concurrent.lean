import McpModel.OAuth.Sound
/-!
# Attempts in flight (E11, C15): the state clause over ALL schedules

`CHandler` (Model.lean) is the handler with several `Authorize` calls in flight; a schedule is any list
of `start` / `finish` steps.  The fetcher's answer carries a state VALUE (`StateVal`): the state
generated for some attempt of the handler, or a foreign one.

* `concurrent_results_are_attempt_results`: whatever the schedule, the result reported for attempt `k`
  is `attemptResult cfg k a` of an attempt `a` that was in flight or started by the schedule under the
  number `k` — no step of another attempt has any influence on it.
* `concurrent_exchange_requires_own_state`: a token request in the log of attempt `k` ⇒ the fetcher
  of THAT attempt was answered with the state generated for attempt `k` (not the state of an attempt
  still in flight, not a stale one, not a foreign one) and the RFC 9207 check passed.
* `concurrent_other_state_refused`: answered with any other state value, attempt `k` sends no token
  request and installs nothing; `concurrent_failed_attempt_keeps_token_source`.
* `concurrent_served_token_installed_by_a_finished_attempt`, `concurrent_served_token_justified`: what the
  handler serves after any schedule was installed by an attempt answered with ITS OWN state, passing RFC 9207
  and a successful token round trip.
* `sequential_is_concurrent`: `Handler.authorize` is `start` immediately followed by `finish`.
* `monitor_accepts_schedule` (bridge): on the observation of every result of every schedule of
  well-formed attempts (in the form a record carries them) the C15 monitor reports no clause, whatever
  its state; `sound_exchState_peer` (soundness of the clause on the new inputs): the monitor's
  `exchState` clause is what fires on a token request of an attempt that was answered with ANOTHER
  attempt's state.
-/
namespace OAuth

theorem FetchV.answer_true {own : Nat} {f : FetchV} {iss : Url} (h : f.answer own = .result true iss) :
    f = .result (.gen own) iss := by
  cases f with
  | err => cases h
  | result s i =>
    simp only [FetchV.answer, FetchAnswer.result.injEq, beq_iff_eq] at h
    rw [h.1, h.2]

theorem FetchV.answer_peer (own j : Nat) (iss : Url) (h : j ≠ own) :
    (FetchV.result (.gen j) iss).answer own = .result false iss := by
  simp [FetchV.answer, h]

theorem lookup_mem {α β} [BEq α] [LawfulBEq α] : ∀ (l : List (α × β)) (k : α) (v : β), l.lookup k = some v → (k, v) ∈ l
  | [], _, _, h => by cases h
  | (k', v') :: t, k, v, h => by
    simp only [List.lookup] at h
    split at h
    · rename_i he
      have : k = k' := by simpa using he
      cases h; subst this; simp
    · exact List.mem_cons_of_mem _ (lookup_mem t k v h)

theorem CHandler.step_cfg (c : CHandler) (s : Step) : (c.step s).1.cfg = c.cfg := by
  cases s with
  | start a => rfl
  | answer k => rfl
  | finish k => simp only [CHandler.step]; split <;> rfl

/-- **concurrent_results_are_attempt_results.** -/
theorem concurrent_results_are_attempt_results : ∀ (ss : List Step) (c : CHandler) (x : Nat × Result),
    x ∈ (c.run ss).2 → ∃ a, ((x.1, a) ∈ c.flight ∨ Step.start a ∈ ss) ∧ x.2 = attemptResult c.cfg x.1 a
  | [], _, _, h => by cases h
  | s :: ss, c, x, h => by
    simp only [CHandler.run] at h
    have ih := concurrent_results_are_attempt_results ss (c.step s).1 x
    rw [CHandler.step_cfg] at ih
    cases s with
    | start a =>
      simp only [CHandler.step] at h ih
      obtain ⟨a', hm, hr⟩ := ih h
      refine ⟨a', ?_, hr⟩
      rcases hm with hm | hm
      · rcases List.mem_append.1 hm with hm | hm
        · exact .inl hm
        · simp only [List.mem_singleton, Prod.mk.injEq] at hm
          exact .inr (by rw [hm.2]; simp)
      · exact .inr (List.mem_cons_of_mem _ hm)
    | answer k =>
      simp only [CHandler.step] at h ih
      obtain ⟨a', hm, hr⟩ := ih h
      exact ⟨a', hm.imp id (List.mem_cons_of_mem _), hr⟩
    | finish k =>
      simp only [CHandler.step] at h ih
      cases hl : c.flight.lookup k with
      | none =>
        simp only [hl] at h ih
        obtain ⟨a', hm, hr⟩ := ih h
        exact ⟨a', hm.imp id (List.mem_cons_of_mem _), hr⟩
      | some a =>
        simp only [hl, List.mem_cons] at h ih
        rcases h with h | h
        · subst h
          exact ⟨a, .inl (lookup_mem _ _ _ hl), rfl⟩
        · obtain ⟨a', hm, hr⟩ := ih h
          refine ⟨a', ?_, hr⟩
          rcases hm with hm | hm
          · exact .inl (List.mem_filter.1 hm).1
          · exact .inr (List.mem_cons_of_mem _ hm)

/-- **exchange_requires_state_and_iss for one attempt among many**: a token request in the log of
attempt `k` ⇒ the metadata in use is `d`, the request went to its token endpoint, and the fetcher of
this attempt was answered with the state generated for attempt `k` and an `iss` passing RFC 9207. -/
theorem attempt_exchange_requires_own_state (hc : HConfig) (k : Nat) (a : Attempt) (u : Url) (cr : Cred)
    (h : Event.token u cr ∈ (attemptResult hc k a).log) :
    ∃ d, (attemptResult hc k a).asm = some d ∧ u = d.tokenEndpoint ∧
      ∃ iss, a.fetchV d.authorizationEndpoint = .result (.gen k) iss ∧ issCheck iss d.issuer d.issParamSupported = true := by
  obtain ⟨d, hd, hu, iss, hf, hi⟩ := exchange_requires_state_and_iss _ _ _ u cr h
  exact ⟨d, hd, hu, iss, FetchV.answer_true hf, hi⟩

/-- **concurrent_exchange_requires_own_state**: over ANY schedule of starts and finishes of any number
of attempts on one handler, an authorization code is exchanged by attempt `k` only if the returned
state is the one generated for attempt `k` and the RFC 9207 check passes. -/
theorem concurrent_exchange_requires_own_state (c : CHandler) (ss : List Step) (k : Nat) (R : Result)
    (hR : (k, R) ∈ (c.run ss).2) (u : Url) (cr : Cred) (h : Event.token u cr ∈ R.log) :
    ∃ a, ((k, a) ∈ c.flight ∨ Step.start a ∈ ss) ∧ ∃ d, R.asm = some d ∧ u = d.tokenEndpoint ∧
      ∃ iss, a.fetchV d.authorizationEndpoint = .result (.gen k) iss ∧ issCheck iss d.issuer d.issParamSupported = true := by
  obtain ⟨a, hm, hr⟩ := concurrent_results_are_attempt_results ss c (k, R) hR
  simp only at hr hm
  subst hr
  exact ⟨a, hm, attempt_exchange_requires_own_state c.cfg k a u cr h⟩

/-- **concurrent_other_state_refused**: an attempt whose fetcher is never answered with ITS OWN state
(it gets an error, a foreign value, or the state of ANOTHER attempt, in flight or finished) sends no
token request and installs no token source. -/
theorem concurrent_other_state_refused (hc : HConfig) (k : Nat) (a : Attempt)
    (hne : ∀ u iss, a.fetchV u ≠ .result (.gen k) iss) :
    (∀ u cr, Event.token u cr ∉ (attemptResult hc k a).log) ∧ (attemptResult hc k a).installed = false := by
  have h1 : ∀ u cr, Event.token u cr ∉ (attemptResult hc k a).log := by
    intro u cr h
    obtain ⟨d, _, _, iss, hf, _⟩ := attempt_exchange_requires_own_state hc k a u cr h
    exact hne _ _ hf
  refine ⟨h1, ?_⟩
  cases hi : (attemptResult hc k a).installed with
  | false => rfl
  | true =>
    obtain ⟨_, d, _, _, _, _, _, _, cred, _, ht, _⟩ := (failed_check_installs_nothing _ _ _).1 hi
    exact absurd ht (h1 _ _)

/-- Non-vacuity: two attempts in flight, the first answered with the SECOND's state. -/
example (hc : HConfig) (a b : Attempt) (iss : Url) (h : ∀ u, a.fetchV u = .result (.gen 1) iss) :
    ∃ R, (({ cfg := hc } : CHandler).run [.start a, .start b, .finish 0]).2 = [(0, R)] ∧ R.installed = false := by
  refine ⟨attemptResult hc 0 a, rfl, (concurrent_other_state_refused hc 0 a ?_).2⟩
  intro u i hh
  rw [h u] at hh
  cases hh

/-- **answer_is_invisible**: the return of the fetcher of any attempt — its checks, its token request —
changes nothing on the handler and reports nothing: every schedule has the results and the final state
of the schedule without its `answer` steps. -/
theorem answer_is_invisible : ∀ (ss : List Step) (c : CHandler),
    c.run ss = c.run (ss.filter fun s => match s with | .answer _ => false | _ => true)
  | [], _ => rfl
  | s :: ss, c => by
    cases s with
    | answer k =>
      simp only [List.filter_cons, Bool.false_eq_true, if_false]
      simp only [CHandler.run, CHandler.step]
      exact answer_is_invisible ss c
    | start a =>
      simp only [List.filter_cons, if_true, CHandler.run]
      rw [answer_is_invisible ss]
    | finish k =>
      simp only [List.filter_cons, if_true, CHandler.run]
      rw [answer_is_invisible ss]

/-- **racing_finishes_serve_the_last**: two attempts that have both exchanged their code and race for the
last statement (`h.tokenSource = ts` under `mu`) — whichever order the two installations take, the handler then
serves the source of the one that installed LAST if it installed, else that of the other if it installed, else
what it served before: always one whole source of one attempt (each justified by `concurrent_served_token_justified`),
never a mix. -/
theorem racing_finishes_serve_the_last (c : CHandler) (j k : Nat) (a b : Attempt) (hjk : j ≠ k)
    (ha : c.flight.lookup j = some a) (hb : c.flight.lookup k = some b) :
    (c.run [.finish j, .finish k]).2 = [(j, attemptResult c.cfg j a), (k, attemptResult c.cfg k b)] ∧
    (c.run [.finish j, .finish k]).1.served =
      if (attemptResult c.cfg k b).installed then .round k
      else if (attemptResult c.cfg j a).installed then .round j else c.served := by
  have hb' : (c.flight.filter fun p => p.1 != j).lookup k = some b := by
    have : ∀ (l : List (Nat × Attempt)), l.lookup k = some b → (l.filter fun p => p.1 != j).lookup k = some b := by
      intro l
      induction l with
      | nil => intro h; cases h
      | cons p t ih =>
        obtain ⟨x, v⟩ := p
        intro h
        by_cases hx : x = j
        · subst hx
          have hkx : (k == x) = false := by simpa using Ne.symm hjk
          simp only [List.lookup_cons, hkx] at h
          simp [List.filter_cons, ih h]
        · have : (x != j) = true := by simpa using hx
          simp only [List.filter_cons, this, if_true, List.lookup_cons]
          simp only [List.lookup_cons] at h
          split
          · rename_i he; simp only [he] at h; exact h
          · rename_i he; simp only [he] at h; exact ih h
    exact this _ hb
  simp only [CHandler.run, CHandler.step, ha, hb']
  constructor
  · trivial
  · cases h1 : (attemptResult c.cfg k b).installed <;> cases h2 : (attemptResult c.cfg j a).installed <;> simp

/-- **concurrent_failed_attempt_keeps_token_source**: a `finish` step whose attempt installs nothing
(any failed check) leaves the token source served unchanged; one that installs serves ITS source. -/
theorem concurrent_failed_attempt_keeps_token_source (c : CHandler) (k : Nat) (R : Result)
    (h : (c.step (.finish k)).2 = some (k, R)) :
    (c.step (.finish k)).1.served = if R.installed then .round k else c.served := by
  simp only [CHandler.step] at h ⊢
  cases hl : c.flight.lookup k with
  | none => simp [hl] at h
  | some a =>
    simp only [hl, Option.some.injEq, Prod.mk.injEq, true_and] at h ⊢
    rw [h]

/-- **concurrent_served_token_installed_by_a_finished_attempt**: after ANY schedule the handler serves the
token source it served before, or the one installed by the `finish` of an attempt `k` of the schedule whose
own run installed it. -/
theorem concurrent_served_token_installed_by_a_finished_attempt : ∀ (ss : List Step) (c : CHandler),
    (c.run ss).1.served = c.served ∨
    ∃ k R, (k, R) ∈ (c.run ss).2 ∧ (c.run ss).1.served = .round k ∧ R.installed = true
  | [], _ => .inl rfl
  | s :: ss, c => by
    simp only [CHandler.run]
    rcases concurrent_served_token_installed_by_a_finished_attempt ss (c.step s).1 with h1 | ⟨k, R, hm, h1, h2⟩
    · rw [h1]
      cases s with
      | start a => exact .inl rfl
      | answer k => exact .inl rfl
      | finish k =>
        simp only [CHandler.step]
        cases hl : c.flight.lookup k with
        | none => exact .inl rfl
        | some a =>
          simp only []
          cases hi : (attemptResult c.cfg k a).installed with
          | false => exact .inl (by simp)
          | true => exact .inr ⟨k, attemptResult c.cfg k a, by simp, by simp, hi⟩
    · refine .inr ⟨k, R, ?_, h1, h2⟩
      cases h : (c.step s).2 with
      | none => exact hm
      | some x => exact List.mem_cons_of_mem _ hm

/-- **concurrent_served_token_justified**: the token source served after ANY schedule of overlapping
attempts, if it is not the one served before, was installed by an attempt `k` that was answered with the
state generated FOR ATTEMPT `k`, passed the RFC 9207 check against the metadata it used, and got it from a
successful token round trip at that metadata's token endpoint — no failed check of any attempt, and no
answer meant for another attempt, ever changes what the transport presents. -/
theorem concurrent_served_token_justified (c : CHandler) (ss : List Step) (n : Nat)
    (hs : (c.run ss).1.served = .round n) (hne : c.served ≠ .round n) :
    ∃ a R, (n, R) ∈ (c.run ss).2 ∧ ((n, a) ∈ c.flight ∨ Step.start a ∈ ss) ∧ R = attemptResult c.cfg n a ∧
      (R.outcome = .ok ∨ R.outcome = .post) ∧
      ∃ d iss cred, R.asm = some d ∧ Event.token d.tokenEndpoint cred ∈ R.log ∧
        a.fetchV d.authorizationEndpoint = .result (.gen n) iss ∧ issCheck iss d.issuer d.issParamSupported = true := by
  rcases concurrent_served_token_installed_by_a_finished_attempt ss c with h1 | ⟨k, R, hm, h1, h2⟩
  · rw [h1] at hs; exact absurd hs hne
  · rw [h1] at hs
    injection hs with hs
    subst hs
    obtain ⟨a, hfl, hr⟩ := concurrent_results_are_attempt_results ss c (k, R) hm
    simp only at hfl hr
    subst hr
    obtain ⟨ho, d, _, hd, _, _, _, _, cred, _, ht, _⟩ := (failed_check_installs_nothing _ _ _).1 h2
    obtain ⟨d', hd', _, iss, hf, hi⟩ := attempt_exchange_requires_own_state c.cfg k a _ cred ht
    have : d' = d := by
      have h := hd'.symm.trans hd
      exact Option.some.inj h
    subst this
    exact ⟨a, _, hm, hfl, rfl, ho, d', iss, cred, hd', ht, hf, hi⟩

/-- A round of the sequential model as an attempt: a matching state is the attempt's own. -/
def Round.attempt (r : Round) (k : Nat) : Attempt :=
  { serverUrl := r.serverUrl, inp := r.inp, world := r.world,
    fetchV := fun u => match r.world.fetch u with
      | .err => .err
      | .result sm iss => .result (if sm then .gen k else .foreign) iss }

theorem Round.attempt_round (r : Round) (k : Nat) : (r.attempt k).round k = r := by
  cases r with
  | mk su inp w =>
    cases w with
    | mk p a rg t f nf =>
      simp only [Round.attempt, Attempt.round, Round.mk.injEq, World.mk.injEq, true_and, and_true]
      funext u
      cases hf : f u with
      | err => simp [FetchV.answer]
      | result sm iss => cases sm <;> simp [FetchV.answer]

/-- **sequential_is_concurrent**: one `Authorize` call of the sequential handler is `start` immediately
followed by `finish`: same result, same token source served. -/
theorem sequential_is_concurrent (h : Handler) (r : Round) :
    let c : CHandler := { cfg := h.cfg, started := h.rounds, served := h.served }
    let c' := (c.step (.start (r.attempt h.rounds))).1
    (c'.step (.finish h.rounds)).2 = some (h.rounds, (h.authorize r).2) ∧
    (c'.step (.finish h.rounds)).1.served = (h.authorize r).1.served ∧
    (c'.step (.finish h.rounds)).1.started = (h.authorize r).1.rounds ∧
    (c'.step (.finish h.rounds)).1.flight = [] := by
  simp only [CHandler.step, List.nil_append, List.lookup, beq_self_eq_true, attemptResult, Round.attempt_round,
    Handler.authorize]
  simp

/-! ### Bridge and soundness on the new inputs -/

/-- One attempt in the form a record carries it (the `fetch` field of `tabs` is not read). -/
structure TAttempt where
  serverUrl : Url
  inp : Input
  tabs : Tabs
  fetchV : FetchV

def TAttempt.attempt (t : TAttempt) : Attempt :=
  { serverUrl := t.serverUrl, inp := t.inp, world := t.tabs.world, fetchV := fun _ => t.fetchV }

/-- The round the monitor is given for attempt `k`. -/
def TAttempt.mcase (hc : HConfig) (k : Nat) (t : TAttempt) : MCase :=
  { cfg := hc.at t.serverUrl, inp := t.inp,
    tabs := { prm := t.tabs.prm, asm := t.tabs.asm, tok := t.tabs.tok, reg := t.tabs.reg, fetch := t.fetchV.answer k,
              ntsFails := t.tabs.ntsFails } }

theorem attemptResult_mcase (hc : HConfig) (k : Nat) (t : TAttempt) :
    attemptResult hc k t.attempt = (t.mcase hc k).result := rfl

inductive TStep
  | start (t : TAttempt)
  | answer (k : Nat)
  | finish (k : Nat)

def TStep.step : TStep → Step
  | .start t => .start t.attempt
  | .answer k => .answer k
  | .finish k => .finish k

/-- **monitor_accepts_schedule.** Over ANY schedule of starts and finishes of well-formed attempts on a
fresh handler, for every result the model reports, the C15 monitor — given the model's observation of
that attempt and the round built from the attempt and its number — reports no clause, whatever its
state (the registrations of whichever attempts finished before). -/
theorem monitor_accepts_schedule (hc : HConfig) (ts : List TStep) (k : Nat) (R : Result)
    (hR : (k, R) ∈ (({ cfg := hc } : CHandler).run (ts.map TStep.step)).2)
    (hwf : ∀ t k, TStep.start t ∈ ts → (t.mcase hc k).wf = true) (hist : List Url) :
    ∃ t, TStep.start t ∈ ts ∧ R = (t.mcase hc k).result ∧
      monitor (t.mcase hc k) hist (obsOf R) = (none, modelRegd (t.mcase hc k).tabs R) := by
  obtain ⟨a, hm, hr⟩ := concurrent_results_are_attempt_results _ _ (k, R) hR
  simp only at hm hr
  rcases hm with hm | hm
  · cases hm
  · obtain ⟨s, hs, he⟩ := List.mem_map.1 hm
    cases s with
    | finish j => cases he
    | answer j => cases he
    | start t =>
      simp only [TStep.step, Step.start.injEq] at he
      subst he
      refine ⟨t, hs, hr, ?_⟩
      rw [hr, attemptResult_mcase]
      exact monitor_accepts_round (t.mcase hc k) (hwf t k hs) hist

/-- **sound_exchState_peer.** What the monitor says when attempt `k`, answered with the state
generated for ANOTHER attempt `j`, sends a token request: if no earlier clause (1)–(4) applies, the clause
reported is `exchState`. -/
theorem sound_exchState_peer (hc : HConfig) (k j : Nat) (hj : j ≠ k) (t : TAttempt) (iss : Url)
    (hf : t.fetchV = .result (.gen j) iss) (o : Obs) (ht : hasTok o.events = true) :
    chkExchange (t.mcase hc k) o = some .exchState := by
  simp only [chkExchange, ht, TAttempt.mcase, hf, FetchV.answer_peer k j iss hj]
  simp

end OAuth
