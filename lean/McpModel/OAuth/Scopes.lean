import McpModel.OAuth.Model
/-!
E11 — the scopes of the authorization request (`Authorize`, auth/authorization_code.go:325-350,
`scopesFromChallenges`, `authutil.UnionScopes`, `authutil.ScopesFromToken`, `updateGrantedScopes`): the second
thing a handler carries from one `Authorize` call to the next (`grantedScopes`, per issuer).  Scopes do not
decide which URL is contacted or whether a token is installed (the flow model `authorize` ignores them); this
file models WHAT IS ASKED FOR: the `scope` parameter of the authorization URL, as a set.

`UnionScopes` collects the keys of a Go map: the order is unspecified, duplicates disappear.  The model keeps
lists and compares them as sets (the observation is sorted and de-duplicated on both sides).
Core Lean only (linked into the driver); theorems at the end.
-/
namespace OAuth

abbrev Scope := String

def offlineAccess : Scope := "offline_access"

/-- The part of the configuration the scope computation reads.  `filter` is ANY function (`ScopeFilter`). -/
structure ScopeCfg where
  filter : Option (List Scope → List Scope) := none
  refresh : Bool := false       -- RequestRefreshToken

/-- `Authorize`, before the step-up union: challenged scopes, else the resource's `scopes_supported`; the
client's filter; `offline_access` when refresh tokens are wanted and the authorization server advertises it. -/
def challengedScopes (c : ScopeCfg) (ch prm asm : List Scope) : List Scope :=
  let r := if ch.isEmpty && !prm.isEmpty then prm else ch
  let r := match c.filter with
    | some f => f r
    | none => r
  if c.refresh && asm.contains offlineAccess && !r.contains offlineAccess then r ++ [offlineAccess] else r

/-- `authutil.UnionScopes` (as a set). -/
def unionScopes (granted r : List Scope) : List Scope := granted ++ r

/-- The `scope` parameter of the authorization request. -/
def requestedScopes (c : ScopeCfg) (ch prm asm granted : List Scope) : List Scope :=
  unionScopes granted (challengedScopes c ch prm asm)

/-- `updateGrantedScopes`: what the token response says was granted (`scope` member present, possibly empty),
else what was requested. -/
def grantedAfter (tok : Option (List Scope)) (requested : List Scope) : List Scope := tok.getD requested

/-- `h.grantedScopes`, keyed by the issuer string of the metadata in use. -/
abbrev Granted := List (Url × List Scope)

def Granted.get (g : Granted) (issuer : Url) : List Scope := (g.lookup issuer).getD []

def Granted.set (g : Granted) (issuer : Url) (s : List Scope) : Granted := (issuer, s) :: g.filter fun p => p.1 != issuer

/-! ### Theorems -/

/-- **step_up_keeps_granted_scopes** (SEP-2350): every scope granted earlier by THIS issuer is asked for again,
whatever the challenge, the metadata, the filter. -/
theorem step_up_keeps_granted_scopes (c : ScopeCfg) (ch prm asm granted : List Scope) (s : Scope) (h : s ∈ granted) :
    s ∈ requestedScopes c ch prm asm granted := by
  simp [requestedScopes, unionScopes, h]

/-- **requested_scopes_origin**: a scope in the request was granted earlier by this issuer, or survived the
client's filter (applied to the challenged scopes, else the resource's supported scopes), or is `offline_access`
asked for because refresh tokens are wanted AND the authorization server advertises it. -/
theorem requested_scopes_origin (c : ScopeCfg) (ch prm asm granted : List Scope) (s : Scope)
    (h : s ∈ requestedScopes c ch prm asm granted) :
    s ∈ granted ∨
    s ∈ (match c.filter with | some f => f (if ch.isEmpty && !prm.isEmpty then prm else ch) | none => (if ch.isEmpty && !prm.isEmpty then prm else ch)) ∨
    (s = offlineAccess ∧ c.refresh = true ∧ offlineAccess ∈ asm) := by
  simp only [requestedScopes, unionScopes, challengedScopes, List.mem_append] at h
  rcases h with h | h
  · exact .inl h
  · generalize hr : (match c.filter with
      | some f => f (if (ch.isEmpty && !prm.isEmpty) = true then prm else ch)
      | none => (if (ch.isEmpty && !prm.isEmpty) = true then prm else ch)) = r at h ⊢
    by_cases hc : (c.refresh && asm.contains offlineAccess && !r.contains offlineAccess) = true
    · rw [if_pos hc] at h
      simp only [List.mem_append, List.mem_singleton] at h
      rcases h with h | h
      · exact .inr (.inl h)
      · simp only [Bool.and_eq_true, List.contains_iff_mem] at hc
        exact .inr (.inr ⟨h, hc.1.1, hc.1.2⟩)
    · rw [if_neg hc] at h
      exact .inr (.inl h)

/-- Without a filter: no scope is invented — each one comes from the challenge, the resource metadata (only when
the challenge names none), the issuer's earlier grants, or is the advertised `offline_access`. -/
theorem requested_scopes_origin_no_filter (refresh : Bool) (ch prm asm granted : List Scope) (s : Scope)
    (h : s ∈ requestedScopes { refresh := refresh } ch prm asm granted) :
    s ∈ granted ∨ s ∈ ch ∨ (ch = [] ∧ s ∈ prm) ∨ (s = offlineAccess ∧ refresh = true ∧ offlineAccess ∈ asm) := by
  rcases requested_scopes_origin _ ch prm asm granted s h with h | h | h
  · exact .inl h
  · simp only at h
    split at h
    · rename_i hc
      simp only [Bool.and_eq_true, List.isEmpty_iff] at hc
      exact .inr (.inr (.inl ⟨hc.1, h⟩))
    · exact .inr (.inl h)
  · exact .inr (.inr (.inr h))

theorem lookup_filter_ne (g : Granted) (A B : Url) (h : B ≠ A) :
    (g.filter fun p => p.1 != A).lookup B = g.lookup B := by
  induction g with
  | nil => rfl
  | cons p t ih =>
    obtain ⟨k, v⟩ := p
    by_cases hk : k = A
    · subst hk
      have : (B == k) = false := by simpa using h
      simp [List.filter_cons, List.lookup_cons, this, ih]
    · have : (k != A) = true := by simpa using hk
      simp only [List.filter_cons, this, if_true, List.lookup_cons, ih]

/-- **granted_scopes_bound_to_issuer**: recording what issuer `A` granted changes what is remembered for `A`
only; what another issuer `B` granted — and hence what a later request to `B` adds — is untouched. -/
theorem granted_scopes_bound_to_issuer (g : Granted) (A B : Url) (s : List Scope) (h : B ≠ A) :
    (g.set A s).get B = g.get B ∧ (g.set A s).get A = s := by
  constructor
  · have : (B == A) = false := by simpa using h
    simp only [Granted.get, Granted.set, List.lookup_cons, this, lookup_filter_ne g A B h]
  · simp [Granted.get, Granted.set, List.lookup_cons]

/-- Non-vacuity: a step-up round adds the challenged scope to what the issuer granted before. -/
example : requestedScopes {} ["files:write"] ["mcp:read"] [] ["mcp:read"] = ["mcp:read", "files:write"] := by decide

end OAuth
