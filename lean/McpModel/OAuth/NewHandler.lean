import McpModel.OAuth.Model
/-!
E11 — model of `auth.NewAuthorizationCodeHandler` (auth/authorization_code.go:182-240), `isNonRootHTTPSURL`,
`inferApplicationType` and `oauthex.ClientCredentials.Validate`: which configurations become a handler, and
with which effective redirect URL / application type.  The flow model (`authorize`, `CHandler`) starts from
a created handler (`HConfig`); this file is the step before.  Core Lean only (linked into the driver);
the theorems are at the end.

Strings are abstracted to what the code reads of them: a redirect URI is an identity (`Nat`) plus the class
`inferApplicationType` puts it in (`url.Parse` and `util.IsLoopback` are the harness's job, as for `Url`);
an application type is the string as configured.
-/
namespace OAuth

/-- What `inferApplicationType` reads of one redirect URI. -/
inductive RedirKind
  | unparsable        -- url.Parse fails
  | webLoopback       -- scheme http/https, loopback host
  | webRemote         -- scheme http/https, any other host
  | custom            -- any other scheme (incl. none)
deriving DecidableEq, Repr

structure Redirect where
  id : Nat
  kind : RedirKind
deriving DecidableEq, Repr

/-- `ApplicationType` strings. -/
inductive AppType
  | unset             -- ""
  | native
  | web
  | other (n : Nat)   -- any other string
deriving DecidableEq, Repr

/-- The loop of `inferApplicationType`: `none` = returned "" at an unparsable URI. -/
def inferLoop : List Redirect → Bool → Bool → Option (Bool × Bool)
  | [], n, w => some (n, w)
  | r :: rs, n, w =>
    match r.kind with
    | .unparsable => none
    | .webLoopback => inferLoop rs true w
    | .webRemote => inferLoop rs n true
    | .custom => inferLoop rs true w

/-- `inferApplicationType`. -/
def inferAppType (rs : List Redirect) : AppType :=
  match inferLoop rs false false with
  | none => .unset
  | some (true, true) => .unset
  | some (true, false) => .native
  | some (false, _) => .web

/-- `ClientIDMetadataDocumentConfig.URL` as `isNonRootHTTPSURL` reads it. -/
structure CimdRaw where
  parses : Bool
  https : Bool       -- pu.Scheme == "https"
  hasPath : Bool     -- pu.Path != ""
deriving DecidableEq, Repr

def CimdRaw.nonRootHttps (c : CimdRaw) : Bool := c.parses && c.https && c.hasPath

/-- `PreregisteredClient` as `Validate` reads it (there is one authentication method: the count is 0 or 1). -/
structure PreRaw where
  clientIdEmpty : Bool
  secretAuth : Option Bool     -- ClientSecretAuth set; `some true` = its ClientSecret is empty
  issuer : Url
deriving Repr

def PreRaw.valid (p : PreRaw) : Bool := !p.clientIdEmpty && p.secretAuth != some true

structure DcrRaw where
  metadataNil : Bool
  redirects : List Redirect
  appType : AppType
deriving Repr

structure RawConfig where
  isNil : Bool := false
  cimd : Option CimdRaw
  pre : Option PreRaw
  dcr : Option DcrRaw
  fetcher : Bool
  redirectURL : Option Nat      -- `none` = ""; `some id` = the string with that identity
deriving Repr

inductive NewErr
  | nilConfig | noRegistration | noFetcher | cimdUrl | preInvalid
  | dcrNoMetadata | dcrNoRedirects | redirectNotAllowed | appTypeConflict | noRedirect
deriving DecidableEq, Repr

/-- A created handler: the fixed configuration of the flow model, the effective `RedirectURL`, and the
effective `Metadata.ApplicationType` when dynamic registration is configured. -/
structure Created where
  cfg : HConfig
  redirect : Nat
  appType : Option AppType
deriving Repr

/-- The dynamic-registration block: effective redirect URL and application type. -/
def newDcr (d : DcrRaw) (redirectURL : Option Nat) : Except NewErr (Option Nat × AppType) :=
  if d.metadataNil then .error .dcrNoMetadata
  else match d.redirects with
    | [] => .error .dcrNoRedirects
    | r0 :: _ =>
      let rd : Except NewErr (Option Nat) :=
        match redirectURL with
        | none => .ok (some r0.id)
        | some u => if d.redirects.any (fun r => r.id == u) then .ok (some u) else .error .redirectNotAllowed
      match rd with
      | .error e => .error e
      | .ok rd =>
        let inferred := inferAppType d.redirects
        if d.appType == .unset then .ok (rd, inferred)
        else if d.appType != inferred then .error .appTypeConflict
        else .ok (rd, d.appType)

/-- `NewAuthorizationCodeHandler`, check by check in the order of the code. -/
def newHandler (c : RawConfig) : Except NewErr Created :=
  if c.isNil then .error .nilConfig
  else if c.cimd.isNone && c.pre.isNone && c.dcr.isNone then .error .noRegistration
  else if !c.fetcher then .error .noFetcher
  else if (match c.cimd with | some u => !u.nonRootHttps | none => false) then .error .cimdUrl
  else if (match c.pre with | some p => !p.valid | none => false) then .error .preInvalid
  else
    let hc : HConfig := { cimd := c.cimd.isSome, pre := c.pre.map (·.issuer), dcr := c.dcr.isSome }
    match c.dcr with
    | none =>
      match c.redirectURL with
      | none => .error .noRedirect
      | some u => .ok { cfg := hc, redirect := u, appType := none }
    | some d =>
      match newDcr d c.redirectURL with
      | .error e => .error e
      | .ok (none, _) => .error .noRedirect
      | .ok (some u, t) => .ok { cfg := hc, redirect := u, appType := some t }

/-! ### SPEC: what a usable configuration is (written from the documentation of the configuration type) -/

/-- At least one way to obtain client credentials, a fetcher, a non-root https client-id document URL,
valid pre-registered credentials, and — with dynamic registration — metadata with redirect URIs among which
the redirect URL is, and no declared application type contradicting the redirect URIs. -/
def RawConfig.usable (c : RawConfig) : Bool :=
  !c.isNil && (c.cimd.isSome || c.pre.isSome || c.dcr.isSome) && c.fetcher &&
  (match c.cimd with | some u => u.nonRootHttps | none => true) &&
  (match c.pre with | some p => p.valid | none => true) &&
  (match c.dcr with
   | none => c.redirectURL.isSome
   | some d => !d.metadataNil && !d.redirects.isEmpty &&
      (match c.redirectURL with | none => true | some u => d.redirects.any (fun r => r.id == u)) &&
      (d.appType == .unset || d.appType == inferAppType d.redirects))

/-! ### Theorems -/

theorem inferLoop_none_iff : ∀ (rs : List Redirect) (n w : Bool),
    inferLoop rs n w = none ↔ ∃ r ∈ rs, r.kind = .unparsable
  | [], n, w => by simp [inferLoop]
  | r :: rs, n, w => by
    simp only [inferLoop]
    cases hk : r.kind <;> simp [hk, inferLoop_none_iff rs]

theorem inferLoop_some : ∀ (rs : List Redirect) (n w n' w' : Bool), inferLoop rs n w = some (n', w') →
    n' = (n || rs.any fun r => r.kind = .webLoopback || r.kind = .custom) ∧ w' = (w || rs.any fun r => r.kind = .webRemote)
  | [], n, w, n', w', h => by simp [inferLoop] at h; simp [h.1, h.2]
  | r :: rs, n, w, n', w', h => by
    simp only [inferLoop] at h
    cases hk : r.kind <;> simp only [hk] at h
    · cases h
    · obtain ⟨h1, h2⟩ := inferLoop_some rs _ _ _ _ h
      simp [h1, h2, hk]
    · obtain ⟨h1, h2⟩ := inferLoop_some rs _ _ _ _ h
      simp [h1, h2, hk]
    · obtain ⟨h1, h2⟩ := inferLoop_some rs _ _ _ _ h
      simp [h1, h2, hk]

/-- **infer_native_iff**: the inferred type is `native` exactly when every URI parses, none is an http(s)
URI of a remote host, and at least one is a loopback or custom-scheme URI. -/
theorem infer_native_iff (rs : List Redirect) :
    inferAppType rs = .native ↔
      (∀ r ∈ rs, r.kind ≠ .unparsable) ∧ (∀ r ∈ rs, r.kind ≠ .webRemote) ∧ ∃ r ∈ rs, r.kind = .webLoopback ∨ r.kind = .custom := by
  unfold inferAppType
  cases h : inferLoop rs false false with
  | none =>
    have := (inferLoop_none_iff rs false false).1 h
    obtain ⟨r, hr, hk⟩ := this
    simp only [reduceCtorEq, false_iff, not_and]
    intro h1
    exact absurd hk (h1 r hr)
  | some p =>
    obtain ⟨n', w'⟩ := p
    have hnone : ∀ r ∈ rs, r.kind ≠ .unparsable := by
      intro r hr hk
      have := (inferLoop_none_iff rs false false).2 ⟨r, hr, hk⟩
      rw [h] at this; cases this
    obtain ⟨h1, h2⟩ := inferLoop_some rs _ _ _ _ h
    simp only [Bool.false_or] at h1 h2
    cases n' <;> cases w' <;> simp only [reduceCtorEq, false_iff, true_iff, not_and, not_exists]
    · intro _ _ r hr hk
      have : (rs.any fun r => decide (r.kind = .webLoopback) || decide (r.kind = .custom)) = true :=
        List.any_eq_true.2 ⟨r, hr, by rcases hk with hk | hk <;> simp [hk]⟩
      rw [← h1] at this; cases this
    · intro _ hw
      obtain ⟨r, hr, hk⟩ := List.any_eq_true.1 h2.symm
      exact absurd (by simpa using hk) (hw r hr)
    · refine ⟨hnone, ?_, ?_⟩
      · intro r hr hk
        have : (rs.any fun r => decide (r.kind = .webRemote)) = true := List.any_eq_true.2 ⟨r, hr, by simp [hk]⟩
        rw [← h2] at this; cases this
      · obtain ⟨r, hr, hk⟩ := List.any_eq_true.1 h1.symm
        exact ⟨r, hr, by simpa using hk⟩
    · intro _ hw
      obtain ⟨r, hr, hk⟩ := List.any_eq_true.1 h2.symm
      exact absurd (by simpa using hk) (hw r hr)

/-- The dynamic-registration block never leaves the redirect URL empty. -/
theorem newDcr_redirect (d : DcrRaw) (r : Option Nat) (t : AppType) : newDcr d r ≠ .ok (none, t) := by
  unfold newDcr
  repeat' split
  all_goals simp_all
  all_goals (split <;> simp_all)

/-- What the dynamic-registration block accepts. -/
theorem newDcr_ok_iff (d : DcrRaw) (r : Option Nat) :
    (∃ u t, newDcr d r = .ok (some u, t)) ↔
      (!d.metadataNil && !d.redirects.isEmpty &&
      (match r with | none => true | some u => d.redirects.any (fun r => r.id == u)) &&
      (d.appType == .unset || d.appType == inferAppType d.redirects)) = true := by
  unfold newDcr
  repeat' split
  all_goals simp_all
  all_goals (split <;> simp_all)


/-- **new_handler_ok_iff_usable**: `NewAuthorizationCodeHandler` returns a handler exactly for the usable
configurations — every unusable one is refused, whatever the order of its defects. -/
theorem new_handler_ok_iff_usable (c : RawConfig) : (∃ h, newHandler c = .ok h) ↔ c.usable = true := by
  obtain ⟨isNil, cimd, pre, dcr, fetcher, redirectURL⟩ := c
  cases dcr with
  | none =>
    simp only [newHandler, RawConfig.usable]
    repeat' split
    all_goals simp_all
  | some d =>
    have hd := newDcr_ok_iff d redirectURL
    have hn := newDcr_redirect d redirectURL
    simp only [newHandler, RawConfig.usable]
    cases hx : newDcr d redirectURL with
    | error e =>
      have : ¬ ∃ u t, newDcr d redirectURL = .ok (some u, t) := by rw [hx]; simp
      rw [hd] at this
      repeat' split
      all_goals simp_all
      all_goals (try assumption)
    | ok p =>
      obtain ⟨u, t⟩ := p
      cases u with
      | none => exact absurd hx (hn t)
      | some u =>
        have : ∃ u t, newDcr d redirectURL = .ok (some u, t) := ⟨u, t, hx⟩
        rw [hd] at this
        repeat' split
        all_goals simp_all
        all_goals (try assumption)

/-- **new_handler_cfg**: the handler's registration modes are exactly the configured ones (a mode that is not
configured is not in the handler the flow model starts from), and at least one is. -/
theorem new_handler_cfg (c : RawConfig) (h : Created) (hh : newHandler c = .ok h) :
    h.cfg = { cimd := c.cimd.isSome, pre := c.pre.map (·.issuer), dcr := c.dcr.isSome } ∧
    (h.cfg.cimd = true ∨ h.cfg.pre.isSome = true ∨ h.cfg.dcr = true) ∧
    (∀ u, c.cimd = some u → u.nonRootHttps = true) ∧ (∀ p, c.pre = some p → p.valid = true) ∧ c.fetcher = true := by
  obtain ⟨isNil, cimd, pre, dcr, fetcher, redirectURL⟩ := c
  simp only [newHandler] at hh
  repeat' split at hh
  all_goals simp_all
  all_goals (first | (obtain ⟨rfl⟩ := hh; simp_all) | (subst hh; simp_all) | skip)

/-- What the dynamic-registration block fixes: the redirect URL is the configured one if it is among the
redirect URIs, the FIRST redirect URI if none is configured; the application type is the inferred one. -/
theorem newDcr_ok (d : DcrRaw) (r : Option Nat) (u : Nat) (t : AppType) (h : newDcr d r = .ok (some u, t)) :
    (∃ x ∈ d.redirects, x.id = u) ∧ (∀ x, r = some x → u = x) ∧ (r = none → ∃ r0, d.redirects.head? = some r0 ∧ u = r0.id) ∧
    t = inferAppType d.redirects ∧ (d.appType = .unset ∨ d.appType = t) := by
  unfold newDcr at h
  repeat' split at h
  all_goals simp_all
  all_goals (try (split at h <;> simp_all))
  all_goals (try (obtain ⟨h1, h2⟩ := h; subst h1; subst h2; simp_all))

/-- **new_handler_redirect_and_type**: with dynamic registration configured, the effective redirect URL of a
created handler is one of the redirect URIs that will be registered, and the application type sent is the one
inferred from them (`infer_native_iff`). -/
theorem new_handler_redirect_and_type (c : RawConfig) (d : DcrRaw) (h : Created) (hd : c.dcr = some d)
    (hh : newHandler c = .ok h) :
    (∃ x ∈ d.redirects, x.id = h.redirect) ∧ h.appType = some (inferAppType d.redirects) ∧
    (∀ x, c.redirectURL = some x → h.redirect = x) := by
  obtain ⟨isNil, cimd, pre, dcr, fetcher, redirectURL⟩ := c
  simp only at hd
  subst hd
  simp only [newHandler] at hh
  repeat' split at hh
  all_goals (try cases hh)
  all_goals (rename_i hx; obtain ⟨h1, h2, _, h4, _⟩ := newDcr_ok _ _ _ _ hx; exact ⟨h1, by rw [h4], fun x hx' => h2 x hx'⟩)

/-! ### The `new` records: monitor and bridge -/

/-- The C15 clause on a `new` record: the IMPLEMENTATION created a handler from a configuration that is not
usable (no registration mode, no fetcher, a client-id document URL that is not non-root https, invalid
pre-registered credentials, a redirect URL outside the registered ones, a contradicting application type). -/
def chkNew (c : RawConfig) (implCreated : Bool) : Bool := implCreated && !c.usable

def createdOf (c : RawConfig) : Bool := match newHandler c with | .ok _ => true | .error _ => false

/-- No false alarm on the model. -/
theorem chkNew_model (c : RawConfig) : chkNew c (createdOf c) = false := by
  unfold chkNew createdOf
  cases h : newHandler c with
  | error e => simp
  | ok x => simp [(new_handler_ok_iff_usable c).1 ⟨x, h⟩]

/-- Soundness: the clause fires only on a created handler whose configuration the specification refuses. -/
theorem sound_chkNew (c : RawConfig) (b : Bool) (h : chkNew c b = true) : b = true ∧ c.usable = false := by
  unfold chkNew at h
  cases b <;> cases hu : c.usable <;> simp_all

end OAuth
