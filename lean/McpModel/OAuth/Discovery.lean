import McpModel.OAuth.Props
/-!
# Metadata discovery (E11, C15): every URL tried is derived from the resource / the issuer as the text says

The specification text: protected-resource metadata is looked for at the `resource_metadata` URL of the challenge
(if any), then at `/.well-known/oauth-protected-resource/<path>` and `/.well-known/oauth-protected-resource` of the MCP
server URL; authorization-server metadata at the two well-known locations of an issuer without a path, or the three
(insertion, insertion, appending) of an issuer with a path.  `prmLocations` / `asmLocations` say this with the
regenerated path literals (`Generated/OAuthGen.lean`: `prmWellKnown`, `asWellKnownNoPath`, `asWellKnownWithPath`, tied to
the model's operations by `wk_tables_match`; a changed literal or order in /repo re-opens these proofs).
-/
namespace OAuth
open Generated.OAuth

/-- SPEC: where protected-resource metadata may be looked for, in order. -/
def prmLocations (ch u : Url) : List Url :=
  (if ch != .empty then [ch] else []) ++ [u.derive .prmPath, u.derive .prmRoot]

/-- SPEC: where the metadata of issuer `I` may be looked for, in order. -/
def asmLocations (I : Url) : List Url :=
  if I.hasPath then [I.derive .asOAuthIns, I.derive .asOIDCIns, I.derive .asOIDCApp] else [I.derive .asOAuth, I.derive .asOIDC]

/-- The locations are the model's operations, whose literals are the regenerated tables. -/
theorem locations_use_regenerated_tables (ch u I : Url) :
    prmLocations ch u = (if ch != .empty then [ch] else []) ++ prmWk.map u.derive ∧
    asmLocations I = (if I.hasPath then asWkWithPath else asWkNoPath).map I.derive ∧
    prmWk.flatMap Wk.lits = prmWellKnown ∧ asWkNoPath.flatMap Wk.lits = asWellKnownNoPath ∧
    asWkWithPath.flatMap Wk.lits = asWellKnownWithPath := by
  refine ⟨rfl, ?_, wk_tables_match.1, wk_tables_match.2.1, wk_tables_match.2.2.1⟩
  unfold asmLocations
  split <;> rfl

theorem prmCandidates_urls (ch u : Url) : (prmCandidates ch u).map (·.1) = prmLocations ch u := by
  unfold prmCandidates prmLocations
  split <;> rfl

theorem asmCandidates_sub (I m : Url) (h : m ∈ asmCandidates I) : m ∈ asmLocations I := by
  unfold asmCandidates at h
  unfold asmLocations
  cases I with
  | bad n => cases h
  | empty => simpa [Url.hasPath, asWkNoPath] using h
  | «at» o s k ds =>
    simp only at h
    split <;> rename_i hp <;> simp only [hp, if_true, Bool.false_eq_true, if_false] at h <;> simpa [asWkWithPath, asWkNoPath] using h

/-- The protected-resource phase asks the candidates IN ORDER, each at most once, skipping those it refuses before
any request and stopping at the first usable document. -/
theorem discoverPrm_log_sublist (w : World) : ∀ (cs : List (Url × Url)) (i : Nat),
    (discoverPrm w i cs).2.Sublist (cs.map fun c => Event.get .prm c.1)
  | [], _ => by simp [discoverPrm]
  | c :: cs, i => by
    have ih := discoverPrm_log_sublist w cs (i + 1)
    have hf : (fetchPrm w i c).2 = [] ∨ (fetchPrm w i c).2 = [Event.get .prm c.1] := by
      unfold fetchPrm
      split
      · exact .inl rfl
      · split <;> exact .inr rfl
    simp only [discoverPrm, List.map_cons]
    cases h1 : (fetchPrm w i c).1 with
    | some d =>
      have : fetchPrm w i c = (some d, (fetchPrm w i c).2) := by rw [← h1]
      rw [this]
      simp only []
      rcases hf with hf | hf <;> rw [hf]
      · exact List.nil_sublist _
      · exact (List.Sublist.cons_cons _ (List.nil_sublist _))
    | none =>
      have : fetchPrm w i c = (none, (fetchPrm w i c).2) := by rw [← h1]
      rw [this]
      simp only []
      rcases hf with hf | hf <;> rw [hf]
      · exact List.Sublist.cons _ (by simpa using ih)
      · exact List.Sublist.cons_cons _ (by simpa using ih)

/-- The authorization-server phase asks the locations of the issuer IN ORDER, each at most once, going on only
after a 4xx answer. -/
theorem discoverAsm_log_sublist (w : World) (I : Url) : ∀ (ms : List Url) (i : Nat),
    (discoverAsm w I i ms).2.Sublist (ms.map fun m => Event.get .asm m)
  | [], _ => by simp [discoverAsm]
  | m :: ms, i => by
    have ih := discoverAsm_log_sublist w I ms (i + 1)
    have hf : (fetchAsm w i m I).2 = [] ∨ (fetchAsm w i m I).2 = [Event.get .asm m] := by
      unfold fetchAsm
      split
      · exact .inl rfl
      · split <;> exact .inr rfl
    simp only [discoverAsm, List.map_cons]
    cases h1 : (fetchAsm w i m I).1 with
    | next =>
      have : fetchAsm w i m I = (.next, (fetchAsm w i m I).2) := by rw [← h1]
      rw [this]
      simp only []
      rcases hf with hf | hf <;> rw [hf]
      · exact List.Sublist.cons _ (by simpa using ih)
      · exact List.Sublist.cons_cons _ (by simpa using ih)
    | err o =>
      have : fetchAsm w i m I = (.err o, (fetchAsm w i m I).2) := by rw [← h1]
      rw [this]
      simp only []
      rcases hf with hf | hf <;> rw [hf]
      · exact List.nil_sublist _
      · exact (List.Sublist.cons_cons _ (List.nil_sublist _))
    | found d =>
      have : fetchAsm w i m I = (.found d, (fetchAsm w i m I).2) := by rw [← h1]
      rw [this]
      simp only []
      rcases hf with hf | hf <;> rw [hf]
      · exact List.nil_sublist _
      · exact (List.Sublist.cons_cons _ (List.nil_sublist _))

/-- **every_metadata_get_is_derived**: every metadata GET of `Authorize` goes to the challenge's own
`resource_metadata` URL, to one of the two well-known protected-resource locations derived from the MCP server URL,
or to one of the well-known locations derived from THE authorization server the flow continues with (the issuer named
by the protected-resource metadata in use, or the 2025-03-26 fall-back root) — no other URL is ever tried. -/
theorem every_metadata_get_is_derived (cfg : Config) (inp : Input) (w : World) (k : Kind) (u : Url)
    (h : Event.get k u ∈ (authorize cfg inp w).log) :
    (k = .prm ∧ u ∈ prmLocations (rmFrom inp.challenges) cfg.serverUrl) ∨
    (k = .asm ∧ ∃ I, (authorize cfg inp w).issuer = some I ∧ u ∈ asmLocations I) := by
  have F := authorize_facts cfg inp w
  rcases F.mem _ h with ⟨c, hc, he, _⟩ | ⟨I, hI, m, hm, he, _⟩ | ⟨_, _, he, _⟩ | ⟨_, _, _, he, _⟩ | ⟨_, _, _, he, _⟩
  · injection he with hk hu
    refine .inl ⟨hk, ?_⟩
    rw [← prmCandidates_urls, hu]
    exact List.mem_map.2 ⟨c, hc, rfl⟩
  · injection he with hk hu
    exact .inr ⟨hk, I, hI, by rw [hu]; exact asmCandidates_sub I m hm⟩
  · cases he
  · cases he
  · cases he

end OAuth
