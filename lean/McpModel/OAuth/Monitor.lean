import McpModel.OAuth.Model
/-!
E11 — the typed core of the C15 monitor.

The driver (Driver.lean) parses a flow record into a `MCase` (handler configuration, 401/403
response, the scripted network of the round as lookup tables) and the implementation's observation
into an `Obs` (outcome class, token source changed?, the ordered request log), calls `monitor`, and
renders the `Clause` it returns (`Clause.text`).  Everything that decides WHICH clause of C15 is
violated lives here, on typed data, so that Bridge.lean (no false alarm on any behaviour of the
model) and Sound.lean (a clause fires only if the property clause fails on the observed trace) can
reason about it.  The string layer — token parser, renderer, clause texts — stays in Driver.lean.

The monitor reads only the specification predicates (`Url.httpsOrLoopback`, `Url.isScript`,
`issuersEqual`, `issCheck`), the scripted world of the round and what the implementation did in
earlier rounds of the case (`hist`) — never `authorize`.  Core Lean only (linked into the driver).
-/
namespace OAuth

/-! ### The scripted network of one round, as the record carries it -/

structure Tabs where
  prm : List (Url × Resp PrmDoc) := []
  asm : List (Url × Resp AsmDoc) := []
  tok : List (Url × List TokResp) := []
  reg : List (Url × RegResp) := []
  fetch : FetchAnswer := .err
  ntsFails : Bool := false     -- NewTokenSource is configured and returns an error in this round

/-- The world the model is run in: every answer is looked up by URL (an unlisted URL answers 4xx /
failure; a token endpoint answers its listed attempts, then fails). -/
def Tabs.world (t : Tabs) : World where
  prm := fun _ x => (t.prm.lookup x).getD .status4xx
  asm := fun _ x => (t.asm.lookup x).getD .status4xx
  reg := fun x => (t.reg.lookup x).getD .fail
  tok := fun i x => ((t.tok.lookup x).getD []).getD i .fail
  fetch := fun _ => t.fetch
  ntsFails := t.ntsFails

def isAsWk : Wk → Bool
  | .asOAuth | .asOIDC | .asOAuthIns | .asOIDCIns | .asOIDCApp => true
  | _ => false

/-- If `u` is an authorization-server metadata location, the issuer URL it was derived from. -/
def asBase : Url → Option Url
  | .at o s k ds =>
    match ds.getLast? with
    | some d => if isAsWk d then some (.at o s k ds.dropLast) else none
    | none => none
  | _ => none

/-- One `Authorize` round as the monitor sees it: configuration + request URL, response, network. -/
structure MCase where
  cfg : Config
  inp : Input
  tabs : Tabs

/-- The domain of the record language: `req.URL` is a parsed URL, and the `resource_metadata` URL of
the challenge is not spelled like an authorization-server metadata location (the harness's URL values
are injective only on such inputs: a GET is observed as a bare URL).  The driver answers `bad-op` to a
record outside it; Bridge.lean shows that both conditions are needed. -/
def MCase.wf (c : MCase) : Bool :=
  (match c.cfg.serverUrl with | .at _ _ _ _ => true | _ => false) && (asBase (rmFrom c.inp.challenges)).isNone

/-- The implementation's observation of one round. `out` is the outcome class as printed (`ok` both
for a completed flow and for the 403 skip). In `events` every GET is `.get .prm _`: the observation
does not say which kind of metadata a GET was for. -/
structure Obs where
  out : String
  inst : Bool
  events : List Event
deriving DecidableEq, Repr

/-! ### Clauses -/

inductive Clause
  | httpsEmptyToken                 -- requests_https_or_loopback (token request to the EMPTY token_endpoint)
  | https (e : Event)               -- requests_https_or_loopback
  | script (e : Event)              -- no_script_scheme_used
  | prmIssuer (I : Url)             -- prm_used_only_if_resource_matches (authorization server)
  | prmResource (r : Url)           -- prm_used_only_if_resource_matches (resource parameter)
  | asm                             -- asm_used_only_if_issuer_matches_and_pkce
  | exchFetcher | exchState | exchIss   -- exchange_requires_state_and_iss
  | preNone | preOther              -- preregistered_issuer_binding
  | dcrNotConfigured | dcrForeign | cimdNotConfigured   -- registered_credentials_bound_to_issuer
  | instOutcome (out : String) | instNoExchange          -- failed_check_installs_nothing
deriving DecidableEq, Repr

/-! ### Reading the observation -/

def firstSome {α β} (f : α → Option β) : List α → Option β
  | [] => none
  | a :: t => match f a with
    | some b => some b
    | none => firstSome f t

/-- The URLs of the GETs, in order. -/
def getsOf (evs : List Event) : List Url :=
  evs.filterMap fun e => match e with | .get _ u => some u | _ => none

inductive Role | authorization | registration | token
deriving DecidableEq, Repr

/-- The endpoints in use: what was handed to the fetcher, registered at, exchanged at. -/
def usedOf (evs : List Event) : List (Role × Url) :=
  evs.filterMap fun e => match e with
    | .fetch u _ _ => some (.authorization, u)
    | .register u => some (.registration, u)
    | .token u _ => some (.token, u)
    | _ => none

def roleOf (d : AsmDoc) : Role → Url
  | .authorization => d.authorizationEndpoint
  | .registration => d.registrationEndpoint
  | .token => d.tokenEndpoint

/-! ### Specification predicates on documents -/

/-- SPEC: an identifier a client may contact or show: not script-capable, https or loopback. -/
def safeUrl (u : Url) : Bool := !u.isScript && u.httpsOrLoopback

def specPrmOk (d : PrmDoc) (res : Url) : Bool :=
  d.resource == res && d.authServers.all fun a => a == .empty || safeUrl a

def specAsmOk (d : AsmDoc) (issuer : Url) : Bool :=
  issuersEqual d.issuer issuer && d.pkce &&
  ([d.authorizationEndpoint, d.tokenEndpoint, d.registrationEndpoint, d.introspectionEndpoint] ++ d.otherUrls).all
    (fun x => x == .empty || (!x.isScript && match x with | .bad _ => false | _ => true)) &&
  [d.authorizationEndpoint, d.tokenEndpoint, d.registrationEndpoint, d.introspectionEndpoint].all
    (fun x => x == .empty || x.httpsOrLoopback)

/-! ### The checks, one per clause group -/

/-- (1) every request goes to an https or loopback URL. -/
def chkHttps (o : Obs) : Option Clause :=
  firstSome (fun (e : Event) =>
      if e.url.httpsOrLoopback then none
      else match e with
        | .token .empty _ => some .httpsEmptyToken
        | _ => some (.https e)) (o.events.filter Event.isRequest)

/-- (2) no script-capable scheme requested or shown, unless the server URL itself has one / it is
the challenge's own URL. -/
def chkScript (c : MCase) (o : Obs) : Option Clause :=
  firstSome (fun (e : Event) =>
      if e.url.isScript && !c.cfg.serverUrl.isScript && !(e == .get .prm (rmFrom c.inp.challenges)) then
        some (.script e)
      else none) o.events

/-- The network serves at `m` a valid protected-resource document for `res` whose first authorization server is `I`. -/
def prmBacks (t : Tabs) (m res I : Url) : Bool :=
  match t.prm.lookup m with
  | some (.doc d) => specPrmOk d res && d.authServers.head? == some I
  | _ => false

/-- Is authorization server `I` the 2025-03-26 fall-back, or the first entry of a valid
protected-resource document that was fetched from a candidate location? -/
def prmJust (c : MCase) (gets : List Url) (I : Url) : Bool :=
  I == c.cfg.serverUrl.root || (prmCandidates (rmFrom c.inp.challenges) c.cfg.serverUrl).any fun x =>
    gets.contains x.1 && prmBacks c.tabs x.1 x.2 I

/-- (3) every authorization server whose metadata is requested is justified. -/
def chkPrmIssuer (c : MCase) (o : Obs) : Option Clause :=
  firstSome (fun I => if prmJust c (getsOf o.events) I then none else some (.prmIssuer I))
    ((getsOf o.events).filterMap asBase)

/-- (3r) the `resource` parameter is the server's. -/
def chkPrmResource (c : MCase) (o : Obs) : Option Clause :=
  firstSome (fun (e : Event) => match e with
      | .fetch _ _ r => if r == c.cfg.serverUrl || r == c.cfg.serverUrl.root then none else some (.prmResource r)
      | _ => none) o.events

/-- The authorization server asked last: the issuer of the LAST metadata location requested. -/
def lastIssuer (gets : List Url) : Option Url := (gets.filterMap asBase).getLast?

/-- The metadata locations of issuer `I` that were requested. -/
def mineOf (gets : List Url) (I : Url) : List Url := gets.filter fun m => asBase m == some I

/-- The network answers 4xx at `m` (an unlisted URL answers 4xx). -/
def is4xx (t : Tabs) (m : Url) : Bool :=
  match (t.asm.lookup m).getD .status4xx with
  | .status4xx => true
  | _ => false

/-- The network serves at `m` a metadata document that is valid for issuer `I`. -/
def docAt (t : Tabs) (I m : Url) : Option AsmDoc :=
  match t.asm.lookup m with
  | some (.doc d) => if specAsmOk d I then some d else none
  | _ => none

/-- Every metadata location of `I` was requested, and every requested location of `I` answered 4xx. -/
def all4xx (t : Tabs) (gets : List Url) (I : Url) : Bool :=
  (asmCandidates I).all (fun m => gets.contains m) && (mineOf gets I).all (is4xx t)

/-- The metadata the round may work with for issuer `I`: valid documents served at requested
locations of `I`, and the 2025-03-26 fall-back when every location was requested and answered 4xx. -/
def asmDocsFor (t : Tabs) (gets : List Url) (I : Url) : List AsmDoc :=
  (mineOf gets I).filterMap (docAt t I) ++ (if all4xx t gets I then [fallbackAsm I] else [])

def matchesUsed (evs : List Event) (d : AsmDoc) : Bool := (usedOf evs).all fun (r, x) => roleOf d r == x

/-- The metadata that can be "in use": backed for the issuer asked last, and agreeing with every
endpoint in use. -/
def effDocs (c : MCase) (o : Obs) : List AsmDoc :=
  match lastIssuer (getsOf o.events) with
  | none => []
  | some I => (asmDocsFor c.tabs (getsOf o.events) I).filter (matchesUsed o.events)

/-- (4) endpoints in use are backed by a valid metadata document of that issuer, or by the fall-back. -/
def chkAsm (c : MCase) (o : Obs) : Option Clause :=
  if (usedOf o.events).isEmpty || !(effDocs c o).isEmpty then none else some .asm

def hasTok (evs : List Event) : Bool := evs.any fun e => match e with | .token _ _ => true | _ => false

/-- (5) code exchanged only if the state matches and the RFC 9207 check passes. -/
def chkExchange (c : MCase) (o : Obs) : Option Clause :=
  if !hasTok o.events then none else
  match c.tabs.fetch with
  | .err => some .exchFetcher
  | .result sm iss =>
    if !sm then some .exchState
    else if (effDocs c o).isEmpty then none   -- already reported by (4)
    else if (effDocs c o).any fun d => issCheck iss d.issuer d.issParamSupported then none
    else some .exchIss

/-- (6) pre-registered credentials bound to an issuer. -/
def chkPre (c : MCase) (o : Obs) : Option Clause :=
  if !(o.events.any fun e => e.cred == .pre) then none else
  match c.cfg.pre with
  | none => some .preNone
  | some pi =>
    if pi == .empty || (effDocs c o).isEmpty then none
    else if (effDocs c o).any fun d => issuersEqual pi d.issuer then none
    else some .preOther

/-- The network answers a registration request at `u` with a client id. -/
def regCreated (t : Tabs) (u : Url) : Bool :=
  match t.reg.lookup u with
  | some (.created true _) => true
  | _ => false

/-- A registration request to `d`'s registration endpoint is in the log and was answered with a client id. -/
def registeredNow (c : MCase) (o : Obs) (d : AsmDoc) : Bool :=
  o.events.any fun e => match e with
    | .register u => u == d.registrationEndpoint && regCreated c.tabs u
    | _ => false

/-- (6b) dynamically registered credentials: configured, and presented only to a server that issued
them (`hist`: issuers at which EARLIER rounds of this handler registered, as observed). -/
def chkDcr (c : MCase) (hist : List Url) (o : Obs) : Option Clause :=
  if !(o.events.any fun e => e.cred == .dcr) then none
  else if !c.cfg.dcr then some .dcrNotConfigured
  else if (effDocs c o).isEmpty then none
  else if (effDocs c o).any fun d => registeredNow c o d || hist.any (issuersEqual · d.issuer) then none
  else some .dcrForeign

def chkCimd (c : MCase) (o : Obs) : Option Clause :=
  if (o.events.any fun e => e.cred == .cimd) && !c.cfg.cimd then some .cimdNotConfigured else none

/-- The network answers some token request at `u` with a token. -/
def tokGood (t : Tabs) (u : Url) : Bool := ((t.tok.lookup u).getD []).any fun r => r != .fail

def goodTok (c : MCase) (o : Obs) : Bool :=
  o.events.any fun e => match e with
    | .token u _ => tokGood c.tabs u
    | _ => false

/-- (7) no installation on failure. -/
def chkInstall (c : MCase) (o : Obs) : Option Clause :=
  if o.inst && !(o.out == "ok" || o.out == "post") then some (.instOutcome o.out)
  else if o.inst && !goodTok c o then some .instNoExchange
  else none

/-- The issuers at which THIS round registered dynamically (as observed). -/
def regdOf (c : MCase) (o : Obs) : List Url := ((effDocs c o).filter (registeredNow c o)).map (·.issuer)

/-- All clauses of one round, in the order they are reported. -/
def chkAll (c : MCase) (hist : List Url) (o : Obs) : Option Clause :=
  chkHttps o <|> chkScript c o <|> chkPrmIssuer c o <|> chkPrmResource c o <|> chkAsm c o <|> chkExchange c o <|>
  chkPre c o <|> chkDcr c hist o <|> chkCimd c o <|> chkInstall c o

/-- **The C15 monitor of one round**: the violated clause, and the issuers at which this round registered. -/
def monitor (c : MCase) (hist : List Url) (o : Obs) : Option Clause × List Url :=
  (chkAll c hist o, regdOf c o)

/-! ### Over a history: the monitor's state is `hist` -/

/-- The monitor state after a trace of rounds. -/
def histAfter : List Url → List (MCase × Obs) → List Url
  | h, [] => h
  | h, (c, o) :: tr => histAfter (h ++ regdOf c o) tr

/-- Run the monitor over a trace of rounds of one handler: the first round (index) at which a clause
is reported, with the clause. -/
def runMonFrom : List Url → Nat → List (MCase × Obs) → Option (Nat × Clause)
  | _, _, [] => none
  | h, i, (c, o) :: tr =>
    match chkAll c h o with
    | some cl => some (i, cl)
    | none => runMonFrom (h ++ regdOf c o) (i + 1) tr

def runMon (tr : List (MCase × Obs)) : Option (Nat × Clause) := runMonFrom [] 0 tr

/-! ### The challenge stream

`www` records are judged by plain equality with the Lean parser (Challenge.lean): no clause.  A
`wwwfuzz` record (arbitrary bytes) has one clause: the parser panicked. -/

/-- Observation of a `wwwfuzz` record that the model gives (and the property demands). -/
def fuzzOk : String := "nopanic"

/-- Does the "ParseWWWAuthenticate panics" clause fire on the implementation's observation? -/
def chkFuzz (impl : String) : Bool := impl != fuzzOk

/-! ### The model's observation -/

/-- The observation does not carry the kind of a GET. -/
def Event.erase : Event → Event
  | .get _ u => .get .prm u
  | e => e

/-- The outcome class as printed. -/
def outName : Outcome → String
  | .ok => "ok" | .skip => "ok" | .hdr => "hdr" | .noas => "noas"
  | .asmUrl => "asm-url" | .asmFetch => "asm-fetch" | .asmIssuer => "asm-issuer" | .asmPkce => "asm-pkce" | .asmField => "asm-field"
  | .preIss => "pre-iss" | .reg => "reg" | .noReg => "no-reg"
  | .fetch => "fetch" | .state => "state" | .issMissing => "iss-missing" | .issMismatch => "iss-mismatch" | .issUnexpected => "iss-unexpected"
  | .exch => "exch" | .tsErr => "ts-err" | .post => "post"

/-- What the monitor would be given if the implementation behaved exactly like the model. -/
def obsOf (r : Result) : Obs := { out := outName r.outcome, inst := r.installed, events := r.log.map Event.erase }

end OAuth
