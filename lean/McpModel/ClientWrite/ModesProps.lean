import McpModel.ClientWrite.Modes
import McpModel.ClientWrite.CloseProps
namespace ClientWrite

theorem norm_cancel (m : Modes) (s : Scn) : (s.norm m).cancel = s.cancel := rfl
theorem norm_default (s : Scn) : s.norm {} = s := by
  rcases s with ⟨k, au, ts, c, cl, a1, a2⟩
  cases a1 <;> cases a2 <;> simp [Scn.norm, normAns]

/-- C01 in every mode: once the caller's context has ended the request is not blocked. -/
theorem never_blocked_after_ctx_end_M (m : Modes) (s : Scn) (h : s.cancel = true) : (runM m s).end_ ≠ .blocked :=
  never_blocked_after_ctx_end (s.norm m) h

/-- the monitor (on the normalised scenario) accepts the model in every mode -/
theorem monitor_accepts_model_M (m : Modes) (s : Scn) : monitor (s.norm m) (obsOf (runM m s)) = none :=
  monitor_accepts_model (s.norm m)

theorem cmonitor_accepts_model_M (m : Modes) (s : Scn) : cmonitor (s.norm m) (cobsOf (s.norm m)) = none :=
  cmonitor_accepts_model (s.norm m)

theorem attempt_mismatch (e cn : Bool) (k : Kind) (a : Ans) (h : (attempt e cn k a).1 = .err .mismatch) :
    ∃ p, a = .ok p false := by
  cases a with
  | terr => simp [attempt] at h
  | hang => cases e <;> simp [attempt] at h
  | st c rpc =>
    simp only [attempt, afterResponse] at h
    split at h <;> (try split at h) <;> (try split at h) <;> simp at h
  | ok p sid =>
    cases sid
    · exact ⟨p, rfl⟩
    · cases p <;> cases k <;> cases cn <;> simp [attempt, afterResponse] at h

theorem normAns_no_foreign (m : Modes) (k : Kind) (a : Ans) (hm : m.sessionless = true) :
    ∀ p, normAns m k a ≠ .ok p false := by
  intro p
  cases a with
  | ok q sid => simp only [normAns, hm, Bool.or_true]; split <;> simp
  | _ => simp [normAns]

/-- Without a session there is no "mismatching session IDs": an id that comes with an answer is adopted. -/
theorem sessionless_no_mismatch (m : Modes) (s : Scn) (hm : m.sessionless = true) :
    (runM m s).end_ ≠ .err .mismatch := by
  intro h
  unfold runM at h
  rcases run_eq (s.norm m) with ⟨_, hr⟩ | ⟨_, ⟨_, _, hr⟩ | ⟨_, _, _, hr⟩ | ⟨_, _, _, hr⟩ | ⟨_, _, hr⟩ | ⟨_, hr⟩⟩ <;>
    rw [hr] at h <;> simp at h
  · obtain ⟨p, hp⟩ := attempt_mismatch _ _ _ _ h
    exact normAns_no_foreign m s.kind s.a2 hm p hp
  · obtain ⟨p, hp⟩ := attempt_mismatch _ _ _ _ h
    exact normAns_no_foreign m s.kind s.a1 hm p hp

/-- Without a session Close sends no DELETE, unless an answer brought a session id. -/
theorem sessionless_no_delete_unless_adopted (m : Modes) (s : Scn) (hm : m.sessionless = true)
    (h1 : foreignSid s.a1 = false) (h2 : foreignSid s.a2 = false) : deleteAtCloseM m s = false := by
  simp only [deleteAtCloseM, hm, if_true, adopted]
  split <;> simp [h1, h2]

/-- With a session the modes do not change Close: DELETE unless the server said that the session is gone. -/
theorem session_delete (m : Modes) (s : Scn) (hm : m.sessionless = false) :
    deleteAtCloseM m s = deleteAtClose (runM m s) := by
  simp [deleteAtCloseM, hm]

example : (runM { sessionless := true } { a1 := .ok .json false }).end_ = .result := by decide
example : (runM {} { a1 := .ok .json false }).end_ = .err .mismatch := by decide
example : (runM { strict := true } { kind := .notif, a1 := .ok .json true }).end_ = .err .unexpectedStatus := by decide
example : (runM { strict := true } { kind := .notif, a1 := .ok .accepted true }).end_ = .done := by decide

end ClientWrite
