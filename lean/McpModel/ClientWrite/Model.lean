import McpModel.Generated.ClientStreamGen
import McpModel.Generated.ClientWriteGen
/-!
E6b (C01, client side; C09 "session gone"): `streamableClientConn.Write` of mcp/streamable.go — one outgoing
message (a call or a notification) is POSTed; what the answer does to the message, to the caller and to the
connection.  Transliteration, one definition per piece of the code:

  `attempt`        doRequest (`c.client.Do`) followed by `afterResponse`
  `afterResponse`  checkResponse (JSON-RPC error body -> transient status -> 404 -> other non-2xx), the session id
                   check, the `forCall == nil` branch, the content-type switch and what handleJSON / handleSSE make
                   of a complete / broken body
  `run`            Write: first POST; 401/403 with an OAuthHandler -> Authorize -> (granted) ONE retry, bound to the
                   same caller context, carrying the new token; everything else goes to `afterResponse`

The tables (`transientStatuses`, `sessionGoneStatus`, `authStatuses`, `retryBoundToCaller`) are regenerated from
/repo.  Core Lean only (linked into drv_clientwrite).
-/
namespace ClientWrite

/-- the OAuthHandler of the transport: none, or what its `Authorize` does -/
inductive Auth
  | none   -- no handler
  | grant  -- returns nil; TokenSource then yields a token
  | deny   -- returns an error
  | block  -- blocks until the context it was given ends, returns that context's error
  deriving DecidableEq, Repr

/-- the handler's TokenSource, consulted by setMCPHeaders before every POST -/
inductive TS
  | fine          -- nil before the authorization, a token afterwards
  | tsErr         -- TokenSource itself fails
  | tokErr        -- the source's Token() fails (not invalid_grant)
  | invalidGrant  -- Token() fails with an oauth2.RetrieveError "invalid_grant" before the authorization: the request goes out without a header
  deriving DecidableEq, Repr

/-- what a 2xx answer carries -/
inductive Payload
  | json     -- application/json, the response to the call, complete
  | jsonBad  -- application/json, not a JSON-RPC message
  | jsonCut  -- application/json, the body ends with a read error
  | jsonHang -- application/json, the body never comes: the read returns when the request's context ends
  | sse      -- text/event-stream with the response event, complete
  | sseOpen  -- text/event-stream: a priming event with an id, then the stream stays open without events
  | sseCutH  -- text/event-stream: a priming event with an id, then a clean end; the resumption GETs are accepted, never answered
  | sseCutT  -- the same, but every resumption GET fails in transport (the retry budget runs out)
  | other    -- another content type
  | accepted -- 202 Accepted, no body, no content type (what a notification gets)
  | strictRefused -- (strict mode, after normalisation) a notification answered with a status other than 202/204
  deriving DecidableEq, Repr

/-- the peer's answer to one POST -/
inductive Ans
  | terr                          -- `client.Do` fails (nothing came back)
  | hang                          -- accepted, response headers never come: `Do` returns when the request's context ends
  | st (code : Nat) (rpc : Bool)  -- a status outside 2xx; rpc: the body is a JSON-RPC error response
  | ok (p : Payload) (sid : Bool) -- 200; sid: the Mcp-Session-Id is the session's (false: another one)
  deriving DecidableEq, Repr

inductive Kind
  | call | notif
  deriving DecidableEq, Repr

structure Scn where
  kind : Kind := .call
  auth : Auth := .none
  ts : TS := .fine
  /-- the caller's context ends while the message is still on its way (the harness: one virtual hour after the start) -/
  cancel : Bool := false
  /-- ClientSession.Close is called while the message is on its way (the harness: 500 ms / 5 s after the start) -/
  close : Bool := false
  a1 : Ans := .terr
  a2 : Ans := .terr
  deriving DecidableEq, Repr

inductive EKind
  | terr | ctx | auth | tokenSource | reconnect | unexpectedStatus | rpc | transient (c : Nat) | gone | status (c : Nat) | mismatch | ctype | body | decode
  deriving DecidableEq, Repr

/-- how the message ends for its sender -/
inductive End
  | result   -- the call returned the server's response
  | done     -- the notification was accepted
  | blocked  -- still blocked (nothing ended it)
  | err (k : EKind)
  deriving DecidableEq, Repr

/-- the connection afterwards: usable, or dead (`c.fail` and/or a write error that is not a rejection) -/
inductive Conn
  | usable | dead
  deriving DecidableEq, Repr

structure Out where
  posts : Nat
  auths : Nat
  /-- per POST: did it carry an Authorization header -/
  toks : List Bool
  end_ : End
  conn : Conn
  deriving DecidableEq, Repr

def isAuthStatus (c : Nat) : Bool := Generated.ClientWrite.authStatuses.contains c
def isTransient (c : Nat) : Bool := Generated.ClientStream.transientStatuses.contains c
def isGone (c : Nat) : Bool := c == Generated.ClientStream.sessionGoneStatus

/-- checkResponse and the rest of Write, for an answer that is a response -/
def afterResponse (cancel : Bool) (k : Kind) : Ans → End × Conn
  | .st c rpc =>
    if rpc then (.err .rpc, .usable)                          -- ErrRejected, carries the JSON-RPC error
    else if isTransient c then (.err (.transient c), .usable) -- ErrRejected
    else if isGone c then (.err .gone, .dead)                 -- ErrSessionMissing; c.fail
    else (.err (.status c), .dead)                            -- c.fail
  | .ok p sid =>
    if !sid then (.err .mismatch, .dead)                      -- "mismatching session IDs": a plain write error
    else if p == .strictRefused then (.err .unexpectedStatus, .dead)  -- strict: "unexpected status code … from non-call"
    else match k with
      | .notif => (.done, .usable)                            -- body closed; a status other than 202/204 is only logged (non-strict)
      | .call =>
        match p with
        | .json => (.result, .usable)                         -- handleJSON: read, decode, forward
        | .sse => (.result, .usable)                          -- handleSSE (model: ClientStream)
        | .jsonBad => (.err .decode, .dead)                   -- handleJSON: c.fail
        | .jsonCut => (.err .body, .dead)                     -- handleJSON: c.fail (the caller's context is live)
        | .jsonHang =>                                        -- Write has returned; the caller waits in Await(ctx);
          if cancel then (.err .ctx, .usable)                 -- handleJSON: `ctx.Err() != nil`: return, no c.fail
          else (.blocked, .usable)
        | .sseOpen =>                                         -- handleSSE/processStream waits for the next event
          if cancel then (.err .ctx, .usable) else (.blocked, .usable)
        | .sseCutH =>                                         -- handleSSE -> connectSSE: the GET is in flight for ever
          if cancel then (.err .ctx, .usable) else (.blocked, .usable)
        | .sseCutT => (.err .reconnect, .dead)                -- connectSSE: budget exhausted: c.fail("failed to reconnect")
        | .other => (.err .ctype, .dead)                      -- "unsupported content type"
        | .accepted => (.err .ctype, .dead)                   -- a call answered 202 without a body: unsupported content type ""
        | .strictRefused => (.err .unexpectedStatus, .dead)
  | .terr => (.err .terr, .usable)
  | .hang => (.blocked, .usable)

/-- the answer leaves a CALL waiting for a body / an event / a reconnection that does not come -/
def bodyWaits (k : Kind) : Ans → Bool
  | .ok .jsonHang true => k == .call
  | .ok .sseOpen true => k == .call
  | .ok .sseCutH true => k == .call
  | _ => false

/-- doRequest with a request bound to a context that ends iff `ends`; `cancel`: the caller's context ends -/
def attempt (ends cancel : Bool) (k : Kind) : Ans → End × Conn
  | .terr => (.err .terr, .usable)                            -- ErrRejected
  | .hang => if ends then (.err .ctx, .usable) else (.blocked, .usable)
  | a => afterResponse cancel k a

/-- the context the retried POST is bound to ends with the caller's iff the code binds it to the caller's -/
def retryEnds (s : Scn) : Bool := s.cancel && Generated.ClientWrite.retryBoundToCaller

/-- setMCPHeaders fails: the message is not sent (ErrRejected) -/
def tsFails (s : Scn) : Bool := s.auth != .none && (s.ts == .tsErr || s.ts == .tokErr)

/-- Write -/
def run (s : Scn) : Out :=
  if tsFails s then { posts := 0, auths := 0, toks := [], end_ := .err .tokenSource, conn := .usable } else
  match s.a1 with
  | .st c rpc =>
    if isAuthStatus c && s.auth != .none then
      match s.auth with
      | .deny => { posts := 1, auths := 1, toks := [false], end_ := .err .auth, conn := .usable }
      | .block =>
        -- Authorize(ctx): returns when the caller's context ends; then `ctx.Err() != nil`: c.fail (#882)
        if s.cancel then { posts := 1, auths := 1, toks := [false], end_ := .err .ctx, conn := .dead }
        else { posts := 1, auths := 1, toks := [false], end_ := .blocked, conn := .usable }
      | _ =>
        let r := attempt (retryEnds s) s.cancel s.kind s.a2
        { posts := 2, auths := 1, toks := [false, true], end_ := r.1, conn := r.2 }
    else
      let r := afterResponse s.cancel s.kind (.st c rpc)
      { posts := 1, auths := 0, toks := [false], end_ := r.1, conn := r.2 }
  | a =>
    let r := attempt s.cancel s.cancel s.kind a
    { posts := 1, auths := 0, toks := [false], end_ := r.1, conn := r.2 }

/-- Close: the session is deleted on the server (HTTP DELETE) unless the connection failed with ErrSessionMissing —
the server has already said that the session is gone -/
def deleteAtClose (r : Out) : Bool := r.end_ != .err .gone

/-- ClientSession.Close = jsonrpc2 Connection.Close: it refuses new calls at once and WAITS for the message that is on
its way (it cancels nothing); the transport is closed afterwards. It returns iff the message ends. -/
def closeReturns (r : Out) : Bool := r.end_ != .blocked

/-- the scenario hypothesis: a `st` answer carries a status outside 2xx -/
def ansOK : Ans → Bool
  | .st c _ => c < 200 || c ≥ 300
  | _ => true

def ScnOK (s : Scn) : Prop := ansOK s.a1 = true ∧ ansOK s.a2 = true
instance (s : Scn) : Decidable (ScnOK s) := by unfold ScnOK; infer_instance

end ClientWrite
