import McpModel.ClientWrite.Monitor
/-!
`connectStandaloneSSE` of mcp/streamable.go (called once the session is initialised): the opening of the standalone
stream — `connectSSE(initial)` (up to maxRetries+1 attempts, the first without delay) and what the first answer that
comes back does to the connection.  Transliteration + the property clauses + the bridge.
-/
namespace ClientWrite

/-- the peer's answer to the opening GET -/
inductive OAns
  | st (code : Nat) (sse : Bool)  -- a status; sse: the answer says Content-Type text/event-stream
  deriving DecidableEq, Repr

structure OScn where
  /-- MaxRetries after defaulting -/
  mr : Nat := 5
  /-- how many attempts fail in transport before an answer comes back -/
  fails : Nat := 0
  ans : OAns := .st 405 false
  /-- StreamableClientTransport.strict: a 4xx other than 405 is not tolerated -/
  strict : Bool := false
  deriving DecidableEq, Repr

structure OOut where
  gets : Nat
  conn : Conn
  /-- a stream is being read (handleSSE runs) -/
  stream : Bool
  deriving DecidableEq, Repr

/-- what connectStandaloneSSE makes of the first answer that comes back -/
def openAnswer (strict : Bool) : OAns → Conn × Bool
  | .st c sse =>
    if c == Generated.ClientWrite.standaloneNotOffered then (.usable, false)  -- "the server does not offer an SSE stream"
    else if !sse then (.usable, false)                                        -- #736: not an event stream: logged
    else if decide (400 ≤ c) && decide (c < 500) && !strict then (.usable, false)  -- #393,#610 (non-strict): like 405
    else if decide (200 ≤ c) && decide (c < 300) then (.usable, true)        -- checkResponse passes: handleSSE
    else (.dead, false)                                                       -- checkResponse fails: c.fail

/-- connectStandaloneSSE -/
def openStandalone (s : OScn) : OOut :=
  if s.fails ≥ s.mr + 1 then { gets := s.mr + 1, conn := .dead, stream := false }  -- every attempt failed: c.fail
  else
    let r := openAnswer s.strict s.ans
    { gets := s.fails + 1, conn := r.1, stream := r.2 }

/-! ### the property -/

/-- what the harness saw: GETs until the probe, and a call made afterwards -/
structure OObs where
  gets : Nat
  probe : ProbeObs
  deriving DecidableEq, Repr

/-- the server declines the standalone stream: 405, an answer that is no event stream, or a 4xx -/
def declined (strict : Bool) : OAns → Bool
  | .st c sse => c == Generated.ClientWrite.standaloneNotOffered || !sse || (decide (400 ≤ c) && decide (c < 500) && !strict)

/-- C09 (bounded retries): the opening is attempted at most maxRetries+1 times, and not again after an answer -/
def POBound (s : OScn) (o : OObs) : Prop := o.gets ≤ s.mr + 1 ∧ (s.fails < s.mr + 1 → o.gets ≤ s.fails + 1)
/-- C01 (the connection breaks only for a reason): a server that declines the standalone stream, after transport
failures within the budget, does not cost the session its connection -/
def PODeclined (s : OScn) (o : OObs) : Prop := (s.fails < s.mr + 1 ∧ declined s.strict s.ans = true) → o.probe ≠ .err
/-- C09 (an error instead of silence): when every attempt failed the connection is failed, later calls get an error -/
def POExhausted (s : OScn) (o : OObs) : Prop := s.fails ≥ s.mr + 1 → o.probe ≠ .ok

instance (s : OScn) (o : OObs) : Decidable (POBound s o) := by unfold POBound; infer_instance
instance (s : OScn) (o : OObs) : Decidable (PODeclined s o) := by unfold PODeclined; infer_instance
instance (s : OScn) (o : OObs) : Decidable (POExhausted s o) := by unfold POExhausted; infer_instance

inductive OClause
  | bound | declined | exhausted
  deriving DecidableEq, Repr

def omonitor (s : OScn) (o : OObs) : Option OClause :=
  if ¬ POBound s o then some .bound
  else if ¬ PODeclined s o then some .declined
  else if ¬ POExhausted s o then some .exhausted
  else none

def oobsOf (r : OOut) : OObs := { gets := r.gets, probe := match r.conn with | .usable => .ok | .dead => .err }

end ClientWrite
