import McpModel.ClientWrite.Monitor
/-!
ClientSession.Close while a message is on its way (a POST in flight, a JSON body / an event stream pending, a
reconnection waiting or in flight, an authorization running).  As built (jsonrpc2 Connection.Close): Close refuses new
calls at once, cancels nothing and WAITS for the message; the transport is closed afterwards.  The property clauses on
what the harness saw, the monitor, and what the model says.  Core Lean only.
-/
namespace ClientWrite

inductive CProbe
  | closed | ok | err | skipped
  deriving DecidableEq, Repr

/-- what the harness saw of a case in which Close was called -/
structure CObs where
  at1m : Bool      -- Close had returned one virtual minute after it was called
  final : Bool     -- Close had returned at the end (two virtual hours)
  leak : Bool      -- goroutines remained blocked for ever (the bubble could not exit)
  end_ : EndObs    -- how the message ended
  probe : CProbe   -- a call started after Close (made once the message had ended)
  deriving DecidableEq, Repr

/-- Close returns once the message that was on its way has ended -/
def PCReturns (_ : Scn) (o : CObs) : Prop := o.end_ ≠ .hang → o.final = true
/-- C01: once the caller's context has ended nothing keeps Close (or the caller) waiting -/
def PCCtx (s : Scn) (o : CObs) : Prop := s.cancel = true → (o.final = true ∧ o.end_ ≠ .hang)
/-- C01: a call started after Close fails at once with an error that identifies the connection as closed -/
def PCLate (_ : Scn) (o : CObs) : Prop := o.probe ≠ .ok ∧ o.probe ≠ .err
/-- C01+C09: no goroutine of the client remains -/
def PCLeak (_ : Scn) (o : CObs) : Prop := o.leak = false

instance (s : Scn) (o : CObs) : Decidable (PCReturns s o) := by unfold PCReturns; infer_instance
instance (s : Scn) (o : CObs) : Decidable (PCCtx s o) := by unfold PCCtx; infer_instance
instance (s : Scn) (o : CObs) : Decidable (PCLate s o) := by unfold PCLate; infer_instance
instance (s : Scn) (o : CObs) : Decidable (PCLeak s o) := by unfold PCLeak; infer_instance

def CSpec (s : Scn) (o : CObs) : Prop := PCReturns s o ∧ PCCtx s o ∧ PCLate s o ∧ PCLeak s o

inductive CClause
  | returns | ctx | late | leak
  deriving DecidableEq, Repr

def cmonitor (s : Scn) (o : CObs) : Option CClause :=
  if ¬ PCReturns s o then some .returns
  else if ¬ PCCtx s o then some .ctx
  else if ¬ PCLate s o then some .late
  else if ¬ PCLeak s o then some .leak
  else none

/-- what the harness would see of the model -/
def cobsOf (s : Scn) : CObs :=
  let r := run s
  { at1m := closeReturns (run { s with cancel := false }),
    final := closeReturns r,
    leak := false,
    end_ := (obsOf r).end_,
    probe := if closeReturns r then .closed else .skipped }

end ClientWrite
