import McpModel.Base.Proto
import McpModel.ClientWrite.Monitor
import McpModel.ClientWrite.Open
import McpModel.ClientWrite.Close
import McpModel.ClientWrite.Modes
/-!
Driver for the `write` stream of E6 (C01; go/harness/mcp/zz_verif_clientwrite_test.go): one case = one message sent
through the real ClientSession over the real StreamableClientTransport.

  reset
  wscn [proto=new] [strict=1] kind=<call|notif> auth=<none|grant|deny|block> [ts=<fine|tserr|tokerr|invalidgrant>] cancel=<0|1> a1=<ans> a2=<ans>   obs ok
       ans: terr | hang | st<code>[r] (r: JSON-RPC error body) | ok:<json|jsonbad|jsoncut|jsonhang|sse|other>:<s|x> (x: foreign session id)
  posts                                        obs n=<POSTs of the message> tok=<0/1 per POST> auth=<Authorize calls>
  end                                          obs result | done | err:<kind> | hang
  probe                                        obs ok | err | skipped
  closed  (close=w|f: Close called 500 ms / 5 s after the start)   obs at1m=<returned|blocked> final=<..> leak=<none|leak>
  close                                        obs delete=<DELETE requests made by Close>

The opening of the standalone stream (connectStandaloneSSE; model `ClientWrite.openStandalone`, monitor `omonitor`):

  reset
  oscn mr=<MaxRetries field> fails=<n> ans=st<code>[e] [strict=1]      obs ok      (e: under Content-Type text/event-stream)
  open                                                      obs gets=<GETs made>
  probe                                                     obs ok | err
  oclose                                                    obs <returned|blocked> leak=<none|leak>

`posts`, `end`, `probe` are compared with the model (`ClientWrite.run`); the C01 monitor (`ClientWrite.monitor`, typed,
proved in Props.lean) judges the implementation's observation at `probe`, when the observation is complete.
-/
namespace ClientWrite
open Proto

def dropS (s : String) (n : Nat) : String := String.ofList (s.toList.drop n)

def kv (toks : List String) (k : String) : Option String :=
  (toks.find? (fun t => t.startsWith (k ++ "="))).map (fun t => dropS t (k.length + 1))

def parsePayload : String → Option Payload
  | "json" => some .json | "jsonbad" => some .jsonBad | "jsoncut" => some .jsonCut | "jsonhang" => some .jsonHang | "sse" => some .sse
  | "accepted" => some .accepted
  | "sseopen" => some .sseOpen | "ssecuth" => some .sseCutH | "ssecutt" => some .sseCutT
  | "other" => some .other | _ => none

def parseAns (s : String) : Option Ans :=
  if s = "terr" then some .terr
  else if s = "hang" then some .hang
  else if s.startsWith "st" then
    let r := s.endsWith "r"
    let d := if r then String.ofList ((dropS s 2).toList.dropLast) else dropS s 2
    d.toNat?.map (fun c => .st c r)
  else match s.splitOn ":" with
    | ["ok", p, "s"] => (parsePayload p).map (fun p => .ok p true)
    | ["ok", p, "x"] => (parsePayload p).map (fun p => .ok p false)
    | _ => none

def parseAuth : String → Option Auth
  | "none" => some .none | "grant" => some .grant | "deny" => some .deny | "block" => some .block | _ => none

def parseTS : String → Option TS
  | "fine" => some .fine | "tserr" => some .tsErr | "tokerr" => some .tokErr | "invalidgrant" => some .invalidGrant | _ => none

def showEKind : EKind → String
  | .unexpectedStatus => "unexpected-status" | .tokenSource => "token-source" | .reconnect => "reconnect" | .terr => "terr" | .ctx => "ctx" | .auth => "auth" | .rpc => "rpc" | .transient c => s!"st{c}" | .gone => "session-missing"
  | .status c => s!"st{c}" | .mismatch => "mismatch" | .ctype => "ctype" | .body => "body" | .decode => "decode"

def showEnd : End → String
  | .result => "result" | .done => "done" | .blocked => "hang" | .err k => "err:" ++ showEKind k

def showBits (l : List Bool) : String := String.ofList (l.map (fun b => if b then '1' else '0'))

def showPosts (r : Out) : String := s!"n={r.posts} tok={showBits r.toks} auth={r.auths}"

def showProbe : ProbeObs → String
  | .ok => "ok" | .err => "err" | .skipped => "skipped"

def parseEndObs (s : String) : Option EndObs :=
  if s = "result" then some .result else if s = "done" then some .done else if s = "hang" then some .hang
  else if s.startsWith "err:" then some .err else none

def parseProbe : String → Option ProbeObs
  | "ok" => some .ok | "err" => some .err | "skipped" => some .skipped | _ => none

def Clause.text : Clause → String
  | .sent => "C01: the message was not POSTed exactly once (not at all only when the token source fails; a second POST only after a 401/403 and a granted authorization; a third never)"
  | .auth => "C01: the OAuth handler was asked to authorize more than once for one message, or without a 401/403 (#882: no re-prompt for a request already abandoned)"
  | .ctx => "C01: the request stayed blocked after the caller's context had ended"
  | .pending => "C01: the request stays blocked although nothing is pending (every POST answered, every body delivered, no authorization running)"
  | .own => "C01: the request completed successfully although the server's response to it never came back"
  | .notLost => "C01: the server's response came back (2xx, complete, the session's id) but the request did not complete with it"
  | .keeps => "C01: a per-message rejection (or a completed request) left the connection unusable: the next call failed"
  | .gone => "C01+C09: the server answered that the session is gone (404) but a later call on the session succeeded"

def OClause.text : OClause → String
  | .bound => "C09: bounded_fruitless_retries: the opening of the standalone stream made more than maxRetries+1 attempts, or another one after an answer"
  | .declined => "C01: the server declined the standalone stream (405, no event stream, a 4xx) and the session lost its connection: the next call failed"
  | .exhausted => "C09: every attempt to open the standalone stream failed but the connection was not failed: a later call succeeded"

def parseOAns (s : String) : Option OAns :=
  if !s.startsWith "st" then none else
  let e := s.endsWith "e"
  let d := if e then String.ofList ((dropS s 2).toList.dropLast) else dropS s 2
  d.toNat?.map (fun c => .st c e)

def CClause.text : CClause → String
  | .returns => "C01: Close did not return although the message that was on its way had ended"
  | .ctx => "C01: the caller's context had ended but Close (or the caller) stayed blocked"
  | .late => "C01: a call started after Close did not fail at once with the closed-connection error"
  | .leak => "C01+C09: goroutines of the client remain blocked for ever after Close (the bubble cannot exit)"

def showB (b : Bool) : String := if b then "returned" else "blocked"

structure DState where
  raw : Option Scn := none      -- the scenario as scripted; `scn` is its normalisation under `modes`
  modes : Modes := {}
  cat1m : Bool := false
  cfinal : Bool := false
  cleak : Bool := false
  oscn : Option OScn := none
  gets : Nat := 0
  scn : Option Scn := none
  posts : Nat := 0
  auths : Nat := 0
  end_ : Option EndObs := none

def engine : Engine DState where
  init := {}
  step d toks impl :=
    match toks with
    | ["reset"] => ({}, { model := "ok" })
    | "wscn" :: rest =>
      let r : Option (Scn × Modes) := do
        let sessionless ← match kv rest "proto" with | none => some false | some "new" => some true | some _ => none
        let strict ← match kv rest "strict" with | none => some false | some "1" => some true | some _ => none
        let kind ← match kv rest "kind" with | some "call" => some Kind.call | some "notif" => some Kind.notif | _ => none
        let auth ← (kv rest "auth").bind parseAuth
        let ts ← match kv rest "ts" with | none => some TS.fine | some t => parseTS t
        -- bg=posthang: another call of the session is in flight meanwhile; the calls of a session share nothing in the model
        match kv rest "bg" with | none => pure () | some "posthang" => pure () | some _ => none
        let close ← match kv rest "close" with | none => some false | some "w" => some true | some "f" => some true | some _ => none
        let cancel ← match kv rest "cancel" with | some "0" => some false | some "1" => some true | _ => none
        let a1 ← (kv rest "a1").bind parseAns
        let a2 ← (kv rest "a2").bind parseAns
        let s : Scn := { kind := kind, auth := auth, ts := ts, cancel := cancel, close := close, a1 := a1, a2 := a2 }
        if decide (ScnOK s) then some (s, { sessionless := sessionless, strict := strict }) else none
      match r with
      | some (s, m) => ({ scn := some (s.norm m), raw := some s, modes := m }, { model := "ok" })
      | none => ({}, { model := "bad-scn" })
    | "oscn" :: rest =>
      let r : Option OScn := do
        let mr ← (kv rest "mr").bind String.toInt?
        let fails ← (kv rest "fails").bind String.toNat?
        let ans ← (kv rest "ans").bind parseOAns
        let strict ← match kv rest "strict" with | none => some false | some "1" => some true | some _ => none
        some { mr := Generated.ClientStream.maxRetriesOf mr, fails := fails, ans := ans, strict := strict }
      match r with
      | some s => ({ oscn := some s }, { model := "ok" })
      | none => ({}, { model := "bad-scn" })
    | ["oclose"] =>
      -- Close with no call pending, while the standalone stream (if any) is being read: it returns, nothing remains
      match d.oscn with
      | none => (d, { model := "bad-op" })
      | some _ =>
        let v := if impl.startsWith "blocked" then some "C01: Close did not return although no call was pending (the standalone stream was being read or had been declined)"
                 else if impl != "returned leak=none" then some (CClause.text .leak) else none
        (d, { model := "returned leak=none", violated := v })
    | ["open"] =>
      match d.oscn with
      | none => (d, { model := "bad-op" })
      | some s =>
        let n := ((kv (words impl) "gets").bind String.toNat?).getD 0
        ({ d with gets := n }, { model := s!"gets={(openStandalone s).gets}" })
    | ["posts"] =>
      match d.scn with
      | none => (d, { model := "bad-op" })
      | some s =>
        let n := ((kv (words impl) "n").bind String.toNat?).getD 0
        let a := ((kv (words impl) "auth").bind String.toNat?).getD 0
        ({ d with posts := n, auths := a }, { model := showPosts (run s) })
    | ["end"] =>
      match d.scn with
      | none => (d, { model := "bad-op" })
      | some s => ({ d with end_ := parseEndObs impl }, { model := showEnd (run s).end_ })
    | ["closed"] =>
      -- a Close scenario: obs at1m=<returned|blocked> final=<returned|blocked> leak=<none|leak>
      match d.scn with
      | none => (d, { model := "bad-op" })
      | some s =>
        let w := words impl
        let m := cobsOf s
        ({ d with cat1m := kv w "at1m" == some "returned", cfinal := kv w "final" == some "returned", cleak := kv w "leak" != some "none" },
         { model := s!"at1m={showB m.at1m} final={showB m.final} leak=none",
           -- the leak clause is judged at once (a bubble that cannot exit gives no later records)
           violated := if kv w "leak" != some "none" then some (CClause.text .leak) else none })
    | ["close"] =>
      match d.scn with
      | none => (d, { model := "bad-op" })
      | some _ =>
        match d.raw with
        | some raw => (d, { model := if deleteAtCloseM d.modes raw then "delete=1" else "delete=0" })
        | none => (d, { model := "bad-op" })
    | ["probe"] =>
      if let some os := d.oscn then
        match parseProbe impl with
        | some p =>
          (d, { model := showProbe (oobsOf (openStandalone os)).probe,
                violated := (omonitor os { gets := d.gets, probe := p }).map OClause.text })
        | none => (d, { model := "bad-op" })
      else
      if (d.scn.map (·.close)) == some true then
        match d.scn, d.end_ with
        | some s, some e =>
          let p : CProbe := if impl = "closed" then .closed else if impl = "ok" then .ok else if impl = "skipped" then .skipped else .err
          let m := cobsOf s
          (d, { model := (match m.probe with | .closed => "closed" | .ok => "ok" | .err => "err" | .skipped => "skipped"),
                violated := (cmonitor s { at1m := d.cat1m, final := d.cfinal, leak := d.cleak, end_ := e, probe := p }).map CClause.text })
        | _, _ => (d, { model := "bad-op" })
      else
      match d.scn, d.end_, parseProbe impl with
      | some s, some e, some p =>
        let o : Obs := { posts := d.posts, auths := d.auths, end_ := e, probe := p }
        (d, { model := showProbe (obsOf (run s)).probe, violated := (monitor s o).map Clause.text })
      | _, _, _ => (d, { model := "bad-op" })
    | _ => (d, { model := "bad-op" })

end ClientWrite

def main : IO Unit := Proto.run ClientWrite.engine
