import McpModel.ClientWrite.Close
/-!
The modes of the streamable client that change what an answer means to `Write`, as a normalisation of the scenario:

* sessionless (protocol 2026-07-28 after `server/discover`: the client holds no session id): an answer that carries a
  session id is not a mismatch — the id is adopted (`hadSessionID == ""`); Close sends a DELETE only if one was adopted;
* strict (`StreamableClientTransport.strict`): a notification answered with a status other than 202/204 is an error.

`runM m s = run (s.norm m)`: every theorem about `run` and `monitor` holds of the normalised scenario.  Core Lean only.
-/
namespace ClientWrite

structure Modes where
  sessionless : Bool := false
  strict : Bool := false
  deriving DecidableEq, Repr

def normAns (m : Modes) (k : Kind) : Ans → Ans
  | .ok p sid =>
    let sid' := sid || m.sessionless
    if sid' && m.strict && k == .notif && p != .accepted then .ok .strictRefused true else .ok p sid'
  | a => a

def Scn.norm (m : Modes) (s : Scn) : Scn := { s with a1 := normAns m s.kind s.a1, a2 := normAns m s.kind s.a2 }

def runM (m : Modes) (s : Scn) : Out := run (s.norm m)

/-- the answer carries a session id that is not the session's -/
def foreignSid : Ans → Bool
  | .ok _ false => true
  | _ => false

/-- sessionless: the last answer that reached Write's session-id check carried an id: it is adopted -/
def adopted (m : Modes) (s : Scn) : Bool :=
  match (runM m s).posts with
  | 2 => foreignSid s.a2
  | 1 => foreignSid s.a1
  | _ => false

/-- Close: with a session, DELETE unless the server said that the session is gone; without one, only if an id was adopted -/
def deleteAtCloseM (m : Modes) (s : Scn) : Bool :=
  if m.sessionless then adopted m s else deleteAtClose (runM m s)

end ClientWrite
