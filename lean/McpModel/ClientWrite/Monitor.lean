import McpModel.ClientWrite.Model
/-!
The C01 monitor of the client Write path: the property, written as decidable statements about what the
IMPLEMENTATION did (`Obs`) in a scenario (`Scn`, the ground truth: what the scripted peer answered, what the
OAuth handler did, whether the caller's context ended).  Nothing here refers to `run`.
-/
namespace ClientWrite

inductive EndObs
  | result | done | hang | err
  deriving DecidableEq, Repr

inductive ProbeObs
  | ok | err | skipped
  deriving DecidableEq, Repr

/-- what the harness saw -/
structure Obs where
  posts : Nat            -- POSTs carrying the message under test
  auths : Nat            -- calls of OAuthHandler.Authorize during the whole case
  end_ : EndObs          -- how the request method returned (hang: not at all, until the session was closed)
  probe : ProbeObs       -- a call made afterwards on the same session
  deriving DecidableEq, Repr

/-- the answer to the last POST that was made -/
def lastAns (s : Scn) (posts : Nat) : Ans := if posts ≥ 2 then s.a2 else s.a1

/-- the first answer asks for authorization and there is a handler to give it -/
def authAsked (s : Scn) : Bool :=
  match s.a1 with
  | .st c _ => isAuthStatus c && s.auth != .none
  | _ => false

/-- the authorization flow decided the outcome: the first answer asked for authorization and no retry was made -/
def firstOnly (s : Scn) (posts : Nat) : Bool := decide (posts ≤ 1) && authAsked s

/-- nothing was sent -/
def unsent (posts : Nat) : Bool := decide (posts = 0)

/-- this answer is the server's real response to the call / the acceptance of the notification -/
def acceptedAns (k : Kind) : Ans → Bool
  | .ok p true =>
    p != .strictRefused &&
    (match k with
     | .notif => true
     | .call => p == .json || p == .sse)
  | _ => false

/-- this answer refuses the message on its own (the error wraps ErrRejected; nothing is wrong with the connection):
a transport error, the caller's context ending while the POST is in flight, a JSON-RPC error body, a transient status -/
def rejectionAns (cancel : Bool) (k : Kind) : Ans → Bool
  | .terr => true
  | .hang => cancel
  | .st c rpc => rpc || isTransient c
  | .ok p true => cancel && bodyWaits k (.ok p true)   -- abandoned by the caller while the body / the stream was pending
  | .ok _ _ => false

/-- this answer leaves the request waiting: no headers, or (a call) a JSON body that does not come -/
def waitingAns (k : Kind) : Ans → Bool
  | .hang => true
  | a => bodyWaits k a

/-- this answer says that the session is gone -/
def goneAns : Ans → Bool
  | .st c false => isGone c && !isTransient c
  | _ => false

/-- the server's real response to the call / the acceptance of the notification came back on the last POST -/
def accepted (s : Scn) (posts : Nat) : Bool := !unsent posts && !firstOnly s posts && acceptedAns s.kind (lastAns s posts)

/-- something is still pending and nothing has ended it: the last POST is unanswered, or the authorization runs -/
def pending (s : Scn) (posts : Nat) : Bool :=
  !unsent posts && !s.cancel && (if firstOnly s posts then s.auth == .block else waitingAns s.kind (lastAns s posts))

/-- the message was refused on its own: authorization denied, or a rejecting answer to the last POST -/
def rejection (s : Scn) (posts : Nat) : Bool :=
  if unsent posts then tsFails s
  else if firstOnly s posts then s.auth == .deny else rejectionAns s.cancel s.kind (lastAns s posts)

/-- the server said that the session is gone -/
def sessionGone (s : Scn) (posts : Nat) : Bool := !unsent posts && !firstOnly s posts && goneAns (lastAns s posts)

/-! ### the property, clause by clause -/

/-- "…or with an error once the caller's context ends": never blocked after that -/
def PCtx (s : Scn) (o : Obs) : Prop := s.cancel = true → o.end_ ≠ .hang
/-- blocked only while something is pending -/
def PPending (s : Scn) (o : Obs) : Prop := o.end_ = .hang → pending s o.posts = true
/-- "with the peer's response to that very request": a result only if the server's response came back -/
def POwn (s : Scn) (o : Obs) : Prop := (o.end_ = .result ∨ o.end_ = .done) → accepted s o.posts = true
/-- …and then the request completes with it (result for a call, nil for a notification) -/
def PNotLost (s : Scn) (o : Obs) : Prop :=
  accepted s o.posts = true → (o.end_ = if s.kind = .call then .result else .done)
/-- the message is sent once — not at all exactly when the token source fails; once more only after a 401/403 and a
granted authorization -/
def PSent (s : Scn) (o : Obs) : Prop :=
  (o.posts = 0 ↔ tsFails s = true) ∧ o.posts ≤ 2 ∧ (o.posts = 2 → authAsked s = true ∧ s.auth = .grant)
/-- the user is asked to authorize at most once, and only for a 401/403 (#882: not again for a request already abandoned) -/
def PAuth (s : Scn) (o : Obs) : Prop := o.auths ≤ 1 ∧ (o.auths = 1 → authAsked s = true)
/-- a per-message rejection, or a completed request, leaves the connection usable -/
def PKeeps (s : Scn) (o : Obs) : Prop :=
  (rejection s o.posts = true ∨ accepted s o.posts = true) → o.probe ≠ .err
/-- once the server has said that the session is gone, later calls fail -/
def PGone (s : Scn) (o : Obs) : Prop := sessionGone s o.posts = true → o.probe ≠ .ok

instance (s : Scn) (o : Obs) : Decidable (PCtx s o) := by unfold PCtx; infer_instance
instance (s : Scn) (o : Obs) : Decidable (PPending s o) := by unfold PPending; infer_instance
instance (s : Scn) (o : Obs) : Decidable (POwn s o) := by unfold POwn; infer_instance
instance (s : Scn) (o : Obs) : Decidable (PNotLost s o) := by unfold PNotLost; infer_instance
instance (s : Scn) (o : Obs) : Decidable (PSent s o) := by unfold PSent; infer_instance
instance (s : Scn) (o : Obs) : Decidable (PAuth s o) := by unfold PAuth; infer_instance
instance (s : Scn) (o : Obs) : Decidable (PKeeps s o) := by unfold PKeeps; infer_instance
instance (s : Scn) (o : Obs) : Decidable (PGone s o) := by unfold PGone; infer_instance

/-- the property of one Write -/
def Spec (s : Scn) (o : Obs) : Prop :=
  PSent s o ∧ PAuth s o ∧ PCtx s o ∧ PPending s o ∧ POwn s o ∧ PNotLost s o ∧ PKeeps s o ∧ PGone s o

inductive Clause
  | sent | auth | ctx | pending | own | notLost | keeps | gone
  deriving DecidableEq, Repr

/-- the first clause of the property that the observation violates -/
def monitor (s : Scn) (o : Obs) : Option Clause :=
  if ¬ PSent s o then some .sent
  else if ¬ PAuth s o then some .auth
  else if ¬ PCtx s o then some .ctx
  else if ¬ PPending s o then some .pending
  else if ¬ POwn s o then some .own
  else if ¬ PNotLost s o then some .notLost
  else if ¬ PKeeps s o then some .keeps
  else if ¬ PGone s o then some .gone
  else none

/-- what the harness would see of the model's run -/
def obsOf (r : Out) : Obs :=
  { posts := r.posts, auths := r.auths,
    end_ := (match r.end_ with | .result => .result | .done => .done | .blocked => .hang | .err _ => .err),
    probe := (match r.end_, r.conn with
      | .blocked, _ => .skipped
      | _, .usable => .ok
      | _, .dead => .err) }

end ClientWrite
