import McpModel.ClientWrite.Open
namespace ClientWrite

/-- The opening of the standalone stream makes at most maxRetries+1 attempts, and none after an answer. -/
theorem open_attempts_bounded (s : OScn) : POBound s (oobsOf (openStandalone s)) := by
  unfold POBound openStandalone oobsOf
  split <;> simp <;> omega

/-- A server that declines the standalone stream (405, an answer that is no event stream, a 4xx) leaves the connection
usable, however many transport failures (within the budget) came before. -/
theorem declined_keeps_connection (s : OScn) (h : s.fails < s.mr + 1) (hd : declined s.strict s.ans = true) :
    (openStandalone s).conn = .usable ∧ (openStandalone s).stream = false := by
  have : ¬ s.fails ≥ s.mr + 1 := by omega
  rcases hs : s.ans with ⟨c, sse⟩
  simp only [openStandalone, this, if_false, openAnswer, hs]
  simp only [declined, hs, Bool.or_eq_true, Bool.and_eq_true, Bool.not_eq_true'] at hd
  rcases hd with (h1 | h2) | h3
  · simp [h1]
  · split <;> simp [h2]
  · split
    · simp
    · split
      · simp
      · simp [h3]

/-- In strict mode a 4xx other than 405 under an event-stream content type fails the connection. -/
theorem strict_4xx_fails_connection (s : OScn) (h : s.fails < s.mr + 1) (hs : s.strict = true) (c : Nat)
    (ha : s.ans = .st c true) (h4 : 400 ≤ c ∧ c < 500) (hn : c ≠ Generated.ClientWrite.standaloneNotOffered) :
    (openStandalone s).conn = .dead := by
  have : ¬ s.fails ≥ s.mr + 1 := by omega
  have h2 : ¬ (200 ≤ c ∧ c < 300) := by omega
  simp [openStandalone, this, openAnswer, ha, hs, hn, h2]

/-- When every attempt of the opening failed the connection is failed. -/
theorem exhausted_fails_connection (s : OScn) (h : s.fails ≥ s.mr + 1) : (openStandalone s).conn = .dead := by
  simp [openStandalone, h]

/-- A stream is read only after a 2xx answer that says it is an event stream. -/
theorem stream_only_after_2xx_sse (s : OScn) (h : (openStandalone s).stream = true) :
    ∃ c, s.ans = .st c true ∧ 200 ≤ c ∧ c < 300 ∧ (openStandalone s).conn = .usable := by
  rcases hs : s.ans with ⟨c, sse⟩
  by_cases hf : s.fails ≥ s.mr + 1
  · simp [openStandalone, hf] at h
  · simp only [openStandalone, hf, if_false, openAnswer, hs] at h ⊢
    by_cases h1 : (c == Generated.ClientWrite.standaloneNotOffered) = true
    · simp [h1] at h
    · cases sse
      · simp [h1] at h
      · by_cases h3 : (decide (400 ≤ c) && decide (c < 500) && !s.strict) = true
        · simp [h1, h3] at h
        · by_cases h4 : (decide (200 ≤ c) && decide (c < 300)) = true
          · refine ⟨c, rfl, ?_, ?_, ?_⟩ <;> simp_all
            split <;> rfl
          · simp [h1, h3, h4] at h

theorem omonitor_none_iff (s : OScn) (o : OObs) :
    omonitor s o = none ↔ (POBound s o ∧ PODeclined s o ∧ POExhausted s o) := by
  unfold omonitor
  by_cases h1 : POBound s o <;> by_cases h2 : PODeclined s o <;> by_cases h3 : POExhausted s o <;> simp [h1, h2, h3]

theorem omonitor_accepts_model (s : OScn) : omonitor s (oobsOf (openStandalone s)) = none := by
  rw [omonitor_none_iff]
  refine ⟨open_attempts_bounded s, ?_, ?_⟩
  · intro ⟨h, hd⟩ hx
    have := (declined_keeps_connection s h hd).1
    simp [oobsOf, this] at hx
  · intro h hx
    have := exhausted_fails_connection s h
    simp [oobsOf, this] at hx

theorem sound_obound (s : OScn) (o : OObs) (h : omonitor s o = some .bound) : ¬ POBound s o := by
  unfold omonitor at h; repeat (split at h <;> try simp_all)
theorem sound_odeclined (s : OScn) (o : OObs) (h : omonitor s o = some .declined) :
    s.fails < s.mr + 1 ∧ declined s.strict s.ans = true ∧ o.probe = .err := by
  have : ¬ PODeclined s o := by unfold omonitor at h; repeat (split at h <;> try simp_all)
  simpa [PODeclined, and_assoc] using this
theorem sound_oexhausted (s : OScn) (o : OObs) (h : omonitor s o = some .exhausted) :
    s.fails ≥ s.mr + 1 ∧ o.probe = .ok := by
  have : ¬ POExhausted s o := by unfold omonitor at h; repeat (split at h <;> try simp_all)
  simpa [POExhausted] using this

example : openStandalone { ans := .st 500 false } = { gets := 1, conn := .usable, stream := false } := by decide
example : openStandalone { ans := .st 500 true } = { gets := 1, conn := .dead, stream := false } := by decide
example : openStandalone { ans := .st 404 true, fails := 2 } = { gets := 3, conn := .usable, stream := false } := by decide
example : openStandalone { fails := 6 } = { gets := 6, conn := .dead, stream := false } := by decide

end ClientWrite
