import McpModel.ClientWrite.Close
import McpModel.ClientWrite.Props
namespace ClientWrite

/-- Close cancels nothing: how the message ends, how often it is POSTed, what happens to the connection do not depend
on Close being called meanwhile. -/
theorem close_cancels_nothing (s : Scn) (b : Bool) : run { s with close := b } = run s := by
  simp [run, tsFails, retryEnds]

/-- Close returns exactly when the message that was on its way ends. -/
theorem close_returns_iff_message_ends (s : Scn) : closeReturns (run s) = true ↔ (run s).end_ ≠ .blocked := by
  simp [closeReturns]

/-- **C01.** Once the caller's context has ended, Close returns — whatever the peer answered or did not answer,
whatever state the message was in (POST in flight, body or stream pending, reconnection, authorization). -/
theorem close_returns_once_ctx_ended (s : Scn) (h : s.cancel = true) : closeReturns (run s) = true := by
  simpa [closeReturns] using never_blocked_after_ctx_end s h

/-- Close stays blocked only while the message is really pending and its caller's context is live. -/
theorem close_blocked_only_if_pending (s : Scn) (h : closeReturns (run s) = false) :
    pending s (run s).posts = true := by
  have : (run s).end_ = .blocked := by simpa [closeReturns] using h
  exact blocked_only_if_pending s ((obs_hang _).2 this)

theorem cmonitor_none_iff (s : Scn) (o : CObs) : cmonitor s o = none ↔ CSpec s o := by
  unfold cmonitor CSpec
  by_cases h1 : PCReturns s o <;> by_cases h2 : PCCtx s o <;> by_cases h3 : PCLate s o <;> by_cases h4 : PCLeak s o <;>
    simp [h1, h2, h3, h4]

/-- the monitor accepts what the model says of every scenario with a Close -/
theorem cmonitor_accepts_model (s : Scn) : cmonitor s (cobsOf s) = none := by
  rw [cmonitor_none_iff]
  refine ⟨?_, ?_, ?_, ?_⟩
  · intro h
    simp only [cobsOf] at h ⊢
    rw [close_returns_iff_message_ends]
    intro hb; exact h ((obs_hang _).2 hb)
  · intro hc
    simp only [cobsOf]
    refine ⟨close_returns_once_ctx_ended s hc, ?_⟩
    intro hx; exact never_blocked_after_ctx_end s hc ((obs_hang _).1 hx)
  · simp only [PCLate, cobsOf]; split <;> simp
  · simp [PCLeak, cobsOf]

theorem sound_creturns (s : Scn) (o : CObs) (h : cmonitor s o = some .returns) : o.end_ ≠ .hang ∧ o.final = false := by
  have : ¬ PCReturns s o := by unfold cmonitor at h; repeat (split at h <;> try simp_all)
  simpa [PCReturns] using this
theorem sound_cctx (s : Scn) (o : CObs) (h : cmonitor s o = some .ctx) : ¬ PCCtx s o := by
  unfold cmonitor at h; repeat (split at h <;> try simp_all)
theorem sound_clate (s : Scn) (o : CObs) (h : cmonitor s o = some .late) : o.probe = .ok ∨ o.probe = .err := by
  have : ¬ PCLate s o := by unfold cmonitor at h; repeat (split at h <;> try simp_all)
  unfold PCLate at this
  cases hp : o.probe <;> simp_all
theorem sound_cleak (s : Scn) (o : CObs) (h : cmonitor s o = some .leak) : o.leak = true := by
  have : ¬ PCLeak s o := by unfold cmonitor at h; repeat (split at h <;> try simp_all)
  simpa [PCLeak] using this

/-- the reconnection GET of the call's stream is accepted and never answered, the caller has no deadline: Close waits for ever (as built) -/
example : (cobsOf { close := true, a1 := .ok .sseCutH true }).final = false := by decide
/-- the same with a caller whose context ends: Close returns, the call fails with the context's error -/
example : cobsOf { close := true, cancel := true, a1 := .ok .sseCutH true } =
    { at1m := false, final := true, leak := false, end_ := .err, probe := .closed } := by decide

end ClientWrite
