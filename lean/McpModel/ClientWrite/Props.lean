import McpModel.ClientWrite.Monitor
/-!
Theorems about the model of `streamableClientConn.Write` (Model.lean) and the bridge to the monitor (Monitor.lean).
All statements are over ALL scenarios (every handler behaviour, every pair of answers with every status code,
both message kinds, caller's context ending or not).
-/
namespace ClientWrite

theorem retry_bound_to_caller : Generated.ClientWrite.retryBoundToCaller = true := by decide

/-- Write, branch by branch -/
theorem run_eq (s : Scn) :
    (tsFails s = true ∧
      run s = { posts := 0, auths := 0, toks := [], end_ := .err .tokenSource, conn := .usable }) ∨
    tsFails s = false ∧ (
    (authAsked s = true ∧ s.auth = .deny ∧
      run s = { posts := 1, auths := 1, toks := [false], end_ := .err .auth, conn := .usable }) ∨
    (authAsked s = true ∧ s.auth = .block ∧ s.cancel = true ∧
      run s = { posts := 1, auths := 1, toks := [false], end_ := .err .ctx, conn := .dead }) ∨
    (authAsked s = true ∧ s.auth = .block ∧ s.cancel = false ∧
      run s = { posts := 1, auths := 1, toks := [false], end_ := .blocked, conn := .usable }) ∨
    (authAsked s = true ∧ s.auth = .grant ∧
      run s = { posts := 2, auths := 1, toks := [false, true],
                end_ := (attempt (retryEnds s) s.cancel s.kind s.a2).1, conn := (attempt (retryEnds s) s.cancel s.kind s.a2).2 }) ∨
    (authAsked s = false ∧
      run s = { posts := 1, auths := 0, toks := [false],
                end_ := (attempt s.cancel s.cancel s.kind s.a1).1, conn := (attempt s.cancel s.cancel s.kind s.a1).2 })) := by
  by_cases hT : tsFails s = true
  · left; simp [run, hT]
  · right
    simp only [Bool.not_eq_true] at hT
    refine ⟨hT, ?_⟩
    rcases s with ⟨kind, auth, ts, cancel, close, a1, a2⟩
    cases a1 with
    | terr => simp [run, hT, authAsked]
    | hang => simp [run, hT, authAsked]
    | ok p sid => simp [run, hT, authAsked]
    | st c rpc =>
      by_cases hA : isAuthStatus c = true
      · cases auth <;> cases cancel <;> simp [run, hT, authAsked, hA, attempt]
      · cases auth <;> simp [run, hT, authAsked, hA, attempt]

/-- what one POST makes of an answer -/
theorem attempt_spec (e cn : Bool) (k : Kind) (a : Ans) :
    ((attempt e cn k a).1 = .blocked ↔ ((a = .hang ∧ e = false) ∨ (bodyWaits k a = true ∧ cn = false))) ∧
    (((attempt e cn k a).1 = .result ∨ (attempt e cn k a).1 = .done) ↔ acceptedAns k a = true) ∧
    ((attempt e cn k a).1 = .result → k = .call) ∧ ((attempt e cn k a).1 = .done → k = .notif) ∧
    ((rejectionAns cn k a = true ∧ (cn = true → e = true)) → (attempt e cn k a).2 = .usable) ∧
    (acceptedAns k a = true → (attempt e cn k a).2 = .usable) ∧
    (goneAns a = true → (attempt e cn k a).2 = .dead ∧ (attempt e cn k a).1 = .err .gone) := by
  cases a with
  | terr => simp [attempt, acceptedAns, rejectionAns, goneAns, bodyWaits]
  | hang => cases e <;> cases cn <;> simp [attempt, acceptedAns, rejectionAns, goneAns, bodyWaits]
  | st c rpc =>
    cases rpc <;> by_cases hT : isTransient c = true <;> by_cases hG : isGone c = true <;>
      simp [attempt, afterResponse, acceptedAns, rejectionAns, goneAns, hT, hG, bodyWaits]
  | ok p sid =>
    cases p <;> cases sid <;> cases k <;> cases cn <;> simp [attempt, afterResponse, acceptedAns, rejectionAns, goneAns, bodyWaits]

/-- **C01, client Write path.** Once the caller's context has ended the request is not blocked any more: whatever the
peer answered (or did not answer) to the first POST and to the retried one, whatever the OAuth handler and its token
source did. -/
theorem never_blocked_after_ctx_end (s : Scn) (h : s.cancel = true) : (run s).end_ ≠ .blocked := by
  have hb := retry_bound_to_caller
  rcases run_eq s with ⟨_, hr⟩ | ⟨_, ⟨_, _, hr⟩ | ⟨_, _, _, hr⟩ | ⟨_, _, hc, hr⟩ | ⟨_, _, hr⟩ | ⟨_, hr⟩⟩ <;> rw [hr] <;> simp
  · simp [h] at hc
  · intro hx
    have := ((attempt_spec (retryEnds s) s.cancel s.kind s.a2).1).1 hx
    simp [retryEnds, h, hb] at this
  · intro hx
    have := ((attempt_spec s.cancel s.cancel s.kind s.a1).1).1 hx
    simp [h] at this

/-! ### what the harness sees of a run -/

theorem obs_hang (r : Out) : (obsOf r).end_ = .hang ↔ r.end_ = .blocked := by
  cases h : r.end_ <;> simp [obsOf, h]
theorem obs_result (r : Out) : (obsOf r).end_ = .result ↔ r.end_ = .result := by
  cases h : r.end_ <;> simp [obsOf, h]
theorem obs_done (r : Out) : (obsOf r).end_ = .done ↔ r.end_ = .done := by
  cases h : r.end_ <;> simp [obsOf, h]
theorem obs_probe_err (r : Out) : (obsOf r).probe = .err ↔ (r.end_ ≠ .blocked ∧ r.conn = .dead) := by
  cases h : r.end_ <;> cases h2 : r.conn <;> simp [obsOf, h, h2]
theorem obs_probe_ok (r : Out) : (obsOf r).probe = .ok ↔ (r.end_ ≠ .blocked ∧ r.conn = .usable) := by
  cases h : r.end_ <;> cases h2 : r.conn <;> simp [obsOf, h, h2]
theorem obs_posts (r : Out) : (obsOf r).posts = r.posts := rfl
theorem obs_auths (r : Out) : (obsOf r).auths = r.auths := rfl

/-! ### the model has the property, clause by clause -/

/-- The message is POSTed once — not at all exactly when the handler's token source fails; a second time only after
a 401/403 for which the handler granted authorization, and then exactly once more, carrying the token. -/
theorem sent_once_retry_only_after_grant (s : Scn) :
    PSent s (obsOf (run s)) ∧ ((run s).posts = 2 → (run s).toks = [false, true]) := by
  rcases run_eq s with ⟨h1, hr⟩ | ⟨hT, ⟨h1, h2, hr⟩ | ⟨h1, h2, _, hr⟩ | ⟨h1, h2, _, hr⟩ | ⟨h1, h2, hr⟩ | ⟨h1, hr⟩⟩ <;>
    simp_all [PSent, obs_posts]

/-- The handler is asked at most once per message, and only for a 401/403. -/
theorem authorize_at_most_once (s : Scn) : PAuth s (obsOf (run s)) := by
  rcases run_eq s with ⟨h1, hr⟩ | ⟨hT, ⟨h1, h2, hr⟩ | ⟨h1, h2, _, hr⟩ | ⟨h1, h2, _, hr⟩ | ⟨h1, h2, hr⟩ | ⟨h1, hr⟩⟩ <;>
    simp [PAuth, obs_auths, hr, h1]

theorem ctx_model (s : Scn) : PCtx s (obsOf (run s)) := by
  intro h hx
  exact never_blocked_after_ctx_end s h ((obs_hang _).1 hx)

/-- A request stays blocked only while something is really pending — its last POST has not been answered, the JSON
body of the answer does not come, or the authorization flow has not returned — and the caller's context is live. -/
theorem blocked_only_if_pending (s : Scn) : PPending s (obsOf (run s)) := by
  have hb := retry_bound_to_caller
  intro hx
  have hx := (obs_hang _).1 hx
  rcases run_eq s with ⟨h1, hr⟩ | ⟨hT, ⟨h1, h2, hr⟩ | ⟨h1, h2, _, hr⟩ | ⟨h1, h2, hc, hr⟩ | ⟨h1, h2, hr⟩ | ⟨h1, hr⟩⟩ <;>
    rw [hr] at hx <;> simp only [obs_posts, hr] <;> simp at hx
  · simp [pending, unsent, firstOnly, h1, h2, hc]
  · have := ((attempt_spec (retryEnds s) s.cancel s.kind s.a2).1).1 hx
    rcases this with ⟨ha, he⟩ | ⟨hw, hc⟩
    · simp [retryEnds, hb] at he
      simp [pending, unsent, firstOnly, lastAns, ha, he, waitingAns]
    · cases ha : s.a2 <;> simp_all [pending, unsent, firstOnly, lastAns, waitingAns]
  · have := ((attempt_spec s.cancel s.cancel s.kind s.a1).1).1 hx
    rcases this with ⟨ha, he⟩ | ⟨hw, hc⟩
    · simp [pending, unsent, firstOnly, lastAns, ha, he, h1, waitingAns]
    · cases ha : s.a1 <;> simp_all [pending, unsent, firstOnly, lastAns, waitingAns]

/-- The request completes with a result exactly when the server's real response to it came back on the last POST
(a call: a complete JSON or SSE response under the session's id; a notification: its acceptance). -/
theorem result_iff_accepted (s : Scn) :
    (((run s).end_ = .result ∨ (run s).end_ = .done) ↔ accepted s (run s).posts = true) ∧
    ((run s).end_ = .result → s.kind = .call) ∧ ((run s).end_ = .done → s.kind = .notif) := by
  rcases run_eq s with ⟨h1, hr⟩ | ⟨hT, ⟨h1, h2, hr⟩ | ⟨h1, h2, _, hr⟩ | ⟨h1, h2, _, hr⟩ | ⟨h1, h2, hr⟩ | ⟨h1, hr⟩⟩ <;> rw [hr] <;>
    simp only [accepted, unsent, firstOnly, lastAns, h1]
  · simp
  · simp
  · simp
  · simp
  · have := attempt_spec (retryEnds s) s.cancel s.kind s.a2
    simpa using ⟨this.2.1, this.2.2.1, this.2.2.2.1⟩
  · have := attempt_spec s.cancel s.cancel s.kind s.a1
    simpa using ⟨this.2.1, this.2.2.1, this.2.2.2.1⟩

theorem own_model (s : Scn) : POwn s (obsOf (run s)) := by
  intro h
  rw [obs_result, obs_done] at h
  exact (result_iff_accepted s).1.1 h

theorem notLost_model (s : Scn) : PNotLost s (obsOf (run s)) := by
  intro h
  have hh := result_iff_accepted s
  rcases hh.1.2 h with hx | hx
  · simp [hh.2.1 hx, (obs_result _).2 hx]
  · simp [hh.2.2 hx, (obs_done _).2 hx]

/-- A per-message rejection (the token source failing, authorization denied, a transport error, the caller's context
ending while the POST or the JSON body is in flight, a JSON-RPC error body, a transient status) and a completed request
leave the connection usable. -/
theorem rejection_keeps_connection (s : Scn)
    (h : rejection s (run s).posts = true ∨ accepted s (run s).posts = true) : (run s).conn = .usable := by
  have hb := retry_bound_to_caller
  rcases run_eq s with ⟨h1, hr⟩ | ⟨hT, ⟨h1, h2, hr⟩ | ⟨h1, h2, _, hr⟩ | ⟨h1, h2, _, hr⟩ | ⟨h1, h2, hr⟩ | ⟨h1, hr⟩⟩ <;> rw [hr] at h ⊢
  · simp [rejection, accepted, unsent, firstOnly, lastAns, h1, h2] at h
  · simp only [rejection, accepted, unsent, firstOnly, lastAns, h1] at h
    have := attempt_spec (retryEnds s) s.cancel s.kind s.a2
    simp at h ⊢
    rcases h with h | h
    · exact this.2.2.2.2.1 ⟨h, by intro hc; simp [retryEnds, hc, hb]⟩
    · exact this.2.2.2.2.2.1 h
  · simp only [rejection, accepted, unsent, firstOnly, lastAns, h1] at h
    have := attempt_spec s.cancel s.cancel s.kind s.a1
    simp at h ⊢
    rcases h with h | h
    · exact this.2.2.2.2.1 ⟨h, by intro hc; exact hc⟩
    · exact this.2.2.2.2.2.1 h

theorem keeps_model (s : Scn) : PKeeps s (obsOf (run s)) := by
  intro h hx
  have := rejection_keeps_connection s h
  have hy := (obs_probe_err _).1 hx
  simp [this] at hy

/-- **C09 "session gone" / C01 "calls started after that fail".** Once the server has answered that the session is gone
the connection is dead: the message fails with ErrSessionMissing and later calls fail. -/
theorem session_gone_kills_connection (s : Scn) (h : sessionGone s (run s).posts = true) :
    (run s).conn = .dead ∧ (run s).end_ = .err .gone := by
  rcases run_eq s with ⟨h1, hr⟩ | ⟨hT, ⟨h1, h2, hr⟩ | ⟨h1, h2, _, hr⟩ | ⟨h1, h2, _, hr⟩ | ⟨h1, h2, hr⟩ | ⟨h1, hr⟩⟩ <;> rw [hr] at h ⊢ <;>
    simp only [sessionGone, unsent, firstOnly, lastAns, h1] at h
  · simp at h
  · simp at h
  · simp at h
  · simp at h
  · have := (attempt_spec (retryEnds s) s.cancel s.kind s.a2).2.2.2.2.2.2
    simp at h
    simpa using this h
  · have := (attempt_spec s.cancel s.cancel s.kind s.a1).2.2.2.2.2.2
    simp at h
    simpa using this h

/-- Close does not send the redundant DELETE after the server has said that the session is gone. -/
theorem no_delete_after_session_gone (s : Scn) (h : sessionGone s (run s).posts = true) :
    deleteAtClose (run s) = false := by
  simp [deleteAtClose, (session_gone_kills_connection s h).2]

theorem gone_model (s : Scn) : PGone s (obsOf (run s)) := by
  intro h hx
  have := session_gone_kills_connection s h
  have hy := (obs_probe_ok _).1 hx
  simp [this.1] at hy

/-- **The model of Write has the property**, for every scenario. -/
theorem spec_of_model (s : Scn) : Spec s (obsOf (run s)) :=
  ⟨(sent_once_retry_only_after_grant s).1, authorize_at_most_once s, ctx_model s, blocked_only_if_pending s,
   own_model s, notLost_model s, keeps_model s, gone_model s⟩

/-! ### the bridge -/

/-- the monitor is silent exactly on the observations that have the property -/
theorem monitor_none_iff_spec (s : Scn) (o : Obs) : monitor s o = none ↔ Spec s o := by
  unfold monitor Spec
  by_cases h1 : PSent s o <;> by_cases h2 : PAuth s o <;> by_cases h3 : PCtx s o <;> by_cases h4 : PPending s o <;>
    by_cases h5 : POwn s o <;> by_cases h6 : PNotLost s o <;> by_cases h7 : PKeeps s o <;> by_cases h8 : PGone s o <;>
    simp [h1, h2, h3, h4, h5, h6, h7, h8]

/-- the monitor accepts every run of the model -/
theorem monitor_accepts_model (s : Scn) : monitor s (obsOf (run s)) = none :=
  (monitor_none_iff_spec s _).2 (spec_of_model s)

theorem sound_sent (s : Scn) (o : Obs) (h : monitor s o = some .sent) : ¬ PSent s o := by
  unfold monitor at h; repeat (split at h <;> try simp_all)
theorem sound_auth (s : Scn) (o : Obs) (h : monitor s o = some .auth) : ¬ PAuth s o := by
  unfold monitor at h; repeat (split at h <;> try simp_all)
theorem sound_ctx (s : Scn) (o : Obs) (h : monitor s o = some .ctx) : s.cancel = true ∧ o.end_ = .hang := by
  have : ¬ PCtx s o := by unfold monitor at h; repeat (split at h <;> try simp_all)
  simpa [PCtx] using this
theorem sound_pending (s : Scn) (o : Obs) (h : monitor s o = some .pending) : o.end_ = .hang ∧ pending s o.posts = false := by
  have : ¬ PPending s o := by unfold monitor at h; repeat (split at h <;> try simp_all)
  simpa [PPending] using this
theorem sound_own (s : Scn) (o : Obs) (h : monitor s o = some .own) :
    (o.end_ = .result ∨ o.end_ = .done) ∧ accepted s o.posts = false := by
  have : ¬ POwn s o := by unfold monitor at h; repeat (split at h <;> try simp_all)
  simpa [POwn] using this
theorem sound_notLost (s : Scn) (o : Obs) (h : monitor s o = some .notLost) :
    accepted s o.posts = true ∧ o.end_ ≠ (if s.kind = .call then .result else .done) := by
  have : ¬ PNotLost s o := by unfold monitor at h; repeat (split at h <;> try simp_all)
  simpa [PNotLost] using this
theorem sound_keeps (s : Scn) (o : Obs) (h : monitor s o = some .keeps) :
    (rejection s o.posts = true ∨ accepted s o.posts = true) ∧ o.probe = .err := by
  have : ¬ PKeeps s o := by unfold monitor at h; repeat (split at h <;> try simp_all)
  simpa [PKeeps] using this
theorem sound_gone (s : Scn) (o : Obs) (h : monitor s o = some .gone) : sessionGone s o.posts = true ∧ o.probe = .ok := by
  have : ¬ PGone s o := by unfold monitor at h; repeat (split at h <;> try simp_all)
  simpa [PGone] using this

/-! ### non-vacuity -/

/-- the scenario of the OAuth retry: 401, authorization granted, the retried POST accepted but not answered, the
caller's context ends: the call fails with the context's error, after two POSTs and one authorization -/
example : run { auth := .grant, cancel := true, a1 := .st 401 false, a2 := .hang } =
    { posts := 2, auths := 1, toks := [false, true], end_ := .err .ctx, conn := .usable } := by decide
/-- …and an implementation that leaves that call blocked is rejected by the monitor -/
example : monitor { auth := .grant, cancel := true, a1 := .st 401 false, a2 := .hang }
    { posts := 2, auths := 1, end_ := .hang, probe := .skipped } = some .ctx := by decide
example : run { a1 := .st 404 false } = { posts := 1, auths := 0, toks := [false], end_ := .err .gone, conn := .dead } := by decide
example : run { a1 := .st 503 false } = { posts := 1, auths := 0, toks := [false], end_ := .err (.transient 503), conn := .usable } := by decide
/-- the token source fails: nothing is sent, the message is refused, the connection stays usable -/
example : run { auth := .grant, ts := .tokErr, a1 := .ok .json true } =
    { posts := 0, auths := 0, toks := [], end_ := .err .tokenSource, conn := .usable } := by decide
/-- the JSON body never comes and the caller gives up: a context error, the connection stays usable -/
example : run { cancel := true, a1 := .ok .jsonHang true } =
    { posts := 1, auths := 0, toks := [false], end_ := .err .ctx, conn := .usable } := by decide

end ClientWrite
