import McpModel.TypedTool.GoTy
/-!
E12 TypedTool (C16) — lemmas about the typed decode `project` at struct types: which members of the
argument object a struct field is bound to.

JSON member names are case-sensitive, and so is the decode the wrapper uses
(`internaljson.Unmarshal` = `DontMatchCaseInsensitiveStructFields`): field `n` is bound to the member
whose name is EXACTLY `n` (`lookupJ n`), and to nothing else. A member spelled differently — in
particular one that differs from a field name only in the case of its letters — is an unknown member:
it is dropped, it is never assigned to a field.

All statements are for every list of fields (any width, any nesting below), every object.
-/
namespace TypedTool

theorem projectFields_nil (kvs : Fields) : projectFields [] kvs = some [] := by
  simp only [projectFields]

theorem projectFields_cons (n : String) (oe : Bool) (t : GoTy) (rest : SFields) (kvs : Fields) :
    projectFields ((n, oe, t) :: rest) kvs =
      match fieldDecode t kvs n, projectFields rest kvs with
      | some y, some ys => some (if oe && isEmptyGo t y then ys else (n, y) :: ys)
      | _, _ => none := by
  rw [projectFields]
  rfl

/-- a struct decoded from `null` is the struct decoded from the empty object -/
theorem zeroFields_eq_projectFields_nil (fs : SFields) : some (zeroFields fs) = projectFields fs [] := by
  induction fs with
  | nil => simp [zeroFields, projectFields_nil]
  | cons f rest ih =>
    obtain ⟨n, oe, t⟩ := f
    rw [projectFields_cons, ← ih]
    simp [fieldDecode, lookupJ, zeroFields]

theorem project_struct (fs : SFields) (d : JVal) (x : JVal) (h : project (.struct fs) d = some x) :
    ∃ out, x = .obj out ∧ projectFields fs (membersOf d) = some out := by
  cases d with
  | null =>
    simp only [project, Option.some.injEq] at h
    exact ⟨zeroFields fs, h.symm, by simp [membersOf, zeroFields_eq_projectFields_nil]⟩
  | obj kvs =>
    simp only [project, Option.map_eq_some_iff] at h
    obtain ⟨out, ho, hx⟩ := h
    exact ⟨out, hx.symm, by simpa [membersOf] using ho⟩
  | bool b => simp [project] at h
  | num n => simp [project] at h
  | str s => simp [project] at h
  | arr xs => simp [project] at h

/-! ### the decode looks members up by exact name only -/

/-- **the result depends only on the members named exactly like a field** -/
theorem projectFields_congr (fs : SFields) (kvs kvs' : Fields)
    (h : ∀ n ∈ fieldNames fs, lookupJ n kvs = lookupJ n kvs') :
    projectFields fs kvs = projectFields fs kvs' := by
  induction fs with
  | nil => simp [projectFields_nil]
  | cons f rest ih =>
    obtain ⟨n, oe, t⟩ := f
    have h1 : lookupJ n kvs = lookupJ n kvs' := h n (by simp [fieldNames])
    have h2 := ih (fun m hm => h m (by simp only [fieldNames, List.map_cons, List.mem_cons]; right; exact hm))
    rw [projectFields_cons, projectFields_cons, h2]
    simp only [fieldDecode, h1]

theorem lookupJ_insert_ne (n k : String) (v : JVal) (pre post : Fields) (hne : k ≠ n) :
    lookupJ n (pre ++ (k, v) :: post) = lookupJ n (pre ++ post) := by
  induction pre with
  | nil => simp [lookupJ, hne]
  | cons a t ih =>
    obtain ⟨k', v'⟩ := a
    simp only [List.cons_append, lookupJ, ih]

/-- **a member whose name is not exactly a field's name is dropped**: wherever it stands in the object
(before or after the members the fields are bound to) and whatever it holds, the decoded struct is the
same as without it. -/
theorem projectFields_unknown_member_dropped (fs : SFields) (pre post : Fields) (k : String) (v : JVal)
    (hk : k ∉ fieldNames fs) :
    projectFields fs (pre ++ (k, v) :: post) = projectFields fs (pre ++ post) := by
  apply projectFields_congr
  intro n hn
  exact lookupJ_insert_ne n k v pre post (fun e => hk (e ▸ hn))

/-! ### what each field of the decoded struct holds -/

/-- the decoded struct has no members but its fields -/
theorem projectFields_keys (fs : SFields) (kvs out : Fields) (h : projectFields fs kvs = some out) :
    ∀ k, hasKey k out = true → k ∈ fieldNames fs := by
  induction fs generalizing out with
  | nil =>
    simp only [projectFields_nil, Option.some.injEq] at h
    subst h
    intro k hk; simp [hasKey, lookupJ] at hk
  | cons f rest ih =>
    obtain ⟨n, oe, t⟩ := f
    rw [projectFields_cons] at h
    cases hy : fieldDecode t kvs n with
    | none => simp [hy] at h
    | some y =>
      cases hys : projectFields rest kvs with
      | none => simp [hy, hys] at h
      | some ys =>
        simp only [hy, hys, Option.some.injEq] at h
        intro k hk
        simp only [fieldNames, List.map_cons, List.mem_cons]
        by_cases he : (oe && isEmptyGo t y) = true
        · simp only [he, if_true] at h
          subst h
          exact Or.inr (ih ys hys k hk)
        · simp only [he, Bool.false_eq_true, if_false] at h
          subst h
          simp only [hasKey, lookupJ] at hk
          by_cases e : n = k
          · exact Or.inl e.symm
          · simp only [e, if_false] at hk
            exact Or.inr (ih ys hys k hk)

/-- **every field holds the decoding of the member of exactly its own name** (zero when there is none),
shown unless `omitempty` hides it. -/
theorem projectFields_lookup (fs : SFields) (kvs out : Fields) (hnd : (fieldNames fs).Nodup)
    (h : projectFields fs kvs = some out) :
    ∀ n oe t, (n, oe, t) ∈ fs →
      ∃ y, fieldDecode t kvs n = some y ∧ lookupJ n out = fieldShown oe t y := by
  induction fs generalizing out with
  | nil => intro n oe t hm; cases hm
  | cons f rest ih =>
    obtain ⟨n0, oe0, t0⟩ := f
    simp only [fieldNames, List.map_cons, List.nodup_cons] at hnd
    rw [projectFields_cons] at h
    cases hy : fieldDecode t0 kvs n0 with
    | none => simp [hy] at h
    | some y0 =>
      cases hys : projectFields rest kvs with
      | none => simp [hy, hys] at h
      | some ys =>
        simp only [hy, hys, Option.some.injEq] at h
        have hnot : lookupJ n0 ys = none := by
          cases hl : lookupJ n0 ys with
          | none => rfl
          | some w =>
            exact absurd (projectFields_keys rest kvs ys hys n0 (by simp [hasKey, hl])) hnd.1
        intro n oe t hm
        cases List.mem_cons.1 hm with
        | inl e =>
          cases e
          refine ⟨y0, hy, ?_⟩
          by_cases he : (oe0 && isEmptyGo t0 y0) = true
          · simp only [he, if_true] at h
            subst h
            simp [fieldShown, he, hnot]
          · simp only [he, Bool.false_eq_true, if_false] at h
            subst h
            simp [fieldShown, he, lookupJ]
        | inr m =>
          obtain ⟨y, hy', hl⟩ := ih ys hnd.2 hys n oe t m
          refine ⟨y, hy', ?_⟩
          have hne : n0 ≠ n := by
            intro e; subst e
            exact hnd.1 (List.mem_map.2 ⟨(n0, oe, t), m, rfl⟩)
          by_cases he : (oe0 && isEmptyGo t0 y0) = true
          · simp only [he, if_true] at h
            subst h; exact hl
          · simp only [he, Bool.false_eq_true, if_false] at h
            subst h
            simp only [lookupJ, hne, if_false]; exact hl

end TypedTool
