import McpModel.TypedTool.Lemmas
import McpModel.TypedTool.GoTy
import McpModel.TypedTool.GoTyLemmas
import McpModel.TypedTool.RegistryLemmas
/-!
E12 TypedTool — PROPERTY THEOREMS for C16 (DESIGN.md §5).

All theorems are about `call E t h a` for EVERY environment `E` (validator, default-filler, and the
numeric loss `E.remarshal` of `JSON → any → JSON`), tool `t`, handler `h` and argument value `a`:
decision logic over the wrapper's control flow, no bound on anything.

Reading. "Arguments valid after defaults" is judged on `defaulted E s a`: the argument object *as the
server decodes it* (`E.remarshal`), with defaults filled. For every argument whose numbers Go holds
exactly, `E.remarshal` is the identity (`lossy64_exact`: with fixes/F09 that is every value whose whole
numbers lie in [-2^63, 2^64)), and the `…_exact`/`…_partial` forms below speak about the client's own
JSON value. Where `E.remarshal` is not the identity the two differ — that is finding F9: on the
unrepaired tree (`lossy53`: every integer beyond ±2^53 is rounded) the exact-equality form of
`handler_sees_defaulted_args` is false, with `f9_counterexample_unrepaired` as the proved witness and
`f9_repaired_exact` showing the same call exact under fixes/F09. The exact range has a signed and an
unsigned half: `wrapper_exact_on_go_integer_range` proves that on arguments and outputs whose integers
lie in [-2^63, 2^64) the wrapper over the server's decode IS the wrapper over the client's own values
(every field of the outcome), `uint64_argument_and_result_exact` instantiates it for EVERY value of a
uint64 member, and `signed_only_decode_counterexample` shows the statement false for a decode that keeps
only int64 exact (2^63+1 altered, 2^64-1 refused, an object output altered). What is still missing for the
exact-equality form over ALL inputs after the fix: integers outside [-2^63, 2^64) are still rounded
before validation; no Go integer type can hold them, so the typed decoder rejects them or the field is
a float64/`any` that rounds by its own type, and the harness has never observed a difference — but
that argument about `project` is not proved here, hence `_partial`.
-/
namespace TypedTool

variable {S : Type}

/-! ## input side -/

/-- **invoked ⇔ valid after defaults.** The handler runs iff the arguments decode to an object which,
after defaults, is valid under the input schema (and which the typed decoder accepts). -/
theorem invoked_iff_valid_after_defaults (E : Env S) (t : Tool S) (h : JVal → HRet) (a : Args) :
    (call E t h a).seen.isSome = true ↔
      ∃ d, defaulted E t.inSchema a = some d ∧ E.valid t.inSchema d = true ∧ (t.decodeIn d).isSome = true := by
  unfold call applyIn
  cases hd : defaulted E t.inSchema a with
  | none => simp [errorOutcome]
  | some d =>
    by_cases hv : E.valid t.inSchema d = true
    · simp only [hv, if_true]
      cases hx : t.decodeIn d with
      | none => simp [errorOutcome, hx]
      | some x =>
        have : ∃ d', some d = some d' ∧ E.valid t.inSchema d' = true ∧ (t.decodeIn d').isSome = true :=
          ⟨d, rfl, hv, by simp [hx]⟩
        simp only [this, iff_true]
        cases (h x).err with
        | some e => cases e <;> simp [errorOutcome]
        | none =>
          simp only []
          cases outJson t (h x).out with
          | none => simp
          | some j =>
            simp only []
            split <;> simp
    · simp only [hv, Bool.false_eq_true, if_false]
      constructor
      · intro hc; simp [errorOutcome] at hc
      · rintro ⟨d', hd', hv', _⟩
        cases hd'; exact absurd hv' hv

/-- **the handler receives the defaulted arguments**: whatever the handler observes is the typed
decoding of the defaulted argument object. -/
theorem handler_sees_defaulted_args (E : Env S) (t : Tool S) (h : JVal → HRet) (a : Args) (x : JVal)
    (hs : (call E t h a).seen = some x) :
    ∃ d, defaulted E t.inSchema a = some d ∧ E.valid t.inSchema d = true ∧ t.decodeIn d = some x := by
  unfold call applyIn at hs
  cases hd : defaulted E t.inSchema a with
  | none => simp [hd, errorOutcome] at hs
  | some d =>
    simp only [hd] at hs
    by_cases hv : E.valid t.inSchema d = true
    · simp only [hv, if_true] at hs
      cases hx : t.decodeIn d with
      | none => simp [hx, errorOutcome] at hs
      | some x' =>
        simp only [hx] at hs
        refine ⟨d, rfl, hv, ?_⟩
        have : x' = x := by
          cases he : (h x').err with
          | some e => cases e <;> simp [he, errorOutcome] at hs <;> exact hs
          | none =>
            simp only [he] at hs
            cases hj : outJson t (h x').out with
            | none => simp [hj] at hs; exact hs
            | some j =>
              simp only [hj] at hs
              cases ha : applyOut E t j <;> simp [ha] at hs <;> exact hs
        subst this; exact hx
    · simp [hv, errorOutcome] at hs

/-- FULL STATEMENT (C16 as written): the handler observes exactly the client's argument object with the
schema's defaults, `E.fill s m` — for ALL `m`.  Not provable in this form: `E.remarshal` rounds integers
that Go does not hold exactly (F9; false on the unrepaired tree, see `f9_counterexample_unrepaired`).
Proved part: every `m` that the server decodes exactly (`hexact`; by `lossy64_exact` every `m` whose
whole numbers lie in [-2^63, 2^64) once fixes/F09 is applied), through a decoder that is faithful on the
defaulted value (`hfaithful`: the Go type has a member for everything the object carries). -/
theorem handler_sees_defaulted_args_partial (E : Env S) (t : Tool S) (h : JVal → HRet) (a : Args) (m : JVal)
    (hm : argsMap a = some m) (hexact : E.remarshal m = m)
    (hfaithful : t.decodeIn (E.fill t.inSchema m) = some (E.fill t.inSchema m))
    (hv : E.valid t.inSchema (E.fill t.inSchema m) = true) :
    (call E t h a).seen = some (E.fill t.inSchema m) := by
  have hd : defaulted E t.inSchema a = some (E.fill t.inSchema m) := by
    simp [defaulted, decoded, hm, hexact]
  have hi : (call E t h a).seen.isSome = true :=
    (invoked_iff_valid_after_defaults E t h a).2 ⟨_, hd, hv, by simp [hfaithful]⟩
  cases hs : (call E t h a).seen with
  | none => simp [hs] at hi
  | some x =>
    obtain ⟨d, hd', _, hx⟩ := handler_sees_defaulted_args E t h a x hs
    rw [hd] at hd'; cases hd'
    rw [hfaithful] at hx; cases hx; rfl

/-- **invalid arguments ⇒ tool-level error, handler not run**: when the arguments do not decode to an
object or are invalid after defaults, the caller gets an `isError` result with content and no
structured content, and the handler was not invoked. -/
theorem invalid_gives_tool_error_without_invocation (E : Env S) (t : Tool S) (h : JVal → HRet) (a : Args)
    (hinv : ∀ d, defaulted E t.inSchema a = some d → E.valid t.inSchema d = false) :
    (call E t h a).seen = none ∧ (call E t h a).kind = .toolError ∧
      (call E t h a).content ≠ [] ∧ (call E t h a).structured = none := by
  unfold call applyIn
  cases hd : defaulted E t.inSchema a with
  | none => simp [errorOutcome]
  | some d => simp [hinv d hd, errorOutcome]

/-! ## input side: which members of the arguments the handler's typed input is made of -/

/-- what the handler sees, as a function of the validated arguments: the typed decoding of the defaulted
value (nothing, when that value does not decode). -/
theorem seen_eq_decode (E : Env S) (t : Tool S) (h : JVal → HRet) (a : Args) (d : JVal)
    (hd : defaulted E t.inSchema a = some d) (hv : E.valid t.inSchema d = true) :
    (call E t h a).seen = t.decodeIn d := by
  cases hs : (call E t h a).seen with
  | none =>
    cases hx : t.decodeIn d with
    | none => rfl
    | some x =>
      have := (invoked_iff_valid_after_defaults E t h a).2 ⟨d, hd, hv, by simp [hx]⟩
      simp [hs] at this
  | some x =>
    obtain ⟨d', hd', _, hx⟩ := handler_sees_defaulted_args E t h a x hs
    rw [hd] at hd'; cases hd'; exact hx.symm

/-- **the handler sees exactly the validated members.** For a typed tool whose input type is a struct
(fields `fs`, pairwise distinct JSON names; any width, any types below): whatever the handler observes
is an object that has no members but the struct's fields, and EVERY field holds the decoding of the
member of the validated (defaulted) argument object whose name is EXACTLY the field's JSON name — the
zero value when there is no member of that exact name. JSON names are case-sensitive: the schema
validated `"maxItems"`, so `"maxItems"` — and no member spelled `"maxitems"`, `"MAXITEMS"`, … , which
the schema treated as an additional property — is what the field bound to `maxItems` holds. -/
theorem handler_sees_exactly_validated_members (E : Env S) (t : Tool S) (h : JVal → HRet) (a : Args)
    (fs : SFields) (x : JVal)
    (hdec : t.decodeIn = project (.struct fs)) (hnd : (fieldNames fs).Nodup)
    (hs : (call E t h a).seen = some x) :
    ∃ d out, defaulted E t.inSchema a = some d ∧ E.valid t.inSchema d = true ∧ x = .obj out ∧
      (∀ k, hasKey k out = true → k ∈ fieldNames fs) ∧
      (∀ n oe ty, (n, oe, ty) ∈ fs →
        ∃ y, fieldDecode ty (membersOf d) n = some y ∧ lookupJ n out = fieldShown oe ty y) := by
  obtain ⟨d, hd, hv, hx⟩ := handler_sees_defaulted_args E t h a x hs
  rw [hdec] at hx
  obtain ⟨out, hxo, hp⟩ := project_struct fs d x hx
  exact ⟨d, out, hd, hv, hxo, projectFields_keys fs _ out hp, projectFields_lookup fs _ out hnd hp⟩

/-- **differently spelled members never reach the handler.** Two calls whose validated argument objects
agree on every member named exactly like a field of the input struct give the handler the same input —
whatever else the objects carry (members that differ from a field name only in case included), wherever
it stands in the object, whatever it holds. -/
theorem differently_spelled_members_never_reach_handler (E : Env S) (t : Tool S) (h : JVal → HRet)
    (a a' : Args) (fs : SFields) (kvs kvs' : Fields)
    (hdec : t.decodeIn = project (.struct fs))
    (hd : defaulted E t.inSchema a = some (.obj kvs)) (hv : E.valid t.inSchema (.obj kvs) = true)
    (hd' : defaulted E t.inSchema a' = some (.obj kvs')) (hv' : E.valid t.inSchema (.obj kvs') = true)
    (hagree : ∀ n ∈ fieldNames fs, lookupJ n kvs = lookupJ n kvs') :
    (call E t h a).seen = (call E t h a').seen := by
  rw [seen_eq_decode E t h a _ hd hv, seen_eq_decode E t h a' _ hd' hv', hdec]
  simp only [project, projectFields_congr fs kvs kvs' hagree]

/-- … in particular an extra member whose name is not exactly a field's name is dropped: the handler's
input is the same as without it. -/
theorem unknown_member_is_dropped (fs : SFields) (pre post : Fields) (k : String) (v : JVal)
    (hk : k ∉ fieldNames fs) :
    project (.struct fs) (.obj (pre ++ (k, v) :: post)) = project (.struct fs) (.obj (pre ++ post)) := by
  simp only [project, projectFields_unknown_member_dropped fs pre post k v hk]

/-- with the reference filler the validated arguments are always an object (so `membersOf` above is the
object's own member list) -/
theorem defaulted_is_object (s : Schema) (a : Args) (d : JVal)
    (hd : defaulted (refEnv lossy64) s a = some d) : ∃ kvs, d = .obj kvs := by
  obtain ⟨c, ps, ap, items⟩ := s
  simp only [defaulted, decoded, refEnv, Option.map_map, Option.map_eq_some_iff] at hd
  obtain ⟨m, hm, hd⟩ := hd
  have hobj : ∃ fs, m = .obj fs := by
    cases a with
    | absent => simp only [argsMap, Option.some.injEq] at hm; exact ⟨[], hm.symm⟩
    | val v =>
      cases v with
      | null => simp only [argsMap, Option.some.injEq] at hm; exact ⟨[], hm.symm⟩
      | obj fs => simp only [argsMap, Option.some.injEq] at hm; exact ⟨fs, hm.symm⟩
      | bool b => simp [argsMap] at hm
      | num n => simp [argsMap] at hm
      | str s => simp [argsMap] at hm
      | arr xs => simp [argsMap] at hm
  obtain ⟨fs, rfl⟩ := hobj
  simp only [Function.comp, lossy64, mapNum, fill] at hd
  exact ⟨_, hd.symm⟩

/-! ## output side -/

/-- the outcome of a call whose handler ran on `x` without returning an error -/
theorem call_of_handler_ok (E : Env S) (t : Tool S) (h : JVal → HRet) (a : Args) (x : JVal)
    (hs : (call E t h a).seen = some x) (he : (h x).err = none) :
    call E t h a =
      match outJson t (h x).out with
      | none => { seen := some x, kind := .ok, structured := none, content := (h x).content.getD [] }
      | some j =>
        match applyOut E t j with
        | none => { seen := some x, kind := .rpcError, structured := none, content := [] }
        | some sc => { seen := some x, kind := .ok, structured := some sc, content := finalContent (h x).content sc } := by
  obtain ⟨d, hd, hv, hx⟩ := handler_sees_defaulted_args E t h a x hs
  unfold call applyIn
  simp only [hd, hv, if_true, hx, he]
  rfl

/-- **structured content = JSON of the output, with the output schema's defaults.** For a declared
output schema `s`, a successful result whose handler produced output JSON `j` carries exactly: the
defaulted object when `j` is an object; the defaulted `{}` when `j` is `null` and the schema's root
type is "object"; `j` itself otherwise. -/
theorem structured_equals_output_json_with_defaults (E : Env S) (t : Tool S) (h : JVal → HRet) (a : Args)
    (x j : JVal) (s : S)
    (hs : (call E t h a).seen = some x) (he : (h x).err = none)
    (hout : outJson t (h x).out = some j) (hsch : t.outSchema = some s)
    (hok : (call E t h a).kind = .ok) :
    (call E t h a).structured = some (if (outForm E t s j).2 then (outForm E t s j).1 else j) := by
  rw [call_of_handler_ok E t h a x hs he] at hok ⊢
  simp only [hout] at hok ⊢
  unfold applyOut at hok ⊢
  simp only [hsch] at hok ⊢
  by_cases hv : E.valid s (outForm E t s j).1 = true
  · simp [hv]
  · simp [hv] at hok

/-- **structured content is valid**: what is returned is the value that passed validation (the defaulted
value itself, or — when nothing was defaulted — the output JSON, validated as the server decodes it). -/
theorem structured_valid (E : Env S) (t : Tool S) (h : JVal → HRet) (a : Args) (x sc : JVal) (s : S)
    (hs : (call E t h a).seen = some x) (he : (h x).err = none)
    (hsch : t.outSchema = some s) (hok : (call E t h a).kind = .ok)
    (hsc : (call E t h a).structured = some sc) :
    E.valid s sc = true ∨ (E.valid s (E.remarshal sc) = true ∧ (outForm E t s sc).2 = false) := by
  rw [call_of_handler_ok E t h a x hs he] at hok hsc
  cases hj : outJson t (h x).out with
  | none => simp [hj] at hsc
  | some j =>
    simp only [hj] at hok hsc
    unfold applyOut at hok hsc
    simp only [hsch] at hok hsc
    by_cases hv : E.valid s (outForm E t s j).1 = true
    · simp only [hv, if_true, Option.some.injEq] at hsc
      by_cases hap : (outForm E t s j).2 = true
      · simp only [hap, if_true] at hsc
        left; rw [← hsc]; exact hv
      · simp only [hap, Bool.false_eq_true, if_false] at hsc
        subst hsc
        right
        refine ⟨?_, by simpa using hap⟩
        -- not re-marshalled: the validated value is `E.remarshal j`
        have : (outForm E t s j).1 = E.remarshal j := by
          unfold outForm at hap ⊢
          cases hr : E.remarshal j with
          | obj fs => simp [hr] at hap
          | null =>
            simp only [hr] at hap ⊢
            cases hro : t.outRootObject <;> simp [hro] at hap ⊢
          | bool b => rfl
          | num d => rfl
          | str s => rfl
          | arr xs => rfl
        rw [← this]; exact hv
    · simp [hv] at hok

/-- `structured_valid` for outputs the server decodes exactly: the structured content itself is valid. -/
theorem structured_valid_exact (E : Env S) (t : Tool S) (h : JVal → HRet) (a : Args) (x sc : JVal) (s : S)
    (hs : (call E t h a).seen = some x) (he : (h x).err = none)
    (hsch : t.outSchema = some s) (hok : (call E t h a).kind = .ok)
    (hsc : (call E t h a).structured = some sc) (hexact : E.remarshal sc = sc) :
    E.valid s sc = true := by
  rcases structured_valid E t h a x sc s hs he hsch hok hsc with h1 | ⟨h1, _⟩
  · exact h1
  · rw [hexact] at h1; exact h1

/-- **text fallback iff the handler supplied no content**: with structured content `sc`, the content is
exactly one text block holding the serialised `sc` when the handler set none; otherwise it is the
handler's content, followed by that text block iff `sc` is not a JSON object. -/
theorem text_fallback_iff_no_content (E : Env S) (t : Tool S) (h : JVal → HRet) (a : Args) (x sc : JVal)
    (hs : (call E t h a).seen = some x) (he : (h x).err = none)
    (hsc : (call E t h a).structured = some sc) :
    ((h x).content = none → (call E t h a).content = [.jsonOf sc]) ∧
    (∀ c, (h x).content = some c →
      (call E t h a).content = if sc.isObj then c else c ++ [.jsonOf sc]) := by
  rw [call_of_handler_ok E t h a x hs he] at hsc ⊢
  cases hj : outJson t (h x).out with
  | none => simp [hj] at hsc
  | some j =>
    simp only [hj] at hsc ⊢
    cases ha : applyOut E t j with
    | none => simp [ha] at hsc
    | some sc' =>
      simp only [ha, Option.some.injEq] at hsc ⊢
      subst hsc
      constructor
      · intro hc; simp [finalContent, hc]
      · intro c hc; simp [finalContent, hc]

/-- and without structured content nothing is added to the handler's content -/
theorem no_fallback_without_structured (E : Env S) (t : Tool S) (h : JVal → HRet) (a : Args) (x : JVal)
    (hs : (call E t h a).seen = some x) (he : (h x).err = none)
    (hok : (call E t h a).kind = .ok) (hsc : (call E t h a).structured = none) :
    (call E t h a).content = (h x).content.getD [] := by
  rw [call_of_handler_ok E t h a x hs he] at hok hsc ⊢
  cases hj : outJson t (h x).out with
  | none => simp
  | some j =>
    simp only [hj] at hok hsc ⊢
    cases ha : applyOut E t j with
    | none => simp [ha] at hok
    | some sc => simp [ha] at hsc

/-- **invalid output is an error, not a result**: if the output (with defaults) fails the declared output
schema, the call ends in a protocol error carrying neither structured content nor content. -/
theorem invalid_output_is_error_not_result (E : Env S) (t : Tool S) (h : JVal → HRet) (a : Args)
    (x j : JVal) (s : S)
    (hs : (call E t h a).seen = some x) (he : (h x).err = none)
    (hout : outJson t (h x).out = some j) (hsch : t.outSchema = some s)
    (hbad : E.valid s (outForm E t s j).1 = false) :
    (call E t h a).kind = .rpcError ∧ (call E t h a).structured = none ∧ (call E t h a).content = [] := by
  rw [call_of_handler_ok E t h a x hs he]
  simp only [hout]
  unfold applyOut
  simp [hsch, hbad]

/-- **a nil pointer output is replaced by the zero value of its element type**: the call behaves exactly
as if the handler had returned that zero value. -/
theorem nil_pointer_output_uses_zero_value (E : Env S) (t : Tool S) (h : JVal → HRet) (a : Args) (z : JVal)
    (hz : t.elemZero = some z) :
    call E t h a =
      call E t (fun x => match (h x).out with | .nilPtr => { h x with out := .json z } | _ => h x) a := by
  unfold call
  cases applyIn E t.inSchema a with
  | none => rfl
  | some d =>
    simp only []
    cases t.decodeIn d with
    | none => rfl
    | some x =>
      simp only []
      cases ho : (h x).out with
      | nilPtr => simp [ho, outJson, hz]
      | nilAny => simp [ho]
      | json j => simp [ho]

/-- **a declared output schema ⇒ a successful result carries structured content** (for every kind of
output, including a nil `any` — the "Out = any + explicit schema + nil output" item of DESIGN §6, F16,
is repaired by fixes/F16). -/
theorem success_has_structured (E : Env S) (t : Tool S) (h : JVal → HRet) (a : Args) (x : JVal)
    (hs : (call E t h a).seen = some x) (he : (h x).err = none)
    (hok : (call E t h a).kind = .ok) (hsch : t.outSchema.isSome = true) :
    (call E t h a).structured.isSome = true := by
  rw [call_of_handler_ok E t h a x hs he] at hok ⊢
  cases ho : (h x).out with
  | nilAny =>
    simp only [ho, outJson, hsch, if_true] at hok ⊢
    cases ha : applyOut E t .null <;> simp [ha] at hok ⊢
  | nilPtr =>
    simp only [ho, outJson] at hok ⊢
    cases ha : applyOut E t (t.elemZero.getD .null) <;> simp [ha] at hok ⊢
  | json j =>
    simp only [ho, outJson] at hok ⊢
    cases ha : applyOut E t j <;> simp [ha] at hok ⊢

/-! ## the reference validator in the wrapper -/

/-- With the reference validator, an argument object that is valid *before* defaults is also valid after
them, so its handler runs (schemas of the family; faithful decoder; exactly decoded arguments). -/
theorem valid_args_are_invoked (R : JVal → JVal) (t : Tool Schema) (h : JVal → HRet) (a : Args) (m : JVal)
    (hm : argsMap a = some m) (hexact : R m = m)
    (hk : Keyed t.inSchema) (hd : DefaultsOk t.inSchema)
    (hv : valid t.inSchema m = true)
    (hdec : (t.decodeIn (fill t.inSchema m)).isSome = true) :
    (call (refEnv R) t h a).seen.isSome = true := by
  apply (invoked_iff_valid_after_defaults (refEnv R) t h a).2
  refine ⟨fill t.inSchema m, ?_, ?_, hdec⟩
  · simp [defaulted, decoded, hm, refEnv, hexact]
  · exact fill_preserves_valid t.inSchema hk hd m hv

/-- With the reference filler the handler's input is a fixed point of default filling: applying the
defaults a second time changes nothing. -/
theorem seen_is_default_closed (R : JVal → JVal) (t : Tool Schema) (h : JVal → HRet) (a : Args) (x : JVal)
    (hk : Keyed t.inSchema) (hfaithful : ∀ d, t.decodeIn d = some x → x = d)
    (hs : (call (refEnv R) t h a).seen = some x) :
    fill t.inSchema x = x := by
  obtain ⟨d, hd, _, hx⟩ := handler_sees_defaulted_args (refEnv R) t h a x hs
  have := hfaithful d hx
  subst this
  simp only [defaulted] at hd
  cases hdec : decoded (refEnv R) a with
  | none => rw [hdec] at hd; cases hd
  | some m =>
    rw [hdec] at hd
    simp only [Option.map_some, Option.some.injEq] at hd
    rw [← hd]; exact fill_idem t.inSchema hk m

/-! ## `remarshal` is exact on everything Go holds exactly -/

mutual
/-- every number is a fraction or a whole number in [-2^63, 2^64) -/
def InRange64 : JVal → Bool
  | .num d => !d.isInt || (decide (-two63 ≤ d.toInt) && decide (d.toInt < two64) && d.e == 0)
  | .arr xs => InRange64List xs
  | .obj fs => InRange64Fields fs
  | _ => true
def InRange64List : List JVal → Bool
  | [] => true
  | x :: t => InRange64 x && InRange64List t
def InRange64Fields : Fields → Bool
  | [] => true
  | (_, v) :: t => InRange64 v && InRange64Fields t
end

theorem i64Dec_exact (d : Dec) (h : (!d.isInt || (decide (-two63 ≤ d.toInt) && decide (d.toInt < two64) && d.e == 0)) = true) :
    i64Dec d = d := by
  unfold i64Dec
  cases hi : d.isInt with
  | false => simp
  | true =>
    simp only [hi, Bool.not_true, Bool.false_or, Bool.and_eq_true, decide_eq_true_eq, beq_iff_eq] at h
    obtain ⟨⟨h1, h2⟩, h3⟩ := h
    simp only [if_true, h1, h2, and_self]
    obtain ⟨m, e⟩ := d
    simp only at h3
    subst h3
    simp [Dec.ofInt, Dec.toInt]

mutual
theorem lossy64_exact : ∀ v, InRange64 v = true → lossy64 v = v
  | .num d, h => by
    simp only [InRange64] at h
    simp only [lossy64, mapNum, i64Dec_exact d h]
  | .arr xs, h => by
    simp only [InRange64] at h
    have := lossy64_exactList xs h
    simp only [lossy64] at this ⊢
    simp only [mapNum, this]
  | .obj fs, h => by
    simp only [InRange64] at h
    have := lossy64_exactFields fs h
    simp only [lossy64] at this ⊢
    simp only [mapNum, this]
  | .null, _ => by simp [lossy64, mapNum]
  | .bool _, _ => by simp [lossy64, mapNum]
  | .str _, _ => by simp [lossy64, mapNum]
theorem lossy64_exactList : ∀ xs, InRange64List xs = true → mapNumList i64Dec xs = xs
  | [], _ => by simp [mapNumList]
  | x :: t, h => by
    simp only [InRange64List, Bool.and_eq_true] at h
    have h1 := lossy64_exact x h.1
    simp only [lossy64] at h1
    simp only [mapNumList, h1, lossy64_exactList t h.2]
theorem lossy64_exactFields : ∀ fs, InRange64Fields fs = true → mapNumFields i64Dec fs = fs
  | [], _ => by simp [mapNumFields]
  | (k, v) :: t, h => by
    simp only [InRange64Fields, Bool.and_eq_true] at h
    have h1 := lossy64_exact v h.1
    simp only [lossy64] at h1
    simp only [mapNumFields, h1, lossy64_exactFields t h.2]
end

/-! ## the whole exact range: every integer in [-2^63, 2^64), signed or unsigned -/

/-- the environment with validator `V`, default-filler `F` and numeric loss `R` -/
def envOf (F : S → JVal → JVal) (V : S → JVal → Bool) (R : JVal → JVal) : Env S := { fill := F, valid := V, remarshal := R }

/-- the output side of `applySchema` is exact on outputs in range -/
theorem applyOut_exact (F : S → JVal → JVal) (V : S → JVal → Bool) (t : Tool S) (j : JVal)
    (hj : InRange64 j = true) :
    applyOut (envOf F V lossy64) t j = applyOut (envOf F V id) t j := by
  have hf : ∀ s, outForm (envOf F V lossy64) t s j = outForm (envOf F V id) t s j := by
    intro s
    unfold outForm
    simp only [envOf, lossy64_exact j hj, id]
  unfold applyOut
  cases t.outSchema with
  | none => rfl
  | some s => simp only [hf s]; rfl

/-- **the wrapper is exact on everything a Go integer type can hold.** For every validator `V`,
default-filler `F`, tool, handler and argument value: when every whole number in the arguments and in the
handler's output lies in [-2^63, 2^64) — the union of the int64 and the uint64 range, i.e. every value an
integer-typed member of a Go input or output type can take — the wrapper over the server's decode
(`lossy64`: int64, else uint64, else float64) behaves exactly like the wrapper over the client's own JSON
values (`id`): same invocation, same handler input, same result kind, same structured content, same
content. No integer in that range is altered on the way to the handler or back. -/
theorem wrapper_exact_on_go_integer_range (F : S → JVal → JVal) (V : S → JVal → Bool)
    (t : Tool S) (h : JVal → HRet) (a : Args)
    (ha : ∀ m, argsMap a = some m → InRange64 m = true)
    (hz : ∀ z, t.elemZero = some z → InRange64 z = true)
    (ho : ∀ x j, (h x).out = .json j → InRange64 j = true) :
    call (envOf F V lossy64) t h a = call (envOf F V id) t h a := by
  have hin : applyIn (envOf F V lossy64) t.inSchema a = applyIn (envOf F V id) t.inSchema a := by
    unfold applyIn defaulted decoded
    cases hm : argsMap a with
    | none => rfl
    | some m => simp only [envOf, Option.map_some, lossy64_exact m (ha m hm), id]; rfl
  unfold call
  rw [hin]
  cases applyIn (envOf F V id) t.inSchema a with
  | none => rfl
  | some d =>
    simp only []
    cases t.decodeIn d with
    | none => rfl
    | some x =>
      simp only []
      cases (h x).err with
      | some e => cases e <;> rfl
      | none =>
        simp only []
        cases hout : (h x).out with
        | nilAny =>
          simp only [outJson]
          cases t.outSchema.isSome with
          | false => rfl
          | true =>
            simp only [if_true]
            rw [applyOut_exact F V t .null (by simp [InRange64])]
        | nilPtr =>
          simp only [outJson]
          have : InRange64 (t.elemZero.getD .null) = true := by
            cases hez : t.elemZero with
            | none => simp [InRange64]
            | some z => simpa using hz z hez
          rw [applyOut_exact F V t _ this]
        | json j =>
          simp only [outJson]
          rw [applyOut_exact F V t j (ho x j hout)]

/-! ## witnesses (non-vacuity) and the F9 counter-examples -/

/-! ## registration: the schemas a tool enforces are its own, whatever was registered before

`World.run R {} ops` is ANY program of `NewServer(&ServerOptions{SchemaCache: …})` / `AddTool` steps over
any number of shared caches (any length, any interleaving, any Go types, tools replaced by name,
registrations that fail half-way). `RegOp.Ok heap` is the SDK's documented condition of use of a
`SchemaCache`: the content behind a `*jsonschema.Schema` that was handed to `AddTool` is not changed
afterwards (`heap` gives the content of each pointer). -/

/-- **a registered tool enforces (and publishes) its own schemas.** After any history of registrations
through shared caches, for every tool on the current server the resolved schemas used by the wrapper
for defaults and validation, and the schemas shown by tools/list, are the tool's own: the schema it
declared, else the one inferred from its Go type — never one cached for another tool. -/
theorem registered_tool_enforces_own_schemas {K : Type} [DecidableEq K] (R : RegEnv K S) (heap : Nat → S)
    (ops : List (RegOp K S)) (hops : ∀ op ∈ ops, RegOp.Ok heap op)
    (name : String) (d : Decl K S) (e : Entry S)
    (hmem : (name, d, e) ∈ (World.run R ({} : World K S) ops).tools) :
    e.enfIn = d.ownIn R ∧ e.enfOut = d.ownOut R ∧ e.pubIn = d.ownIn R ∧ e.pubOut = d.ownOut R := by
  have hw := World.run_ok R heap ops {} (World.ok_init R heap) hops
  obtain ⟨h1, h2, h3, h4⟩ := hw.2 (name, d, e) hmem
  exact ⟨h2, h4, h1, h3⟩

/-- … hence a call of a registered tool is a call of the wrapper over the tool's own schemas: every
theorem above about `call E t h a` holds for registered tools with `t.inSchema`/`t.outSchema` read as
the DECLARED schemas. -/
theorem registered_call_eq_declared {K : Type} [DecidableEq K] (R : RegEnv K S) (heap : Nat → S)
    (ops : List (RegOp K S)) (hops : ∀ op ∈ ops, RegOp.Ok heap op)
    (name : String) (d : Decl K S) (e : Entry S)
    (hmem : (name, d, e) ∈ (World.run R ({} : World K S) ops).tools)
    (E : Env S) (oro : S → Bool) (ez : Option JVal) (dec : JVal → Option JVal) (h : JVal → HRet) (a : Args) :
    call E (e.tool oro ez dec) h a = call E (d.tool R oro ez dec) h a := by
  obtain ⟨h1, h2, _, _⟩ := registered_tool_enforces_own_schemas R heap ops hops name d e hmem
  unfold Entry.tool Decl.tool
  rw [h1, h2]

/-- **invoked ⇔ valid after defaults under the tool's OWN input schema**, after any history. -/
theorem registered_invoked_iff_valid_under_own_schema {K : Type} [DecidableEq K] (R : RegEnv K S) (heap : Nat → S)
    (ops : List (RegOp K S)) (hops : ∀ op ∈ ops, RegOp.Ok heap op)
    (name : String) (d : Decl K S) (e : Entry S)
    (hmem : (name, d, e) ∈ (World.run R ({} : World K S) ops).tools)
    (E : Env S) (oro : S → Bool) (ez : Option JVal) (dec : JVal → Option JVal) (h : JVal → HRet) (a : Args) :
    (call E (e.tool oro ez dec) h a).seen.isSome = true ↔
      ∃ x, defaulted E (d.ownIn R) a = some x ∧ E.valid (d.ownIn R) x = true ∧ (dec x).isSome = true := by
  rw [registered_call_eq_declared R heap ops hops name d e hmem]
  exact invoked_iff_valid_after_defaults E (d.tool R oro ez dec) h a

/-- **output violating the tool's OWN output schema is an error, not a result**, after any history. -/
theorem registered_invalid_output_is_error {K : Type} [DecidableEq K] (R : RegEnv K S) (heap : Nat → S)
    (ops : List (RegOp K S)) (hops : ∀ op ∈ ops, RegOp.Ok heap op)
    (name : String) (d : Decl K S) (e : Entry S)
    (hmem : (name, d, e) ∈ (World.run R ({} : World K S) ops).tools)
    (E : Env S) (oro : S → Bool) (ez : Option JVal) (dec : JVal → Option JVal) (h : JVal → HRet) (a : Args)
    (x j : JVal) (s : S)
    (hs : (call E (e.tool oro ez dec) h a).seen = some x) (he : (h x).err = none)
    (hout : outJson (d.tool R oro ez dec) (h x).out = some j) (hsch : d.ownOut R = some s)
    (hbad : E.valid s (outForm E (d.tool R oro ez dec) s j).1 = false) :
    (call E (e.tool oro ez dec) h a).kind = .rpcError ∧ (call E (e.tool oro ez dec) h a).structured = none := by
  rw [registered_call_eq_declared R heap ops hops name d e hmem] at hs ⊢
  have := invalid_output_is_error_not_result E (d.tool R oro ez dec) h a x j s hs he hout hsch hbad
  exact ⟨this.1, this.2.1⟩

/-- **a failed registration stores nothing wrong**: whatever `AddTool` calls succeeded or panicked, every
cache stays coherent (a type maps to the schema inferred from it, a pointer to its own content). -/
theorem caches_stay_coherent {K : Type} [DecidableEq K] (R : RegEnv K S) (heap : Nat → S)
    (ops : List (RegOp K S)) (hops : ∀ op ∈ ops, RegOp.Ok heap op) (i : Nat) (c : Cache K S)
    (hc : assoc i (World.run R ({} : World K S) ops).caches = some c) : Coherent R heap c :=
  (World.run_ok R heap ops {} (World.ok_init R heap) hops).1 i c hc

section Witness

/-- `{"type":"object","properties":{"n":{"type":"integer"},"c":{"type":"string","default":"x"}},"required":["n"]}` -/
def wSchema : Schema :=
  .mk { ty := [.object], required := ["n"] }
    [("n", .mk { ty := [.integer] } [] none none),
     ("c", .mk { ty := [.string], dflt := some (.str "x") } [] none none)] none none

/-- `struct{ N int64 "n"; C string "c" }` -/
def wTy : GoTy := .struct [("n", false, .int64), ("c", false, .string)]

def wTool : Tool Schema :=
  { inSchema := wSchema, outSchema := some wSchema, outRootObject := true, elemZero := none, decodeIn := project wTy }

def wArgs (n : Int) : Args := .val (.obj [("n", .num (.ofInt n))])

/-- echo handler: returns its input as output, no content -/
def wEcho : JVal → HRet := fun x => { out := .json x }

def seenEqv (o : Outcome) (v : JVal) : Bool :=
  match o.seen with
  | some x => x.eqv v
  | none => false

/-- non-vacuity of `invoked_iff…`/`handler_sees…`: a valid call is invoked and sees the default filled in -/
example : seenEqv (call (refEnv lossy64) wTool wEcho (wArgs 7)) (.obj [("n", .num (.ofInt 7)), ("c", .str "x")]) = true := by decide
/-- non-vacuity of `invalid_gives_tool_error…`: a missing required member is an error without invocation -/
example : (call (refEnv lossy64) wTool wEcho (.val (.obj []))).seen.isNone = true ∧
    (call (refEnv lossy64) wTool wEcho (.val (.obj []))).kind = .toolError := by decide
/-- non-vacuity of `invalid_output_is_error…`: an output violating the schema is a protocol error -/
example : (call (refEnv lossy64) wTool (fun _ => { out := .json (.obj []) }) (wArgs 7)).kind = .rpcError := by decide
/-- non-vacuity of `text_fallback…`: success, structured content and the fallback block -/
example : (call (refEnv lossy64) wTool wEcho (wArgs 7)).kind = .ok ∧
    (call (refEnv lossy64) wTool wEcho (wArgs 7)).structured.isSome = true ∧
    (call (refEnv lossy64) wTool wEcho (wArgs 7)).content.length = 1 := by decide
/-- the schemas used here are in the family of the lemmas -/
example : Keyed wSchema ∧ DefaultsOk wSchema := by
  refine ⟨?_, ?_⟩
  · simp [wSchema, Keyed, KeyedProps, keys]
  · simp only [wSchema, DefaultsOk, DefaultsOkProps, defaultOk, Schema.leaf, true_and, and_true, or_true, true_or, and_self]
    refine ⟨?_, ?_⟩
    · intro h; exact absurd h (by decide)
    · intro _; decide

/-- **F9, unrepaired tree** (`lossy53`): the schema-valid argument `n = 2^53+1` reaches an int64 field as
`2^53`. The full `handler_sees_defaulted_args` is false for this environment. -/
theorem f9_counterexample_unrepaired :
    valid wSchema (fill wSchema (.obj [("n", .num (.ofInt 9007199254740993))])) = true ∧
    seenEqv (call (refEnv lossy53) wTool wEcho (wArgs 9007199254740993))
      (.obj [("n", .num (.ofInt 9007199254740992)), ("c", .str "x")]) = true ∧
    seenEqv (call (refEnv lossy53) wTool wEcho (wArgs 9007199254740993))
      (fill wSchema (.obj [("n", .num (.ofInt 9007199254740993))])) = false := by decide

/-- with fixes/F09 the same call is exact -/
theorem f9_repaired_exact :
    seenEqv (call (refEnv lossy64) wTool wEcho (wArgs 9007199254740993))
      (fill wSchema (.obj [("n", .num (.ofInt 9007199254740993))])) = true := by decide


theorem Dec.isInt_ofInt (n : Int) : (Dec.ofInt n).isInt = true := by
  simp [Dec.isInt, Dec.ofInt]
theorem Dec.toInt_ofInt (n : Int) : (Dec.ofInt n).toInt = n := by
  simp [Dec.toInt, Dec.ofInt]

/-- a uint64 member holds exactly the integers of [0, 2^64): anything else is a decode error -/
theorem project_uint64_num (n : Int) :
    project .uint64 (.num (.ofInt n)) = if 0 ≤ n ∧ n < two64 then some (.num (.ofInt n)) else none := by
  simp only [project, inUint64, Dec.isInt_ofInt, Dec.toInt_ofInt, Bool.true_and, Bool.and_eq_true, decide_eq_true_eq]

/-- an int64 member holds exactly the integers of [-2^63, 2^63) -/
theorem project_int64_num (n : Int) :
    project .int64 (.num (.ofInt n)) = if -two63 ≤ n ∧ n < two63 then some (.num (.ofInt n)) else none := by
  simp only [project, inInt64, Dec.isInt_ofInt, Dec.toInt_ofInt, Bool.true_and, Bool.and_eq_true, decide_eq_true_eq]

theorem lossy64_int (n : Int) (h0 : -two63 ≤ n) (h1 : n < two64) : lossy64 (.num (.ofInt n)) = .num (.ofInt n) := by
  apply lossy64_exact
  simp [InRange64, Dec.isInt, Dec.toInt, h0, h1, Dec.ofInt]

/-- **what `applySchema` hands on for an integer of the unsigned range, a uint64 member receives unchanged** -/
theorem uint64_field_receives_exact (n : Int) (h0 : 0 ≤ n) (h1 : n < two64) :
    project .uint64 (lossy64 (.num (.ofInt n))) = some (.num (.ofInt n)) := by
  rw [lossy64_int n (by simp only [two63]; omega) h1, project_uint64_num]
  simp [h0, h1]

/-! ### the unsigned half of the exact range: uint64 members

`jsonschema.ForType` gives a `uint64` member `{"type":"integer","minimum":0}`; its values go up to
2^64-1, twice as far as int64. The server's decode keeps them exact (`UseUint64`), and `project .uint64`
accepts exactly [0, 2^64). -/

/-- the schema inferred for `struct{ N uint64 "n" }` -/
def uSchema : Schema :=
  .mk { ty := [.object], required := ["n"], apFalse := true }
    [("n", .mk { ty := [.integer], minimum := some (.ofInt 0) } [] none none)] none none
def uTy : GoTy := .struct [("n", false, .uint64)]
def uTool : Tool Schema :=
  { inSchema := uSchema, outSchema := some uSchema, outRootObject := true, elemZero := none, decodeIn := project uTy }

theorem project_uTy (n : Int) (h0 : 0 ≤ n) (h1 : n < two64) :
    project uTy (.obj [("n", .num (.ofInt n))]) = some (.obj [("n", .num (.ofInt n))]) := by
  have hu := project_uint64_num n
  simp only [h0, h1, and_self, if_true] at hu
  show (projectFields [("n", false, .uint64)] [("n", .num (.ofInt n))]).map JVal.obj = _
  rw [projectFields_cons, projectFields_nil]
  simp only [fieldDecode, lookupJ, if_true, hu]
  rfl

theorem valid_uSchema (n : Int) (h0 : 0 ≤ n) : valid uSchema (.obj [("n", .num (.ofInt n))]) = true := by
  have hle : Dec.le (.ofInt 0) (.ofInt n) = true := by simp [Dec.le, Dec.ofInt, h0]
  simp [uSchema, valid, validProps, validOpt, leafOk, typeOk, hasType, enumOk, constOk, numOk,
    strOk, requiredOk, hasKey, lookupJ, propsHasKey, Dec.isInt_ofInt, hle]

theorem fill_uSchema (v : JVal) : fill uSchema (.obj [("n", v)]) = .obj [("n", v)] := by
  rfl

/-- **every uint64 value travels exactly, in both directions**: for EVERY `n` in [0, 2^64) the call with
argument `{"n": n}` runs the handler on exactly `{"n": n}`, succeeds, and the echoing handler's output
comes back as structured content `{"n": n}` — also above MaxInt64. -/
theorem uint64_argument_and_result_exact (n : Int) (h0 : 0 ≤ n) (h1 : n < two64) :
    (call (refEnv lossy64) uTool wEcho (wArgs n)).seen = some (.obj [("n", .num (.ofInt n))]) ∧
    (call (refEnv lossy64) uTool wEcho (wArgs n)).kind = .ok ∧
    (call (refEnv lossy64) uTool wEcho (wArgs n)).structured = some (.obj [("n", .num (.ofInt n))]) := by
  have hl : lossy64 (.obj [("n", .num (.ofInt n))]) = .obj [("n", .num (.ofInt n))] := by
    have := lossy64_int n (by simp only [two63]; omega) h1
    simp only [lossy64, mapNum, mapNumFields] at this ⊢
    rw [this]
  have hin : applyIn (refEnv lossy64) uSchema (wArgs n) = some (.obj [("n", .num (.ofInt n))]) := by
    simp only [applyIn, defaulted, decoded, argsMap, wArgs, refEnv, Option.map_some, hl, fill_uSchema, valid_uSchema n h0, if_true]
  have hout : applyOut (refEnv lossy64) uTool (.obj [("n", .num (.ofInt n))]) = some (.obj [("n", .num (.ofInt n))]) := by
    simp only [applyOut, uTool, outForm, refEnv, hl, fill_uSchema, valid_uSchema n h0, if_true]
  have hcall : call (refEnv lossy64) uTool wEcho (wArgs n) =
      { seen := some (.obj [("n", .num (.ofInt n))]), kind := .ok, structured := some (.obj [("n", .num (.ofInt n))]),
        content := finalContent none (.obj [("n", .num (.ofInt n))]) } := by
    unfold call
    have e1 : uTool.inSchema = uSchema := rfl
    have e2 : uTool.decodeIn = project uTy := rfl
    simp only [e1, hin, e2, project_uTy n h0 h1, wEcho, outJson, hout]
  rw [hcall]; exact ⟨rfl, rfl, rfl⟩

def structEqv (o : Outcome) (v : JVal) : Bool :=
  match o.structured with
  | some x => x.eqv v
  | none => false

/-- **why the unsigned half matters.** With a decode that keeps only int64 exact (`lossy63`: `UseInt64`
without `UseUint64`) in the place of the wrapper's: the schema-valid argument `n = 2^63+1` reaches the
uint64 member as 9223372036854776000; the schema-valid `n = 2^64-1` is re-encoded as
18446744073709552000, which no uint64 holds, so the VALID call is refused with a tool error and the
handler does not run; and an output `{"n": 2^64-1}` comes back as structured content
`{"n": 18446744073709552000}` — not a value of the output type at all. -/
theorem signed_only_decode_counterexample :
    valid uSchema (fill uSchema (.obj [("n", .num (.ofInt 9223372036854775809))])) = true ∧
    seenEqv (call (refEnv lossy63) uTool wEcho (wArgs 9223372036854775809))
      (.obj [("n", .num (.ofInt 9223372036854776000))]) = true ∧
    seenEqv (call (refEnv lossy63) uTool wEcho (wArgs 9223372036854775809))
      (.obj [("n", .num (.ofInt 9223372036854775809))]) = false ∧
    valid uSchema (fill uSchema (.obj [("n", .num (.ofInt 18446744073709551615))])) = true ∧
    (call (refEnv lossy63) uTool wEcho (wArgs 18446744073709551615)).seen.isNone = true ∧
    (call (refEnv lossy63) uTool wEcho (wArgs 18446744073709551615)).kind = .toolError ∧
    structEqv (call (refEnv lossy63) uTool (fun _ => { out := .json (.obj [("n", .num (.ofInt 18446744073709551615))]) }) (wArgs 7))
      (.obj [("n", .num (.ofInt 18446744073709552000))]) = true ∧
    (project .uint64 (.num (.ofInt 18446744073709552000))).isNone = true := by decide

/-- the boundaries under the wrapper's own decode: 2^63-1, 2^63, 2^63+1, 2^64-1 exact (argument and
structured content); 2^64 and -1 refused without running the handler -/
theorem uint64_boundaries :
    seenEqv (call (refEnv lossy64) uTool wEcho (wArgs 9223372036854775807)) (.obj [("n", .num (.ofInt 9223372036854775807))]) = true ∧
    seenEqv (call (refEnv lossy64) uTool wEcho (wArgs 9223372036854775808)) (.obj [("n", .num (.ofInt 9223372036854775808))]) = true ∧
    seenEqv (call (refEnv lossy64) uTool wEcho (wArgs 9223372036854775809)) (.obj [("n", .num (.ofInt 9223372036854775809))]) = true ∧
    seenEqv (call (refEnv lossy64) uTool wEcho (wArgs 18446744073709551615)) (.obj [("n", .num (.ofInt 18446744073709551615))]) = true ∧
    structEqv (call (refEnv lossy64) uTool wEcho (wArgs 18446744073709551615)) (.obj [("n", .num (.ofInt 18446744073709551615))]) = true ∧
    (call (refEnv lossy64) uTool wEcho (wArgs 18446744073709551616)).seen.isNone = true ∧
    (call (refEnv lossy64) uTool wEcho (wArgs 18446744073709551616)).kind = .toolError ∧
    (call (refEnv lossy64) uTool wEcho (wArgs (-1))).seen.isNone = true := by decide

/-! ### member names are matched exactly -/

/-- `{"type":"object","properties":{"query":{"type":"string"},"maxItems":{"type":"integer","minimum":1,
"maximum":100,"default":50}},"required":["query"]}` — additional properties allowed -/
def cSchema : Schema :=
  .mk { ty := [.object], required := ["query"] }
    [("query", .mk { ty := [.string] } [] none none),
     ("maxItems", .mk { ty := [.integer], minimum := some (.ofInt 1), maximum := some (.ofInt 100),
                        dflt := some (.num (.ofInt 50)) } [] none none)] none none

/-- `struct{ Query string "query"; MaxItems int64 "maxItems" }` -/
def cTy : GoTy := .struct [("query", false, .string), ("maxItems", false, .int64)]

def cTool (dec : JVal → Option JVal) : Tool Schema :=
  { inSchema := cSchema, outSchema := none, outRootObject := false, elemZero := none, decodeIn := dec }

/-- `{"maxItems":10,"maxitems":100000,"query":"x"}`: valid — `maxitems` is an additional property -/
def cArgs : Args :=
  .val (.obj [("maxItems", .num (.ofInt 10)), ("maxitems", .num (.ofInt 100000)), ("query", .str "x")])
/-- `{"maxitems":100000,"query":"x"}`: valid, and `maxItems` takes its default -/
def cArgsDflt : Args := .val (.obj [("maxitems", .num (.ofInt 100000)), ("query", .str "x")])

/-- non-vacuity of `handler_sees_exactly_validated_members` / `unknown_member_is_dropped`: the member
`maxitems` is not the property `maxItems`; the handler sees the validated 10, resp. the default 50 -/
example :
    seenEqv (call (refEnv lossy64) (cTool (project cTy)) wEcho cArgs)
      (.obj [("query", .str "x"), ("maxItems", .num (.ofInt 10))]) = true ∧
    seenEqv (call (refEnv lossy64) (cTool (project cTy)) wEcho cArgsDflt)
      (.obj [("query", .str "x"), ("maxItems", .num (.ofInt 50))]) = true ∧
    (fieldNames [("query", false, GoTy.string), ("maxItems", false, GoTy.int64)]).Nodup ∧
    "maxitems" ∉ fieldNames [("query", false, GoTy.string), ("maxItems", false, GoTy.int64)] := by decide

/-- a name matching that identifies `maxitems` with `maxItems`, as `encoding/json`'s does -/
def cFold (s : String) : String := if s = "maxitems" then "maxItems" else s

/-- **why the decode must match member names exactly.** With a decoder that matches names up to case
(`projectFold`; last matching member in key order wins — `encoding/json`) in the place of `project`, the
same two valid calls still run the handler, but it receives `maxItems = 100000`: a value that was never
validated as `maxItems`, overrides the validated 10 resp. the applied default 50, and makes the
handler's input INVALID under the input schema. So `handler_sees_exactly_validated_members` is a
property of the exact-name decode the wrapper has, not of typed decoding as such. -/
theorem fold_decode_counterexample :
    valid cSchema (fill cSchema (.obj [("maxItems", .num (.ofInt 10)), ("maxitems", .num (.ofInt 100000)), ("query", .str "x")])) = true ∧
    seenEqv (call (refEnv lossy64) (cTool (projectFold cFold cTy)) wEcho cArgs)
      (.obj [("query", .str "x"), ("maxItems", .num (.ofInt 100000))]) = true ∧
    seenEqv (call (refEnv lossy64) (cTool (projectFold cFold cTy)) wEcho cArgsDflt)
      (.obj [("query", .str "x"), ("maxItems", .num (.ofInt 100000))]) = true ∧
    valid cSchema (.obj [("query", .str "x"), ("maxItems", .num (.ofInt 100000))]) = false := by decide

/-! ### registration witnesses -/

/-- inference gives every type the schema `{"type":"object"}`; everything resolves -/
def wReg : RegEnv String Schema :=
  { derive := fun _ => .mk { ty := [.object] } [] none none, resolves := fun _ => true,
    objectSchema := .mk { ty := [.object] } [] none none }

def wPlain : Decl String Schema :=
  { inKey := "args", inAny := false, inGiven := none, outKey := "result", outAny := false, outGiven := none }
/-- same Go types, its own stricter input schema, handed in as pointer 7 -/
def wStrict : Decl String Schema := { wPlain with inGiven := some ⟨some 7, wSchema⟩ }

/-- one cache shared by two servers: the inferred schemas enter the cache, then the strict tool -/
def wHistory : List (RegOp String Schema) :=
  [.server (some 1), .add "plain" wPlain, .server (some 1), .add "strict" wStrict, .add "strict2" wStrict]

/-- non-vacuity of `registered_tool_enforces_own_schemas`: the history is admissible, populates the
cache (both types, the pointer) and leaves two tools on the second server -/
example : (∀ op ∈ wHistory, RegOp.Ok (fun _ => wSchema) op) ∧
    (World.run wReg {} wHistory).tools.length = 2 ∧
    ((World.run wReg {} wHistory).cacheOf.byType.map (·.1)) = ["result", "args"] ∧
    ((World.run wReg {} wHistory).cacheOf.bySchema.map (·.1)) = [7] := by
  refine ⟨?_, by decide, by decide, by decide⟩
  intro op hop
  simp only [wHistory, List.mem_cons, List.not_mem_nil, or_false] at hop
  rcases hop with h | h | h | h | h <;> subst h <;>
    simp [RegOp.Ok, Decl.Ok, GivenOk, wStrict, wPlain]

/-- … and the strict tool refuses `{}` (its own schema requires `n`) although the cached schema of its
Go type accepts it -/
example : ((World.run wReg {} wHistory).tools.map fun x =>
      (call (refEnv lossy64) (x.2.2.tool (fun _ => true) none (project wTy)) wEcho (.val (.obj []))).seen.isSome) = [false, false] ∧
    valid (wReg.derive "args") (.obj []) = true := by decide

/-- the cache after a server registered the plain tool -/
def wCacheAfterPlain : Cache String Schema :=
  (World.run wReg {} [.server (some 1), .add "plain" wPlain]).cacheOf

/-- **why the order of the lookups in `setSchema` matters.** With the `byType` lookup hoisted above the
test for a declared schema (`setSchemaHoisted`), after the same first registration the strict tool
still publishes its own schema but enforces the cached one: the handler runs on `{}`, which is invalid
under the declared schema. So `registered_tool_enforces_own_schemas` is a property of the lookup order
the code has, not of caching as such. -/
theorem hoisted_type_lookup_counterexample :
    Coherent wReg (fun _ => wSchema) wCacheAfterPlain ∧
    ∃ r, (setSchemaHoisted wReg wCacheAfterPlain "args" wStrict.inGiven).1 = some r ∧
      valid r.published (.obj []) = false ∧ valid r.enforced (.obj []) = true ∧
      (call (refEnv lossy64) { wTool with inSchema := r.enforced } wEcho (.val (.obj []))).seen.isSome = true := by
  refine ⟨?_, ?_⟩
  · have hops : ∀ op ∈ [RegOp.server (some 1), RegOp.add "plain" wPlain], RegOp.Ok (fun _ => wSchema) op := by
      intro op hop
      rcases List.mem_cons.mp hop with h | hop
      · subst h; simp [RegOp.Ok]
      · rcases List.mem_cons.mp hop with h | hop
        · subst h; simp [RegOp.Ok, Decl.Ok, GivenOk, wPlain]
        · simp at hop
    exact World.cacheOf_coherent wReg _ _ (World.run_ok wReg (fun _ => wSchema) _ {} (World.ok_init _ _) hops)
  · exact ⟨⟨wSchema, wReg.derive "args"⟩, rfl, by decide, by decide, by decide⟩

end Witness

/-! ## every protocol version

The wrapper `call` never sees the session. The protocol version a peer negotiated enters in the
dispatcher, `(*Server).callTool`, between the wrapper and the wire — modelled by `deliver`, and by
`serve since v` for the two together. The theorems below are C16's clauses about what THE PEER is answered
(`(serve since v E t h a).out`), for EVERY version string `v` (and every threshold `since`): there is no
exception. What the SDK documents for peers older than SEP-2106 (non-object structured content) is not a
different result but an ADDITIONAL text block (`text_fallback_iff_no_content`, second half: the serialised
structured content is appended to the handler's own content whenever it is not an object), "so that
pre-SEP-2106 clients can recover the structured payload from unstructured content" (server.go, comment in
`toolForErr`) — at every version, too. The one thing that does depend on the version is the `resultType`
mark (`result_type_complete_iff`), which C16 does not speak about. That `deliver` is the dispatcher the code
has is the obligation `dispatcher_assigns_only_content` on the regenerated table (`DispatchTable.lean`) plus the
structural facts `typedtool.callTool_after_handler_*`. -/

/-- the dispatcher hands the wrapper's outcome on as it is -/
theorem deliver_out (m : Bool) (o : Outcome) : (deliver m o).out = o := by
  unfold deliver
  split <;> rfl

/-- **at every protocol version the peer is answered with the wrapper's own outcome** -/
theorem served_is_wrapper_outcome (since v : String) (E : Env S) (t : Tool S) (h : JVal → HRet) (a : Args) :
    (serve since v E t h a).out = call E t h a := deliver_out _ _

/-- … so two peers at different versions making the same call are answered alike -/
theorem served_version_independent (since v v' : String) (E : Env S) (t : Tool S) (h : JVal → HRet) (a : Args) :
    (serve since v E t h a).out = (serve since v' E t h a).out := by
  rw [served_is_wrapper_outcome, served_is_wrapper_outcome]

/-- **structured content = JSON of the output with the schema's defaults, at every protocol version**
(`structured_equals_output_json_with_defaults` for what the peer is answered). -/
theorem structured_equals_output_json_with_defaults_at_every_version (since v : String)
    (E : Env S) (t : Tool S) (h : JVal → HRet) (a : Args) (x j : JVal) (s : S)
    (hs : (serve since v E t h a).out.seen = some x) (he : (h x).err = none)
    (hout : outJson t (h x).out = some j) (hsch : t.outSchema = some s)
    (hok : (serve since v E t h a).out.kind = .ok) :
    (serve since v E t h a).out.structured = some (if (outForm E t s j).2 then (outForm E t s j).1 else j) := by
  rw [served_is_wrapper_outcome] at hs hok ⊢
  exact structured_equals_output_json_with_defaults E t h a x j s hs he hout hsch hok

/-- **a declared output type or schema ⇒ a successful result carries structured content, at every
protocol version** — whatever JSON kind the output is. -/
theorem success_has_structured_at_every_version (since v : String)
    (E : Env S) (t : Tool S) (h : JVal → HRet) (a : Args) (x : JVal)
    (hs : (serve since v E t h a).out.seen = some x) (he : (h x).err = none)
    (hok : (serve since v E t h a).out.kind = .ok) (hsch : t.outSchema.isSome = true) :
    (serve since v E t h a).out.structured.isSome = true := by
  rw [served_is_wrapper_outcome] at hs hok ⊢
  exact success_has_structured E t h a x hs he hok hsch

/-- **structured content is valid, at every protocol version** -/
theorem structured_valid_at_every_version (since v : String)
    (E : Env S) (t : Tool S) (h : JVal → HRet) (a : Args) (x sc : JVal) (s : S)
    (hs : (serve since v E t h a).out.seen = some x) (he : (h x).err = none)
    (hsch : t.outSchema = some s) (hok : (serve since v E t h a).out.kind = .ok)
    (hsc : (serve since v E t h a).out.structured = some sc) :
    E.valid s sc = true ∨ (E.valid s (E.remarshal sc) = true ∧ (outForm E t s sc).2 = false) := by
  rw [served_is_wrapper_outcome] at hs hok hsc
  exact structured_valid E t h a x sc s hs he hsch hok hsc

/-- **the text rendering, at every protocol version**: one block holding the serialised structured content
when the handler set no content; else the handler's content, followed by that block iff the structured
content is not a JSON object (what a peer older than SEP-2106 recovers the payload from — but every peer
gets it, and gets the structured content too). -/
theorem text_fallback_at_every_version (since v : String)
    (E : Env S) (t : Tool S) (h : JVal → HRet) (a : Args) (x sc : JVal)
    (hs : (serve since v E t h a).out.seen = some x) (he : (h x).err = none)
    (hsc : (serve since v E t h a).out.structured = some sc) :
    ((h x).content = none → (serve since v E t h a).out.content = [.jsonOf sc]) ∧
    (∀ c, (h x).content = some c →
      (serve since v E t h a).out.content = if sc.isObj then c else c ++ [.jsonOf sc]) := by
  rw [served_is_wrapper_outcome] at hs hsc ⊢
  exact text_fallback_iff_no_content E t h a x sc hs he hsc

/-- **invalid arguments ⇒ tool-level error result, handler not run, at every protocol version** — in
particular `arguments` that are no object at all (an array, a string, a number, a boolean: `argsMap` gives
nothing to validate): never a protocol error (seeded change C16-m12). -/
theorem invalid_gives_tool_error_at_every_version (since v : String)
    (E : Env S) (t : Tool S) (h : JVal → HRet) (a : Args)
    (hinv : ∀ d, defaulted E t.inSchema a = some d → E.valid t.inSchema d = false) :
    (serve since v E t h a).out.seen = none ∧ (serve since v E t h a).out.kind = .toolError ∧
      (serve since v E t h a).out.content ≠ [] ∧ (serve since v E t h a).out.structured = none := by
  rw [served_is_wrapper_outcome]
  exact invalid_gives_tool_error_without_invocation E t h a hinv

/-- `arguments` of a JSON kind other than object and null decode to nothing: the hypothesis of
`invalid_gives_tool_error_at_every_version` holds for them under every schema -/
theorem nonobject_arguments_are_invalid (E : Env S) (s : S) (v : JVal)
    (hv : ∀ fs, v ≠ .obj fs) (hn : v ≠ .null) : defaulted E s (.val v) = none := by
  cases v with
  | null => exact absurd rfl hn
  | obj fs => exact absurd rfl (hv fs)
  | bool b => rfl
  | num n => rfl
  | str s => rfl
  | arr xs => rfl

/-- **what does depend on the version**: a result (success or tool error) is marked `resultType: complete`
exactly for a peer at `since` or later; a protocol error carries no result. -/
theorem result_type_complete_iff (since v : String) (E : Env S) (t : Tool S) (h : JVal → HRet) (a : Args) :
    (serve since v E t h a).resultType = some .complete ↔
      ¬ v < since ∧ (call E t h a).kind ≠ .rpcError := by
  unfold serve deliver supportsMultiRoundTrip
  cases hk : (call E t h a).kind <;> by_cases hv : v < since <;> simp [hv]

/-- … and nothing else is ever set by a typed tool's call -/
theorem result_type_none_or_complete (since v : String) (E : Env S) (t : Tool S) (h : JVal → HRet) (a : Args) :
    (serve since v E t h a).resultType = none ∨ (serve since v E t h a).resultType = some .complete := by
  unfold serve deliver
  split
  · exact .inl rfl
  · split
    · exact .inr rfl
    · exact .inl rfl

section VersionWitness

/-- `{"type":"integer"}` as the output schema of `func(…, In) (…, int64, error)` -/
def nSchema : Schema := .mk { ty := [.integer] } [] none none
def nTool : Tool Schema := { wTool with outSchema := some nSchema, outRootObject := false }
/-- the handler returns 42 -/
def nRet : JVal → HRet := fun _ => { out := .json (.num (.ofInt 42)) }

/-- the dispatcher of seeded change C16-m11: non-object structured content is dropped for a peer older
than SEP-2106 -/
def deliverStripping (sep2106 : Bool) (o : Outcome) : Outcome :=
  match o.structured with
  | some sc => if !sc.isObj && !sep2106 then { o with structured := none } else o
  | none => o

/-- non-vacuity of the `…_at_every_version` theorems: a typed tool with a NUMBER output, called by a peer
at any version whatever, is answered with structured content 42 and the text block holding it -/
theorem number_output_is_structured_at_every_version (v : String) :
    structEqv (serveAt v (refEnv lossy64) nTool nRet (wArgs 7)).out (.num (.ofInt 42)) = true ∧
    (serveAt v (refEnv lossy64) nTool nRet (wArgs 7)).out.kind = .ok ∧
    (serveAt v (refEnv lossy64) nTool nRet (wArgs 7)).out.content.length = 1 := by
  unfold serveAt
  rw [served_is_wrapper_outcome]
  decide

/-- **why the dispatcher matters (the shape of seeded change C16-m11)**: with a dispatcher that strips
non-object structured content for older peers, the same successful call under a declared output schema
is answered WITHOUT structured content — `success_has_structured` is false of what the peer receives,
although the wrapper produced it; an object output is not affected. -/
theorem legacy_stripping_counterexample :
    (call (refEnv lossy64) nTool nRet (wArgs 7)).structured.isSome = true ∧
    (deliverStripping false (call (refEnv lossy64) nTool nRet (wArgs 7))).kind = .ok ∧
    (deliverStripping false (call (refEnv lossy64) nTool nRet (wArgs 7))).structured.isNone = true ∧
    (deliverStripping true (call (refEnv lossy64) nTool nRet (wArgs 7))).structured.isSome = true ∧
    (deliverStripping false (call (refEnv lossy64) wTool wEcho (wArgs 7))).structured.isSome = true := by decide

/-- the two sides of `result_type_complete_iff` on the regenerated threshold: a peer at the SDK's latest
version sees `complete`, a peer at the oldest supported version does not, a protocol error never -/
example : (serveAt Generated.TypedTool.latestProtocolVersion (refEnv lossy64) nTool nRet (wArgs 7)).resultType = some .complete := by decide
example : (serveAt "2024-11-05" (refEnv lossy64) nTool nRet (wArgs 7)).resultType = none := by decide
example : "2024-11-05" ∈ Generated.TypedTool.supportedProtocolVersions := by decide
example : (serveAt Generated.TypedTool.latestProtocolVersion (refEnv lossy64) nTool (fun _ => { err := some .rpc }) (wArgs 7)).resultType = none := by decide
/-- `arguments` that are an array: a tool-level error result, the handler did not run -/
example : (serveAt "2025-06-18" (refEnv lossy64) nTool nRet (.val (.arr [.num (.ofInt 1)]))).out.kind = .toolError ∧
    (serveAt "2025-06-18" (refEnv lossy64) nTool nRet (.val (.arr [.num (.ofInt 1)]))).out.seen.isNone = true := by decide

end VersionWitness

end TypedTool
