import McpModel.TypedTool.Bridge
/-!
# E12 TypedTool (C16) — calls leave no trace; overlapping calls are answered with their OWN results

C16 speaks about every call by itself: *its* arguments, *its* handler's output, the result *it* is
answered with. The code that exists keeps no state between calls of a typed tool (`toolForErr` builds a
closure over the resolved schemas only; `applySchema` allocates what it decodes into; the JSON of the
output is a fresh slice), and a request's result is held by the goroutine of that request from the moment
its handler chain returns to the moment it is serialised. Two seeded changes broke exactly this: a
per-tool scratch map that is handed to the next call dirty after a REJECTED call (C16-m16: the history
`rejected call; valid call` on one tool) and a pooled buffer that the structured content of a call still
aliases when the next call — started before the first one's response has been written — encodes into it
(C16-m13: overlapping calls). The harness therefore runs (a) every call op as exactly one invocation of
the wrapper (no separate crash probe any more), so that the histories of calls on one tool are what the
ops say, and (b) groups of OVERLAPPING calls (`ovl=1..n`: call i is held — `hold=a`: after its handler chain has
returned, the result not yet serialised; `hold=h`: inside its handler, before the handler looks at its
typed input —, call i+1 is started, … then the held calls are released in reverse order). This file is the
model's side of that:

* histories — `next_call`, `calls_leave_no_trace`, `call_record_history_free`,
  `trace_of_calls_pointwise`: a call event does not change the model's state, so what the model says of
  a call (and what the monitor judges it by) is the same after ANY list of further calls, in any order;
* overlap — the two atomic sections of a request (`Sect.handle`: the handler chain runs and returns the
  result, held by the request; `Sect.respond`: the held result is serialised), over ALL schedules:
  `responses_are_own` (every response carries the result of the request it answers),
  `nested_schedule` (the schedule the harness drives: n handles, then n responds in reverse order, answers
  every request), `overlap_group_is_pointwise` (a group of overlapping calls is answered, request by
  request, with the model's record of that call on the unchanged state: the driver judges an `ovl=` record
  like any other call record);
* `pooled_buffer_counterexample` — the m13 shape (the held result is a reference into ONE recycled buffer)
  is not such a server: the first of two overlapping requests is answered with the second one's result.

Core Lean only.
-/
namespace TypedTool

/-! ### histories: a call leaves no trace -/

/-- the model's record of a call is a call record (whatever the callee) -/
theorem modelRec_call (d : MState) (name : Option String) (c : CallEv) :
    ∃ o lib olib, modelRec d (.call name c) = .call name c o lib olib := by
  simp only [modelRec]
  split
  · exact ⟨_, _, _, rfl⟩
  · split <;> exact ⟨_, _, _, rfl⟩

/-- **next_call.** A call event does not change the state of the model (registration world, booked tools,
session version): `MState.next d (call …) = d`. -/
theorem next_call (d : MState) (name : Option String) (c : CallEv) : d.next (.call name c) = d := by
  obtain ⟨o, lib, olib, h⟩ := modelRec_call d name c
  simp only [MState.next, h, mstep_call_fst]

/-- an event list made of calls only -/
def AllCalls : List Ev → Prop
  | [] => True
  | .call _ _ :: es => AllCalls es
  | _ :: _ => False

/-- the state after a list of events (the model's own records) -/
def MState.after (d : MState) : List Ev → MState
  | [] => d
  | e :: es => (d.next e).after es

/-- **calls_leave_no_trace.** After any list of calls — valid, rejected, failing, with any outputs, to any
tools, in any order — the model's state is what it was. -/
theorem calls_leave_no_trace (d : MState) : ∀ cs : List Ev, AllCalls cs → d.after cs = d
  | [], _ => rfl
  | .call name c :: es, h => by
    simp only [MState.after, next_call]
    exact calls_leave_no_trace d es h
  | .reset :: _, h => h.elim
  | .server _ _ :: _, h => h.elim
  | .tool _ :: _, h => h.elim

/-- **call_record_history_free.** What the model says of an event `e` (in particular of a call: whether the
handler runs, what it sees, the result) after a list of calls `cs` is what it says of `e` without them:
no call can influence a later one (the C16-m16 shape — a rejected call changing what the next call on
the tool is validated against and decoded from — is not a behaviour of the model). -/
theorem call_record_history_free (d : MState) (cs : List Ev) (h : AllCalls cs) (e : Ev) :
    modelRec (d.after cs) e = modelRec d e := by
  rw [calls_leave_no_trace d cs h]

/-- … and for two histories of calls `cs₁`, `cs₂` (e.g. a permutation, a prefix, a repetition) -/
theorem call_record_independent_of_call_history (d : MState) (cs₁ cs₂ : List Ev) (h₁ : AllCalls cs₁)
    (h₂ : AllCalls cs₂) (e : Ev) : modelRec (d.after cs₁) e = modelRec (d.after cs₂) e := by
  rw [call_record_history_free d cs₁ h₁, call_record_history_free d cs₂ h₂]

/-- **trace_of_calls_pointwise.** The model's trace of a list of calls is, record by record, its record of
each call on the state the list started from. -/
theorem trace_of_calls_pointwise (d : MState) : ∀ cs : List Ev, AllCalls cs → traceFrom d cs = cs.map (modelRec d)
  | [], _ => rfl
  | .call name c :: es, h => by
    simp only [traceFrom, List.map, next_call]
    rw [trace_of_calls_pointwise d es h]
  | .reset :: _, h => h.elim
  | .server _ _ :: _, h => h.elim
  | .tool _ :: _, h => h.elim

/-! ### overlapping requests -/

/-- One atomic section of the server's work on the requests of a session. `handle id r`: the handler chain
of request `id` (middleware, `callTool`, the typed wrapper, the handler) runs and returns the result `r`,
which the request's goroutine holds. `respond id`: the held result of request `id` is serialised and
written. Between the two sections of one request any sections of other requests may run. -/
inductive Sect (R : Type) where
  | handle (id : Nat) (r : R)
  | respond (id : Nat)

/-- the requests in flight and the result each one holds -/
abbrev Flight (R : Type) := List (Nat × R)

def lookupF {R : Type} (id : Nat) : Flight R → Option R
  | [] => none
  | (x, r) :: t => if x = id then some r else lookupF id t

def dropF {R : Type} (id : Nat) : Flight R → Flight R
  | [] => []
  | (x, r) :: t => if x = id then dropF id t else (x, r) :: dropF id t

/-- one section; `some (id, r)`: the response written -/
def Sect.step {R : Type} (f : Flight R) : Sect R → Flight R × Option (Nat × R)
  | .handle id r => ((id, r) :: f, none)
  | .respond id =>
    match lookupF id f with
    | some r => (dropF id f, some (id, r))
    | none => (f, none)

/-- the responses written along a schedule, in order -/
def runSched {R : Type} (f : Flight R) : List (Sect R) → List (Nat × R)
  | [] => []
  | s :: rest =>
    match s.step f with
    | (f', some p) => p :: runSched f' rest
    | (f', none) => runSched f' rest

theorem lookupF_mem {R : Type} {id : Nat} {r : R} : ∀ {f : Flight R}, lookupF id f = some r → (id, r) ∈ f
  | [], h => by simp [lookupF] at h
  | (x, q) :: t, h => by
    simp only [lookupF] at h
    split at h
    · next hx => cases h; subst hx; exact List.mem_cons_self
    · exact List.mem_cons_of_mem _ (lookupF_mem h)

theorem dropF_sub {R : Type} (id : Nat) : ∀ (f : Flight R) p, p ∈ dropF id f → p ∈ f
  | [], _, h => by simp [dropF] at h
  | (x, q) :: t, p, h => by
    simp only [dropF] at h
    split at h
    · exact List.mem_cons_of_mem _ (dropF_sub id t p h)
    · rcases List.mem_cons.mp h with h | h
      · exact h ▸ List.mem_cons_self
      · exact List.mem_cons_of_mem _ (dropF_sub id t p h)

/-- **responses_are_own.** For ALL schedules — any number of requests, their sections interleaved in any
way —: if the handler chain of request `id` returned `res id`, every response written carries the result
of the request it answers. -/
theorem responses_are_own {R : Type} (res : Nat → R) :
    ∀ (s : List (Sect R)) (f : Flight R), (∀ p ∈ f, p.2 = res p.1) →
      (∀ id r, Sect.handle id r ∈ s → r = res id) → ∀ p ∈ runSched f s, p.2 = res p.1
  | [], _, _, _, p, hp => by simp [runSched] at hp
  | .handle id r :: rest, f, hf, hs, p, hp => by
    simp only [runSched, Sect.step] at hp
    refine responses_are_own res rest ((id, r) :: f) ?_ (fun i q hq => hs i q (List.mem_cons_of_mem _ hq)) p hp
    intro q hq
    rcases List.mem_cons.mp hq with h | h
    · subst h; exact hs id r List.mem_cons_self
    · exact hf q h
  | .respond id :: rest, f, hf, hs, p, hp => by
    simp only [runSched, Sect.step] at hp
    have hs' : ∀ i q, Sect.handle i q ∈ rest → q = res i := fun i q hq => hs i q (List.mem_cons_of_mem _ hq)
    split at hp
    · next f' q heq =>
      split at heq
      · next r hl =>
        cases heq
        rcases List.mem_cons.mp hp with h | h
        · subst h; exact hf _ (lookupF_mem hl)
        · exact responses_are_own res rest _ (fun q hq => hf q (dropF_sub id f q hq)) hs' p h
      · cases heq
    · next f' heq =>
      split at heq
      · cases heq
      · cases heq
        exact responses_are_own res rest f hf hs' p hp

/-- **held_inputs_are_own.** The same statement read for the INPUT side (harness: `hold=h`, a call held inside
its handler — the wrapper has validated and decoded the arguments, the handler holds its typed input and
looks at it only after the overlapping calls have run): `handle id a` = the wrapper of request `id` hands
the typed input `a` to the handler, `respond id` = the handler looks at its input. Whatever ran in
between, it sees the input decoded from its own validated arguments. -/
theorem held_inputs_are_own {A : Type} (decoded : Nat → A) (s : List (Sect A))
    (h : ∀ id a, Sect.handle id a ∈ s → a = decoded id) : ∀ p ∈ runSched [] s, p.2 = decoded p.1 :=
  responses_are_own decoded s [] (fun _ hp => by simp at hp) h

/-- the schedule the harness drives for a group of overlapping calls: every request is handled (and held),
then the held results are written in reverse order -/
def nested {R : Type} (reqs : List (Nat × R)) : List (Sect R) :=
  reqs.map (fun p => Sect.handle p.1 p.2) ++ reqs.reverse.map (fun p => Sect.respond p.1)

theorem runSched_handles {R : Type} : ∀ (reqs : List (Nat × R)) (f : Flight R) (rest : List (Sect R)),
    runSched f (reqs.map (fun p => Sect.handle p.1 p.2) ++ rest) = runSched (reqs.reverse ++ f) rest
  | [], f, rest => by simp
  | p :: ps, f, rest => by
    simp only [List.map, List.cons_append, runSched, Sect.step]
    rw [runSched_handles ps ((p.1, p.2) :: f) rest]
    simp

theorem dropF_not_mem {R : Type} (id : Nat) : ∀ (f : Flight R), (∀ p ∈ f, p.1 ≠ id) → dropF id f = f
  | [], _ => rfl
  | (x, q) :: t, h => by
    have hx : x ≠ id := h (x, q) List.mem_cons_self
    simp only [dropF, hx, if_false]
    rw [dropF_not_mem id t (fun p hp => h p (List.mem_cons_of_mem _ hp))]

theorem runSched_responds {R : Type} : ∀ (fl : Flight R), (fl.map (·.1)).Nodup →
    runSched fl (fl.map (fun p => Sect.respond p.1)) = fl
  | [], _ => rfl
  | (x, q) :: t, h => by
    have hn := List.nodup_cons.mp h
    have hnot : ∀ p ∈ t, p.1 ≠ x := fun p hp e => hn.1 (e ▸ List.mem_map_of_mem (f := (·.1)) hp)
    simp only [List.map, runSched, Sect.step, lookupF, if_true, dropF]
    rw [dropF_not_mem x t hnot, runSched_responds t hn.2]

/-- **nested_schedule.** n requests with distinct ids handled one after the other, then answered in reverse
order: every request is answered, with its own result. -/
theorem nested_schedule {R : Type} (reqs : List (Nat × R)) (h : (reqs.map (·.1)).Nodup) :
    runSched [] (nested reqs) = reqs.reverse := by
  have h' : (reqs.reverse.map (·.1)).Nodup := by
    rw [List.map_reverse]; grind
  simp only [nested]
  rw [runSched_handles reqs [] _, List.append_nil]
  exact runSched_responds reqs.reverse h'

/-- **overlap_group_is_pointwise.** A group of overlapping calls `cs` (request `i` = the i-th call) on the
state `d`, each handler chain returning what the model says of that call when it runs (the state a call
runs on is `d` whatever ran before it: `calls_leave_no_trace`), answered in reverse order: the responses
are, request by request, the model's records of the calls on `d` — the records of the same calls made one
after the other (`trace_of_calls_pointwise`), in reverse. -/
theorem overlap_group_is_pointwise (d : MState) (cs : List Ev) (h : AllCalls cs) :
    runSched [] (nested ((traceFrom d cs).zipIdx.map (fun p => (p.2, p.1)))) =
      ((cs.map (modelRec d)).zipIdx.map (fun p => (p.2, p.1))).reverse := by
  rw [trace_of_calls_pointwise d cs h]
  apply nested_schedule
  rw [List.map_map]
  have : ((fun p : Nat × Rec => p.1) ∘ fun p : Rec × Nat => (p.2, p.1)) = fun p => p.2 := by
    funext p; rfl
  rw [this]
  have hr : List.map (fun p : Rec × Nat => p.2) (List.map (modelRec d) cs).zipIdx
      = List.range' 0 (List.map (modelRec d) cs).length := by simp
  rw [hr]
  exact List.nodup_range' 1

/-! ### the pooled-buffer server (seeded change C16-m13) -/

/-- a server whose requests hold a REFERENCE into one recycled buffer instead of their result: `handle`
encodes into the buffer, `respond` serialises what the buffer holds then -/
def Sect.stepPooled {R : Type} (st : Option R × List Nat) : Sect R → (Option R × List Nat) × Option (Nat × R)
  | .handle id r => ((some r, id :: st.2), none)
  | .respond id =>
    match st.1 with
    | some r => if st.2.contains id then ((st.1, st.2.erase id), some (id, r)) else (st, none)
    | none => (st, none)

def runPooled {R : Type} (st : Option R × List Nat) : List (Sect R) → List (Nat × R)
  | [] => []
  | s :: rest =>
    match s.stepPooled st with
    | (st', some p) => p :: runPooled st' rest
    | (st', none) => runPooled st' rest

/-- **pooled_buffer_counterexample.** Two overlapping requests with different results on the pooled-buffer
server: request 0 is answered with request 1's result — not a behaviour of `runSched`
(`responses_are_own`), and what the harness's overlapping calls exhibit on C16-m13. -/
theorem pooled_buffer_counterexample :
    runPooled (none, []) (nested [(0, "[\"aaaa\"]"), (1, "[\"bbbb\"]")]) = [(1, "[\"bbbb\"]"), (0, "[\"bbbb\"]")] ∧
    runSched [] (nested [(0, "[\"aaaa\"]"), (1, "[\"bbbb\"]")]) = [(1, "[\"bbbb\"]"), (0, "[\"aaaa\"]")] := by
  constructor <;> decide

end TypedTool
