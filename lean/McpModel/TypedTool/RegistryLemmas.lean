import McpModel.TypedTool.Registry
/-!
E12 TypedTool (C16) — invariants of registration through shared `SchemaCache`s.

`Coherent`: a cache holds, under a Go type, only the schema inferred from that type, and under a schema
pointer only the content of that pointer. The second part needs the SDK's documented condition of use
(mcp/schema_cache.go, "Trade-offs"): the content behind a `*jsonschema.Schema` handed to `AddTool` does
not change afterwards — expressed by a fixed `heap : Nat → S` that every declaration agrees with.
-/
namespace TypedTool

variable {K S : Type} [DecidableEq K]

/-- the cache says nothing but what inference (`byType`) and the callers' own schemas (`bySchema`) say -/
def Coherent (R : RegEnv K S) (heap : Nat → S) (c : Cache K S) : Prop :=
  (∀ k s, assoc k c.byType = some s → s = R.derive k) ∧
  (∀ p s, assoc p c.bySchema = some s → s = heap p)

/-- a schema handed in by pointer has the content of that pointer -/
def GivenOk (heap : Nat → S) : Option (Given S) → Prop
  | some g => ∀ p, g.ptr = some p → g.content = heap p
  | none => True

def Decl.Ok (heap : Nat → S) (d : Decl K S) : Prop := GivenOk heap d.inGiven ∧ GivenOk heap d.outGiven

def RegOp.Ok (heap : Nat → S) : RegOp K S → Prop
  | .server _ => True
  | .add _ d => d.Ok heap

/-- the own schema of one side: the given one, else the inferred one -/
def ownSide (R : RegEnv K S) (k : K) : Option (Given S) → S
  | some g => g.content
  | none => R.derive k

/-- a registered tool publishes and enforces its own schemas -/
def EnforcesOwn (R : RegEnv K S) (d : Decl K S) (e : Entry S) : Prop :=
  e.pubIn = d.ownIn R ∧ e.enfIn = d.ownIn R ∧ e.pubOut = d.ownOut R ∧ e.enfOut = d.ownOut R

theorem coherent_empty (R : RegEnv K S) (heap : Nat → S) : Coherent R heap ({} : Cache K S) := by
  constructor <;> intro _ _ h <;> simp [assoc] at h

theorem assoc_cons {A B : Type} [DecidableEq A] (a x : A) (b : B) (t : List (A × B)) :
    assoc a ((x, b) :: t) = if x = a then some b else assoc a t := rfl

/-- `setSchema` keeps the cache coherent, and whatever it returns is the side's own schema, both as
published and as enforced. -/
theorem setSchema_spec (R : RegEnv K S) (heap : Nat → S) (c : Cache K S) (k : K) (g : Option (Given S))
    (hc : Coherent R heap c) (hg : GivenOk heap g) :
    Coherent R heap (setSchema R c k g).2 ∧
    ∀ r, (setSchema R c k g).1 = some r → r.published = ownSide R k g ∧ r.enforced = ownSide R k g := by
  cases g with
  | none =>
    simp only [setSchema]
    cases hl : assoc k c.byType with
    | some s =>
      refine ⟨hc, ?_⟩
      intro r hr
      have hs := hc.1 k s hl
      cases hr
      simp [ownSide, hs]
    | none =>
      by_cases hres : R.resolves (R.derive k) = true
      · simp only [hres, if_true]
        refine ⟨⟨?_, hc.2⟩, ?_⟩
        · intro k' s' h'
          rw [assoc_cons] at h'
          by_cases hk : k = k'
          · subst hk
            simp only [if_true, Option.some.injEq] at h'
            exact h'.symm
          · simp only [hk, if_false] at h'
            exact hc.1 k' s' h'
        · intro r hr; cases hr; simp [ownSide]
      · simp only [hres, Bool.false_eq_true, if_false]
        exact ⟨hc, by intro r hr; cases hr⟩
  | some g =>
    obtain ⟨ptr, content⟩ := g
    cases ptr with
    | none =>
      simp only [setSchema]
      by_cases hres : R.resolves content = true
      · simp only [hres, if_true]
        exact ⟨hc, by intro r hr; cases hr; simp [ownSide]⟩
      · simp only [hres, Bool.false_eq_true, if_false]
        exact ⟨hc, by intro r hr; cases hr⟩
    | some p =>
      have hcont : content = heap p := hg p rfl
      simp only [setSchema]
      cases hl : assoc p c.bySchema with
      | some s =>
        refine ⟨hc, ?_⟩
        intro r hr
        have hs := hc.2 p s hl
        cases hr
        simp [ownSide, hs, hcont]
      | none =>
        by_cases hres : R.resolves content = true
        · simp only [hres, if_true]
          refine ⟨⟨hc.1, ?_⟩, ?_⟩
          · intro p' s' h'
            rw [assoc_cons] at h'
            by_cases hp : p = p'
            · subst hp
              simp only [if_true, Option.some.injEq] at h'
              rw [← h', hcont]
            · simp only [hp, if_false] at h'
              exact hc.2 p' s' h'
          · intro r hr; cases hr; simp [ownSide]
        · simp only [hres, Bool.false_eq_true, if_false]
          exact ⟨hc, by intro r hr; cases hr⟩

/-- `register` keeps the cache coherent (also when it fails half-way), and a registered tool publishes
and enforces its own schemas. -/
theorem register_spec (R : RegEnv K S) (heap : Nat → S) (c : Cache K S) (d : Decl K S)
    (hc : Coherent R heap c) (hd : d.Ok heap) :
    Coherent R heap (register R c d).2 ∧ ∀ e, (register R c d).1 = some e → EnforcesOwn R d e := by
  obtain ⟨hgi, hgo⟩ := hd
  -- the input side
  have hgi' : GivenOk heap (if d.inAny && d.inGiven.isNone then some ⟨none, R.objectSchema⟩ else d.inGiven) := by
    split
    · intro p hp; cases hp
    · exact hgi
  have hownIn : ownSide R d.inKey (if d.inAny && d.inGiven.isNone then some ⟨none, R.objectSchema⟩ else d.inGiven) = d.ownIn R := by
    unfold Decl.ownIn
    cases hg : d.inGiven with
    | some g => simp [ownSide]
    | none => cases ha : d.inAny <;> simp [ownSide]
  have hin := setSchema_spec R heap c d.inKey _ hc hgi'
  unfold register
  simp only []
  generalize hs1 : setSchema R c d.inKey (if d.inAny && d.inGiven.isNone then some ⟨none, R.objectSchema⟩ else d.inGiven) = s1 at hin
  obtain ⟨r1, c1⟩ := s1
  cases r1 with
  | none => exact ⟨hin.1, by intro e he; cases he⟩
  | some ri =>
    obtain ⟨hpi, hei⟩ := hin.2 ri rfl
    rw [hownIn] at hpi hei
    simp only []
    by_cases hout : (d.outGiven.isSome || !d.outAny) = true
    · simp only [hout, if_true]
      have ho := setSchema_spec R heap c1 d.outKey d.outGiven hin.1 hgo
      generalize hs2 : setSchema R c1 d.outKey d.outGiven = s2 at ho
      obtain ⟨r2, c2⟩ := s2
      cases r2 with
      | none => exact ⟨ho.1, by intro e he; cases he⟩
      | some ro =>
        refine ⟨ho.1, ?_⟩
        intro e he
        cases he
        obtain ⟨hpo, heo⟩ := ho.2 ro rfl
        have hownOut : d.ownOut R = some (ownSide R d.outKey d.outGiven) := by
          unfold Decl.ownOut
          cases hg : d.outGiven with
          | some g => simp [ownSide]
          | none =>
            have : d.outAny = false := by simpa [hg] using hout
            simp [ownSide, this]
        exact ⟨hpi, hei, by simp [hownOut, hpo], by simp [hownOut, heo]⟩
    · have hout' : (d.outGiven.isSome || !d.outAny) = false := by simpa using hout
      simp only [hout', Bool.false_eq_true, if_false]
      refine ⟨hin.1, ?_⟩
      intro e he
      cases he
      have hownOut : d.ownOut R = none := by
        unfold Decl.ownOut
        cases hg : d.outGiven with
        | some g => simp [hg] at hout'
        | none =>
          have : d.outAny = true := by simpa [hg] using hout'
          simp [this]
      exact ⟨hpi, hei, by simp [hownOut], by simp [hownOut]⟩

/-- every cache of the world is coherent, and every tool of the current server enforces its own schemas -/
def World.Ok (R : RegEnv K S) (heap : Nat → S) (w : World K S) : Prop :=
  (∀ i c, assoc i w.caches = some c → Coherent R heap c) ∧
  (∀ x ∈ w.tools, EnforcesOwn R x.2.1 x.2.2)

theorem World.ok_init (R : RegEnv K S) (heap : Nat → S) : World.Ok R heap ({} : World K S) := by
  constructor
  · intro i c h; simp [assoc] at h
  · intro x hx; simp at hx

theorem World.cacheOf_coherent (R : RegEnv K S) (heap : Nat → S) (w : World K S) (hw : World.Ok R heap w) :
    Coherent R heap w.cacheOf := by
  unfold World.cacheOf
  cases hcur : w.cur with
  | none => exact coherent_empty R heap
  | some i =>
    simp only []
    cases ha : assoc i w.caches with
    | none => exact coherent_empty R heap
    | some c => exact hw.1 i c ha

theorem World.putCache_coherent (R : RegEnv K S) (heap : Nat → S) (w : World K S) (hw : World.Ok R heap w)
    (c : Cache K S) (hc : Coherent R heap c) :
    ∀ i c', assoc i (w.putCache c) = some c' → Coherent R heap c' := by
  intro i c' h
  unfold World.putCache at h
  cases hcur : w.cur with
  | none => rw [hcur] at h; exact hw.1 i c' h
  | some j =>
    rw [hcur] at h
    simp only [] at h
    rw [assoc_cons] at h
    by_cases hj : j = i
    · subst hj
      simp only [if_true, Option.some.injEq] at h
      rw [← h]; exact hc
    · simp only [hj, if_false] at h
      exact hw.1 i c' h

theorem World.step_ok (R : RegEnv K S) (heap : Nat → S) (w : World K S) (op : RegOp K S)
    (hw : World.Ok R heap w) (hop : op.Ok heap) : World.Ok R heap (w.step R op) := by
  cases op with
  | server cache =>
    exact ⟨hw.1, by intro x hx; simp [World.step] at hx⟩
  | add name d =>
    have hspec := register_spec R heap w.cacheOf d (World.cacheOf_coherent R heap w hw) hop
    simp only [World.step]
    generalize hr : register R w.cacheOf d = r at hspec ⊢
    obtain ⟨e, c⟩ := r
    cases e with
    | none => exact ⟨World.putCache_coherent R heap w hw c hspec.1, hw.2⟩
    | some e =>
      refine ⟨World.putCache_coherent R heap w hw c hspec.1, ?_⟩
      intro x hx
      simp only [] at hx
      rcases List.mem_cons.mp hx with h | h
      · rw [h]; exact hspec.2 e rfl
      · exact hw.2 x (List.mem_filter.mp h).1

theorem World.run_ok (R : RegEnv K S) (heap : Nat → S) (ops : List (RegOp K S)) :
    ∀ (w : World K S), World.Ok R heap w → (∀ op ∈ ops, RegOp.Ok heap op) → World.Ok R heap (w.run R ops) := by
  induction ops with
  | nil => intro w hw _; exact hw
  | cons op rest ih =>
    intro w hw hops
    have h1 := World.step_ok R heap w op hw (hops op (by simp))
    exact ih (w.step R op) h1 (fun o ho => hops o (by simp [ho]))

end TypedTool
