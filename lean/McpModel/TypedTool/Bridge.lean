import McpModel.TypedTool.Monitor
import McpModel.TypedTool.Props
/-!
# E12 TypedTool (C16) — the bridge between the C16 monitor and the model: NO FALSE ALARM

The driver compares the implementation's observation text with the model's (`A` = equal) and runs the
monitor of `Monitor.lean` on the implementation's observation. This file proves that the monitor raises
no clause on the model's own observations:

* `monitor_accepts_model_call` — one call: for every tool, argument value and handler behaviour, the
  monitor (`judgeCall`: library-discrepancy filter + `monitor`) accepts `obsOf (modelCall …)` provided
  (1) the tool enforces its own schemas (what registration guarantees, `registered_tool_enforces_own_schemas`)
  and (2) the server's decode is exact on this call (`ExactOn`; holds whenever all integers of the
  arguments and of the handler's output lie in [-2^63, 2^64): `exactOn_of_inRange`). Outside (2) the model
  is not claimed (it lets integers beyond the Go integer types pass through float64, the monitor judges
  exact numbers): `monitor_rejects_model_outside_exact_range` is the witness that (2) cannot be dropped.
* `monitor_accepts_model` — histories: for ALL lists of typed events (reset / server on a shared cache /
  tool registrations, derived or declared, by pointer or raw, replacing by name, failing / calls to any
  tool) that are well-formed (`WFrun`: pointer contents stable, inference a function of the Go type,
  own schemas with distinct property names, calls exact as above), the monitor run on the model's own
  trace raises nothing. The invariant is `Inv`: the registration world is `World.Ok` and every tool the
  monitor has booked under a name (`MState.tys`: Go types and OWN schemas) agrees with the entry the
  model's world holds under that name (which by `World.Ok` enforces its own schemas).

Together with the driver's plain comparison (`A` ⇔ the implementation's text is the model's) and its
run-time self-check `roundTrips` (the model text, read back, is `obsOf (modelCall …)`), a `V` with a C16
clause therefore always comes with a `D`.
-/
namespace TypedTool

/-! ### reflexivity of the comparisons -/

mutual
theorem JVal.beq_refl : ∀ v : JVal, v.beq v = true
  | .null => rfl
  | .bool b => by simp [JVal.beq]
  | .num d => by simp [JVal.beq]
  | .str s => by simp [JVal.beq]
  | .arr xs => by simp only [JVal.beq]; exact beqList_refl xs
  | .obj fs => by simp only [JVal.beq]; exact beqFields_refl fs
theorem beqList_refl : ∀ xs : List JVal, beqList xs xs = true
  | [] => rfl
  | x :: t => by simp only [beqList, JVal.beq_refl x, beqList_refl t, Bool.and_self]
theorem beqFields_refl : ∀ fs : Fields, beqFields fs fs = true
  | [] => rfl
  | (k, v) :: t => by simp only [beqFields, JVal.beq_refl v, beqFields_refl t, beq_self_eq_true, Bool.and_self]
end

theorem ceq_refl (v : JVal) : ceq v v = true := JVal.beq_refl _

/-- the same JSON value (as a proposition): equal canonical forms -/
def JEq (a b : JVal) : Prop := canon a = canon b

theorem ceq_of_JEq {a b : JVal} (h : JEq a b) : ceq a b = true := by
  unfold ceq; rw [h]; exact JVal.beq_refl _

theorem optCeq_refl (o : Option JVal) : optCeq o o = true := by
  cases o <;> simp [optCeq, ceq_refl]

theorem sameObs_refl (o : Obs) : sameObs o o = true := by
  simp [sameObs, optCeq_refl]

/-! ### facts about the wrapper's outcome -/

variable {S : Type}

/-- a successful result of a tool with an output schema carries structured content -/
theorem ok_has_structured (E : Env S) (t : Tool S) (h : JVal → HRet) (a : Args)
    (hok : (call E t h a).kind = .ok) (hsch : t.outSchema.isSome = true) :
    (call E t h a).structured.isSome = true := by
  cases hs : (call E t h a).seen with
  | none =>
    -- the handler did not run: the outcome is an error
    exfalso
    unfold call at hok hs
    cases hi : applyIn E t.inSchema a with
    | none => simp [hi, errorOutcome] at hok
    | some d =>
      simp only [hi] at hok hs
      cases hx : t.decodeIn d with
      | none => simp [hx, errorOutcome] at hok
      | some x =>
        simp only [hx] at hok hs
        cases he : (h x).err with
        | some e => cases e <;> simp [he, errorOutcome] at hs
        | none =>
          simp only [he] at hs
          cases ho : outJson t (h x).out with
          | none => simp [ho] at hs
          | some j =>
            simp only [ho] at hs
            cases ha : applyOut E t j <;> simp [ha] at hs
  | some x =>
    cases he : (h x).err with
    | none => exact success_has_structured E t h a x hs he hok hsch
    | some e =>
      exfalso
      obtain ⟨d, hd, hv, hx⟩ := handler_sees_defaulted_args E t h a x hs
      unfold call applyIn at hok
      simp only [hd, hv, if_true, hx, he] at hok
      cases e <;> simp [errorOutcome] at hok

theorem resOf_ne_panic (k : Kind) : resOf k ≠ .panic := by cases k <;> simp [resOf]

theorem resOf_eq_ok {k : Kind} (h : resOf k = .ok) : k = .ok := by cases k <;> simp [resOf] at h ⊢

/-! ### one call -/

/-- the monitor accepts every observation that is the ideal wrapper's own (`call idEnv` over the tool's
own schemas) -/
theorem monitor_accepts_ideal (d : ToolD) (ci : CallIn) :
    monitor d ci (obsOf (ideal d ci)) = none := by
  have hp : ((obsOf (ideal d ci)).res == Res.panic) = false := by
    simp [obsOf, resOf_ne_panic]
  have hf16 : (d.osch.isSome && (obsOf (ideal d ci)).res == Res.ok && (obsOf (ideal d ci)).sc.isNone) = false := by
    cases hs : d.osch.isSome with
    | false => simp
    | true =>
      cases hk : decide ((obsOf (ideal d ci)).res = Res.ok) with
      | false => simp at hk; simp [hk]
      | true =>
        simp only [decide_eq_true_eq] at hk
        have hok : (ideal d ci).kind = .ok := resOf_eq_ok hk
        have hst : (ideal d ci).structured.isSome = true := ok_has_structured idEnv d.tool ci.h ci.args hok hs
        simp only [obsOf] at hk ⊢
        cases hsc : (ideal d ci).structured with
        | none => rw [hsc] at hst; cases hst
        | some v => simp
  unfold monitor
  simp only [hp, hf16, sameObs_refl, Bool.false_eq_true, if_false, if_true]

/-- the tool enforces its own schemas (what registration guarantees for every history) -/
def ToolD.EnforcesOwn (d : ToolD) : Prop := d.eisch = d.isch ∧ d.eosch = d.osch

theorem enforced_eq_tool (d : ToolD) (h : d.EnforcesOwn) : d.enforced = d.tool := by
  obtain ⟨ity, oty, isch, osch, eisch, eosch⟩ := d
  obtain ⟨h1, h2⟩ := h
  simp only at h1 h2
  subst h1; subst h2
  cases eosch <;> rfl

/-- The server's decode (int64, else uint64, else float64) is exact on this call: the repaired wrapper
gives what the wrapper over the client's own JSON values gives. -/
def ExactOn (d : ToolD) (ci : CallIn) : Prop :=
  call (refEnv lossy64) d.tool ci.h ci.args = ideal d ci

mutual
theorem zeroJ_inRange : ∀ t : GoTy, InRange64 (zeroJ t) = true
  | .int64 => by decide
  | .uint64 => by decide
  | .float64 => by decide
  | .string => rfl
  | .bool => rfl
  | .any => rfl
  | .ptr _ => rfl
  | .slice _ => rfl
  | .map _ => rfl
  | .struct fs => by simp only [zeroJ, InRange64]; exact zeroFields_inRange fs
theorem zeroFields_inRange : ∀ fs : SFields, InRange64Fields (zeroFields fs) = true
  | [] => rfl
  | (n, oe, t) :: rest => by
    simp only [zeroFields]
    split
    · exact zeroFields_inRange rest
    · simp only [InRange64Fields, zeroJ_inRange t, zeroFields_inRange rest, Bool.and_self]
end

/-- **the decode is exact on everything a Go integer type can hold**: all integers of the arguments and
of the handler's output in [-2^63, 2^64) -/
theorem exactOn_of_inRange (d : ToolD) (ci : CallIn)
    (ha : ∀ m, argsMap ci.args = some m → InRange64 m = true)
    (ho : ∀ x j, (ci.h x).out = .json j → InRange64 j = true) : ExactOn d ci := by
  have := wrapper_exact_on_go_integer_range fill valid d.tool ci.h ci.args ha
    (by
      intro z hz
      simp only [ToolD.tool, ToolD.elemZero] at hz
      split at hz
      · cases hz; exact zeroJ_inRange _
      · cases hz)
    ho
  exact this

theorem disc_self (a : Option Bool) : disc a a = false := by
  cases a with
  | none => rfl
  | some b => cases b <;> rfl

/-- **No false alarm, one call.** For every tool that enforces its own schemas and every call on which
the server's decode is exact, the driver's judgement of the model's own observation raises nothing. -/
theorem monitor_accepts_model_call (d : ToolD) (ci : CallIn) (hreg : d.EnforcesOwn) (hex : ExactOn d ci) :
    judgeCall d ci (obsOf (modelCall d ci)) (libIn d ci) (libOut d ci) = none := by
  unfold judgeCall
  simp only [disc_self, Bool.false_eq_true, if_false]
  unfold modelCall
  rw [enforced_eq_tool d hreg, hex]
  exact monitor_accepts_ideal d ci

/-! ### the protocol version of the session -/

/-- what the driver prints for a call at version `v` is the wrapper model's outcome (plus the `resultType`
mark): the observation the monitor is run on is `obsOf (modelCall …)` at every version -/
theorem modelServe_out (v : String) (d : ToolD) (ci : CallIn) : (modelServe v d ci).out = modelCall d ci := by
  unfold modelServe serveAt modelCall
  exact served_is_wrapper_outcome _ _ _ _ _ _

/-- **No false alarm, one call, at every protocol version**: the judgement of what the model says a peer
at version `v` is answered raises nothing — for every `v`. -/
theorem monitor_accepts_model_call_at_every_version (v : String) (d : ToolD) (ci : CallIn)
    (hreg : d.EnforcesOwn) (hex : ExactOn d ci) :
    judgeCall d ci (obsOf (modelServe v d ci).out) (libIn d ci) (libOut d ci) = none := by
  rw [modelServe_out]
  exact monitor_accepts_model_call d ci hreg hex

/-- **The C16 monitor does not read the protocol version**: the verdict on a call record (and the state
after it) is the same whatever version the monitor has booked for the current session. What C16 demands of
a result — structured content, text rendering, tool-level errors — it demands at every version. -/
theorem verdict_version_independent (d : MState) (v : String) (name : Option String) (c : CallEv) (o : Obs)
    (lib olib : Option Bool) :
    (mstep { d with ver := v } (.call name c o lib olib)).2 = (mstep d (.call name c o lib olib)).2 := by
  have hc : ({ d with ver := v } : MState).callee name = d.callee name := rfl
  simp only [mstep, hc]
  cases d.callee name with
  | none => rfl
  | some td =>
    simp only []
    cases mkCall td c <;> rfl

end TypedTool

namespace TypedTool

/-! ### what tools/list advertises: `sameSchema` is reflexive -/

mutual
/-- every `properties` object, at every depth (also below `additionalProperties` and `items`), has
pairwise distinct names — JSON objects do, and the driver's schema parser refuses anything else -/
def SKeyed : Schema → Prop
  | .mk _ ps ap items => (keys ps).Nodup ∧ SKeyedProps ps ∧ SKeyedOpt ap ∧ SKeyedOpt items
def SKeyedProps : Props → Prop
  | [] => True
  | (_, s) :: t => SKeyed s ∧ SKeyedProps t
def SKeyedOpt : Option Schema → Prop
  | none => True
  | some s => SKeyed s
end

theorem listCeq_refl : ∀ xs : List JVal, listCeq xs xs = true
  | [] => rfl
  | x :: t => by simp only [listCeq, ceq_refl, listCeq_refl t, Bool.and_self]

theorem Dec.eq_refl (d : Dec) : d.eq d = true := by simp [Dec.eq]

theorem optDecEq_refl (o : Option Dec) : optDecEq o o = true := by
  cases o <;> simp [optDecEq, Dec.eq_refl]

theorem leafSame_refl (c : Leaf) : leafSame c c = true := by
  unfold leafSame
  cases he : c.enum <;> simp [optCeq_refl, optDecEq_refl, listCeq_refl]

mutual
theorem sameSchema_refl : ∀ s : Schema, SKeyed s → sameSchema s s = true
  | .mk c ps ap items, h => by
    simp only [SKeyed] at h
    obtain ⟨hn, hps, hap, hit⟩ := h
    simp only [sameSchema, leafSame_refl, beq_self_eq_true,
      samePropsIn_refl ps ps (fun _ hx => hx) hn hps, sameOpt_refl ap hap, sameOpt_refl items hit, Bool.and_self]
theorem samePropsIn_refl : ∀ (t p2 : Props), (∀ x ∈ t, x ∈ p2) → (keys p2).Nodup → SKeyedProps t → samePropsIn t p2 = true
  | [], _, _, _, _ => rfl
  | (k, s) :: t, p2, hsub, hn, hk => by
    simp only [SKeyedProps] at hk
    have := lookupP_of_mem hn (hsub (k, s) List.mem_cons_self)
    simp only [samePropsIn, this, sameSchema_refl s hk.1, Bool.true_and]
    exact samePropsIn_refl t p2 (fun x hx => hsub x (List.mem_cons_of_mem _ hx)) hn hk.2
theorem sameOpt_refl : ∀ o : Option Schema, SKeyedOpt o → sameOpt o o = true
  | none, _ => rfl
  | some x, h => by
    simp only [SKeyedOpt] at h
    simp only [sameOpt]
    split
    · simp [isAnyOpt, *]
    · simp [*, sameSchema_refl x h]
end

/-- the tool's own schemas, advertised, are accepted -/
theorem pubClause_own (ownI : Schema) (ownO : Option Schema) (hi : SKeyed ownI) (ho : ∀ s, ownO = some s → SKeyed s) :
    pubClause ownI ownO (some ownI) (some ownO) = none := by
  unfold pubClause pubInOk pubOutOk
  cases ownO with
  | none => simp [sameSchema_refl ownI hi]
  | some s => simp [sameSchema_refl ownI hi, sameSchema_refl s (ho s rfl)]

/-! ### registration does not depend on more of the environment than it reads -/

theorem setSchema_congr {K : Type} [DecidableEq K] (R R' : RegEnv K S) (c : Cache K S) (k : K) (g : Option (Given S))
    (hd : R.derive k = R'.derive k) (hr : R.resolves = R'.resolves) :
    setSchema R c k g = setSchema R' c k g := by
  cases g with
  | none => simp only [setSchema, hd, hr]
  | some g => simp only [setSchema, hr]

theorem register_congr {K : Type} [DecidableEq K] (R R' : RegEnv K S) (c : Cache K S) (d : Decl K S)
    (hi : R.derive d.inKey = R'.derive d.inKey) (ho : R.derive d.outKey = R'.derive d.outKey)
    (hr : R.resolves = R'.resolves) (hobj : R.objectSchema = R'.objectSchema) :
    register R c d = register R' c d := by
  unfold register
  simp only [hobj, setSchema_congr R R' _ d.inKey _ hi hr, setSchema_congr R R' _ d.outKey _ ho hr]

theorem ownIn_congr {K : Type} (R R' : RegEnv K S) (d : Decl K S)
    (hi : R.derive d.inKey = R'.derive d.inKey) (hobj : R.objectSchema = R'.objectSchema) :
    d.ownIn R = d.ownIn R' := by
  simp only [Decl.ownIn, hi, hobj]

theorem ownOut_congr {K : Type} (R R' : RegEnv K S) (d : Decl K S)
    (ho : R.derive d.outKey = R'.derive d.outKey) : d.ownOut R = d.ownOut R' := by
  simp only [Decl.ownOut, ho]

/-! ### histories -/

/-- a typed event: a record without the implementation's observation -/
inductive Ev where
  | reset
  | server (n : Nat) (v : String)
  | tool (t : ToolEv)
  | call (name : Option String) (c : CallEv)

/-- what the model says tools/list shows after `AddTool`: the tool's own schemas; `other`: AddTool fails -/
def modelToolObs (d : MState) (t : ToolEv) : ToolObs :=
  match (register t.env d.world.cacheOf t.decl).1 with
  | none => .other
  | some _ => .ok (some t.ownIn) (some t.ownOut)

/-- the event with the MODEL's observation filled in -/
def modelRec (d : MState) : Ev → Rec
  | .reset => .reset
  | .server n v => .server n v
  | .tool t => .tool t (modelToolObs d t)
  | .call name c =>
    match d.callee name with
    | none => .call name c default none none
    | some td =>
      match mkCall td c with
      | none => .call name c default none none
      | some ci => .call name c (obsOf (modelCall td ci)) (libIn td ci) (libOut td ci)

/-- the monitor's state after the model's own record of `e` -/
def MState.next (d : MState) (e : Ev) : MState := (mstep d (modelRec d e)).1

/-- the model's own trace of a list of events -/
def traceFrom (d : MState) : List Ev → List Rec
  | [] => []
  | e :: es => modelRec d e :: traceFrom (d.next e) es

/-- the environment every registration of a case agrees with: inference is a function `D` of the Go type -/
def gR (D : String → Schema) : RegEnv String Schema :=
  { derive := D, resolves := defaultsValid, objectSchema := objectSchema }

/-- A well-formed `tool` op: a schema handed in by pointer has the content of that pointer (`heap`; the
SDK's condition of use of a `SchemaCache`), the inference results the op carries are `D` of its Go types
(`jsonschema.ForType` is a function of the type), and its own schemas have distinct property names. -/
structure ToolEv.WF (heap : Nat → Schema) (D : String → Schema) (t : ToolEv) : Prop where
  ok : t.decl.Ok heap
  resolves : t.env.resolves = defaultsValid
  objectSchema : t.env.objectSchema = TypedTool.objectSchema
  deriveIn : t.env.derive t.decl.inKey = D t.decl.inKey
  deriveOut : t.env.derive t.decl.outKey = D t.decl.outKey
  keyedIn : SKeyed t.ownIn
  keyedOut : ∀ s, t.ownOut = some s → SKeyed s

/-- well-formed in state `d`; a call: the server's decode is exact on it (see `exactOn_of_inRange`) -/
def Ev.WF (heap : Nat → Schema) (D : String → Schema) (d : MState) : Ev → Prop
  | .tool t => t.WF heap D
  | .call name c => ∀ td ci, d.callee name = some td → mkCall td c = some ci → ExactOn td ci
  | _ => True

def WFrun (heap : Nat → Schema) (D : String → Schema) : MState → List Ev → Prop
  | _, [] => True
  | d, e :: es => Ev.WF heap D d e ∧ WFrun heap D (d.next e) es

/-- **The invariant** relating the monitor's bookkeeping to the model state: the registration world is
coherent (`World.Ok`: every cache holds only inferred schemas under types and the callers' own under
pointers; every tool of the current server enforces its own schemas), and whatever the monitor has booked
under a name (`tys`: the OWN schemas) is the own schemas of the declaration the world holds under it. -/
def Inv (heap : Nat → Schema) (D : String → Schema) (d : MState) : Prop :=
  World.Ok (gR D) heap d.world ∧
  ∀ x ∈ d.tys, ∀ y ∈ d.world.tools, x.1 = y.1 →
    x.2.2.2.1 = y.2.1.ownIn (gR D) ∧ x.2.2.2.2 = y.2.1.ownOut (gR D)

theorem inv_init (heap : Nat → Schema) (D : String → Schema) : Inv heap D {} :=
  ⟨World.ok_init _ _, by intro x hx; simp at hx⟩

/-- under the invariant, the tool the monitor judges a call by enforces its own schemas -/
theorem toolD_enforcesOwn {heap : Nat → Schema} {D : String → Schema} {d : MState} (hinv : Inv heap D d)
    {name : String} {td : ToolD} (h : d.toolD name = some td) : td.EnforcesOwn := by
  unfold MState.toolD at h
  cases hw : d.world.tools.find? (·.1 == name) with
  | none => simp [hw] at h
  | some y =>
    cases ht : d.tys.find? (·.1 == name) with
    | none => simp [hw, ht] at h
    | some x =>
      obtain ⟨yn, yd, ye⟩ := y
      obtain ⟨xn, xi, xo, xis, xos⟩ := x
      simp only [hw, ht, Option.some.injEq] at h
      have hym := List.mem_of_find?_eq_some hw
      have hxm := List.mem_of_find?_eq_some ht
      have hyn : yn = name := by simpa using List.find?_some hw
      have hxn : xn = name := by simpa using List.find?_some ht
      obtain ⟨h1, h2⟩ := hinv.2 _ hxm _ hym (by simp [hyn, hxn])
      obtain ⟨_, he1, _, he2⟩ := hinv.1.2 _ hym
      subst h
      simp only at h1 h2 he1 he2
      exact ⟨by simp [he1, h1], by simp [he2, h2]⟩

theorem callee_enforcesOwn {heap : Nat → Schema} {D : String → Schema} {d : MState} (hinv : Inv heap D d)
    {name : Option String} {td : ToolD} (h : d.callee name = some td) : td.EnforcesOwn := by
  unfold MState.callee at h
  cases hn : (name <|> d.last) with
  | none => simp [hn] at h
  | some n => simp only [hn] at h; exact toolD_enforcesOwn hinv h

theorem step_congr (heap : Nat → Schema) (D : String → Schema) (t : ToolEv) (hwf : t.WF heap D) (w : World String Schema) :
    w.step t.env (.add t.name t.decl) = w.step (gR D) (.add t.name t.decl) := by
  simp only [World.step, register_congr t.env (gR D) _ t.decl hwf.deriveIn hwf.deriveOut hwf.resolves hwf.objectSchema]

theorem mstep_call_fst (d : MState) (name : Option String) (c : CallEv) (o : Obs) (lib olib : Option Bool) :
    (mstep d (.call name c o lib olib)).1 = d := by
  simp only [mstep]
  split
  · rfl
  · split <;> rfl

/-- the invariant is kept along the model's own records -/
theorem inv_next {heap : Nat → Schema} {D : String → Schema} {d : MState} (hinv : Inv heap D d) (e : Ev)
    (hwf : Ev.WF heap D d e) : Inv heap D (d.next e) := by
  cases e with
  | reset => exact inv_init heap D
  | server n v =>
    refine ⟨World.step_ok (gR D) heap d.world (.server _) hinv.1 trivial, ?_⟩
    intro x hx
    simp [MState.next, mstep, modelRec, MState.server] at hx
  | call name c =>
    have : ∃ o lib olib, modelRec d (.call name c) = .call name c o lib olib := by
      simp only [modelRec]
      cases d.callee name with
      | none => exact ⟨_, _, _, rfl⟩
      | some td =>
        simp only []
        cases mkCall td c with
        | none => exact ⟨_, _, _, rfl⟩
        | some ci => exact ⟨_, _, _, rfl⟩
    obtain ⟨o, lib, olib, hrec⟩ := this
    simp only [MState.next, hrec, mstep_call_fst]
    exact hinv
  | tool t =>
    have hwf : t.WF heap D := hwf
    have hreg := register_congr t.env (gR D) d.world.cacheOf t.decl hwf.deriveIn hwf.deriveOut hwf.resolves hwf.objectSchema
    have hstep := step_congr heap D t hwf d.world
    have hok := World.step_ok (gR D) heap d.world (.add t.name t.decl) hinv.1 hwf.ok
    simp only [MState.next, modelRec, modelToolObs, mstep, MState.regTool]
    cases hr : (register t.env d.world.cacheOf t.decl).1 with
    | none =>
      simp only []
      refine ⟨by rw [hstep]; exact hok, ?_⟩
      intro x hx y hy hxy
      have hy' : y ∈ d.world.tools := by
        rw [hstep] at hy
        simp only [World.step] at hy
        rw [← hreg] at hy
        generalize hg : register t.env d.world.cacheOf t.decl = g at hy hr
        obtain ⟨g1, g2⟩ := g
        simp only at hr; subst hr
        exact hy
      exact hinv.2 x hx y hy' hxy
    | some e0 =>
      simp only [pubClause_own t.ownIn t.ownOut hwf.keyedIn hwf.keyedOut]
      refine ⟨by rw [hstep]; exact hok, ?_⟩
      intro x hx y hy hxy
      simp only [] at hx hy
      rw [hstep] at hy
      simp only [World.step] at hy
      rw [← hreg] at hy
      generalize hg : register t.env d.world.cacheOf t.decl = g at hy hr
      obtain ⟨g1, g2⟩ := g
      simp only at hr; subst hr
      simp only [] at hy
      rcases List.mem_cons.1 hx with hx | hx
      · rcases List.mem_cons.1 hy with hy | hy
        · subst hx; subst hy
          simp only [ToolEv.ownIn, ToolEv.ownOut]
          exact ⟨ownIn_congr _ _ _ hwf.deriveIn hwf.objectSchema, ownOut_congr _ _ _ hwf.deriveOut⟩
        · exfalso
          have := (List.mem_filter.1 hy).2
          subst hx
          simp only at hxy
          simp [← hxy] at this
      · have hx' := List.mem_filter.1 hx
        rcases List.mem_cons.1 hy with hy | hy
        · exfalso
          subst hy
          simp only at hxy
          have := hx'.2
          simp [hxy] at this
        · exact hinv.2 x hx'.1 y (List.mem_filter.1 hy).1 hxy

/-- no clause on the model's own record -/
theorem noalarm_next {heap : Nat → Schema} {D : String → Schema} {d : MState} (hinv : Inv heap D d) (e : Ev)
    (hwf : Ev.WF heap D d e) : (mstep d (modelRec d e)).2 = none := by
  cases e with
  | reset => rfl
  | server n v => rfl
  | call name c =>
    simp only [modelRec]
    cases hc : d.callee name with
    | none => simp [mstep, hc]
    | some td =>
      simp only []
      cases hm : mkCall td c with
      | none => simp [mstep, hc, hm]
      | some ci =>
        simp only [mstep, hc, hm]
        exact monitor_accepts_model_call td ci (callee_enforcesOwn hinv hc) (hwf td ci hc hm)
  | tool t =>
    have hwf : t.WF heap D := hwf
    simp only [modelRec, modelToolObs, mstep, MState.regTool]
    cases hr : (register t.env d.world.cacheOf t.decl).1 with
    | none => rfl
    | some e0 => simp only [pubClause_own t.ownIn t.ownOut hwf.keyedIn hwf.keyedOut]

theorem runMon_traceFrom {heap : Nat → Schema} {D : String → Schema} (evs : List Ev) :
    ∀ d : MState, Inv heap D d → WFrun heap D d evs → runMon d (traceFrom d evs) = none := by
  induction evs with
  | nil => intro d _ _; rfl
  | cons e es ih =>
    intro d hinv hwf
    obtain ⟨hwe, hwr⟩ := hwf
    have h2 := noalarm_next hinv e hwe
    simp only [traceFrom, runMon]
    generalize hs : mstep d (modelRec d e) = s at h2
    obtain ⟨d', v⟩ := s
    simp only at h2
    subst h2
    simp only []
    have : d.next e = d' := by simp [MState.next, hs]
    rw [this] at hwr ⊢
    exact ih d' (by rw [← this]; exact inv_next hinv e hwe) hwr

/-- **monitor_accepts_model.** For ALL event lists — any number of servers over any number of shared
caches, tools derived or declared, handed in raw or by (re-used) pointer, replaced by name, registrations
failing, calls with any arguments and any handler behaviour addressed to any tool — that are well-formed
(`WFrun`), the C16 monitor raises no clause on the model's own trace. -/
theorem monitor_accepts_model (heap : Nat → Schema) (D : String → Schema) (evs : List Ev)
    (hwf : WFrun heap D {} evs) : runMon {} (traceFrom {} evs) = none :=
  runMon_traceFrom evs {} (inv_init heap D) hwf

/-! ### witnesses -/

section Witness

/-- `{"type":"object","properties":{"x":{"type":"number","maximum":18446744073709551617}}}` over
`struct{ X float64 "x" }` -/
def xSchema : Schema :=
  .mk { ty := [.object] } [("x", .mk { ty := [.number], maximum := some (.ofInt 18446744073709551617) } [] none none)] none none
def xToolD : ToolD :=
  { ity := .struct [("x", false, .float64)], oty := .any, isch := xSchema, osch := none, eisch := xSchema, eosch := none }
def xCall : CallIn :=
  { args := .val (.obj [("x", .num (.ofInt 18446744073709551617))]), h := fun _ => {}, hout := none, argsNull := false }

/-- **why `ExactOn` cannot be dropped**: 2^64+1 under `maximum: 2^64+1` is valid on exact numbers (the
monitor's reading) but the model, like the server, sees the float64 next to it — printed 18446744073709552000 —
and refuses; on this call the monitor rejects the model's own observation (as the unrepaired F9 shape).
Integers outside [-2^63, 2^64) are outside what the model claims (tools/claims/C16.json, note). -/
theorem monitor_rejects_model_outside_exact_range :
    xToolD.EnforcesOwn ∧ (monitor xToolD xCall (obsOf (modelCall xToolD xCall))).isSome = true :=
  ⟨⟨rfl, rfl⟩, by decide⟩

/-! non-vacuity of `monitor_accepts_model`: a well-formed history with a registration through a cache, a
replacement, and judged calls -/

def brDecl : Decl String Schema :=
  { inKey := "W", inAny := false, inGiven := none, outKey := "W", outAny := false, outGiven := some ⟨some 1, wSchema⟩ }
def brD : String → Schema := fun _ => wSchema
def brEv : ToolEv := { name := "t", ity := wTy, oty := wTy, decl := brDecl, env := gR brD }
def brCallEv : CallEv :=
  { args := wArgs 7, out := .json (.obj [("n", .num (.ofInt 7)), ("c", .str "x")]) (some (.obj [("n", .num (.ofInt 7)), ("c", .str "x")])),
    content := none, herr := none }
def brHistory : List Ev :=
  [.server 1 "2026-07-28", .tool brEv, .call none brCallEv, .server 1 "2025-06-18", .tool brEv, .tool brEv, .call (some "t") brCallEv]

theorem skeyed_wSchema : SKeyed wSchema := by
  simp [wSchema, SKeyed, SKeyedProps, SKeyedOpt, keys]

theorem brEv_wf : brEv.WF (fun _ => wSchema) brD :=
  { ok := ⟨trivial, fun _ _ => rfl⟩, resolves := rfl, objectSchema := rfl, deriveIn := rfl, deriveOut := rfl,
    keyedIn := skeyed_wSchema, keyedOut := fun s h => by cases h; exact skeyed_wSchema }

def brOut : JVal := .obj [("n", .num (.ofInt 7)), ("c", .str "x")]

theorem brCallEv_exact (td : ToolD) (ci : CallIn) (h : mkCall td brCallEv = some ci) : ExactOn td ci := by
  have ho : outOf td.oty brCallEv.out = some (.json brOut, some brOut) := by
    simp only [brCallEv, outOf, brOut]
    cases td.oty <;> rfl
  unfold mkCall at h
  rw [ho] at h
  cases h
  apply exactOn_of_inRange
  · intro m hm; cases hm; decide
  · intro x j hj; cases hj; decide

theorem brHistory_wf : WFrun (fun _ => wSchema) brD {} brHistory := by
  refine ⟨trivial, brEv_wf, ?_, trivial, brEv_wf, brEv_wf, ?_, trivial⟩
  · intro td ci _ hm; exact brCallEv_exact td ci hm
  · intro td ci _ hm; exact brCallEv_exact td ci hm

/-- the hypotheses of `monitor_accepts_model` are satisfiable by a history whose calls are really judged:
the trace has one record per event, and both calls reach `judgeCall` (the callee is found) -/
example : runMon {} (traceFrom {} brHistory) = none := monitor_accepts_model _ _ _ brHistory_wf
example : (traceFrom {} brHistory).length = 7 := rfl
example : ((([.server 1 "2024-11-05", .tool brEv] : List Ev).foldl MState.next {}).callee none).isSome = true := by decide
example : (((brHistory.take 6).foldl MState.next {}).callee (some "t")).isSome = true := by decide

end Witness

end TypedTool
