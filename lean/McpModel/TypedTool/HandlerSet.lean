import McpModel.TypedTool.Bridge
/-!
# E12 TypedTool (C16) — handlers that set members of the result THEMSELVES

A typed handler returns `(*CallToolResult, Out, error)`. Next to its typed output it may set, in the result
it returns, `IsError` and `StructuredContent` (and `Content`, which `Model.lean` already has). What
`toolForErr` (mcp/server.go) does with them — the `outval` rules, transliterated in `outJsonX`:

* the typed output wins: for every `Out` value other than a nil `any` the structured content of the result
  is the (validated, defaulted) JSON of the typed output; a `StructuredContent` set by the handler is
  overwritten (`typed_output_replaces_handler_structured`);
* a nil `any` output under a declared output schema: the handler's own `StructuredContent`, when it set
  one, IS the tool's output — it is validated, defaulted and rendered like any other output (REPAIRED
  behaviour, fixes/typedtool-F48-validate-handler-structured-content.patch; the unrepaired code returned
  it as it was: `unvalidated_handler_structured_counterexample`); when it set none, JSON `null` is
  validated (F16) unless the handler declared the result an error (`IsError`), in which case the result
  carries no structured content;
* `IsError` set by the handler is kept (`handler_error_flag_kept`): the result is an error result with the
  handler's content; its typed output is STILL validated (an invalid one is reported as a protocol error,
  not returned).

`emitted_structured_valid` is C16's "emit only schema-valid output" at full strength over these handlers:
whatever the handler sets, whenever a tool with a declared output schema answers with structured content
— in a successful result or in an error result — that content passed validation. `callX_plain`: with
nothing set, `callX` is the wrapper `call` all other theorems are about.

The monitor of these calls (`judgeX`, clause `hsetInvalid`) is the property itself on the observation;
`sound_hsetInvalid`, `judgeX_iff`, `monitor_accepts_modelX`.  Core Lean only.
-/
namespace TypedTool

/-- what a typed handler sets itself in the result it returns (besides `Content`: `HRet.content`) -/
structure HSet where
  isError : Bool := false
  sc : Option JVal := none
deriving Inhabited

variable {S : Type}

/-- server.go, the `outval` rules with the handler-set members in view (REPAIRED: F48). -/
def outJsonX (t : Tool S) (x : HSet) : OutVal → Option JVal
  | .nilAny =>
    if t.outSchema.isSome then
      match x.sc with
      | some j => some j
      | none => if x.isError then none else some .null
    else none
  | o => outJson t o

/-- the wrapper after the handler returned without an error -/
def finishX (E : Env S) (t : Tool S) (v : JVal) (r : HRet) (x : HSet) : Outcome :=
  let k := if x.isError then Kind.toolError else Kind.ok
  match outJsonX t x r.out with
  | none => { seen := some v, kind := k, structured := x.sc, content := r.content.getD [] }
  | some j =>
    match applyOut E t j with
    | none => { seen := some v, kind := .rpcError, structured := none, content := [] }
    | some sc => { seen := some v, kind := k, structured := some sc, content := finalContent r.content sc }

/-- The wrapper `th` of `toolForErr` for a handler that also sets `x v` in its result. -/
def callX (E : Env S) (t : Tool S) (h : JVal → HRet) (x : JVal → HSet) (a : Args) : Outcome :=
  match applyIn E t.inSchema a with
  | none => errorOutcome none
  | some d =>
    match t.decodeIn d with
    | none => errorOutcome none
    | some v =>
      let r := h v
      match r.err with
      | some .rpc => { seen := some v, kind := .rpcError, structured := none, content := [] }
      | some .plain => errorOutcome (some v)
      | none => finishX E t v r (x v)

theorem outJsonX_plain (t : Tool S) (o : OutVal) : outJsonX t {} o = outJson t o := by
  cases o <;> simp [outJsonX, outJson]

/-- **callX_plain.** A handler that sets nothing itself: `callX` is `call`. -/
theorem callX_plain (E : Env S) (t : Tool S) (h : JVal → HRet) (a : Args) :
    callX E t h (fun _ => {}) a = call E t h a := by
  unfold callX call
  cases h1 : applyIn E t.inSchema a with
  | none => rfl
  | some d =>
    simp only []
    cases h2 : t.decodeIn d with
    | none => rfl
    | some v =>
      simp only []
      cases h3 : (h v).err with
      | some e => cases e <;> rfl
      | none =>
        simp only [finishX, outJsonX_plain]
        cases h4 : outJson t (h v).out with
        | none => rfl
        | some j =>
          simp only []
          cases h5 : applyOut E t j with
          | none => rfl
          | some sc => rfl

/-- what `applySchema(…, forOutput)` lets through is valid -/
theorem applyOut_valid (E : Env S) (t : Tool S) (s : S) (j sc : JVal) (hsch : t.outSchema = some s)
    (h : applyOut E t j = some sc) :
    E.valid s sc = true ∨ (E.valid s (E.remarshal sc) = true ∧ (outForm E t s sc).2 = false) := by
  unfold applyOut at h
  simp only [hsch] at h
  by_cases hv : E.valid s (outForm E t s j).1 = true
  · simp only [hv, if_true, Option.some.injEq] at h
    by_cases hap : (outForm E t s j).2 = true
    · simp only [hap, if_true] at h
      left; rw [← h]; exact hv
    · simp only [hap, Bool.false_eq_true, if_false] at h
      subst h
      right
      refine ⟨?_, by simpa using hap⟩
      have : (outForm E t s j).1 = E.remarshal j := by
        unfold outForm at hap ⊢
        cases hr : E.remarshal j with
        | obj fs => simp [hr] at hap
        | null =>
          simp only [hr] at hap ⊢
          cases hro : t.outRootObject <;> simp [hro] at hap ⊢
        | bool b => rfl
        | num d => rfl
        | str s => rfl
        | arr xs => rfl
      rw [← this]; exact hv
  · simp [hv] at h

theorem finishX_structured_valid (E : Env S) (t : Tool S) (v : JVal) (r : HRet) (x : HSet) (s : S) (sc : JVal)
    (hsch : t.outSchema = some s) (hsc : (finishX E t v r x).structured = some sc) :
    E.valid s sc = true ∨ (E.valid s (E.remarshal sc) = true ∧ (outForm E t s sc).2 = false) := by
  unfold finishX at hsc
  cases hj : outJsonX t x r.out with
  | none =>
    simp only [hj] at hsc
    -- nothing is marshalled under a declared schema only if the handler set no structured content
    cases ho : r.out with
    | nilAny =>
      simp only [ho, outJsonX, hsch, Option.isSome_some, if_true] at hj
      cases hx : x.sc with
      | none => simp [hx] at hsc
      | some j => simp [hx] at hj
    | nilPtr => simp [ho, outJsonX, outJson] at hj
    | json j => simp [ho, outJsonX, outJson] at hj
  | some j =>
    simp only [hj] at hsc
    cases ha : applyOut E t j with
    | none => simp [ha] at hsc
    | some sc' =>
      simp only [ha, Option.some.injEq] at hsc
      subst hsc
      exact applyOut_valid E t s j sc' hsch ha

/-- **emitted_structured_valid.** C16 "emit only schema-valid output", for ALL handlers — whatever typed
output they return and whatever they set themselves (`IsError`, `StructuredContent`, `Content`) —, all
arguments and all tools with a declared output schema: structured content in the answer (successful or
error result) has passed validation (it is the defaulted value that was validated or — nothing defaulted —
the output JSON, validated as the server decodes it). -/
theorem emitted_structured_valid (E : Env S) (t : Tool S) (h : JVal → HRet) (x : JVal → HSet) (a : Args)
    (s : S) (sc : JVal) (hsch : t.outSchema = some s) (hsc : (callX E t h x a).structured = some sc) :
    E.valid s sc = true ∨ (E.valid s (E.remarshal sc) = true ∧ (outForm E t s sc).2 = false) := by
  unfold callX at hsc
  split at hsc
  · simp [errorOutcome] at hsc
  · split at hsc
    · simp [errorOutcome] at hsc
    · next v _ =>
      simp only at hsc
      split at hsc
      · simp at hsc
      · simp [errorOutcome] at hsc
      · exact finishX_structured_valid E t v _ _ s sc hsch hsc

/-- … for outputs the server decodes exactly: the structured content itself is valid -/
theorem emitted_structured_valid_exact (E : Env S) (t : Tool S) (h : JVal → HRet) (x : JVal → HSet) (a : Args)
    (s : S) (sc : JVal) (hsch : t.outSchema = some s) (hsc : (callX E t h x a).structured = some sc)
    (hexact : E.remarshal sc = sc) : E.valid s sc = true := by
  rcases emitted_structured_valid E t h x a s sc hsch hsc with h1 | ⟨h1, _⟩
  · exact h1
  · rw [hexact] at h1; exact h1

/-- **typed_output_replaces_handler_structured.** For every typed output other than a nil `any`, the answer
does not depend on the `StructuredContent` the handler set: it is overwritten by the JSON of the output. -/
theorem typed_output_replaces_handler_structured (E : Env S) (t : Tool S) (v : JVal) (r : HRet) (x x' : HSet)
    (hie : x.isError = x'.isError) (hout : r.out ≠ .nilAny) : finishX E t v r x = finishX E t v r x' := by
  unfold finishX
  cases ho : r.out with
  | nilAny => exact absurd ho hout
  | nilPtr => simp [outJsonX, outJson, hie]
  | json j => simp [outJsonX, outJson, hie]

/-- **handler_error_flag_kept.** Unless the typed output fails validation (protocol error), the result is an
error result exactly when the handler declared it one. -/
theorem handler_error_flag_kept (E : Env S) (t : Tool S) (v : JVal) (r : HRet) (x : HSet) :
    (finishX E t v r x).kind = .rpcError ∨
      ((finishX E t v r x).kind = (if x.isError then Kind.toolError else Kind.ok)) := by
  unfold finishX
  cases hj : outJsonX t x r.out with
  | none => right; rfl
  | some j =>
    cases ha : applyOut E t j with
    | none => left; simp only [ha]
    | some sc => right; simp only [ha]

/-- … and an invalid typed output of a handler-declared error result is still not returned -/
theorem invalid_output_of_error_result_not_returned (E : Env S) (t : Tool S) (v : JVal) (r : HRet) (x : HSet)
    (j : JVal) (hj : outJsonX t x r.out = some j) (hbad : applyOut E t j = none) :
    (finishX E t v r x).kind = .rpcError ∧ (finishX E t v r x).structured = none := by
  simp [finishX, hj, hbad]

/-! ### the unrepaired rule -/

/-- the `outval` rules before F48: a nil `any` output is left alone as soon as the handler set
`StructuredContent` -/
def outJsonXUnrepaired (t : Tool S) (x : HSet) : OutVal → Option JVal
  | .nilAny => if t.outSchema.isSome && x.sc.isNone && !x.isError then some .null else none
  | o => outJson t o

def finishXUnrepaired (E : Env S) (t : Tool S) (v : JVal) (r : HRet) (x : HSet) : Outcome :=
  let k := if x.isError then Kind.toolError else Kind.ok
  match outJsonXUnrepaired t x r.out with
  | none => { seen := some v, kind := k, structured := x.sc, content := r.content.getD [] }
  | some j =>
    match applyOut E t j with
    | none => { seen := some v, kind := .rpcError, structured := none, content := [] }
    | some sc => { seen := some v, kind := k, structured := some sc, content := finalContent r.content sc }

/-- **unvalidated_handler_structured_counterexample.** Before F48: `Out = any`, an output schema that
nothing satisfies, the handler returns a nil output and sets `StructuredContent` itself — answered by a
SUCCESSFUL result that carries that content, and no text rendering of it. -/
theorem unvalidated_handler_structured_counterexample :
    let E : Env Unit := { fill := fun _ v => v, valid := fun _ _ => false, remarshal := id }
    let t : Tool Unit := { inSchema := (), outSchema := some (), outRootObject := false, elemZero := none, decodeIn := some }
    let o := finishXUnrepaired E t .null {} { sc := some (.str "anything") }
    o.kind = .ok ∧ o.structured = some (.str "anything") ∧ o.content = [] ∧ E.valid () (.str "anything") = false ∧
      (finishX E t .null {} { sc := some (.str "anything") }).kind = .rpcError := by
  simp [finishXUnrepaired, outJsonXUnrepaired, finishX, outJsonX, applyOut, outForm]

/-! ### the monitor of these calls -/

/-- the tools/call of a handler that sets members itself, as the model answers it -/
def modelCallX (d : ToolD) (h : JVal → HRet) (x : JVal → HSet) (a : Args) : Outcome :=
  callX (refEnv lossy64) d.enforced h x a

/-- clause `hsetInvalid` (true = violated): the answer carries structured content that is not valid under
the tool's own output schema -/
def judgeX (osch : Option Schema) (o : Obs) : Bool :=
  match osch, o.sc with
  | some s, some v => (o.res == .ok || o.res == .toolerr) && !valid s v
  | _, _ => false

/-- C16 on the observation: "emit only schema-valid output" -/
def P_emitsValid (osch : Option Schema) (o : Obs) : Prop :=
  ∀ s v, osch = some s → o.sc = some v → (o.res = .ok ∨ o.res = .toolerr) → valid s v = true

theorem judgeX_iff (osch : Option Schema) (o : Obs) : judgeX osch o = true ↔ ¬ P_emitsValid osch o := by
  unfold judgeX P_emitsValid
  constructor
  · intro h hp
    cases ho : osch with
    | none => simp [ho] at h
    | some s =>
      cases hv : o.sc with
      | none => simp [ho, hv] at h
      | some v =>
        simp only [ho, hv, Bool.and_eq_true, Bool.or_eq_true, beq_iff_eq, Bool.not_eq_true'] at h
        have := hp s v ho hv h.1
        rw [this] at h
        exact absurd h.2 (by simp)
  · intro hn
    cases ho : osch with
    | none => exact absurd (fun s v h => by simp [ho] at h) hn
    | some s =>
      cases hv : o.sc with
      | none => exact absurd (fun s v _ h => by simp [hv] at h) hn
      | some v =>
        simp only [Bool.and_eq_true, Bool.or_eq_true, beq_iff_eq, Bool.not_eq_true']
        by_cases hr : (o.res = .ok ∨ o.res = .toolerr)
        · refine ⟨hr, ?_⟩
          cases hval : valid s v with
          | false => rfl
          | true =>
            exfalso; apply hn
            intro s' v' hs' hv' _
            simp only [ho, Option.some.injEq] at hs'
            simp only [hv, Option.some.injEq] at hv'
            subst hs' hv'; exact hval
        · exfalso; apply hn
          intro _ _ _ _ hr'; exact absurd hr' hr

/-- **sound_hsetInvalid.** The clause fires only on an observation that violates the property. -/
theorem sound_hsetInvalid (osch : Option Schema) (o : Obs) (h : judgeX osch o = true) : ¬ P_emitsValid osch o :=
  (judgeX_iff osch o).mp h

/-- **monitor_accepts_modelX.** No false alarm: on the model's own answer — any tool that enforces its own
schemas, any handler, anything it sets itself, any arguments — the clause is silent, provided the server's
decode of the structured content is exact (integers in [-2^63, 2^64), as for `monitor_accepts_model_call`). -/
theorem monitor_accepts_modelX (d : ToolD) (h : JVal → HRet) (x : JVal → HSet) (a : Args)
    (hreg : d.EnforcesOwn)
    (hex : ∀ sc, (modelCallX d h x a).structured = some sc → lossy64 sc = sc) :
    judgeX d.osch (obsOf (modelCallX d h x a)) = false := by
  cases hj : judgeX d.osch (obsOf (modelCallX d h x a)) with
  | false => rfl
  | true =>
    exfalso
    refine (judgeX_iff _ _).mp hj ?_
    intro s v hs hv _
    simp only [obsOf] at hv
    have hsch : d.enforced.outSchema = some s := by
      simp only [ToolD.enforced, Entry.tool]
      rw [hreg.2]; exact hs
    exact emitted_structured_valid_exact (refEnv lossy64) d.enforced h x a s v hsch hv (hex v hv)

/-! ### the text rendering of handler-set structured content -/

theorem finishX_rendered (E : Env S) (t : Tool S) (v : JVal) (r : HRet) (x : HSet) (sc : JVal)
    (hsch : t.outSchema.isSome = true) (hsc : (finishX E t v r x).structured = some sc) :
    (finishX E t v r x).content = finalContent r.content sc := by
  unfold finishX at hsc ⊢
  cases hj : outJsonX t x r.out with
  | none =>
    simp only [hj] at hsc
    cases ho : r.out with
    | nilAny =>
      simp only [ho, outJsonX, hsch, if_true] at hj
      cases hx : x.sc with
      | none => simp [hx] at hsc
      | some j => simp [hx] at hj
    | nilPtr => simp [ho, outJsonX, outJson] at hj
    | json j => simp [ho, outJsonX, outJson] at hj
  | some j =>
    simp only [hj] at hsc ⊢
    cases ha : applyOut E t j with
    | none => simp [ha] at hsc
    | some sc' =>
      simp only [ha, Option.some.injEq] at hsc ⊢
      subst hsc; rfl

/-- **emitted_structured_rendered.** Under a declared output schema, structured content in the answer —
the typed output's or the handler's own — comes with the text rendering C16 asks for: the one block holding
its JSON when the handler supplied no content, else the handler's content, followed by that block iff the
structured content is not an object. -/
theorem emitted_structured_rendered (E : Env S) (t : Tool S) (h : JVal → HRet) (x : JVal → HSet) (a : Args)
    (v sc : JVal) (hsch : t.outSchema.isSome = true) (hs : (callX E t h x a).seen = some v)
    (hsc : (callX E t h x a).structured = some sc) :
    (callX E t h x a).content = finalContent (h v).content sc := by
  unfold callX at hs hsc ⊢
  cases h1 : applyIn E t.inSchema a with
  | none => simp [h1, errorOutcome] at hsc
  | some d =>
    simp only [h1] at hs hsc ⊢
    cases h2 : t.decodeIn d with
    | none => simp [h2, errorOutcome] at hsc
    | some w =>
      simp only [h2] at hs hsc ⊢
      cases h3 : (h w).err with
      | some e => cases e <;> simp [h3, errorOutcome] at hsc
      | none =>
        simp only [h3] at hs hsc ⊢
        have hw : w = v := by
          have : (finishX E t w (h w) (x w)).seen = some w := by
            unfold finishX
            cases hj : outJsonX t (x w) (h w).out with
            | none => rfl
            | some j =>
              simp only []
              cases ha : applyOut E t j with
              | none => rfl
              | some _ => rfl
          rw [this] at hs; exact Option.some.inj hs
        subst hw
        exact finishX_rendered E t w (h w) (x w) sc hsch hsc

/-- clause `hsetNoText` (true = violated): structured content under a declared output schema, the handler
supplied no content of its own, and the content is not the one text block rendering the structured content -/
def judgeXText (osch : Option Schema) (hc : Option (List Block)) (o : Obs) : Bool :=
  match osch, o.sc, hc with
  | some _, some _, none => (o.res == .ok || o.res == .toolerr) && o.content != [BTok.sc]
  | _, _, _ => false

def P_textRendering (osch : Option Schema) (hc : Option (List Block)) (o : Obs) : Prop :=
  osch.isSome = true → o.sc.isSome = true → hc = none → (o.res = .ok ∨ o.res = .toolerr) → o.content = [BTok.sc]

/-- **sound_hsetNoText.** -/
theorem sound_hsetNoText (osch : Option Schema) (hc : Option (List Block)) (o : Obs)
    (h : judgeXText osch hc o = true) : ¬ P_textRendering osch hc o := by
  intro hp
  unfold judgeXText at h
  cases ho : osch with
  | none => simp [ho] at h
  | some s =>
    cases hv : o.sc with
    | none => simp [ho, hv] at h
    | some v =>
      cases hh : hc with
      | some c => simp [ho, hv, hh] at h
      | none =>
        simp only [ho, hv, hh, Bool.and_eq_true, Bool.or_eq_true, beq_iff_eq, bne_iff_ne, ne_eq] at h
        exact h.2 (hp (by simp [ho]) (by simp [hv]) hh h.1)

/-- no false alarm of `hsetNoText` on the model's own answer -/
theorem monitor_accepts_modelX_text (d : ToolD) (h : JVal → HRet) (x : JVal → HSet) (a : Args) (v : JVal)
    (hreg : d.EnforcesOwn) (hs : (modelCallX d h x a).seen = some v) :
    judgeXText d.osch (h v).content (obsOf (modelCallX d h x a)) = false := by
  unfold judgeXText
  cases ho : d.osch with
  | none => rfl
  | some s =>
    cases hv : (obsOf (modelCallX d h x a)).sc with
    | none => rfl
    | some sc =>
      cases hh : (h v).content with
      | some c => rfl
      | none =>
        have hsch : d.enforced.outSchema.isSome = true := by
          simp only [ToolD.enforced, Entry.tool]; rw [hreg.2, ho]; rfl
        have hc := emitted_structured_rendered (refEnv lossy64) d.enforced h x a v sc hsch hs (by simpa [obsOf, modelCallX] using hv)
        have : (obsOf (modelCallX d h x a)).content = [BTok.sc] := by
          simp only [obsOf, modelCallX, hc, hh, finalContent, List.map, btokOf]
        simp [this]

end TypedTool
