import McpModel.TypedTool.Bridge
/-!
# E12 TypedTool (C16) — a typed output that cannot be marshalled

`toolForErr`: `outbytes, err := json.Marshal(outval); if err != nil { return nil, fmt.Errorf("marshaling output: %w", err) }`
— an `Out` type whose `MarshalJSON` fails. The handler has run (on validated, defaulted arguments, like in every
other call); the call is answered by a protocol error, never by a result (`callMF`,
`marshal_failure_is_error_not_result`, `callMF_seen`). An `Out` type whose `MarshalJSON` yields JSON of another
kind than its Go type suggests (an array, a string, null for a struct) needs nothing new: the wrapper validates
the JSON, not the value (`OutVal.json j` is whatever `json.Marshal` renders; the harness reports it as `hout=`),
so `structured_valid`, `invalid_output_is_error_not_result` apply as they are. Core Lean only.
-/
namespace TypedTool

variable {S : Type}

/-- the wrapper for a call whose output `json.Marshal` refuses -/
def callMF (E : Env S) (t : Tool S) (h : JVal → HRet) (a : Args) : Outcome :=
  let o := call E t h a
  match o.seen with
  | none => o
  | some v =>
    match (h v).err with
    | some _ => o
    | none => { seen := some v, kind := .rpcError, structured := none, content := [] }

/-- **callMF_seen.** Whether the handler runs, and on what, is as in every other call. -/
theorem callMF_seen (E : Env S) (t : Tool S) (h : JVal → HRet) (a : Args) : (callMF E t h a).seen = (call E t h a).seen := by
  unfold callMF
  cases hs : (call E t h a).seen with
  | none => simp [hs]
  | some v =>
    cases he : (h v).err with
    | some e => simp [hs, he]
    | none => simp [hs, he]

/-- **marshal_failure_is_error_not_result.** The handler ran without an error and its output cannot be
marshalled: a protocol error, no structured content, no content. -/
theorem marshal_failure_is_error_not_result (E : Env S) (t : Tool S) (h : JVal → HRet) (a : Args) (v : JVal)
    (hs : (call E t h a).seen = some v) (he : (h v).err = none) :
    (callMF E t h a).kind = .rpcError ∧ (callMF E t h a).structured = none ∧ (callMF E t h a).content = [] := by
  unfold callMF
  simp [hs, he]

/-- clause (true = violated): the handler ran without an error, its output cannot be marshalled, and the call
was not answered by a protocol error -/
def judgeMF (herr : Bool) (o : Obs) : Bool := !herr && o.inv == some true && o.res != .rpcerr

def P_marshalFail (herr : Bool) (o : Obs) : Prop := herr = false → o.inv = some true → o.res = .rpcerr

theorem sound_marshalFail (herr : Bool) (o : Obs) (h : judgeMF herr o = true) : ¬ P_marshalFail herr o := by
  intro hp
  simp only [judgeMF, Bool.and_eq_true, Bool.not_eq_true', beq_iff_eq, bne_iff_ne, ne_eq] at h
  exact h.2 (hp h.1.1 h.1.2)

/-- no false alarm on the model's own answer -/
theorem monitor_accepts_modelMF (E : Env S) (t : Tool S) (h : JVal → HRet) (a : Args) (herr : Bool)
    (hh : ∀ v, ((h v).err.isSome) = herr) : judgeMF herr (obsOf (callMF E t h a)) = false := by
  cases hj : judgeMF herr (obsOf (callMF E t h a)) with
  | false => rfl
  | true =>
    exfalso
    simp only [judgeMF, Bool.and_eq_true, Bool.not_eq_true', beq_iff_eq, bne_iff_ne, ne_eq, obsOf] at hj
    obtain ⟨⟨h1, h2⟩, h3⟩ := hj
    rw [callMF_seen] at h2
    cases hs : (call E t h a).seen with
    | none => simp [hs] at h2
    | some v =>
      have he : (h v).err = none := by
        have := hh v; rw [h1] at this
        cases hx : (h v).err with
        | none => rfl
        | some e => simp [hx] at this
      have := (marshal_failure_is_error_not_result E t h a v hs he).1
      apply h3; rw [this]; rfl

end TypedTool
