import McpModel.Base.Proto
import McpModel.TypedTool.Monitor
import McpModel.TypedTool.HandlerSet
import McpModel.TypedTool.Refusal
import McpModel.TypedTool.MarshalFail
/-!
Driver for E12 TypedTool (C16).

Records (ops | implementation observation):
  reset                                                        | ok
  server cache=<n> [ver=<v>|default] [peer=sdk|raw]
                            a new Server whose SchemaCache is cache n of the case (0 = none) and a peer connected
                            to it: the SDK client asked to run at protocol version v (default: left alone, i.e.
                            `latestProtocolVersion`), or a foreign peer speaking raw JSON-RPC over a pipe at v
                            (legacy handshake below 2026-07-28, per-request _meta from there on). v must be one of
                            the regenerated `supportedProtocolVersions`.                       | ok nv=<negotiated version>
  tool name=<t> form=raw|schema isrc=d|e osrc=d|e|none isch=x<json>|- osch=x<json>|- iptr=<n>|- optr=<n>|-
       ity=x<json> oty=x<json> ikey=<hex> okey=<hex> ider=x<json>|- oder=x<json>|-
                            AddTool on the current server. isch/osch: the schemas the tool DECLARES (src e);
                            iptr/optr: identity of the *jsonschema.Schema handed in (form=schema);
                            ikey/okey: the Go types (pointers stripped); ider/oder: jsonschema.ForType of them
                                                               | ok pi=x<json> po=x<json>|-   (what tools/list advertises)
                                                               | addtool-error
  call [tool=<t>] args=x<json>|absent out=x<json>|nilptr|nilany [anyx=0|1] [hout=x<json>] content=n|0|1|2 herr=0|1|2
                            anyx=1: the handler holds int64/uint64 (not float64) in the `any` positions of its
                            output; hout: the JSON of the value the handler returns (filled in by the harness)
        | inv=<0|1> seen=<jv|-> res=<ok|toolerr|rpcerr|panic> sc=<jv|-> content=<blocks|-> lib=<v|i|-> olib=<v|i|-> rt=<complete|->
                            rt: the `resultType` member of the result on the wire — the one thing the dispatcher
                            (`deliver`, Model.lean) makes depend on the session's protocol version; the C16 monitor
                            does not read it (nor the version): what C16 demands of a result is the same at every version
  f64 <integer>                                                | <integer Go prints for float64(integer)>

`x<json>` is hex of JSON text; `jv` is the blank-free canonical value form (`z t f n<dec> s<hex> [..] {..}`).

The model observation is `call (refEnv lossy64)` — the wrapper with fixes/F09 and fixes/F12 applied —
over the schemas the registration model (`World.step`: `setSchema` through the case's shared
`SchemaCache`s, after the whole history of the case) says the tool ENFORCES. The monitor judges the
implementation's observation against `call (refEnv id)` over the tool's OWN schemas (declared, else
inferred from its Go type): validity by the reference validator on exact numbers. The handler's observed
input is also read back (`parseCanonTok`) and judged member-wise: a struct field that does not hold the
decoding of the validated member of EXACTLY its JSON name but does hold that of a differently spelled
member gives the clause `handler_sees_exactly_validated_members` (with the member's path). Disagreements between `jsonschema-go` (fields `lib`/`olib`,
computed by the harness on exactly decoded values) and the reference validator are reported with the
clause prefix `LIBDISC` and excluded from the verdict.

This file is the STRING LAYER only: JSON text and token parsers, the renderer of the model observation,
the clause texts. A record is parsed into a typed event and a typed observation and handed to the typed
core in `Monitor.lean` (`MState.regTool`, `MState.callee`, `mkCall`, `modelCall`, `judgeCall`/`monitor`),
which `Bridge.lean` (no false alarm on the model's own observations) and `Sound.lean` (a clause that fires
refutes the property's clause) reason about.
-/
namespace TypedTool
open Proto

/-! ### JSON text → JVal -/

def skipWs : List Char → List Char
  | c :: t => if c == ' ' || c == '\n' || c == '\t' || c == '\r' then skipWs t else c :: t
  | [] => []

def takeDigits : List Char → List Char × List Char
  | c :: t => if c.isDigit then let (d, r) := takeDigits t; (c :: d, r) else ([], c :: t)
  | [] => ([], [])

def digitsToNat (ds : List Char) : Nat := ds.foldl (fun a c => a * 10 + (c.toNat - 48)) 0

/-- number literal → exact decimal; `plain` = no fraction/exponent part -/
def parseNumber (cs : List Char) : Option (Dec × Bool × List Char) :=
  let (neg, cs) := match cs with | '-' :: t => (true, t) | _ => (false, cs)
  let (ip, cs) := takeDigits cs
  if ip.isEmpty then none else
  let (fp, cs, hasF) := match cs with
    | '.' :: t => let (f, r) := takeDigits t; (f, r, true)
    | _ => ([], cs, false)
  if hasF && fp.isEmpty then none else
  let (ex, cs, hasE) : Int × List Char × Bool := match cs with
    | c :: t =>
      if c == 'e' || c == 'E' then
        let (sg, t) : Int × List Char := match t with | '-' :: u => (-1, u) | '+' :: u => (1, u) | _ => (1, t)
        let (ed, r) := takeDigits t
        (sg * (digitsToNat ed : Int), r, true)
      else (0, c :: t, false)
    | [] => (0, [], false)
  if ex.natAbs > 400 then none else
  let mant : Int := (digitsToNat (ip ++ fp) : Int) * (if neg then -1 else 1)
  let e0 : Int := (fp.length : Int) - ex          -- value = mant * 10^(-e0)
  let d : Dec := if e0 ≥ 0 then ⟨mant, e0.toNat⟩ else ⟨mant * (10 : Int) ^ (-e0).toNat, 0⟩
  some (d, !hasF && !hasE, cs)

def hex4 (cs : List Char) : Option (Nat × List Char) :=
  match cs with
  | a :: b :: c :: d :: t =>
    match hexVal a, hexVal b, hexVal c, hexVal d with
    | some w, some x, some y, some z => some (((w * 16 + x) * 16 + y) * 16 + z, t)
    | _, _, _, _ => none
  | _ => none

partial def parseStrBody (cs : List Char) (acc : List Char) : Option (String × List Char) :=
  match cs with
  | '"' :: t => some (String.ofList acc.reverse, t)
  | '\\' :: c :: t =>
    match c with
    | '"' => parseStrBody t ('"' :: acc)
    | '\\' => parseStrBody t ('\\' :: acc)
    | '/' => parseStrBody t ('/' :: acc)
    | 'b' => parseStrBody t (Char.ofNat 8 :: acc)
    | 'f' => parseStrBody t (Char.ofNat 12 :: acc)
    | 'n' => parseStrBody t ('\n' :: acc)
    | 'r' => parseStrBody t ('\r' :: acc)
    | 't' => parseStrBody t ('\t' :: acc)
    | 'u' =>
      match hex4 t with
      | none => none
      | some (hi, t') =>
        if 0xD800 ≤ hi && hi < 0xDC00 then
          match t' with
          | '\\' :: 'u' :: t'' =>
            match hex4 t'' with
            | some (lo, t3) =>
              if 0xDC00 ≤ lo && lo < 0xE000 then
                parseStrBody t3 (Char.ofNat (0x10000 + (hi - 0xD800) * 0x400 + (lo - 0xDC00)) :: acc)
              else none
            | none => none
          | _ => none
        else parseStrBody t' (Char.ofNat hi :: acc)
    | _ => none
  | c :: t => parseStrBody t (c :: acc)
  | [] => none

/-- `bigOk = false`: a whole number beyond ±2^53 written with a fraction/exponent part is refused
(the model identifies numbers by value; such a literal is decoded as float64 even with fixes/F09). -/
partial def parseVal (cs : List Char) : Option (JVal × List Char) :=
  match skipWs cs with
  | 'n' :: 'u' :: 'l' :: 'l' :: t => some (.null, t)
  | 't' :: 'r' :: 'u' :: 'e' :: t => some (.bool true, t)
  | 'f' :: 'a' :: 'l' :: 's' :: 'e' :: t => some (.bool false, t)
  | '"' :: t => (parseStrBody t []).map fun (s, r) => (.str s, r)
  | '[' :: t =>
    match skipWs t with
    | ']' :: r => some (.arr [], r)
    | t => parseElems t []
  | '{' :: t =>
    match skipWs t with
    | '}' :: r => some (.obj [], r)
    | t => parseMembers t []
  | cs =>
    match parseNumber cs with
    | some (d, plain, r) =>
      if !plain && d.isInt && d.toInt.natAbs > two53.natAbs then none else some (.num d, r)
    | none => none
where
  parseElems (cs : List Char) (acc : List JVal) : Option (JVal × List Char) :=
    match parseVal cs with
    | none => none
    | some (v, r) =>
      match skipWs r with
      | ',' :: r' => parseElems r' (v :: acc)
      | ']' :: r' => some (.arr (v :: acc).reverse, r')
      | _ => none
  parseMembers (cs : List Char) (acc : Fields) : Option (JVal × List Char) :=
    match skipWs cs with
    | '"' :: t =>
      match parseStrBody t [] with
      | none => none
      | some (k, r) =>
        match skipWs r with
        | ':' :: r' =>
          match parseVal r' with
          | none => none
          | some (v, r'') =>
            match skipWs r'' with
            | ',' :: r3 => parseMembers r3 ((k, v) :: acc)
            | '}' :: r3 => some (.obj ((k, v) :: acc).reverse, r3)
            | _ => none
        | _ => none
    | _ => none

def parseJson (s : String) : Option JVal :=
  match parseVal s.toList with
  | some (v, r) => if (skipWs r).isEmpty then some v else none
  | none => none

/-- `x<hex of JSON text>` -/
def parseXJson (tok : String) : Option JVal :=
  if tok.startsWith "x" then (hexToString (tok.drop 1).toString) >>= parseJson else none

/-! ### JVal → canonical token -/

def showDec (d : Dec) : String :=
  let (e, m) := stripZeros d.e d.m
  if e = 0 then s!"{m}" else s!"{m}e-{e}"

partial def showJ : JVal → String
  | .null => "z"
  | .bool true => "t"
  | .bool false => "f"
  | .num d => "n" ++ showDec d
  | .str s => "s" ++ stringToHex s
  | .arr xs => "[" ++ ",".intercalate (xs.map showJ) ++ "]"
  | .obj fs =>
    let sorted := fs.mergeSort (fun a b => decide (a.1 ≤ b.1))
    "{" ++ ",".intercalate (sorted.map fun (k, v) => "s" ++ stringToHex k ++ ":" ++ showJ v) ++ "}"

/-! ### schemas and Go types from JSON -/

def tyOfString : String → Option Ty
  | "null" => some .null | "boolean" => some .boolean | "integer" => some .integer | "number" => some .number
  | "string" => some .string | "array" => some .array | "object" => some .object | _ => none

def natOfJ : JVal → Option Nat
  | .num d => if d.isInt && decide (0 ≤ d.toInt) then some d.toInt.toNat else none
  | _ => none

def strsOfJ : JVal → Option (List String)
  | .arr xs => xs.mapM fun | .str s => some s | _ => none
  | _ => none

def knownKeywords : List String :=
  ["type", "enum", "const", "minimum", "maximum", "minLength", "maxLength", "properties", "required",
   "additionalProperties", "items", "default"]

partial def schemaOfJ : JVal → Option Schema
  | .bool true => some Schema.any
  | .obj fs => do
    if fs.any (fun kv => !knownKeywords.contains kv.1) then none
    let ty ← match lookupJ "type" fs with
      | none => some []
      | some (.str s) => (tyOfString s).map ([·])
      | some (.arr xs) => if xs.length < 2 then none else xs.mapM fun | .str s => tyOfString s | _ => none
      | _ => none
    let enum ← match lookupJ "enum" fs with
      | none => some none
      | some (.arr xs) => some (some xs)
      | _ => none
    let minimum ← match lookupJ "minimum" fs with | none => some none | some (.num d) => some (some d) | _ => none
    let maximum ← match lookupJ "maximum" fs with | none => some none | some (.num d) => some (some d) | _ => none
    let minLength ← match lookupJ "minLength" fs with | none => some none | some j => (natOfJ j).map some
    let maxLength ← match lookupJ "maxLength" fs with | none => some none | some j => (natOfJ j).map some
    let required ← match lookupJ "required" fs with | none => some [] | some j => strsOfJ j
    let props ← match lookupJ "properties" fs with
      | none => some []
      | some (.obj ps) =>
        if (ps.map (·.1)).eraseDups.length != ps.length then none
        else ps.mapM fun (k, v) => (schemaOfJ v).map fun s => (k, s)
      | _ => none
    let (apFalse, ap) ← match lookupJ "additionalProperties" fs with
      | none => some (false, none)
      | some (.bool false) => some (true, none)
      | some j => (schemaOfJ j).map fun s => (false, some s)
    let items ← match lookupJ "items" fs with | none => some none | some j => (schemaOfJ j).map some
    some (.mk { ty, enum, const := lookupJ "const" fs, minimum, maximum, minLength, maxLength, required,
                apFalse, dflt := lookupJ "default" fs } props ap items)
  | _ => none

partial def goTyOfJ : JVal → Option GoTy
  | .str "int64" => some .int64
  | .str "uint64" => some .uint64
  | .str "float64" => some .float64
  | .str "string" => some .string
  | .str "bool" => some .bool
  | .str "any" => some .any
  | .obj [("ptr", t)] => (goTyOfJ t).map .ptr
  | .obj [("slice", t)] => (goTyOfJ t).map .slice
  | .obj [("map", t)] => (goTyOfJ t).map .map
  | .obj [("struct", .arr fs)] =>
    (fs.mapM fun (f : JVal) => match f with
      | JVal.obj kv => do
        let n ← match lookupJ "n" kv with | some (.str s) => some s | _ => none
        let oe ← match lookupJ "oe" kv with | some (.bool b) => some b | _ => none
        let t ← (lookupJ "t" kv) >>= goTyOfJ
        some (n, oe, t)
      | _ => none).map .struct
  | _ => none

/-! ### tokens -/

def kv (tok : String) : Option (String × String) :=
  match tok.splitOn "=" with
  | k :: rest => if rest.isEmpty then none else some (k, "=".intercalate rest)
  | _ => none

def getKV (toks : List String) (k : String) : Option String :=
  (toks.filterMap kv).lookup k

def showBlocks (bs : List Block) : String :=
  if bs.isEmpty then "-" else
  ";".intercalate (bs.map fun
    | .text s => "t" ++ stringToHex s
    | .jsonOf _ => "=sc"
    | .errText => "err")

def showKind : Kind → String
  | .ok => "ok" | .toolError => "toolerr" | .rpcError => "rpcerr"

def showOpt (o : Option JVal) : String := match o with | some v => showJ v | none => "-"

def render (o : Outcome) (lib olib : String) : String :=
  s!"inv={if o.seen.isSome then 1 else 0} seen={showOpt o.seen} res={showKind o.kind} sc={showOpt o.structured} content={showBlocks o.content} lib={lib} olib={olib}"

def showRT : Option RType → String
  | some .complete => "complete"
  | some .inputRequired => "input_required"
  | none => "-"

/-- the model observation of a call at the session's protocol version -/
def renderServed (dl : Delivered) (lib olib : String) : String :=
  render dl.out lib olib ++ " rt=" ++ showRT dl.resultType

def vi (b : Bool) : String := if b then "v" else "i"

/-! ### canonical token → JVal (the handler's observed input, for the member-wise clause) -/

def takeHex : List Char → List Char × List Char
  | c :: t => if (hexVal c).isSome then let (d, r) := takeHex t; (c :: d, r) else ([], c :: t)
  | [] => ([], [])

partial def parseCanon : List Char → Option (JVal × List Char)
  | 'z' :: t => some (.null, t)
  | 't' :: t => some (.bool true, t)
  | 'f' :: t => some (.bool false, t)
  | 'n' :: t =>
    let (neg, t) := match t with | '-' :: u => (true, u) | _ => (false, t)
    let (ds, t) := takeDigits t
    if ds.isEmpty then none else
    let m : Int := (digitsToNat ds : Int) * (if neg then -1 else 1)
    match t with
    | 'e' :: '-' :: u =>
      let (es, r) := takeDigits u
      if es.isEmpty then none else some (.num ⟨m, digitsToNat es⟩, r)
    | _ => some (.num ⟨m, 0⟩, t)
  | 's' :: t =>
    let (hs, r) := takeHex t
    (hexToString (String.ofList hs)).map fun s => (.str s, r)
  | '[' :: ']' :: t => some (.arr [], t)
  | '[' :: t => elems t []
  | '{' :: '}' :: t => some (.obj [], t)
  | '{' :: t => members t []
  | _ => none
where
  elems (cs : List Char) (acc : List JVal) : Option (JVal × List Char) :=
    match parseCanon cs with
    | none => none
    | some (v, r) =>
      match r with
      | ',' :: r' => elems r' (v :: acc)
      | ']' :: r' => some (.arr (v :: acc).reverse, r')
      | _ => none
  members (cs : List Char) (acc : Fields) : Option (JVal × List Char) :=
    match cs with
    | 's' :: t =>
      let (hs, r) := takeHex t
      match hexToString (String.ofList hs), r with
      | some k, ':' :: r' =>
        match parseCanon r' with
        | none => none
        | some (v, r'') =>
          match r'' with
          | ',' :: r3 => members r3 ((k, v) :: acc)
          | '}' :: r3 => some (.obj ((k, v) :: acc).reverse, r3)
          | _ => none
      | _, _ => none
    | _ => none

def parseCanonTok (tok : String) : Option JVal :=
  match parseCanon tok.toList with
  | some (v, []) => some v
  | _ => none

/-! ### records → typed events and observations (`Monitor.lean`) -/

def parseCallEv (toks : List String) : Option CallEv := do
  let a ← getKV toks "args"
  let o ← getKV toks "out"
  let c ← getKV toks "content"
  let e ← getKV toks "herr"
  let args ← if a == "absent" then some Args.absent else (parseXJson a).map Args.val
  let out ← if o == "nilptr" then some OutSpec.nilPtr
    else if o == "nilany" then some OutSpec.nilAny
    else do
      let raw ← parseXJson o
      match getKV toks "hout" with
      | some h => (parseXJson h).map fun j => OutSpec.json raw (some j)
      | none => some (OutSpec.json raw none)
  let content ← match c with
    | "n" => some none
    | "N" => some none
    | "0" => some (some [])
    | "1" => some (some [Block.text "c0"])
    | "2" => some (some [Block.text "c0", Block.text "c1"])
    | _ => none
  let herr ← match e with
    | "0" => some none | "1" => some (some HErr.plain) | "2" => some (some HErr.rpc) | _ => none
  some { args, out, content, herr }

def parseOptTok (tok : String) : Option (Option JVal) :=
  if tok == "-" then some none else (parseCanonTok tok).map some

def parseRes : String → Res
  | "ok" => .ok | "toolerr" => .toolerr | "rpcerr" => .rpcerr | "panic" => .panic | _ => .other

def parseInv : String → Option Bool
  | "1" => some true | "0" => some false | _ => none

def parseBTok (tok : String) : BTok :=
  if tok == "=sc" then .sc else if tok == "err" then .err
  else if tok.startsWith "t" then
    match hexToString (tok.drop 1).toString with
    | some s => .text s
    | none => .other tok
  else .other tok

def parseContent (s : String) : List BTok := if s == "-" then [] else (s.splitOn ";").map parseBTok

def parseLib : String → Option Bool
  | "v" => some true | "i" => some false | _ => none

/-- the fields of an implementation observation -/
def parseObs (impl : String) : Option (Obs × Option Bool × Option Bool) := do
  let toks := words impl
  let o : Obs := { inv := parseInv (← getKV toks "inv"), seen := ← (getKV toks "seen") >>= parseOptTok,
                   res := parseRes (← getKV toks "res"), sc := ← (getKV toks "sc") >>= parseOptTok,
                   content := parseContent (← getKV toks "content") }
  some (o, parseLib (← getKV toks "lib"), parseLib (← getKV toks "olib"))

def showLib : Option Bool → String
  | some b => vi b
  | none => "-"

def showPath (p : String) : String := if p.isEmpty then "the value itself" else "member " ++ p

def viaF64 (a b : Dec) : String :=
  if (f64Dec a).eq b then " — the float64 nearest to it" else ""

/-- the clause texts -/
def Clause.text : Clause → String
  | .f12Panic => "C16/F12: tools/call with arguments null on a typed tool whose input schema declares a default panics (assignment to entry in nil map) instead of applying the defaults"
  | .panicked => "C16: the typed tool wrapper panicked"
  | .f16 => "C16/F16: successful result without structured content although an output schema is declared (Out = any, handler returned a nil output)"
  | .scMissing => "C16: success_has_structured: successful result without structured content although an output type or schema is declared and the handler returned an output: the structured content must be the JSON of that output (with the schema's defaults) whatever JSON kind it is — object, array, string, number, boolean, null — and whatever protocol version the session runs at"
  | .f12NullSeen => "C16/F12: tools/call with arguments null: the handler observes null (a nil map) instead of the empty object with the schema's defaults"
  | .recvExact p a b => s!"C16: handler_receives_exact_integers: the handler received an integer that differs from the one sent ({showPath p} of its input: sent {showDec a}, received {showDec b}{viaF64 a b}); every integer a Go integer type holds, int64 or uint64 — [-2^63, 2^64) — must reach the typed handler unchanged"
  | .carryExact p a b => s!"C16: result_carries_exact_integers: the structured content carries an integer that differs from the one in the handler's output ({showPath p}: output {showDec a}, returned {showDec b}{viaF64 a b}); every integer a Go integer type holds, int64 or uint64 — [-2^63, 2^64) — must come back unchanged"
  | .u64Refused => "C16: invoked_iff_valid_after_defaults: arguments valid after defaults (and decodable) but the handler did not run; they hold an integer in (MaxInt64, MaxUint64] — a value of a uint64 member — and the call is answered as by a decode that keeps only int64 exact (the integer re-encoded through float64 fits no Go integer type); the server's decode must keep [-2^63, 2^64) exact"
  | .f9 => "C16/F9: integer with |n| > 2^53 rounded to float64 by applySchema's JSON round trip (handler input, validity verdict or structured content differ from the exact value)"
  | .notInvoked => "C16: invoked_iff_valid_after_defaults: arguments valid after defaults (and decodable) but the handler did not run"
  | .invokedInvalid => "C16: invoked_iff_valid_after_defaults: handler ran on arguments that are invalid after defaults"
  | .members p => s!"C16: handler_sees_exactly_validated_members: the handler observed for a member of its input a value that differs from the validated (defaulted) argument of that exact name: it holds the value of a differently spelled member, which the schema treated as an additional property and the typed decode must drop (member {p})"
  | .seesDefaulted => "C16: handler_sees_defaulted_args: the handler observed something other than the defaulted arguments"
  | .invalidNoToolErr => "C16: invalid_gives_tool_error_without_invocation: invalid arguments did not produce an isError result with content"
  | .nilPtr => "C16: nil_pointer_output_uses_zero_value: a nil pointer output was not treated as the zero value of its element type"
  | .invalidOutReturned => "C16: invalid_output_is_error_not_result: output violating the output schema was returned as a result"
  | .validOutRefused => "C16: structured_valid: schema-valid output was not returned as a successful result"
  | .kindDiffers => "C16: result kind differs from the wrapper's contract"
  | .scDiffers => "C16: structured_equals_output_json_with_defaults: structured content is not the JSON of the output with the schema's defaults"
  | .contentDiffers => "C16: text_fallback_iff_no_content: content is not the handler's content plus the serialized structured content where required"
  | .errContent => "C16: the content of an error differs from the wrapper's contract (a tool error carries one text block, the error message; a protocol error carries no result)"
  | .pubIn => "C16: published_schema_is_own: tools/list advertises an input schema that is not the tool's own (declared, else inferred from its Go type)"
  | .pubOut => "C16: published_schema_is_own: tools/list advertises an output schema that is not the tool's own (declared, else inferred from its Go type)"
  | .libIn a b => s!"LIBDISC: input: jsonschema-go says {vi a}, the reference validator says {vi b}"
  | .libOut a b => s!"LIBDISC: output: jsonschema-go says {vi a}, the reference validator says {vi b}"

/-- the `tool` op with the tokens of the own schemas (for rendering the expected observation) -/
structure ToolOp where
  ev : ToolEv
  ownI : String
  ownO : String

def parseGiven (rest : List String) (src tok ptr : String) : Option (Option (Given Schema)) :=
  if getKV rest src == some "e" then do
    let s ← (getKV rest tok) >>= parseXJson >>= schemaOfJ
    let p := if getKV rest "form" == some "schema" then (getKV rest ptr) >>= String.toNat? else none
    some (some { ptr := p, content := s })
  else some none

def parseToolOp (rest : List String) : Option ToolOp := do
  let ity ← (getKV rest "ity") >>= parseXJson >>= goTyOfJ
  let oty ← (getKV rest "oty") >>= parseXJson >>= goTyOfJ
  let ikey ← getKV rest "ikey"
  let okey ← getKV rest "okey"
  let derived (tok : String) : Option (Option Schema) :=
    match getKV rest tok with
    | some "-" => some none
    | some t => (parseXJson t >>= schemaOfJ).map some
    | none => none
  let ider ← derived "ider"
  let oder ← derived "oder"
  let gi ← parseGiven rest "isrc" "isch" "iptr"
  let go ← parseGiven rest "osrc" "osch" "optr"
  let inAny := match ity with | .any => true | _ => false
  let outAny := match oty with | .any => true | _ => false
  let env : RegEnv String Schema :=
    { derive := fun k => if k == ikey then ider.getD objectSchema else oder.getD objectSchema
      resolves := defaultsValid
      objectSchema := objectSchema }
  let objTok := "x" ++ stringToHex "{\"type\":\"object\"}"
  let ownI := if gi.isSome then (getKV rest "isch").getD "?" else if inAny then objTok else (getKV rest "ider").getD "?"
  let ownO := if go.isSome then (getKV rest "osch").getD "?" else if outAny then "-" else (getKV rest "oder").getD "?"
  some { ev := { name := (getKV rest "name").getD "t", ity, oty, env,
                 decl := { inKey := ikey, inAny, inGiven := gi, outKey := okey, outAny, outGiven := go } },
         ownI, ownO }

/-- what tools/list advertised, as the `tool` record reports it -/
def parseToolObs (impl : String) : ToolObs :=
  if !impl.startsWith "ok" then .other else
  let itoks := words impl
  let pubI := (getKV itoks "pi") >>= parseXJson >>= schemaOfJ
  let pubO : Option (Option Schema) := match getKV itoks "po" with
    | some "-" => some none
    | some tk => (parseXJson tk >>= schemaOfJ).map some
    | none => none
  .ok pubI pubO

/-- run-time self-check of the string layer: the model observation, printed and read back, is the typed
observation the bridge theorem speaks about (`Bridge.lean`): on a record answered `A` the monitor ran on
exactly `obsOf (modelCall …)` -/
def roundTrips (model : String) (rep : Outcome) (lib olib : Option Bool) : Bool :=
  match parseObs model with
  | some (o, l, ol) => sameObs o (obsOf rep) && l == lib && ol == olib
  | none => false

def engine : Engine MState where
  init := {}
  step d toks impl :=
    match toks with
    | ["reset"] => ({}, { model := "ok" })
    | ["f64", n] =>
      match n.toInt? with
      | some i => (d, { model := showDec (f64Dec (.ofInt i)) })
      | none => (d, { model := "bad-op" })
    | "server" :: rest =>
      let ver := match getKV rest "ver" with
        | none => Generated.TypedTool.latestProtocolVersion
        | some "default" => Generated.TypedTool.latestProtocolVersion
        | some v => v
      match (getKV rest "cache") >>= String.toNat? with
      | some n =>
        -- a pair is asked to run at one of the SDK's supported versions and then runs at that version
        if Generated.TypedTool.supportedProtocolVersions.contains ver then (d.server n ver, { model := "ok nv=" ++ ver })
        else (d, { model := "bad-op" })
      | none => (d, { model := "bad-op" })
    | "tool" :: rest =>
      match parseToolOp rest with
      | none => (d, { model := "bad-op" })
      | some t =>
        -- Server.AddTool refuses a tool whose input schema is not object-rooted, after toolForErr has run
        if refusedByAddTool d t.ev then
          if impl.startsWith "ok" then
            (d.regRefused t.ev, { model := "addtool-error", violated := some "C16: registration: AddTool accepted a typed tool whose input schema does not have root type \"object\" (tools/call arguments are an object; Server.AddTool refuses every other input schema)" })
          else (d.regRefused t.ev, { model := "addtool-error" })
        else
        let expected := s!"ok pi={t.ownI} po={t.ownO}"
        match d.regTool t.ev (parseToolObs impl) with
        | (d', .addErr) => (d', { model := "addtool-error" })
        | (d', .accept) => (d', { model := impl })
        | (d', .expected v) => (d', { model := expected, violated := v.map Clause.text })
    | "call" :: rest0 =>
      -- hout=! : json.Marshal refuses the handler's output (MarshalFail.lean)
      let mfail := getKV rest0 "hout" == some "!"
      let rest := if mfail then rest0.filter (· != "hout=!") else rest0
      match d.callee (getKV rest "tool") with
      | none => (d, { model := "no-tool" })
      | some td =>
        if mfail then
          match (parseCallEv rest) >>= mkCall td with
          | none => (d, { model := "bad-op" })
          | some ci =>
            let out := callMF (refEnv lossy64) td.enforced ci.h ci.args
            let served := deliver (supportsMultiRoundTrip Generated.TypedTool.multiRoundTripSince d.ver) out
            let model := renderServed served (showLib (libIn td ci)) "-"
            match parseObs impl with
            | none => (d, { model := model })
            | some (o, l, _) =>
              if disc l (libIn td ci) then
                (d, { model := impl, violated := some (Clause.text (.libIn (l.getD false) ((libIn td ci).getD false))) })
              else if judgeMF (ci.h .null).err.isSome o then
                (d, { model := model, violated := some "C16: invalid_output_is_error_not_result: the handler's output cannot be marshalled to JSON and the call was not answered by an error" })
              else (d, { model := model })
        else
        match (parseCallEv rest) >>= mkCall td with
        | none => (d, { model := "bad-op" })
        | some ci =>
          -- a handler that sets IsError / StructuredContent itself in the result it returns (HandlerSet.lean)
          let hsetTok := getKV rest "hsc"
          let hset : Option HSet :=
            match hsetTok with
            | none | some "-" => some { isError := getKV rest "hise" == some "1", sc := none }
            | some t => (parseXJson t).map fun j => { isError := getKV rest "hise" == some "1", sc := some j }
          match hset with
          | none => (d, { model := "bad-op" })
          | some hx =>
          if hx.isError || hx.sc.isSome then
            let out := modelCallX td ci.h (fun _ => hx) ci.args
            let served := deliver (supportsMultiRoundTrip Generated.TypedTool.multiRoundTripSince d.ver) out
            let model := renderServed served (showLib (libIn td ci)) "-"
            -- the reference validator's verdict on the output that is validated (the typed output, else the
            -- handler's own structured content, else null), on exact numbers: the library-discrepancy filter
            let effJ : Option JVal := match (ci.h .null).out with
              | .nilAny => if td.osch.isSome then
                  (match hx.sc with | some j => some j | none => if hx.isError then none else some .null) else none
              | .nilPtr => td.tool.elemZero
              | .json j => ci.hout <|> some j
            let refO : Option Bool := match out.seen, (ci.h .null).err, effJ, td.osch with
              | some _, none, some j, some s => some (valid s (outForm idEnv td.tool s j).1)
              | _, _, _, _ => none
            let model := renderServed served (showLib (libIn td ci)) (showLib refO)
            match parseObs impl with
            | none => (d, { model := model })
            | some (o, l, ol) =>
              if disc l (libIn td ci) then
                (d, { model := impl, violated := some (Clause.text (.libIn (l.getD false) ((libIn td ci).getD false))) })
              else if disc ol refO then
                (d, { model := impl, violated := some (Clause.text (.libOut (ol.getD false) (refO.getD false))) })
              else if judgeX td.osch o then
                (d, { model := model, violated := some "C16: structured_valid: the answer carries structured content that is not valid under the tool's output schema (content the handler set itself in the result it returned: it is the tool's output and must be validated like the typed output)" })
              else if judgeXText td.osch (ci.h .null).content o then
                (d, { model := model, violated := some "C16: text_fallback_iff_no_content: structured content under a declared output schema, the handler supplied no content of its own, and the content is not the text rendering of the structured content (structured content the handler set itself in the result it returned)" })
              else (d, { model := model })
          else
          -- what a peer at the session's protocol version is answered: the wrapper, then the dispatcher
          let served := modelServe d.ver td ci
          let rep := served.out
          -- the reference validator's own verdicts, on exact values
          let lib := libIn td ci
          let olib := libOut td ci
          let model := renderServed served (showLib lib) (showLib olib)
          -- a clause of a call on a session that is not at the SDK's default version names the version
          let sess := if d.ver == Generated.TypedTool.latestProtocolVersion then "" else s!" [session at protocol version {d.ver}]"
          if !roundTrips model rep lib olib then (d, { model := "selfcheck-failed " ++ model }) else
          match parseObs impl with
          | none => (d, { model := model })
          | some (o, l, ol) =>
            match judgeCall td ci o l ol with
            | some (.libIn a b) => (d, { model := impl, violated := some (Clause.text (.libIn a b)) })
            | some (.libOut a b) => (d, { model := impl, violated := some (Clause.text (.libOut a b)) })
            | v => (d, { model := model, violated := v.map fun c => Clause.text c ++ sess })
    | _ => (d, { model := "bad-op" })

end TypedTool

def main : IO Unit := Proto.run TypedTool.engine
