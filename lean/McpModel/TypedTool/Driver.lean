import McpModel.Base.Proto
import McpModel.TypedTool.GoTy
import McpModel.TypedTool.Registry
/-!
Driver for E12 TypedTool (C16).

Records (ops | implementation observation):
  reset                                                        | ok
  server cache=<n>          a new Server (and client) whose SchemaCache is cache n of the case; 0 = none | ok
  tool name=<t> form=raw|schema isrc=d|e osrc=d|e|none isch=x<json>|- osch=x<json>|- iptr=<n>|- optr=<n>|-
       ity=x<json> oty=x<json> ikey=<hex> okey=<hex> ider=x<json>|- oder=x<json>|-
                            AddTool on the current server. isch/osch: the schemas the tool DECLARES (src e);
                            iptr/optr: identity of the *jsonschema.Schema handed in (form=schema);
                            ikey/okey: the Go types (pointers stripped); ider/oder: jsonschema.ForType of them
                                                               | ok pi=x<json> po=x<json>|-   (what tools/list advertises)
                                                               | addtool-error
  call [tool=<t>] args=x<json>|absent out=x<json>|nilptr|nilany [anyx=0|1] [hout=x<json>] content=n|0|1|2 herr=0|1|2
                            anyx=1: the handler holds int64/uint64 (not float64) in the `any` positions of its
                            output; hout: the JSON of the value the handler returns (filled in by the harness)
        | inv=<0|1> seen=<jv|-> res=<ok|toolerr|rpcerr|panic> sc=<jv|-> content=<blocks|-> lib=<v|i|-> olib=<v|i|->
  f64 <integer>                                                | <integer Go prints for float64(integer)>

`x<json>` is hex of JSON text; `jv` is the blank-free canonical value form (`z t f n<dec> s<hex> [..] {..}`).

The model observation is `call (refEnv lossy64)` — the wrapper with fixes/F09 and fixes/F12 applied —
over the schemas the registration model (`World.step`: `setSchema` through the case's shared
`SchemaCache`s, after the whole history of the case) says the tool ENFORCES. The monitor judges the
implementation's observation against `call (refEnv id)` over the tool's OWN schemas (declared, else
inferred from its Go type): validity by the reference validator on exact numbers. The handler's observed
input is also read back (`parseCanonTok`) and judged member-wise: a struct field that does not hold the
decoding of the validated member of EXACTLY its JSON name but does hold that of a differently spelled
member gives the clause `handler_sees_exactly_validated_members` (with the member's path). Disagreements between `jsonschema-go` (fields `lib`/`olib`,
computed by the harness on exactly decoded values) and the reference validator are reported with the
clause prefix `LIBDISC` and excluded from the verdict.
-/
namespace TypedTool
open Proto

/-! ### JSON text → JVal -/

def skipWs : List Char → List Char
  | c :: t => if c == ' ' || c == '\n' || c == '\t' || c == '\r' then skipWs t else c :: t
  | [] => []

def takeDigits : List Char → List Char × List Char
  | c :: t => if c.isDigit then let (d, r) := takeDigits t; (c :: d, r) else ([], c :: t)
  | [] => ([], [])

def digitsToNat (ds : List Char) : Nat := ds.foldl (fun a c => a * 10 + (c.toNat - 48)) 0

/-- number literal → exact decimal; `plain` = no fraction/exponent part -/
def parseNumber (cs : List Char) : Option (Dec × Bool × List Char) :=
  let (neg, cs) := match cs with | '-' :: t => (true, t) | _ => (false, cs)
  let (ip, cs) := takeDigits cs
  if ip.isEmpty then none else
  let (fp, cs, hasF) := match cs with
    | '.' :: t => let (f, r) := takeDigits t; (f, r, true)
    | _ => ([], cs, false)
  if hasF && fp.isEmpty then none else
  let (ex, cs, hasE) : Int × List Char × Bool := match cs with
    | c :: t =>
      if c == 'e' || c == 'E' then
        let (sg, t) : Int × List Char := match t with | '-' :: u => (-1, u) | '+' :: u => (1, u) | _ => (1, t)
        let (ed, r) := takeDigits t
        (sg * (digitsToNat ed : Int), r, true)
      else (0, c :: t, false)
    | [] => (0, [], false)
  if ex.natAbs > 400 then none else
  let mant : Int := (digitsToNat (ip ++ fp) : Int) * (if neg then -1 else 1)
  let e0 : Int := (fp.length : Int) - ex          -- value = mant * 10^(-e0)
  let d : Dec := if e0 ≥ 0 then ⟨mant, e0.toNat⟩ else ⟨mant * (10 : Int) ^ (-e0).toNat, 0⟩
  some (d, !hasF && !hasE, cs)

def hex4 (cs : List Char) : Option (Nat × List Char) :=
  match cs with
  | a :: b :: c :: d :: t =>
    match hexVal a, hexVal b, hexVal c, hexVal d with
    | some w, some x, some y, some z => some (((w * 16 + x) * 16 + y) * 16 + z, t)
    | _, _, _, _ => none
  | _ => none

partial def parseStrBody (cs : List Char) (acc : List Char) : Option (String × List Char) :=
  match cs with
  | '"' :: t => some (String.ofList acc.reverse, t)
  | '\\' :: c :: t =>
    match c with
    | '"' => parseStrBody t ('"' :: acc)
    | '\\' => parseStrBody t ('\\' :: acc)
    | '/' => parseStrBody t ('/' :: acc)
    | 'b' => parseStrBody t (Char.ofNat 8 :: acc)
    | 'f' => parseStrBody t (Char.ofNat 12 :: acc)
    | 'n' => parseStrBody t ('\n' :: acc)
    | 'r' => parseStrBody t ('\r' :: acc)
    | 't' => parseStrBody t ('\t' :: acc)
    | 'u' =>
      match hex4 t with
      | none => none
      | some (hi, t') =>
        if 0xD800 ≤ hi && hi < 0xDC00 then
          match t' with
          | '\\' :: 'u' :: t'' =>
            match hex4 t'' with
            | some (lo, t3) =>
              if 0xDC00 ≤ lo && lo < 0xE000 then
                parseStrBody t3 (Char.ofNat (0x10000 + (hi - 0xD800) * 0x400 + (lo - 0xDC00)) :: acc)
              else none
            | none => none
          | _ => none
        else parseStrBody t' (Char.ofNat hi :: acc)
    | _ => none
  | c :: t => parseStrBody t (c :: acc)
  | [] => none

/-- `bigOk = false`: a whole number beyond ±2^53 written with a fraction/exponent part is refused
(the model identifies numbers by value; such a literal is decoded as float64 even with fixes/F09). -/
partial def parseVal (cs : List Char) : Option (JVal × List Char) :=
  match skipWs cs with
  | 'n' :: 'u' :: 'l' :: 'l' :: t => some (.null, t)
  | 't' :: 'r' :: 'u' :: 'e' :: t => some (.bool true, t)
  | 'f' :: 'a' :: 'l' :: 's' :: 'e' :: t => some (.bool false, t)
  | '"' :: t => (parseStrBody t []).map fun (s, r) => (.str s, r)
  | '[' :: t =>
    match skipWs t with
    | ']' :: r => some (.arr [], r)
    | t => parseElems t []
  | '{' :: t =>
    match skipWs t with
    | '}' :: r => some (.obj [], r)
    | t => parseMembers t []
  | cs =>
    match parseNumber cs with
    | some (d, plain, r) =>
      if !plain && d.isInt && d.toInt.natAbs > two53.natAbs then none else some (.num d, r)
    | none => none
where
  parseElems (cs : List Char) (acc : List JVal) : Option (JVal × List Char) :=
    match parseVal cs with
    | none => none
    | some (v, r) =>
      match skipWs r with
      | ',' :: r' => parseElems r' (v :: acc)
      | ']' :: r' => some (.arr (v :: acc).reverse, r')
      | _ => none
  parseMembers (cs : List Char) (acc : Fields) : Option (JVal × List Char) :=
    match skipWs cs with
    | '"' :: t =>
      match parseStrBody t [] with
      | none => none
      | some (k, r) =>
        match skipWs r with
        | ':' :: r' =>
          match parseVal r' with
          | none => none
          | some (v, r'') =>
            match skipWs r'' with
            | ',' :: r3 => parseMembers r3 ((k, v) :: acc)
            | '}' :: r3 => some (.obj ((k, v) :: acc).reverse, r3)
            | _ => none
        | _ => none
    | _ => none

def parseJson (s : String) : Option JVal :=
  match parseVal s.toList with
  | some (v, r) => if (skipWs r).isEmpty then some v else none
  | none => none

/-- `x<hex of JSON text>` -/
def parseXJson (tok : String) : Option JVal :=
  if tok.startsWith "x" then (hexToString (tok.drop 1).toString) >>= parseJson else none

/-! ### JVal → canonical token -/

def stripZeros : Nat → Int → Nat × Int
  | 0, m => (0, m)
  | e + 1, m => if m % 10 = 0 then stripZeros e (m / 10) else (e + 1, m)

def showDec (d : Dec) : String :=
  let (e, m) := stripZeros d.e d.m
  if e = 0 then s!"{m}" else s!"{m}e-{e}"

partial def showJ : JVal → String
  | .null => "z"
  | .bool true => "t"
  | .bool false => "f"
  | .num d => "n" ++ showDec d
  | .str s => "s" ++ stringToHex s
  | .arr xs => "[" ++ ",".intercalate (xs.map showJ) ++ "]"
  | .obj fs =>
    let sorted := fs.mergeSort (fun a b => decide (a.1 ≤ b.1))
    "{" ++ ",".intercalate (sorted.map fun (k, v) => "s" ++ stringToHex k ++ ":" ++ showJ v) ++ "}"

/-! ### schemas and Go types from JSON -/

def tyOfString : String → Option Ty
  | "null" => some .null | "boolean" => some .boolean | "integer" => some .integer | "number" => some .number
  | "string" => some .string | "array" => some .array | "object" => some .object | _ => none

def natOfJ : JVal → Option Nat
  | .num d => if d.isInt && decide (0 ≤ d.toInt) then some d.toInt.toNat else none
  | _ => none

def strsOfJ : JVal → Option (List String)
  | .arr xs => xs.mapM fun | .str s => some s | _ => none
  | _ => none

def knownKeywords : List String :=
  ["type", "enum", "const", "minimum", "maximum", "minLength", "maxLength", "properties", "required",
   "additionalProperties", "items", "default"]

partial def schemaOfJ : JVal → Option Schema
  | .bool true => some Schema.any
  | .obj fs => do
    if fs.any (fun kv => !knownKeywords.contains kv.1) then none
    let ty ← match lookupJ "type" fs with
      | none => some []
      | some (.str s) => (tyOfString s).map ([·])
      | some (.arr xs) => if xs.length < 2 then none else xs.mapM fun | .str s => tyOfString s | _ => none
      | _ => none
    let enum ← match lookupJ "enum" fs with
      | none => some none
      | some (.arr xs) => some (some xs)
      | _ => none
    let minimum ← match lookupJ "minimum" fs with | none => some none | some (.num d) => some (some d) | _ => none
    let maximum ← match lookupJ "maximum" fs with | none => some none | some (.num d) => some (some d) | _ => none
    let minLength ← match lookupJ "minLength" fs with | none => some none | some j => (natOfJ j).map some
    let maxLength ← match lookupJ "maxLength" fs with | none => some none | some j => (natOfJ j).map some
    let required ← match lookupJ "required" fs with | none => some [] | some j => strsOfJ j
    let props ← match lookupJ "properties" fs with
      | none => some []
      | some (.obj ps) =>
        if (ps.map (·.1)).eraseDups.length != ps.length then none
        else ps.mapM fun (k, v) => (schemaOfJ v).map fun s => (k, s)
      | _ => none
    let (apFalse, ap) ← match lookupJ "additionalProperties" fs with
      | none => some (false, none)
      | some (.bool false) => some (true, none)
      | some j => (schemaOfJ j).map fun s => (false, some s)
    let items ← match lookupJ "items" fs with | none => some none | some j => (schemaOfJ j).map some
    some (.mk { ty, enum, const := lookupJ "const" fs, minimum, maximum, minLength, maxLength, required,
                apFalse, dflt := lookupJ "default" fs } props ap items)
  | _ => none

partial def goTyOfJ : JVal → Option GoTy
  | .str "int64" => some .int64
  | .str "uint64" => some .uint64
  | .str "float64" => some .float64
  | .str "string" => some .string
  | .str "bool" => some .bool
  | .str "any" => some .any
  | .obj [("ptr", t)] => (goTyOfJ t).map .ptr
  | .obj [("slice", t)] => (goTyOfJ t).map .slice
  | .obj [("map", t)] => (goTyOfJ t).map .map
  | .obj [("struct", .arr fs)] =>
    (fs.mapM fun (f : JVal) => match f with
      | JVal.obj kv => do
        let n ← match lookupJ "n" kv with | some (.str s) => some s | _ => none
        let oe ← match lookupJ "oe" kv with | some (.bool b) => some b | _ => none
        let t ← (lookupJ "t" kv) >>= goTyOfJ
        some (n, oe, t)
      | _ => none).map .struct
  | _ => none

/-! ### engine -/

/-- A registered tool: its Go types, its OWN schemas (what the monitor judges by) and the schemas the
registration model says it enforces (what the model observation is computed from). -/
structure ToolD where
  ity : GoTy
  oty : GoTy
  isch : Schema
  osch : Option Schema
  eisch : Schema
  eosch : Option Schema

def rootObject (s : Schema) : Bool := match s.leaf.ty with | [.object] => true | _ => false

def ToolD.elemZero (d : ToolD) : Option JVal := match d.oty with | .ptr t => some (zeroJ t) | _ => none

/-- the tool as declared -/
def ToolD.tool (d : ToolD) : Tool Schema :=
  { inSchema := d.isch
    outSchema := d.osch
    outRootObject := match d.osch with | some s => rootObject s | none => false
    elemZero := d.elemZero
    decodeIn := project d.ity }

/-- the tool as registered (`Entry.tool`) -/
def ToolD.enforced (d : ToolD) : Tool Schema :=
  Entry.tool { pubIn := d.isch, enfIn := d.eisch, pubOut := d.osch, enfOut := d.eosch } rootObject d.elemZero (project d.ity)

structure DState where
  world : World String Schema := {}
  /-- Go types and OWN schemas (`Decl.ownIn`/`Decl.ownOut`) of the current server's tools -/
  tys : List (String × GoTy × GoTy × Schema × Option Schema) := []
  last : Option String := none

def objectSchema : Schema := .mk { ty := [.object] } [] none none

/-! ### schema equality (what tools/list advertises against the tool's own schema) -/

def optEqv (a b : Option JVal) : Bool :=
  match a, b with
  | none, none => true
  | some x, some y => x.eqv y
  | _, _ => false

def optDecEq (a b : Option Dec) : Bool :=
  match a, b with
  | none, none => true
  | some x, some y => x.eq y
  | _, _ => false

def leafSame (a b : Leaf) : Bool :=
  a.ty == b.ty &&
  (match a.enum, b.enum with
   | none, none => true
   | some x, some y => x.length == y.length && (x.zip y).all (fun p => p.1.eqv p.2)
   | _, _ => false) &&
  optEqv a.const b.const && optDecEq a.minimum b.minimum && optDecEq a.maximum b.maximum &&
  a.minLength == b.minLength && a.maxLength == b.maxLength && a.required == b.required &&
  a.apFalse == b.apFalse && optEqv a.dflt b.dflt

def isAnySchema : Schema → Bool
  | .mk c ps ap items =>
    c.ty.isEmpty && c.enum.isNone && c.const.isNone && c.minimum.isNone && c.maximum.isNone && c.minLength.isNone &&
    c.maxLength.isNone && c.required.isEmpty && !c.apFalse && c.dflt.isNone && ps.isEmpty && ap.isNone && items.isNone

def lookupP (k : String) : Props → Option Schema
  | [] => none
  | (k', s) :: t => if k' = k then some s else lookupP k t

/-- same schema: keywords by value, `properties` as a map, an absent subschema = the empty schema -/
partial def sameSchema : Schema → Schema → Bool
  | .mk c1 p1 a1 i1, .mk c2 p2 a2 i2 =>
    leafSame c1 c2 && p1.length == p2.length &&
    p1.all (fun kv => match lookupP kv.1 p2 with | some s2 => sameSchema kv.2 s2 | none => false) &&
    sameOpt a1 a2 && sameOpt i1 i2
where
  sameOpt (a b : Option Schema) : Bool :=
    let norm (o : Option Schema) : Option Schema := match o with
      | some s => if isAnySchema s then none else some s
      | none => none
    match norm a, norm b with
    | none, none => true
    | some x, some y => sameSchema x y
    | _, _ => false

def kv (tok : String) : Option (String × String) :=
  match tok.splitOn "=" with
  | k :: rest => if rest.isEmpty then none else some (k, "=".intercalate rest)
  | _ => none

def getKV (toks : List String) (k : String) : Option String :=
  (toks.filterMap kv).lookup k

def showBlocks (bs : List Block) : String :=
  if bs.isEmpty then "-" else
  ";".intercalate (bs.map fun
    | .text s => "t" ++ stringToHex s
    | .jsonOf _ => "=sc"
    | .errText => "err")

def showKind : Kind → String
  | .ok => "ok" | .toolError => "toolerr" | .rpcError => "rpcerr"

def showOpt (o : Option JVal) : String := match o with | some v => showJ v | none => "-"

def render (o : Outcome) (lib olib : String) : String :=
  s!"inv={if o.seen.isSome then 1 else 0} seen={showOpt o.seen} res={showKind o.kind} sc={showOpt o.structured} content={showBlocks o.content} lib={lib} olib={olib}"

def vi (b : Bool) : String := if b then "v" else "i"

partial def hasBig : JVal → Bool
  | .num d => d.isInt && d.toInt.natAbs > two53.natAbs
  | .arr xs => xs.any hasBig
  | .obj fs => fs.any (fun kv => hasBig kv.2)
  | _ => false

/-- holds an integer of (MaxInt64, MaxUint64]: a value only an unsigned member takes -/
partial def hasU64 : JVal → Bool
  | .num d => d.isInt && decide (two63 ≤ d.toInt) && decide (d.toInt < two64)
  | .arr xs => xs.any hasU64
  | .obj fs => fs.any (fun kv => hasU64 kv.2)
  | _ => false

def idEnv : Env Schema := refEnv id

structure CallIn where
  args : Args
  h : JVal → HRet
  hout : Option JVal      -- JSON of the handler's output (exact), when it is a JSON value
  argsNull : Bool

def parseCall (d : ToolD) (toks : List String) : Option CallIn := do
  let a ← getKV toks "args"
  let o ← getKV toks "out"
  let c ← getKV toks "content"
  let e ← getKV toks "herr"
  let args ← if a == "absent" then some Args.absent else (parseXJson a).map Args.val
  let (out, hout) ← if o == "nilptr" then some (OutVal.nilPtr, none)
    else if o == "nilany" then some (OutVal.nilAny, none)
    else do
      let raw ← parseXJson o
      -- the JSON of the value the handler returns: reported by the harness (`hout=`, encoding/json's
      -- rendering of the Out value it builds; with anyx=1 the `any` positions hold int64/uint64), else
      -- (older recorded streams) the round trip of `out=` through the Out type
      let j ← match getKV toks "hout" with
        | some h => parseXJson h
        | none => project d.oty raw
      -- a JSON null decoded into `any` is the nil interface
      match d.oty, j with
      | .any, .null => some (OutVal.nilAny, none)
      | .ptr _, .null => some (OutVal.nilPtr, none)   -- and into a pointer, the typed nil
      | _, _ => some (OutVal.json j, some j)
  let content ← match c with
    | "n" => some none
    | "N" => some none
    | "0" => some (some [])
    | "1" => some (some [Block.text "c0"])
    | "2" => some (some [Block.text "c0", Block.text "c1"])
    | _ => none
  let herr ← match e with
    | "0" => some none | "1" => some (some HErr.plain) | "2" => some (some HErr.rpc) | _ => none
  some { args, h := fun _ => { err := herr, content, out }, hout,
         argsNull := match args with | .val .null => true | _ => false }

/-- the fields of an implementation observation -/
structure Obs where
  inv : String
  seen : String
  res : String
  sc : String
  content : String
  lib : String
  olib : String

def parseObs (impl : String) : Option Obs := do
  let toks := words impl
  some { inv := ← getKV toks "inv", seen := ← getKV toks "seen", res := ← getKV toks "res", sc := ← getKV toks "sc",
         content := ← getKV toks "content", lib := ← getKV toks "lib", olib := ← getKV toks "olib" }

def obsOf (o : Outcome) : Obs :=
  { inv := if o.seen.isSome then "1" else "0", seen := showOpt o.seen, res := showKind o.kind,
    sc := showOpt o.structured, content := showBlocks o.content, lib := "", olib := "" }

def sameObs (a b : Obs) : Bool :=
  a.inv == b.inv && a.seen == b.seen && a.res == b.res && a.sc == b.sc && a.content == b.content

/-! ### canonical token → JVal (the handler's observed input, for the member-wise clause) -/

def takeHex : List Char → List Char × List Char
  | c :: t => if (hexVal c).isSome then let (d, r) := takeHex t; (c :: d, r) else ([], c :: t)
  | [] => ([], [])

partial def parseCanon : List Char → Option (JVal × List Char)
  | 'z' :: t => some (.null, t)
  | 't' :: t => some (.bool true, t)
  | 'f' :: t => some (.bool false, t)
  | 'n' :: t =>
    let (neg, t) := match t with | '-' :: u => (true, u) | _ => (false, t)
    let (ds, t) := takeDigits t
    if ds.isEmpty then none else
    let m : Int := (digitsToNat ds : Int) * (if neg then -1 else 1)
    match t with
    | 'e' :: '-' :: u =>
      let (es, r) := takeDigits u
      if es.isEmpty then none else some (.num ⟨m, digitsToNat es⟩, r)
    | _ => some (.num ⟨m, 0⟩, t)
  | 's' :: t =>
    let (hs, r) := takeHex t
    (hexToString (String.ofList hs)).map fun s => (.str s, r)
  | '[' :: ']' :: t => some (.arr [], t)
  | '[' :: t => elems t []
  | '{' :: '}' :: t => some (.obj [], t)
  | '{' :: t => members t []
  | _ => none
where
  elems (cs : List Char) (acc : List JVal) : Option (JVal × List Char) :=
    match parseCanon cs with
    | none => none
    | some (v, r) =>
      match r with
      | ',' :: r' => elems r' (v :: acc)
      | ']' :: r' => some (.arr (v :: acc).reverse, r')
      | _ => none
  members (cs : List Char) (acc : Fields) : Option (JVal × List Char) :=
    match cs with
    | 's' :: t =>
      let (hs, r) := takeHex t
      match hexToString (String.ofList hs), r with
      | some k, ':' :: r' =>
        match parseCanon r' with
        | none => none
        | some (v, r'') =>
          match r'' with
          | ',' :: r3 => members r3 ((k, v) :: acc)
          | '}' :: r3 => some (.obj ((k, v) :: acc).reverse, r3)
          | _ => none
      | _, _ => none
    | _ => none

def parseCanonTok (tok : String) : Option JVal :=
  match parseCanon tok.toList with
  | some (v, []) => some v
  | _ => none

/-- A struct member (path) of the handler's observed input `seen` that does NOT hold the decoding of the
member of exactly its name in the validated object `d` (`handler_sees_exactly_validated_members`), but
does hold the decoding of a differently spelled member of `d`. -/
partial def blameMember (t : GoTy) (d seen : JVal) : Option String :=
  match t, d, seen with
  | .ptr t', d, s => blameMember t' d s
  | .struct fs, .obj kvs, .obj out =>
    fs.findSome? fun (n, oe, ty) =>
      match fieldDecode ty kvs n with
      | none => none
      | some y =>
        let got := lookupJ n out
        if showOpt (fieldShown oe ty y) == showOpt got then none else
        let inner := match lookupJ n kvs, got with
          | some dv, some gv => blameMember ty dv gv
          | _, _ => none
        match inner with
        | some p => some (n ++ "." ++ p)
        | none =>
          if kvs.any (fun kv => kv.1 != n &&
                (match project ty kv.2 with
                 | some z => showOpt (fieldShown oe ty z) == showOpt got
                 | none => false))
          then some n else none
  | _, _, _ => none

/-- an integer a Go integer type holds (int64 or uint64) and float64 does not necessarily -/
def bigGoInt (d : Dec) : Bool :=
  d.isInt && decide (-two63 ≤ d.toInt) && decide (d.toInt < two64) && decide (d.toInt.natAbs > two53.natAbs)

/-- the first place where `got` holds a different number than `want` holds there, `want`'s being an
integer beyond ±2^53 inside [-2^63, 2^64): (path, wanted, got) -/
partial def numDiff (want got : JVal) : Option (String × Dec × Dec) :=
  match want, got with
  | .num a, .num b => if a.eq b || !bigGoInt a then none else some ("", a, b)
  | .arr xs, .arr ys =>
    if xs.length != ys.length then none else
    ((List.range xs.length).zip (xs.zip ys)).findSome? fun (i, x, y) =>
      (numDiff x y).map fun (p, a, b) => (s!"[{i}]" ++ p, a, b)
  | .obj xs, .obj ys =>
    xs.findSome? fun (k, v) =>
      match lookupJ k ys with
      | some w => (numDiff v w).map fun (p, a, b) => ((if p.startsWith "[" || p.isEmpty then k ++ p else k ++ "." ++ p), a, b)
      | none => none
  | _, _ => none

def showPath (p : String) : String := if p.isEmpty then "the value itself" else "member " ++ p

def viaF64 (a b : Dec) : String :=
  if (f64Dec a).eq b then " — the float64 nearest to it" else ""

/-- The C16 monitor: the implementation's observation against the wrapper run with exact numbers. -/
def monitor (d : ToolD) (ci : CallIn) (o : Obs) : Option String :=
  let t := d.tool
  let ideal := call idEnv t ci.h ci.args
  let io := obsOf ideal
  let unrep := obsOf (call (refEnv lossy53) t ci.h ci.args)
  let big := (match ci.args with | .val v => hasBig v | .absent => false) ||
             (match ci.hout with | some j => hasBig j | none => false)
  if o.res == "panic" then
    if ci.argsNull && hasDefaults d.isch then
      some "C16/F12: tools/call with arguments null on a typed tool whose input schema declares a default panics (assignment to entry in nil map) instead of applying the defaults"
    else some "C16: the typed tool wrapper panicked"
  else if t.outSchema.isSome && o.res == "ok" && o.sc == "-" then
    some "C16/F16: successful result without structured content although an output schema is declared (Out = any, handler returned a nil output)"
  else if sameObs o io then none
  else if ci.argsNull && o.seen == "z" && sameObs { o with seen := io.seen } io then
    some "C16/F12: tools/call with arguments null: the handler observes null (a nil map) instead of the empty object with the schema's defaults"
  else if big && o.inv == "1" && io.inv == "1" && o.seen != io.seen &&
      (match defaulted idEnv t.inSchema ci.args, parseCanonTok o.seen with
       | some dv, some sv => (blameMember d.ity dv sv).isNone | _, _ => true) &&
      (match ideal.seen, parseCanonTok o.seen with | some w, some g => (numDiff w g).isSome | _, _ => false) then
    match ideal.seen, parseCanonTok o.seen with
    | some w, some g =>
      match numDiff w g with
      | some (p, a, b) => some s!"C16: handler_receives_exact_integers: the handler received an integer that differs from the one sent ({showPath p} of its input: sent {showDec a}, received {showDec b}{viaF64 a b}); every integer a Go integer type holds, int64 or uint64 — [-2^63, 2^64) — must reach the typed handler unchanged"
      | none => none
    | _, _ => none
  else if big && o.inv == io.inv && o.seen == io.seen && o.res == "ok" && io.res == "ok" && o.sc != io.sc &&
      (match ideal.structured, parseCanonTok o.sc with | some w, some g => (numDiff w g).isSome | _, _ => false) then
    match ideal.structured, parseCanonTok o.sc with
    | some w, some g =>
      match numDiff w g with
      | some (p, a, b) => some s!"C16: result_carries_exact_integers: the structured content carries an integer that differs from the one in the handler's output ({showPath p}: output {showDec a}, returned {showDec b}{viaF64 a b}); every integer a Go integer type holds, int64 or uint64 — [-2^63, 2^64) — must come back unchanged"
      | none => none
    | _, _ => none
  else if io.inv == "1" && o.inv == "0" && (match ci.args with | .val v => hasU64 v | .absent => false) &&
      sameObs o (obsOf (call (refEnv lossy63) t ci.h ci.args)) then
    some "C16: invoked_iff_valid_after_defaults: arguments valid after defaults (and decodable) but the handler did not run; they hold an integer in (MaxInt64, MaxUint64] — a value of a uint64 member — and the call is answered as by a decode that keeps only int64 exact (the integer re-encoded through float64 fits no Go integer type); the server's decode must keep [-2^63, 2^64) exact"
  else if big && sameObs o unrep then
    some "C16/F9: integer with |n| > 2^53 rounded to float64 by applySchema's JSON round trip (handler input, validity verdict or structured content differ from the exact value)"
  else if o.inv != io.inv then
    if io.inv == "1" then some "C16: invoked_iff_valid_after_defaults: arguments valid after defaults (and decodable) but the handler did not run"
    else some "C16: invoked_iff_valid_after_defaults: handler ran on arguments that are invalid after defaults"
  else if o.seen != io.seen then
    match (defaulted idEnv t.inSchema ci.args), parseCanonTok o.seen with
    | some dv, some sv =>
      match blameMember d.ity dv sv with
      | some p => some s!"C16: handler_sees_exactly_validated_members: the handler observed for a member of its input a value that differs from the validated (defaulted) argument of that exact name: it holds the value of a differently spelled member, which the schema treated as an additional property and the typed decode must drop (member {p})"
      | none => some "C16: handler_sees_defaulted_args: the handler observed something other than the defaulted arguments"
    | _, _ => some "C16: handler_sees_defaulted_args: the handler observed something other than the defaulted arguments"
  else if io.inv == "0" && (o.res != "toolerr" || o.content == "-" || o.sc != "-") then
    some "C16: invalid_gives_tool_error_without_invocation: invalid arguments did not produce an isError result with content"
  else if (match (ci.h .null).out with | .nilPtr => true | _ => false) && (o.res != io.res || o.sc != io.sc) then
    some "C16: nil_pointer_output_uses_zero_value: a nil pointer output was not treated as the zero value of its element type"
  else if o.res != io.res then
    if io.res == "rpcerr" then some "C16: invalid_output_is_error_not_result: output violating the output schema was returned as a result"
    else if io.res == "ok" then some "C16: structured_valid: schema-valid output was not returned as a successful result"
    else some "C16: result kind differs from the wrapper's contract"
  else if o.sc != io.sc then
    some "C16: structured_equals_output_json_with_defaults: structured content is not the JSON of the output with the schema's defaults"
  else if o.content != io.content then
    some "C16: text_fallback_iff_no_content: content is not the handler's content plus the serialized structured content where required"
  else none

/-- the `tool` op: the declaration, the inference results for its two Go types, its Go types -/
structure ToolOp where
  name : String
  ity : GoTy
  oty : GoTy
  decl : Decl String Schema
  env : RegEnv String Schema
  /-- the tokens of the own schemas (for rendering the expected observation) -/
  ownI : String
  ownO : String

def parseGiven (rest : List String) (src tok ptr : String) : Option (Option (Given Schema)) :=
  if getKV rest src == some "e" then do
    let s ← (getKV rest tok) >>= parseXJson >>= schemaOfJ
    let p := if getKV rest "form" == some "schema" then (getKV rest ptr) >>= String.toNat? else none
    some (some { ptr := p, content := s })
  else some none

def parseToolOp (rest : List String) : Option ToolOp := do
  let ity ← (getKV rest "ity") >>= parseXJson >>= goTyOfJ
  let oty ← (getKV rest "oty") >>= parseXJson >>= goTyOfJ
  let ikey ← getKV rest "ikey"
  let okey ← getKV rest "okey"
  let derived (tok : String) : Option (Option Schema) :=
    match getKV rest tok with
    | some "-" => some none
    | some t => (parseXJson t >>= schemaOfJ).map some
    | none => none
  let ider ← derived "ider"
  let oder ← derived "oder"
  let gi ← parseGiven rest "isrc" "isch" "iptr"
  let go ← parseGiven rest "osrc" "osch" "optr"
  let inAny := match ity with | .any => true | _ => false
  let outAny := match oty with | .any => true | _ => false
  let env : RegEnv String Schema :=
    { derive := fun k => if k == ikey then ider.getD objectSchema else oder.getD objectSchema
      resolves := defaultsValid
      objectSchema := objectSchema }
  let objTok := "x" ++ stringToHex "{\"type\":\"object\"}"
  let ownI := if gi.isSome then (getKV rest "isch").getD "?" else if inAny then objTok else (getKV rest "ider").getD "?"
  let ownO := if go.isSome then (getKV rest "osch").getD "?" else if outAny then "-" else (getKV rest "oder").getD "?"
  some { name := (getKV rest "name").getD "t", ity, oty, env, ownI, ownO
         decl := { inKey := ikey, inAny, inGiven := gi, outKey := okey, outAny, outGiven := go } }

def DState.toolD (d : DState) (name : String) : Option ToolD :=
  match d.world.tools.find? (·.1 == name), d.tys.find? (·.1 == name) with
  | some (_, _, e), some (_, ity, oty, isch, osch) =>
    some { ity, oty, isch, osch, eisch := e.enfIn, eosch := e.enfOut }
  | _, _ => none

def engine : Engine DState where
  init := {}
  step d toks impl :=
    match toks with
    | ["reset"] => ({}, { model := "ok" })
    | ["f64", n] =>
      match n.toInt? with
      | some i => (d, { model := showDec (f64Dec (.ofInt i)) })
      | none => (d, { model := "bad-op" })
    | "server" :: rest =>
      match (getKV rest "cache") >>= String.toNat? with
      | some n => ({ world := d.world.step (refReg) (.server (if n == 0 then none else some n)), tys := [], last := none },
                   { model := "ok" })
      | none => (d, { model := "bad-op" })
    | "tool" :: rest =>
      match parseToolOp rest with
      | none => (d, { model := "bad-op" })
      | some t =>
        match (register t.env d.world.cacheOf t.decl).1 with
        | none =>
          -- AddTool must reject exactly the declared schemas with a default that is invalid for its own
          -- subschema; the cache keeps what the input side stored
          ({ d with world := d.world.step t.env (.add t.name t.decl) }, { model := "addtool-error" })
        | some _ =>
          let w := d.world.step t.env (.add t.name t.decl)
          let d' : DState :=
            if impl.startsWith "ok" then
              { world := w, tys := (t.name, t.ity, t.oty, t.decl.ownIn t.env, t.decl.ownOut t.env) :: d.tys.filter (·.1 != t.name), last := some t.name }
            else { d with world := { w with tools := w.tools.filter (·.1 != t.name) }, tys := d.tys.filter (·.1 != t.name) }
          let expected := s!"ok pi={t.ownI} po={t.ownO}"
          if !impl.startsWith "ok" then (d', { model := expected }) else
          -- what tools/list advertises must be the tool's own schemas
          let itoks := words impl
          let pubI := (getKV itoks "pi") >>= parseXJson >>= schemaOfJ
          let pubO : Option (Option Schema) := match getKV itoks "po" with
            | some "-" => some none
            | some tk => (parseXJson tk >>= schemaOfJ).map some
            | none => none
          let okI := match pubI with | some p => sameSchema p (t.decl.ownIn t.env) | none => false
          let okO := match pubO, t.decl.ownOut t.env with
            | some none, none => true
            | some (some p), some o => sameSchema p o
            | _, _ => false
          if okI && okO then (d', { model := impl })
          else (d', { model := expected,
                      violated := some (if okI then "C16: published_schema_is_own: tools/list advertises an output schema that is not the tool's own (declared, else inferred from its Go type)"
                                        else "C16: published_schema_is_own: tools/list advertises an input schema that is not the tool's own (declared, else inferred from its Go type)") })
    | "call" :: rest =>
      match ((getKV rest "tool") <|> d.last) >>= d.toolD with
      | none => (d, { model := "no-tool" })
      | some td =>
        match parseCall td rest with
        | none => (d, { model := "bad-op" })
        | some ci =>
          let t := td.tool
          let rep := call (refEnv lossy64) td.enforced ci.h ci.args
          -- the reference validator's own verdicts, on exact values
          let lib := match argsMap ci.args with
            | some m => vi (valid td.isch (fill td.isch m))
            | none => "-"
          let olib := match rep.seen, (ci.h .null).err, ci.hout <|> (match (ci.h .null).out with | .nilPtr => t.elemZero | .nilAny => some .null | _ => none), td.osch with
            | some _, none, some j, some s => vi (valid s (outForm idealEnv' t s j).1)
            | _, _, _, _ => "-"
          let model := render rep lib olib
          match parseObs impl with
          | none => (d, { model := model })
          | some o =>
            let disc (a b : String) : Bool := (a == "v" || a == "i") && (b == "v" || b == "i") && a != b
            if disc o.lib lib then
              (d, { model := impl, violated := some s!"LIBDISC: input: jsonschema-go says {o.lib}, the reference validator says {lib}" })
            else if disc o.olib olib then
              (d, { model := impl, violated := some s!"LIBDISC: output: jsonschema-go says {o.olib}, the reference validator says {olib}" })
            else
              (d, { model := model, violated := monitor td ci o })
    | _ => (d, { model := "bad-op" })
where
  idealEnv' : Env Schema := refEnv id
  /-- `server` steps do not consult the environment -/
  refReg : RegEnv String Schema := { derive := fun _ => objectSchema, resolves := defaultsValid, objectSchema := objectSchema }

end TypedTool

def main : IO Unit := Proto.run TypedTool.engine
