import McpModel.TypedTool.Bridge
/-!
# E12 TypedTool (C16) — CLAUSE SOUNDNESS of the C16 monitor

For each clause the monitor can print, the clause of the property is stated as a predicate `P_<clause>` on
what was OBSERVED of one call (`Obs`: did the handler run, what did it see, which kind of result, which
structured content, which content blocks) given the INPUTS of the call (the tool's own schemas and Go
types `ToolD`, the arguments and the scripted handler behaviour `CallIn`). The predicates are written from
the property text with the reference validator (`valid`, `fill`) and the typed decode (`project`); they do
not mention the wrapper model (`call`, `Env`, `applyIn`, `applyOut`). `sound_<clause>`: if the monitor
prints the clause, the predicate is false of the observation.

The vocabulary: `defaultedArgs` (the argument object — absent/null = `{}` — with the input schema's
defaults), `HandlerInput` ("valid under the tool's input schema after defaults are applied", and what the
typed handler then receives), `handlerJson` (the JSON of the handler's output: a nil pointer stands for the
zero value of its element type), `withDefaults` ("with schema defaults"), `outputOk` ("valid under the
output schema"), `textFallback` ("plus a text rendering of it when the handler supplied no content").
-/
namespace TypedTool

/-! ## the property's vocabulary -/

/-- the argument object (absent or null arguments: the empty object; anything but an object: none) with the
input schema's defaults applied -/
def defaultedArgs (d : ToolD) (ci : CallIn) : Option JVal := (argsMap ci.args).map (fill d.isch)

/-- the arguments are valid under the tool's input schema after defaults are applied (and decode into the
handler's input type); `y` is the typed input, re-encoded -/
def HandlerInput (d : ToolD) (ci : CallIn) (y : JVal) : Prop :=
  ∃ dv, defaultedArgs d ci = some dv ∧ valid d.isch dv = true ∧ project d.ity dv = some y

def ValidArgs (d : ToolD) (ci : CallIn) : Prop := ∃ y, HandlerInput d ci y

/-- the JSON of the zero value of the output type's element type (for pointer output types) -/
def zeroValue (d : ToolD) : JVal := match d.oty with | .ptr t => zeroJ t | _ => .null

/-- the JSON of the handler's output: a typed nil pointer stands for the zero value of its element type; a
nil `any` is JSON null when an output schema is declared, and no output at all otherwise -/
def handlerJson (d : ToolD) : OutVal → Option JVal
  | .json j => some j
  | .nilPtr => some (zeroValue d)
  | .nilAny => if d.osch.isSome then some .null else none

/-- "with schema defaults": defaults are filled into an object; a null output under a schema whose root
type is "object" counts as the empty object -/
def withDefaults (s : Schema) : JVal → JVal
  | .obj fs => fill s (.obj fs)
  | .null => if rootObject s then fill s (.obj []) else .null
  | u => u

def withDefaultsOpt (os : Option Schema) (j : JVal) : JVal :=
  match os with
  | some s => withDefaults s j
  | none => j

/-- "valid under the output schema" (nothing to check when none is declared) -/
def outputOk (d : ToolD) (j : JVal) : Bool :=
  match d.osch with
  | some s => valid s (withDefaults s j)
  | none => true

/-- the structured content the property demands for the handler's output -/
def expectSc (d : ToolD) (out : OutVal) : Option JVal := (handlerJson d out).map (withDefaultsOpt d.osch)

/-- "plus a text rendering of it when the handler supplied no content of its own" (and, the wrapper's
documented rule, appended to the handler's content when the structured content is not an object) -/
def textFallback (c : Option (List Block)) (sc : JVal) : List Block :=
  match c with
  | none => [.jsonOf sc]
  | some c => if sc.isObj then c else c ++ [.jsonOf sc]

def expectContent (c : Option (List Block)) : Option JVal → List BTok
  | none => (c.getD []).map btokOf
  | some sc => (textFallback c sc).map btokOf

/-- the same optional JSON value -/
def optJEq : Option JVal → Option JVal → Prop
  | none, none => True
  | some x, some y => JEq x y
  | _, _ => False

theorem optCeq_of_optJEq {a b : Option JVal} (h : optJEq a b) : optCeq a b = true := by
  cases a <;> cases b <;> simp [optJEq, optCeq] at h ⊢
  exact ceq_of_JEq h

/-! ## the ideal wrapper, read with this vocabulary (proof device) -/

/-- what the clauses below together demand of the call when the handler runs on `y` and returns `r` -/
def demanded (d : ToolD) (y : JVal) (r : HRet) : Outcome :=
  match r.err with
  | some .rpc => { seen := some y, kind := .rpcError, structured := none, content := [] }
  | some .plain => { seen := some y, kind := .toolError, structured := none, content := [.errText] }
  | none =>
    match handlerJson d r.out with
    | none => { seen := some y, kind := .ok, structured := none, content := r.content.getD [] }
    | some j =>
      if outputOk d j then
        { seen := some y, kind := .ok, structured := some (withDefaultsOpt d.osch j),
          content := textFallback r.content (withDefaultsOpt d.osch j) }
      else { seen := some y, kind := .rpcError, structured := none, content := [] }

theorem defaulted_idEnv (d : ToolD) (ci : CallIn) : defaulted idEnv d.isch ci.args = defaultedArgs d ci := by
  simp only [defaulted, decoded, defaultedArgs, idEnv, refEnv, Option.map_map]
  cases argsMap ci.args <;> rfl

theorem outJson_tool (d : ToolD) (out : OutVal) : outJson d.tool out = handlerJson d out := by
  cases out with
  | json j => rfl
  | nilAny => rfl
  | nilPtr =>
    simp only [outJson, handlerJson, zeroValue, ToolD.tool, ToolD.elemZero]
    cases d.oty <;> rfl

theorem applyOut_tool (d : ToolD) (j : JVal) :
    applyOut idEnv d.tool j = if outputOk d j then some (withDefaultsOpt d.osch j) else none := by
  unfold applyOut outputOk withDefaultsOpt
  cases hs : d.osch with
  | none => simp [ToolD.tool, hs]
  | some s =>
    have ht : d.tool.outSchema = some s := by simp [ToolD.tool, hs]
    have hr : d.tool.outRootObject = rootObject s := by simp [ToolD.tool, hs]
    simp only [ht]
    cases j with
    | obj fs =>
      simp only [outForm, idEnv, refEnv, id, withDefaults]
      by_cases hv : valid s (fill s (.obj fs)) = true <;> simp [hv]
    | null =>
      cases hro : rootObject s with
      | false =>
        simp only [outForm, idEnv, refEnv, id, hr, hro, withDefaults, Bool.false_eq_true, if_false]
      | true =>
        simp only [outForm, idEnv, refEnv, id, hr, hro, withDefaults, if_true]
    | bool b =>
      simp only [outForm, idEnv, refEnv, id, withDefaults]
      by_cases hv : valid s (.bool b) = true <;> simp [hv]
    | num n =>
      simp only [outForm, idEnv, refEnv, id, withDefaults]
      by_cases hv : valid s (.num n) = true <;> simp [hv]
    | str n =>
      simp only [outForm, idEnv, refEnv, id, withDefaults]
      by_cases hv : valid s (.str n) = true <;> simp [hv]
    | arr n =>
      simp only [outForm, idEnv, refEnv, id, withDefaults]
      by_cases hv : valid s (.arr n) = true <;> simp [hv]

/-- the ideal wrapper on invalid arguments -/
theorem ideal_invalid (d : ToolD) (ci : CallIn) (h : ¬ ValidArgs d ci) : ideal d ci = errorOutcome none := by
  unfold ideal call applyIn
  rw [show d.tool.inSchema = d.isch from rfl, defaulted_idEnv]
  cases hd : defaultedArgs d ci with
  | none => rfl
  | some dv =>
    simp only []
    by_cases hv : valid d.isch dv = true
    · have hv' : idEnv.valid d.isch dv = true := hv
      simp only [hv', if_true]
      cases hx : d.tool.decodeIn dv with
      | none => rfl
      | some y => exact absurd ⟨y, dv, hd, hv, hx⟩ h
    · have hv' : ¬ idEnv.valid d.isch dv = true := hv
      simp only [hv']
      rfl

/-- the ideal wrapper on valid arguments -/
theorem ideal_valid (d : ToolD) (ci : CallIn) (y : JVal) (h : HandlerInput d ci y) :
    ideal d ci = demanded d y (ci.h y) := by
  obtain ⟨dv, hd, hv, hx⟩ := h
  have hv' : idEnv.valid d.isch dv = true := hv
  have hx' : d.tool.decodeIn dv = some y := hx
  unfold ideal call applyIn
  rw [show d.tool.inSchema = d.isch from rfl, defaulted_idEnv, hd]
  simp only [hv', if_true, hx']
  unfold demanded
  cases he : (ci.h y).err with
  | some e => cases e <;> rfl
  | none =>
    simp only [outJson_tool]
    cases hj : handlerJson d (ci.h y).out with
    | none => rfl
    | some j =>
      simp only [applyOut_tool]
      cases outputOk d j <;> rfl

theorem HandlerInput_unique {d : ToolD} {ci : CallIn} {y y' : JVal} (h : HandlerInput d ci y) (h' : HandlerInput d ci y') :
    y = y' := by
  obtain ⟨dv, hd, _, hx⟩ := h
  obtain ⟨dv', hd', _, hx'⟩ := h'
  rw [hd] at hd'; cases hd'
  rw [hx] at hx'; cases hx'; rfl

/-- the ideal wrapper is one of the two: the error outcome on invalid arguments, the demanded outcome on
valid ones -/
theorem ideal_cases (d : ToolD) (ci : CallIn) :
    (∃ y, HandlerInput d ci y ∧ ideal d ci = demanded d y (ci.h y)) ∨
    (¬ ValidArgs d ci ∧ ideal d ci = errorOutcome none) := by
  by_cases hv : ValidArgs d ci
  · obtain ⟨y, hy⟩ := hv
    exact .inl ⟨y, hy, ideal_valid d ci y hy⟩
  · exact .inr ⟨hv, ideal_invalid d ci hv⟩

theorem demanded_seen (d : ToolD) (y : JVal) (r : HRet) : (demanded d y r).seen = some y := by
  unfold demanded
  cases r.err with
  | some e => cases e <;> rfl
  | none =>
    simp only []
    cases handlerJson d r.out with
    | none => rfl
    | some j => simp only []; split <;> rfl

/-- the ideal observation -/
abbrev io (d : ToolD) (ci : CallIn) : Obs := obsOf (ideal d ci)

theorem io_inv_true_iff (d : ToolD) (ci : CallIn) : (io d ci).inv = some true ↔ ValidArgs d ci := by
  rcases ideal_cases d ci with ⟨y, hy, he⟩ | ⟨hn, he⟩
  · simp only [io, obsOf, he, demanded_seen]
    exact ⟨fun _ => ⟨y, hy⟩, fun _ => rfl⟩
  · simp only [io, obsOf, he, errorOutcome]
    exact ⟨fun h => by simp at h, fun h => absurd h hn⟩

theorem io_inv_false_iff (d : ToolD) (ci : CallIn) : (io d ci).inv = some false ↔ ¬ ValidArgs d ci := by
  rw [← io_inv_true_iff]
  simp only [io, obsOf]
  cases (ideal d ci).seen <;> simp

theorem io_inv_ne_true (d : ToolD) (ci : CallIn) (h : (io d ci).inv ≠ some true) : (io d ci).inv = some false := by
  simp only [io, obsOf] at h ⊢
  cases hs : (ideal d ci).seen <;> simp [hs] at h ⊢

/-! ## the clauses of the property, as predicates on the observation -/

/-- every call is answered by a result or an error; the wrapper does not crash -/
def P_no_crash (o : Obs) : Prop := o.res ≠ .panic

/-- "when an output type or schema is declared, a successful result carries structured content" -/
def P_success_has_structured (d : ToolD) (o : Obs) : Prop :=
  d.osch.isSome = true → o.res = .ok → o.sc.isSome = true

/-- "a typed tool handler is invoked only with arguments that are valid under the tool's input schema
after defaults are applied": if it ran (at all), they are -/
def P_invoked_only_if_valid (d : ToolD) (ci : CallIn) (o : Obs) : Prop :=
  o.inv ≠ some false → ValidArgs d ci

/-- … and with such arguments it is invoked (exactly once) -/
def P_valid_is_invoked (d : ToolD) (ci : CallIn) (o : Obs) : Prop :=
  ValidArgs d ci → o.inv = some true

/-- "and it receives exactly those values": what the handler observed is the typed decoding of the
defaulted arguments (the same JSON value); and nothing is observed by a handler that did not run -/
def P_receives_exactly (d : ToolD) (ci : CallIn) (o : Obs) : Prop :=
  (o.inv = some true → ∃ x y, o.seen = some x ∧ HandlerInput d ci y ∧ JEq x y) ∧
  (o.inv = some false → o.seen = none)

/-- "invalid arguments produce a tool-level error result [without running the handler]": an `isError`
result with content and no structured content -/
def P_invalid_gives_tool_error (d : ToolD) (ci : CallIn) (o : Obs) : Prop :=
  ¬ ValidArgs d ci → o.res = .toolerr ∧ o.content ≠ [] ∧ o.sc = none

/-- "output that violates the output schema is reported as an error rather than returned" -/
def P_invalid_output_is_error (d : ToolD) (ci : CallIn) (o : Obs) : Prop :=
  ∀ y j, HandlerInput d ci y → (ci.h y).err = none → handlerJson d (ci.h y).out = some j →
    outputOk d j = false → o.res ≠ .ok

/-- output that is valid under the output schema (or no output where none is required) is a success -/
def P_valid_output_succeeds (d : ToolD) (ci : CallIn) (o : Obs) : Prop :=
  ∀ y, HandlerInput d ci y → (ci.h y).err = none →
    (∀ j, handlerJson d (ci.h y).out = some j → outputOk d j = true) → o.res = .ok

/-- "a successful result carries structured content equal to the JSON of the handler's output (with schema
defaults)"; an error carries none -/
def P_structured_equals (d : ToolD) (ci : CallIn) (o : Obs) : Prop :=
  (o.res = .ok → ∀ y, HandlerInput d ci y → (ci.h y).err = none → optJEq o.sc (expectSc d (ci.h y).out)) ∧
  (o.res ≠ .ok → o.sc = none)

/-- "plus a text rendering of it when the handler supplied no content of its own" -/
def P_text_fallback (d : ToolD) (ci : CallIn) (o : Obs) : Prop :=
  o.res = .ok → ∀ y, HandlerInput d ci y → (ci.h y).err = none →
    o.content = expectContent (ci.h y).content (expectSc d (ci.h y).out)

/-- The wrapper's error contract (mcp.ToolHandlerFor's documentation, not C16's text): a handler's
`*jsonrpc.Error` is a protocol error, any other handler error a tool error, and output that violates the
output schema a protocol error. -/
def P_error_kinds (d : ToolD) (ci : CallIn) (o : Obs) : Prop :=
  ∀ y, HandlerInput d ci y →
    ((ci.h y).err = some .rpc → o.res = .rpcerr) ∧
    ((ci.h y).err = some .plain → o.res = .toolerr) ∧
    ((ci.h y).err = none → ∀ j, handlerJson d (ci.h y).out = some j → outputOk d j = false → o.res = .rpcerr)

/-- The wrapper's contract on the content of errors (not C16's text): a tool error carries exactly one text
block, the error message; a protocol error carries no result. -/
def P_error_content (o : Obs) : Prop := (o.res = .toolerr → o.content = [.err]) ∧ (o.res = .rpcerr → o.content = [])

/-- a typed nil pointer output is treated as the zero value of its element type: kind of result and
structured content are those demanded of the same call with the handler returning that zero value -/
def P_nil_pointer_zero (d : ToolD) (ci : CallIn) (o : Obs) : Prop :=
  ∀ y, HandlerInput d ci y → (ci.h y).out = .nilPtr →
    o.res = resOf (demanded d y { ci.h y with out := .json (zeroValue d) }).kind ∧
    optJEq o.sc (demanded d y { ci.h y with out := .json (zeroValue d) }).structured

/-- the handlers the harness scripts return the same whatever their input -/
def CallIn.Scripted (ci : CallIn) : Prop := ∀ x, ci.h x = ci.h .null

theorem mkCall_scripted {d : ToolD} {c : CallEv} {ci : CallIn} (h : mkCall d c = some ci) : ci.Scripted := by
  unfold mkCall at h
  split at h
  · cases h
  · cases h; intro x; rfl

/-! ## when a clause fires -/

/-- the observation is not the error answer the property demands for invalid arguments -/
def BadErrorAnswer (o : Obs) : Prop := o.res ≠ .toolerr ∨ o.content = [] ∨ o.sc.isSome = true

/-- the condition under which `monContract` reports a clause, read off the chain -/
def FiresC (ci : CallIn) (o io : Obs) : Clause → Prop
  | .notInvoked => io.inv = some true ∧ o.inv ≠ io.inv
  | .invokedInvalid => io.inv ≠ some true ∧ o.inv ≠ io.inv
  | .members _ => o.inv = io.inv ∧ optCeq o.seen io.seen = false
  | .seesDefaulted => o.inv = io.inv ∧ optCeq o.seen io.seen = false
  | .invalidNoToolErr => io.inv = some false ∧ BadErrorAnswer o
  | .nilPtr => o.inv = io.inv ∧ ¬ (io.inv = some false ∧ BadErrorAnswer o) ∧ isNilPtr (ci.h .null).out = true ∧
      (o.res ≠ io.res ∨ optCeq o.sc io.sc = false)
  | .invalidOutReturned => o.inv = io.inv ∧ ¬ (io.inv = some false ∧ BadErrorAnswer o) ∧
      io.res = .rpcerr ∧ (ci.h .null).err = none ∧ o.res = .ok
  | .validOutRefused => o.inv = io.inv ∧ ¬ (io.inv = some false ∧ BadErrorAnswer o) ∧ io.res = .ok ∧ o.res ≠ .ok
  | .kindDiffers => o.inv = io.inv ∧ ¬ (io.inv = some false ∧ BadErrorAnswer o) ∧ o.res ≠ io.res ∧ io.res ≠ .ok
  | .scDiffers => o.inv = io.inv ∧ ¬ (io.inv = some false ∧ BadErrorAnswer o) ∧ o.res = io.res ∧ optCeq o.sc io.sc = false
  | .contentDiffers => o.inv = io.inv ∧ ¬ (io.inv = some false ∧ BadErrorAnswer o) ∧ o.res = io.res ∧ io.res = .ok ∧
      o.content ≠ io.content
  | .errContent => o.inv = io.inv ∧ ¬ (io.inv = some false ∧ BadErrorAnswer o) ∧ o.res = io.res ∧ io.res ≠ .ok ∧
      o.content ≠ io.content
  | _ => False

theorem badErrorAnswer_iff (o : Obs) :
    (o.res != Res.toolerr || o.content.isEmpty || o.sc.isSome) = true ↔ BadErrorAnswer o := by
  unfold BadErrorAnswer
  simp only [Bool.or_eq_true, bne_iff_ne, ne_eq, List.isEmpty_iff, or_assoc]

theorem monContract_fires {d : ToolD} {ci : CallIn} {o io : Obs} {c : Clause}
    (h : monContract d ci o io = some c) : FiresC ci o io c := by
  unfold monContract at h
  by_cases h1 : (o.inv != io.inv) = true
  · simp only [h1, if_true] at h
    have h1' : o.inv ≠ io.inv := by simpa using h1
    by_cases h2 : (io.inv == some true) = true
    · simp only [h2, if_true] at h; cases h; exact ⟨by simpa using h2, h1'⟩
    · simp only [h2, Bool.false_eq_true, if_false] at h; cases h; exact ⟨by simpa using h2, h1'⟩
  · simp only [h1, Bool.false_eq_true, if_false] at h
    have e1 : o.inv = io.inv := by simpa using h1
    by_cases h2 : (!optCeq o.seen io.seen) = true
    · simp only [h2, if_true] at h
      have h2' : optCeq o.seen io.seen = false := by simpa using h2
      split at h
      · split at h <;> cases h <;> exact ⟨e1, h2'⟩
      · cases h; exact ⟨e1, h2'⟩
    · simp only [h2, Bool.false_eq_true, if_false] at h
      by_cases h3 : (io.inv == some false && (o.res != Res.toolerr || o.content.isEmpty || o.sc.isSome)) = true
      · simp only [h3, if_true] at h; cases h
        simp only [Bool.and_eq_true, beq_iff_eq] at h3
        exact ⟨h3.1, (badErrorAnswer_iff o).1 h3.2⟩
      · simp only [h3, Bool.false_eq_true, if_false] at h
        have n3 : ¬ (io.inv = some false ∧ BadErrorAnswer o) := by
          intro hh; apply h3
          simp only [Bool.and_eq_true, beq_iff_eq]
          exact ⟨hh.1, (badErrorAnswer_iff o).2 hh.2⟩
        by_cases h4 : (isNilPtr (ci.h .null).out && (o.res != io.res || !optCeq o.sc io.sc)) = true
        · simp only [h4, if_true] at h; cases h
          simp only [Bool.and_eq_true, Bool.or_eq_true, bne_iff_ne, ne_eq, Bool.not_eq_true'] at h4
          exact ⟨e1, n3, h4.1, h4.2⟩
        · simp only [h4, Bool.false_eq_true, if_false] at h
          by_cases h5 : (o.res != io.res) = true
          · simp only [h5, if_true] at h
            have h5' : o.res ≠ io.res := by simpa using h5
            by_cases h6 : (io.res == Res.rpcerr && (ci.h .null).err.isNone && o.res == Res.ok) = true
            · simp only [h6, if_true] at h; cases h
              simp only [Bool.and_eq_true, beq_iff_eq, Option.isNone_iff_eq_none] at h6
              exact ⟨e1, n3, h6.1.1, h6.1.2, h6.2⟩
            · simp only [h6, Bool.false_eq_true, if_false] at h
              by_cases h7 : (io.res == Res.ok) = true
              · simp only [h7, if_true] at h; cases h
                have h7' : io.res = .ok := by simpa using h7
                exact ⟨e1, n3, h7', by rw [← h7']; exact h5'⟩
              · simp only [h7, Bool.false_eq_true, if_false] at h; cases h
                exact ⟨e1, n3, h5', by simpa using h7⟩
          · simp only [h5, Bool.false_eq_true, if_false] at h
            have e5 : o.res = io.res := by simpa using h5
            by_cases h6 : (!optCeq o.sc io.sc) = true
            · simp only [h6, if_true] at h; cases h
              exact ⟨e1, n3, e5, by simpa using h6⟩
            · simp only [h6, Bool.false_eq_true, if_false] at h
              by_cases h7 : (o.content != io.content) = true
              · simp only [h7, if_true] at h
                have h7' : o.content ≠ io.content := by simpa using h7
                by_cases h8 : (io.res == Res.ok) = true
                · simp only [h8, if_true] at h; cases h
                  exact ⟨e1, n3, e5, by simpa using h8, h7'⟩
                · simp only [h8, Bool.false_eq_true, if_false] at h; cases h
                  exact ⟨e1, n3, e5, by simpa using h8, h7'⟩
              · simp only [h7, Bool.false_eq_true, if_false] at h; cases h

/-- the condition under which `monDiag` reports a clause -/
def FiresD (d : ToolD) (ci : CallIn) (o : Obs) : Clause → Prop
  | .f12NullSeen => sameObs { o with seen := (io d ci).seen } (io d ci) = true
  | .recvExact p a b => o.inv = some true ∧ (io d ci).inv = some true ∧ optCeq o.seen (io d ci).seen = false ∧
      ∃ w g, (ideal d ci).seen = some w ∧ o.seen = some g ∧ numDiff w g = some (p, a, b)
  | .carryExact p a b => o.inv = (io d ci).inv ∧ o.res = .ok ∧ (io d ci).res = .ok ∧ optCeq o.sc (io d ci).sc = false ∧
      ∃ w g, (ideal d ci).structured = some w ∧ o.sc = some g ∧ numDiff w g = some (p, a, b)
  | .u64Refused => (io d ci).inv = some true ∧ o.inv = some false
  | .f9 => True
  | _ => False

theorem firstNumDiff_some {a b : Option JVal} {r : String × Dec × Dec} (h : firstNumDiff a b = some r) :
    ∃ w g, a = some w ∧ b = some g ∧ numDiff w g = some r := by
  cases a <;> cases b <;> simp [firstNumDiff] at h
  exact ⟨_, _, rfl, rfl, h⟩

theorem monDiag_fires {d : ToolD} {ci : CallIn} {o : Obs} {c : Clause}
    (h : monDiag d ci o = some c) : FiresD d ci o c := by
  unfold monDiag at h
  by_cases h1 : f12Guard d ci o = true
  · simp only [h1, if_true] at h; cases h
    simp only [f12Guard, Bool.and_eq_true] at h1
    exact h1.2
  · simp only [h1, Bool.false_eq_true, if_false] at h
    by_cases h2 : recvGuard d ci o = true
    · simp only [h2, if_true, Option.map_eq_some_iff] at h
      obtain ⟨⟨p, a, b⟩, hn, hc⟩ := h
      subst hc
      obtain ⟨w, g, hw, hs, hn⟩ := firstNumDiff_some hn
      simp only [recvGuard, Bool.and_eq_true, beq_iff_eq, Bool.not_eq_true'] at h2
      exact ⟨h2.1.1.1.1.2, h2.1.1.1.2, h2.1.1.2, w, g, hw, hs, hn⟩
    · simp only [h2, Bool.false_eq_true, if_false] at h
      by_cases h3 : carryGuard d ci o = true
      · simp only [h3, if_true, Option.map_eq_some_iff] at h
        obtain ⟨⟨p, a, b⟩, hn, hc⟩ := h
        subst hc
        obtain ⟨w, g, hw, hs, hn⟩ := firstNumDiff_some hn
        simp only [carryGuard, Bool.and_eq_true, beq_iff_eq, Bool.not_eq_true'] at h3
        exact ⟨h3.1.1.1.1.1.2, h3.1.1.1.2, h3.1.1.2, h3.1.2, w, g, hw, hs, hn⟩
      · simp only [h3, Bool.false_eq_true, if_false] at h
        by_cases h4 : u64Guard d ci o = true
        · simp only [h4, if_true] at h; cases h
          simp only [u64Guard, Bool.and_eq_true, beq_iff_eq] at h4
          exact ⟨h4.1.1.1, h4.1.1.2⟩
        · simp only [h4, Bool.false_eq_true, if_false] at h
          by_cases h5 : f9Guard d ci o = true
          · simp only [h5, if_true] at h; cases h; trivial
          · simp only [h5, Bool.false_eq_true, if_false] at h; cases h

/-- **when the monitor fires.** A panic clause on a crash; F16 on a success without structured content
under a declared output schema; otherwise the observation differs from the ideal one and one of the two
chains reported the clause. -/
def Fires (d : ToolD) (ci : CallIn) (o : Obs) (c : Clause) : Prop :=
  (o.res = .panic ∧ (c = .f12Panic ∨ c = .panicked)) ∨
  ((c = .f16 ∨ c = .scMissing) ∧ d.osch.isSome = true ∧ o.res = .ok ∧ o.sc = none) ∨
  (o.res ≠ .panic ∧ sameObs o (io d ci) = false ∧ (FiresD d ci o c ∨ FiresC ci o (io d ci) c))

theorem monitor_fires {d : ToolD} {ci : CallIn} {o : Obs} {c : Clause}
    (h : monitor d ci o = some c) : Fires d ci o c := by
  unfold monitor at h
  simp only [] at h
  by_cases h1 : (o.res == Res.panic) = true
  · simp only [h1, if_true] at h
    refine .inl ⟨by simpa using h1, ?_⟩
    split at h <;> cases h <;> simp
  · simp only [h1, Bool.false_eq_true, if_false] at h
    have n1 : o.res ≠ .panic := by simpa using h1
    by_cases h2 : (d.osch.isSome && o.res == Res.ok && o.sc.isNone) = true
    · simp only [h2, if_true] at h
      simp only [Bool.and_eq_true, beq_iff_eq, Option.isNone_iff_eq_none] at h2
      split at h <;> cases h
      · exact .inr (.inl ⟨.inl rfl, h2.1.1, h2.1.2, h2.2⟩)
      · exact .inr (.inl ⟨.inr rfl, h2.1.1, h2.1.2, h2.2⟩)
    · simp only [h2, Bool.false_eq_true, if_false] at h
      by_cases h3 : sameObs o (obsOf (ideal d ci)) = true
      · simp [h3] at h
      · simp only [h3, Bool.false_eq_true, if_false] at h
        have n3 : sameObs o (io d ci) = false := by simpa using h3
        refine .inr (.inr ⟨n1, n3, ?_⟩)
        cases hd : monDiag d ci o with
        | some c' => simp only [hd, Option.some.injEq] at h; subst h; exact .inl (monDiag_fires hd)
        | none => simp only [hd] at h; exact .inr (monContract_fires h)

/-! ## soundness -/

theorem sameObs_split {o io : Obs} (hne : sameObs o io = false) (hs : sameObs { o with seen := io.seen } io = true) :
    o.inv = io.inv ∧ optCeq o.seen io.seen = false := by
  simp only [sameObs, Bool.and_eq_true, beq_iff_eq] at hs
  obtain ⟨⟨⟨⟨h1, _⟩, h3⟩, h4⟩, h5⟩ := hs
  refine ⟨h1, ?_⟩
  cases hq : optCeq o.seen io.seen with
  | false => rfl
  | true =>
    have : sameObs o io = true := by
      simp only [sameObs, Bool.and_eq_true, beq_iff_eq]
      exact ⟨⟨⟨⟨h1, hq⟩, h3⟩, h4⟩, h5⟩
    rw [this] at hne; cases hne

theorem io_of_valid {d : ToolD} {ci : CallIn} {y : JVal} (he : ideal d ci = demanded d y (ci.h y)) :
    (io d ci).inv = some true ∧ (io d ci).seen = some y := by
  simp [io, obsOf, he, demanded_seen]

theorem io_of_invalid {d : ToolD} {ci : CallIn} (he : ideal d ci = errorOutcome none) :
    (io d ci).inv = some false ∧ (io d ci).seen = none ∧ (io d ci).res = .toolerr ∧ (io d ci).sc = none ∧
    (io d ci).content = [.err] := by
  simp [io, obsOf, he, errorOutcome, resOf, btokOf]

/-- the handler's observed input is not what the property demands, whenever it differs from the ideal one -/
theorem seen_mismatch {d : ToolD} {ci : CallIn} {o : Obs}
    (hi : o.inv = (io d ci).inv) (hs : optCeq o.seen (io d ci).seen = false) : ¬ P_receives_exactly d ci o := by
  intro hP
  rcases ideal_cases d ci with ⟨y, hy, he⟩ | ⟨_, he⟩
  · obtain ⟨h1, h2⟩ := io_of_valid he
    obtain ⟨x, y', hx, hy', hj⟩ := hP.1 (hi.trans h1)
    have := HandlerInput_unique hy hy'
    subst this
    rw [hx, h2] at hs
    simp only [optCeq, ceq_of_JEq hj] at hs
    cases hs
  · obtain ⟨h1, h2, _⟩ := io_of_invalid he
    have := hP.2 (hi.trans h1)
    rw [this, h2] at hs
    cases hs

/-- C16/F12 and "the typed tool wrapper panicked" -/
theorem sound_f12Panic (d : ToolD) (ci : CallIn) (o : Obs) (h : monitor d ci o = some .f12Panic) : ¬ P_no_crash o := by
  rcases monitor_fires h with ⟨hp, _⟩ | ⟨hc | hc, _⟩ | ⟨_, _, hd | hc⟩
  · exact fun hP => hP hp
  · cases hc
  · cases hc
  · exact hd.elim
  · exact hc.elim

theorem sound_panicked (d : ToolD) (ci : CallIn) (o : Obs) (h : monitor d ci o = some .panicked) : ¬ P_no_crash o := by
  rcases monitor_fires h with ⟨hp, _⟩ | ⟨hc | hc, _⟩ | ⟨_, _, hd | hc⟩
  · exact fun hP => hP hp
  · cases hc
  · cases hc
  · exact hd.elim
  · exact hc.elim

/-- C16/F16 -/
theorem sound_f16 (d : ToolD) (ci : CallIn) (o : Obs) (h : monitor d ci o = some .f16) : ¬ P_success_has_structured d o := by
  rcases monitor_fires h with ⟨_, hc | hc⟩ | ⟨_, h1, h2, h3⟩ | ⟨_, _, hd | hc⟩
  · cases hc
  · cases hc
  · intro hP
    have := hP h1 h2
    rw [h3] at this; cases this
  · exact hd.elim
  · exact hc.elim

/-- success_has_structured: a successful result without structured content under a declared output type or
schema, whatever the handler's output was and whatever protocol version the session runs at (the shape of
seeded change C16-m11: non-object structured content dropped for peers older than SEP-2106) -/
theorem sound_scMissing (d : ToolD) (ci : CallIn) (o : Obs) (h : monitor d ci o = some .scMissing) :
    ¬ P_success_has_structured d o := by
  rcases monitor_fires h with ⟨_, hc | hc⟩ | ⟨_, h1, h2, h3⟩ | ⟨_, _, hd | hc⟩
  · cases hc
  · cases hc
  · intro hP
    have := hP h1 h2
    rw [h3] at this; cases this
  · exact hd.elim
  · exact hc.elim

/-- the two clauses differ only in the handler's output: `f16` is the nil `any`, `scMissing` everything else -/
theorem scMissing_iff (d : ToolD) (ci : CallIn) (o : Obs) (hp : o.res ≠ .panic) :
    monitor d ci o = some .scMissing ↔
      (d.osch.isSome = true ∧ o.res = .ok ∧ o.sc = none ∧ isNilAny (ci.h .null).out = false) := by
  constructor
  · intro h
    rcases monitor_fires h with ⟨hp', _⟩ | ⟨_, h1, h2, h3⟩ | ⟨_, _, hd | hc⟩
    · exact absurd hp' hp
    · refine ⟨h1, h2, h3, ?_⟩
      unfold monitor at h
      have e1 : (o.res == Res.panic) = false := by simpa using hp
      have e2 : (d.osch.isSome && o.res == Res.ok && o.sc.isNone) = true := by simp [h1, h2, h3]
      simp only [e1, e2, Bool.false_eq_true, if_false, if_true] at h
      cases hn : isNilAny (ci.h .null).out with
      | false => rfl
      | true => simp [hn] at h
    · exact hd.elim
    · exact hc.elim
  · rintro ⟨h1, h2, h3, h4⟩
    unfold monitor
    have e1 : (o.res == Res.panic) = false := by simpa using hp
    have e2 : (d.osch.isSome && o.res == Res.ok && o.sc.isNone) = true := by simp [h1, h2, h3]
    simp only [e1, e2, h4, Bool.false_eq_true, if_false, if_true]

/-- C16/F12, null arguments seen as null -/
theorem sound_f12NullSeen (d : ToolD) (ci : CallIn) (o : Obs) (h : monitor d ci o = some .f12NullSeen) :
    ¬ P_receives_exactly d ci o := by
  rcases monitor_fires h with ⟨_, hc | hc⟩ | ⟨hc | hc, _⟩ | ⟨_, hne, hd | hc⟩
  · cases hc
  · cases hc
  · cases hc
  · cases hc
  · obtain ⟨h1, h2⟩ := sameObs_split hne hd
    exact seen_mismatch h1 h2
  · exact hc.elim

/-- handler_receives_exact_integers -/
theorem sound_recvExact (d : ToolD) (ci : CallIn) (o : Obs) (p : String) (a b : Dec)
    (h : monitor d ci o = some (.recvExact p a b)) : ¬ P_receives_exactly d ci o := by
  rcases monitor_fires h with ⟨_, hc | hc⟩ | ⟨hc | hc, _⟩ | ⟨_, _, hd | hc⟩
  · cases hc
  · cases hc
  · cases hc
  · cases hc
  · obtain ⟨h1, h2, h3, _⟩ := hd
    exact seen_mismatch (h1.trans h2.symm) h3
  · exact hc.elim

/-- handler_sees_exactly_validated_members -/
theorem sound_members (d : ToolD) (ci : CallIn) (o : Obs) (p : String)
    (h : monitor d ci o = some (.members p)) : ¬ P_receives_exactly d ci o := by
  rcases monitor_fires h with ⟨_, hc | hc⟩ | ⟨hc | hc, _⟩ | ⟨_, _, hd | hc⟩
  · cases hc
  · cases hc
  · cases hc
  · cases hc
  · exact hd.elim
  · exact seen_mismatch hc.1 hc.2

/-- handler_sees_defaulted_args -/
theorem sound_seesDefaulted (d : ToolD) (ci : CallIn) (o : Obs)
    (h : monitor d ci o = some .seesDefaulted) : ¬ P_receives_exactly d ci o := by
  rcases monitor_fires h with ⟨_, hc | hc⟩ | ⟨hc | hc, _⟩ | ⟨_, _, hd | hc⟩
  · cases hc
  · cases hc
  · cases hc
  · cases hc
  · exact hd.elim
  · exact seen_mismatch hc.1 hc.2

/-- invoked_iff_valid_after_defaults: valid, not invoked -/
theorem sound_notInvoked (d : ToolD) (ci : CallIn) (o : Obs)
    (h : monitor d ci o = some .notInvoked) : ¬ P_valid_is_invoked d ci o := by
  rcases monitor_fires h with ⟨_, hc | hc⟩ | ⟨hc | hc, _⟩ | ⟨_, _, hd | hc⟩
  · cases hc
  · cases hc
  · cases hc
  · cases hc
  · exact hd.elim
  · intro hP
    obtain ⟨h1, h2⟩ := hc
    exact h2 ((hP ((io_inv_true_iff d ci).1 h1)).trans h1.symm)

/-- invoked_iff_valid_after_defaults: valid, refused as by a signed-only decode -/
theorem sound_u64Refused (d : ToolD) (ci : CallIn) (o : Obs)
    (h : monitor d ci o = some .u64Refused) : ¬ P_valid_is_invoked d ci o := by
  rcases monitor_fires h with ⟨_, hc | hc⟩ | ⟨hc | hc, _⟩ | ⟨_, _, hd | hc⟩
  · cases hc
  · cases hc
  · cases hc
  · cases hc
  · intro hP
    obtain ⟨h1, h2⟩ := hd
    have := hP ((io_inv_true_iff d ci).1 h1)
    rw [h2] at this; cases this
  · exact hc.elim

/-- invoked_iff_valid_after_defaults: ran on invalid arguments -/
theorem sound_invokedInvalid (d : ToolD) (ci : CallIn) (o : Obs)
    (h : monitor d ci o = some .invokedInvalid) : ¬ P_invoked_only_if_valid d ci o := by
  rcases monitor_fires h with ⟨_, hc | hc⟩ | ⟨hc | hc, _⟩ | ⟨_, _, hd | hc⟩
  · cases hc
  · cases hc
  · cases hc
  · cases hc
  · exact hd.elim
  · intro hP
    obtain ⟨h1, h2⟩ := hc
    have hf := io_inv_ne_true d ci h1
    have hv := hP (by rw [hf] at h2; exact h2)
    exact (io_inv_false_iff d ci).1 hf hv

/-- invalid_gives_tool_error_without_invocation -/
theorem sound_invalidNoToolErr (d : ToolD) (ci : CallIn) (o : Obs)
    (h : monitor d ci o = some .invalidNoToolErr) : ¬ P_invalid_gives_tool_error d ci o := by
  rcases monitor_fires h with ⟨_, hc | hc⟩ | ⟨hc | hc, _⟩ | ⟨_, _, hd | hc⟩
  · cases hc
  · cases hc
  · cases hc
  · cases hc
  · exact hd.elim
  · intro hP
    obtain ⟨h1, h2⟩ := hc
    obtain ⟨p1, p2, p3⟩ := hP ((io_inv_false_iff d ci).1 h1)
    rcases h2 with h2 | h2 | h2
    · exact h2 p1
    · exact p2 h2
    · rw [p3] at h2; cases h2

/-- the result side of the chain is reached either on a valid call (the ideal outcome is the demanded one)
or on an invalid one that was answered by a proper error -/
theorem result_side {d : ToolD} {ci : CallIn} {o : Obs}
    (hn : ¬ ((io d ci).inv = some false ∧ BadErrorAnswer o)) :
    (∃ y, HandlerInput d ci y ∧ ideal d ci = demanded d y (ci.h y)) ∨
    (ideal d ci = errorOutcome none ∧ o.res = .toolerr ∧ o.sc = none) := by
  rcases ideal_cases d ci with h | ⟨_, he⟩
  · exact .inl h
  · refine .inr ⟨he, ?_⟩
    have h1 := (io_of_invalid he).1
    have nb : ¬ BadErrorAnswer o := fun hb => hn ⟨h1, hb⟩
    unfold BadErrorAnswer at nb
    constructor
    · exact Classical.byContradiction fun hc => nb (.inl hc)
    · cases hs : o.sc with
      | none => rfl
      | some v => exact absurd (.inr (.inr (by simp [hs]))) nb

theorem demanded_kind_ok {d : ToolD} {y : JVal} {r : HRet} (h : (demanded d y r).kind = .ok) :
    r.err = none ∧ (∀ j, handlerJson d r.out = some j → outputOk d j = true) ∧
    (demanded d y r).structured = expectSc d r.out ∧
    (demanded d y r).content.map btokOf = expectContent r.content (expectSc d r.out) := by
  unfold demanded at h ⊢
  cases he : r.err with
  | some e => cases e <;> simp [he] at h
  | none =>
    simp only [he] at h ⊢
    cases hj : handlerJson d r.out with
    | none => simp [expectSc, expectContent, hj]
    | some j =>
      simp only [hj] at h ⊢
      cases ho : outputOk d j with
      | false => simp [ho] at h
      | true => simp [expectSc, expectContent, hj, ho]

theorem demanded_kind_not_ok {d : ToolD} {y : JVal} {r : HRet} (h : (demanded d y r).kind ≠ .ok) :
    (demanded d y r).structured = none ∧
    ((r.err = some .rpc ∧ (demanded d y r).kind = .rpcError) ∨ (r.err = some .plain ∧ (demanded d y r).kind = .toolError) ∨
     (r.err = none ∧ (demanded d y r).kind = .rpcError ∧ ∃ j, handlerJson d r.out = some j ∧ outputOk d j = false)) := by
  unfold demanded at h ⊢
  cases he : r.err with
  | some e => cases e <;> simp
  | none =>
    simp only [he] at h ⊢
    cases hj : handlerJson d r.out with
    | none => simp [hj] at h
    | some j =>
      simp only [hj] at h ⊢
      cases ho : outputOk d j with
      | false => simp [ho]
      | true => simp [ho] at h

/-- invalid_output_is_error_not_result -/
theorem sound_invalidOutReturned (d : ToolD) (ci : CallIn) (o : Obs) (hsc : ci.Scripted)
    (h : monitor d ci o = some .invalidOutReturned) : ¬ P_invalid_output_is_error d ci o := by
  rcases monitor_fires h with ⟨_, hc | hc⟩ | ⟨hc | hc, _⟩ | ⟨_, _, hd | hc⟩
  · cases hc
  · cases hc
  · cases hc
  · cases hc
  · exact hd.elim
  · intro hP
    obtain ⟨_, hn, h1, h2, h3⟩ := hc
    rcases result_side hn with ⟨y, hy, he⟩ | ⟨he, _⟩
    · have hk : (demanded d y (ci.h y)).kind ≠ .ok := by
        intro hk
        simp only [io, obsOf, he, hk, resOf] at h1
        cases h1
      obtain ⟨_, hcases⟩ := demanded_kind_not_ok hk
      rw [← hsc y] at h2
      rcases hcases with ⟨e, _⟩ | ⟨e, _⟩ | ⟨_, _, j, hj, ho⟩
      · rw [h2] at e; cases e
      · rw [h2] at e; cases e
      · exact hP y j hy h2 hj ho h3
    · have := (io_of_invalid he).2.2.1
      rw [h1] at this; cases this

/-- structured_valid: schema-valid output not returned as a success -/
theorem sound_validOutRefused (d : ToolD) (ci : CallIn) (o : Obs)
    (h : monitor d ci o = some .validOutRefused) : ¬ P_valid_output_succeeds d ci o := by
  rcases monitor_fires h with ⟨_, hc | hc⟩ | ⟨hc | hc, _⟩ | ⟨_, _, hd | hc⟩
  · cases hc
  · cases hc
  · cases hc
  · cases hc
  · exact hd.elim
  · intro hP
    obtain ⟨_, hn, h1, h2⟩ := hc
    rcases result_side hn with ⟨y, hy, he⟩ | ⟨he, _⟩
    · have hk : (demanded d y (ci.h y)).kind = .ok := by
        simp only [io, obsOf, he] at h1
        exact resOf_eq_ok h1
      obtain ⟨e, ho, _⟩ := demanded_kind_ok hk
      exact h2 (hP y hy e ho)
    · have := (io_of_invalid he).2.2.1
      rw [h1] at this; cases this

/-- "result kind differs from the wrapper's contract" -/
theorem sound_kindDiffers (d : ToolD) (ci : CallIn) (o : Obs)
    (h : monitor d ci o = some .kindDiffers) : ¬ P_error_kinds d ci o := by
  rcases monitor_fires h with ⟨_, hc | hc⟩ | ⟨hc | hc, _⟩ | ⟨_, _, hd | hc⟩
  · cases hc
  · cases hc
  · cases hc
  · cases hc
  · exact hd.elim
  · intro hP
    obtain ⟨_, hn, h1, h2⟩ := hc
    rcases result_side hn with ⟨y, hy, he⟩ | ⟨he, hr, _⟩
    · have hk : (demanded d y (ci.h y)).kind ≠ .ok := by
        intro hk
        apply h2
        simp only [io, obsOf, he, hk, resOf]
      obtain ⟨_, hcases⟩ := demanded_kind_not_ok hk
      obtain ⟨p1, p2, p3⟩ := hP y hy
      apply h1
      simp only [io, obsOf, he]
      rcases hcases with ⟨e, k⟩ | ⟨e, k⟩ | ⟨e, k, j, hj, ho⟩
      · rw [k, p1 e]; rfl
      · rw [k, p2 e]; rfl
      · rw [k, p3 e j hj ho]; rfl
    · exact h1 (hr.trans (io_of_invalid he).2.2.1.symm)

theorem sc_mismatch {d : ToolD} {ci : CallIn} {o : Obs}
    (hside : (∃ y, HandlerInput d ci y ∧ ideal d ci = demanded d y (ci.h y)) ∨ (ideal d ci = errorOutcome none ∧ o.res = .toolerr ∧ o.sc = none))
    (hr : o.res = (io d ci).res) (hs : optCeq o.sc (io d ci).sc = false) : ¬ P_structured_equals d ci o := by
  intro hP
  rcases hside with ⟨y, hy, he⟩ | ⟨he, _, hsn⟩
  · by_cases hk : (demanded d y (ci.h y)).kind = .ok
    · obtain ⟨e, _, hst, _⟩ := demanded_kind_ok hk
      have hok : o.res = .ok := by rw [hr]; simp only [io, obsOf, he, hk, resOf]
      have := optCeq_of_optJEq (hP.1 hok y hy e)
      simp only [io, obsOf, he, hst] at hs
      rw [this] at hs; cases hs
    · obtain ⟨hst, _⟩ := demanded_kind_not_ok hk
      have hnok : o.res ≠ .ok := by
        rw [hr]; simp only [io, obsOf, he]
        intro hh; exact hk (resOf_eq_ok hh)
      have := hP.2 hnok
      simp only [io, obsOf, he, hst, this] at hs
      cases hs
  · rw [hsn, (io_of_invalid he).2.2.2.1] at hs
    cases hs

/-- structured_equals_output_json_with_defaults -/
theorem sound_scDiffers (d : ToolD) (ci : CallIn) (o : Obs)
    (h : monitor d ci o = some .scDiffers) : ¬ P_structured_equals d ci o := by
  rcases monitor_fires h with ⟨_, hc | hc⟩ | ⟨hc | hc, _⟩ | ⟨_, _, hd | hc⟩
  · cases hc
  · cases hc
  · cases hc
  · cases hc
  · exact hd.elim
  · obtain ⟨_, hn, h1, h2⟩ := hc
    exact sc_mismatch (result_side hn) h1 h2

/-- result_carries_exact_integers -/
theorem sound_carryExact (d : ToolD) (ci : CallIn) (o : Obs) (p : String) (a b : Dec)
    (h : monitor d ci o = some (.carryExact p a b)) : ¬ P_structured_equals d ci o := by
  rcases monitor_fires h with ⟨_, hc | hc⟩ | ⟨hc | hc, _⟩ | ⟨_, _, hd | hc⟩
  · cases hc
  · cases hc
  · cases hc
  · cases hc
  · obtain ⟨_, h1, h2, h3, _⟩ := hd
    refine sc_mismatch ?_ (h1.trans h2.symm) h3
    rcases ideal_cases d ci with hv | ⟨_, he⟩
    · exact .inl hv
    · have := (io_of_invalid he).2.2.1
      rw [h2] at this; cases this
  · exact hc.elim

/-- text_fallback_iff_no_content -/
theorem sound_contentDiffers (d : ToolD) (ci : CallIn) (o : Obs)
    (h : monitor d ci o = some .contentDiffers) : ¬ P_text_fallback d ci o := by
  rcases monitor_fires h with ⟨_, hc | hc⟩ | ⟨hc | hc, _⟩ | ⟨_, _, hd | hc⟩
  · cases hc
  · cases hc
  · cases hc
  · cases hc
  · exact hd.elim
  · intro hP
    obtain ⟨_, hn, h1, h2, h3⟩ := hc
    rcases result_side hn with ⟨y, hy, he⟩ | ⟨he, _⟩
    · have hk : (demanded d y (ci.h y)).kind = .ok := by
        simp only [io, obsOf, he] at h2
        exact resOf_eq_ok h2
      obtain ⟨e, _, _, hct⟩ := demanded_kind_ok hk
      apply h3
      rw [hP (h1.trans h2) y hy e]
      simp only [io, obsOf, he, hct]
    · have := (io_of_invalid he).2.2.1
      rw [h2] at this; cases this

theorem demanded_nilPtr (d : ToolD) (y : JVal) (r : HRet) (h : r.out = .nilPtr) :
    demanded d y { r with out := .json (zeroValue d) } = demanded d y r := by
  unfold demanded
  simp only [h, handlerJson]

/-- nil_pointer_output_uses_zero_value -/
theorem sound_nilPtr (d : ToolD) (ci : CallIn) (o : Obs) (hsc : ci.Scripted)
    (h : monitor d ci o = some .nilPtr) : ¬ P_nil_pointer_zero d ci o := by
  rcases monitor_fires h with ⟨_, hc | hc⟩ | ⟨hc | hc, _⟩ | ⟨_, _, hd | hc⟩
  · cases hc
  · cases hc
  · cases hc
  · cases hc
  · exact hd.elim
  · intro hP
    obtain ⟨_, hn, h1, h2⟩ := hc
    rcases result_side hn with ⟨y, hy, he⟩ | ⟨he, hr, hs⟩
    · have hout : (ci.h y).out = .nilPtr := by
        rw [hsc y]
        cases ho : (ci.h .null).out <;> simp [ho, isNilPtr] at h1 ⊢
      obtain ⟨p1, p2⟩ := hP y hy hout
      rw [demanded_nilPtr d y (ci.h y) hout] at p1 p2
      rcases h2 with h2 | h2
      · apply h2; simp only [io, obsOf, he]; exact p1
      · have := optCeq_of_optJEq p2
        simp only [io, obsOf, he] at h2
        rw [this] at h2; cases h2
    · obtain ⟨_, _, q1, q2, _⟩ := io_of_invalid he
      rcases h2 with h2 | h2
      · exact h2 (hr.trans q1.symm)
      · rw [hs, q2] at h2; cases h2

/-! ## the whole property, and the catch-all clause -/

/-- everything C16 (and the wrapper's error contract) says about one call -/
structure P_C16 (d : ToolD) (ci : CallIn) (o : Obs) : Prop where
  no_crash : P_no_crash o
  success_has_structured : P_success_has_structured d o
  invoked_only_if_valid : P_invoked_only_if_valid d ci o
  valid_is_invoked : P_valid_is_invoked d ci o
  receives_exactly : P_receives_exactly d ci o
  invalid_gives_tool_error : P_invalid_gives_tool_error d ci o
  invalid_output_is_error : P_invalid_output_is_error d ci o
  valid_output_succeeds : P_valid_output_succeeds d ci o
  structured_equals : P_structured_equals d ci o
  text_fallback : P_text_fallback d ci o
  error_kinds : P_error_kinds d ci o
  error_content : P_error_content o

theorem demanded_not_ok_content {d : ToolD} {y : JVal} {r : HRet} :
    ((demanded d y r).kind = .rpcError → (demanded d y r).content = []) ∧
    ((demanded d y r).kind = .toolError → (demanded d y r).content = [.errText]) := by
  unfold demanded
  cases he : r.err with
  | some e => cases e <;> simp
  | none =>
    simp only []
    cases hj : handlerJson d r.out with
    | none => simp
    | some j =>
      simp only []
      cases ho : outputOk d j <;> simp

/-- "the content of an error differs from the wrapper's contract" -/
theorem sound_errContent (d : ToolD) (ci : CallIn) (o : Obs)
    (h : monitor d ci o = some .errContent) : ¬ P_error_content o := by
  rcases monitor_fires h with ⟨_, hc | hc⟩ | ⟨hc | hc, _⟩ | ⟨_, _, hd | hc⟩
  · cases hc
  · cases hc
  · cases hc
  · cases hc
  · exact hd.elim
  · intro hP
    obtain ⟨_, hn, h1, h2, h3⟩ := hc
    apply h3
    rcases result_side hn with ⟨y, hy, he⟩ | ⟨he, hr, _⟩
    · obtain ⟨c1, c2⟩ := @demanded_not_ok_content d y (ci.h y)
      simp only [io, obsOf, he] at h1 h2 ⊢
      cases hk : (demanded d y (ci.h y)).kind with
      | ok => rw [hk] at h2; exact absurd rfl h2
      | rpcError => rw [c1 hk]; exact hP.2 (by rw [h1, hk]; rfl)
      | toolError => rw [c2 hk]; exact hP.1 (by rw [h1, hk]; rfl)
    · rw [(io_of_invalid he).2.2.2.2]; exact hP.1 hr

/-- **the predicates determine the observation**: an observation that satisfies all of them is the ideal
one (in every component the driver compares) -/
theorem complete (d : ToolD) (ci : CallIn) (o : Obs) (hP : P_C16 d ci o) : sameObs o (io d ci) = true := by
  simp only [sameObs, Bool.and_eq_true, beq_iff_eq]
  rcases ideal_cases d ci with ⟨y, hy, he⟩ | ⟨hn, he⟩
  · obtain ⟨i1, i2⟩ := io_of_valid he
    have hinv : o.inv = some true := hP.valid_is_invoked ⟨y, hy⟩
    obtain ⟨x, y', hx, hy', hj⟩ := hP.receives_exactly.1 hinv
    have := HandlerInput_unique hy hy'
    subst this
    have hseen : optCeq o.seen (io d ci).seen = true := by rw [hx, i2]; exact ceq_of_JEq hj
    by_cases hk : (demanded d y (ci.h y)).kind = .ok
    · obtain ⟨e, ho, hst, hct⟩ := demanded_kind_ok hk
      have hres : o.res = .ok := hP.valid_output_succeeds y hy e ho
      refine ⟨⟨⟨⟨hinv.trans i1.symm, hseen⟩, ?_⟩, ?_⟩, ?_⟩
      · simp only [io, obsOf, he, hk, resOf, hres]
      · simp only [io, obsOf, he, hst]
        exact optCeq_of_optJEq (hP.structured_equals.1 hres y hy e)
      · simp only [io, obsOf, he, hct]
        exact hP.text_fallback hres y hy e
    · obtain ⟨hst, hcases⟩ := demanded_kind_not_ok hk
      obtain ⟨p1, p2, p3⟩ := hP.error_kinds y hy
      obtain ⟨c1, c2⟩ := @demanded_not_ok_content d y (ci.h y)
      have hres : o.res = resOf (demanded d y (ci.h y)).kind ∧ o.res ≠ .ok := by
        rcases hcases with ⟨e, k⟩ | ⟨e, k⟩ | ⟨e, k, j, hj, ho⟩
        · rw [k, p1 e]; exact ⟨rfl, by simp⟩
        · rw [k, p2 e]; exact ⟨rfl, by simp⟩
        · rw [k, p3 e j hj ho]; exact ⟨rfl, by simp⟩
      refine ⟨⟨⟨⟨hinv.trans i1.symm, hseen⟩, ?_⟩, ?_⟩, ?_⟩
      · simp only [io, obsOf, he]; exact hres.1
      · simp only [io, obsOf, he, hst, hP.structured_equals.2 hres.2, optCeq]
      · simp only [io, obsOf, he]
        cases hkk : (demanded d y (ci.h y)).kind with
        | ok => exact absurd hkk hk
        | rpcError =>
          rw [c1 hkk]
          exact hP.error_content.2 (by rw [hres.1, hkk]; rfl)
        | toolError =>
          rw [c2 hkk]
          exact hP.error_content.1 (by rw [hres.1, hkk]; rfl)
  · obtain ⟨i1, i2, i3, i4, i5⟩ := io_of_invalid he
    have hinv : o.inv = some false := by
      by_cases hh : o.inv = some false
      · exact hh
      · exact absurd (hP.invoked_only_if_valid hh) hn
    obtain ⟨q1, _, q3⟩ := hP.invalid_gives_tool_error hn
    refine ⟨⟨⟨⟨hinv.trans i1.symm, ?_⟩, q1.trans i3.symm⟩, ?_⟩, ?_⟩
    · rw [hP.receives_exactly.2 hinv, i2]; rfl
    · rw [q3, i4]; rfl
    · rw [i5]; exact hP.error_content.1 q1

/-- **monitor_sound.** Whatever clause the monitor prints, the observation violates the property: no
observation that satisfies every predicate above is ever rejected. -/
theorem monitor_sound (d : ToolD) (ci : CallIn) (o : Obs) (c : Clause) (h : monitor d ci o = some c) :
    ¬ P_C16 d ci o := by
  intro hP
  rcases monitor_fires h with ⟨hp, _⟩ | ⟨_, h1, h2, h3⟩ | ⟨_, hne, _⟩
  · exact hP.no_crash hp
  · have := hP.success_has_structured h1 h2
    rw [h3] at this; cases this
  · rw [complete d ci o hP] at hne; cases hne

/-- C16/F9 (the observation of the unrepaired wrapper where it differs from the exact one): some clause of
the property is violated -/
theorem sound_f9 (d : ToolD) (ci : CallIn) (o : Obs) (h : monitor d ci o = some .f9) : ¬ P_C16 d ci o :=
  monitor_sound d ci o _ h

/-! ## what tools/list advertises -/

/-- the advertised input schema is readable and is the tool's own -/
def P_published_in (ownI : Schema) (pi : Option Schema) : Prop := ∃ p, pi = some p ∧ sameSchema p ownI = true

/-- the advertised output schema is the tool's own (none advertised iff the tool has none) -/
def P_published_out (ownO : Option Schema) (po : Option (Option Schema)) : Prop :=
  (po = some none ∧ ownO = none) ∨ ∃ p o, po = some (some p) ∧ ownO = some o ∧ sameSchema p o = true

theorem sound_pubIn (ownI : Schema) (ownO : Option Schema) (pi : Option Schema) (po : Option (Option Schema))
    (h : pubClause ownI ownO pi po = some .pubIn) : ¬ P_published_in ownI pi := by
  rintro ⟨p, rfl, hs⟩
  have hI : pubInOk ownI (some p) = true := hs
  unfold pubClause at h
  cases hO : pubOutOk ownO po <;> simp [hI, hO] at h

theorem sound_pubOut (ownI : Schema) (ownO : Option Schema) (pi : Option Schema) (po : Option (Option Schema))
    (h : pubClause ownI ownO pi po = some .pubOut) : ¬ P_published_out ownO po := by
  intro hP
  have hO : pubOutOk ownO po = true := by
    rcases hP with ⟨rfl, rfl⟩ | ⟨p, o, rfl, rfl, hs⟩
    · rfl
    · exact hs
  unfold pubClause at h
  cases hI : pubInOk ownI pi <;> simp [hI, hO] at h

/-! ## the monitor accepts nothing but the ideal observation; the predicates are satisfiable -/

theorem monContract_none {d : ToolD} {ci : CallIn} {o io : Obs} (h : monContract d ci o io = none) :
    sameObs o io = true := by
  unfold monContract at h
  by_cases h1 : (o.inv != io.inv) = true
  · simp only [h1, if_true] at h; split at h <;> cases h
  · simp only [h1, Bool.false_eq_true, if_false] at h
    have e1 : o.inv = io.inv := by simpa using h1
    by_cases h2 : (!optCeq o.seen io.seen) = true
    · simp only [h2, if_true] at h
      split at h
      · split at h <;> cases h
      · cases h
    · simp only [h2, Bool.false_eq_true, if_false] at h
      have e2 : optCeq o.seen io.seen = true := by simpa using h2
      split at h
      · cases h
      · split at h
        · cases h
        · by_cases h5 : (o.res != io.res) = true
          · simp only [h5, if_true] at h
            split at h
            · cases h
            · split at h <;> cases h
          · simp only [h5, Bool.false_eq_true, if_false] at h
            have e5 : o.res = io.res := by simpa using h5
            by_cases h6 : (!optCeq o.sc io.sc) = true
            · simp only [h6, if_true] at h; cases h
            · simp only [h6, Bool.false_eq_true, if_false] at h
              have e6 : optCeq o.sc io.sc = true := by simpa using h6
              by_cases h7 : (o.content != io.content) = true
              · simp only [h7, if_true] at h; split at h <;> cases h
              · have e7 : o.content = io.content := by simpa using h7
                simp only [sameObs, Bool.and_eq_true, beq_iff_eq]
                exact ⟨⟨⟨⟨e1, e2⟩, e5⟩, e6⟩, e7⟩

/-- **the monitor accepts only the ideal observation**: silence means equality with the wrapper run on
exact numbers over the tool's own schemas, in every component -/
theorem monitor_none (d : ToolD) (ci : CallIn) (o : Obs) (h : monitor d ci o = none) :
    sameObs o (io d ci) = true := by
  unfold monitor at h
  simp only [] at h
  split at h
  · split at h <;> cases h
  · split at h
    · split at h <;> cases h
    · split at h
      · assumption
      · cases hd : monDiag d ci o with
        | some c => simp [hd] at h
        | none => simp only [hd] at h; exact monContract_none h

theorem JEq_refl (v : JVal) : JEq v v := rfl

theorem optJEq_refl (o : Option JVal) : optJEq o o := by cases o <;> simp [optJEq, JEq_refl]

/-- **the predicates are satisfiable, for every tool and every call**: the ideal observation satisfies
all of them (so `¬ P_…` in the soundness theorems is never true for a trivial reason) -/
theorem P_C16_ideal (d : ToolD) (ci : CallIn) : P_C16 d ci (io d ci) := by
  have hres : ∀ k : Kind, resOf k ≠ .panic := resOf_ne_panic
  rcases ideal_cases d ci with ⟨y, hy, he⟩ | ⟨hn, he⟩
  · obtain ⟨i1, i2⟩ := io_of_valid he
    have uniq : ∀ y', HandlerInput d ci y' → y' = y := fun y' h' => HandlerInput_unique h' hy
    refine ⟨by simp [P_no_crash, io, obsOf, hres], ?_, fun _ => ⟨y, hy⟩, fun _ => i1, ?_, fun hn => absurd ⟨y, hy⟩ hn,
      ?_, ?_, ?_, ?_, ?_, ?_⟩
    · intro hs hr
      have hk : (demanded d y (ci.h y)).kind = .ok := by
        simp only [io, obsOf, he] at hr; exact resOf_eq_ok hr
      have hst := ok_has_structured idEnv d.tool ci.h ci.args (by rw [← he] at hk; exact hk) hs
      simpa [io, obsOf, ideal] using hst
    · exact ⟨fun _ => ⟨y, y, i2, hy, JEq_refl y⟩, fun h => by rw [i1] at h; cases h⟩
    · intro y' j hy' e hj ho hr
      have := uniq y' hy'; subst this
      have hk : (demanded d y' (ci.h y')).kind = .ok := by
        simp only [io, obsOf, he] at hr; exact resOf_eq_ok hr
      have := (demanded_kind_ok hk).2.1 j hj
      rw [ho] at this; cases this
    · intro y' hy' e ho
      have := uniq y' hy'; subst this
      simp only [io, obsOf, he]
      unfold demanded
      simp only [e]
      cases hj : handlerJson d (ci.h y').out with
      | none => rfl
      | some j => simp [ho j hj, resOf]
    · constructor
      · intro hr y' hy' e
        have := uniq y' hy'; subst this
        have hk : (demanded d y' (ci.h y')).kind = .ok := by
          simp only [io, obsOf, he] at hr; exact resOf_eq_ok hr
        simp only [io, obsOf, he, (demanded_kind_ok hk).2.2.1]
        exact optJEq_refl _
      · intro hr
        have hk : (demanded d y (ci.h y)).kind ≠ .ok := by
          intro hk; apply hr; simp only [io, obsOf, he, hk, resOf]
        simp only [io, obsOf, he, (demanded_kind_not_ok hk).1]
    · intro hr y' hy' e
      have := uniq y' hy'; subst this
      have hk : (demanded d y' (ci.h y')).kind = .ok := by
        simp only [io, obsOf, he] at hr; exact resOf_eq_ok hr
      simp only [io, obsOf, he, (demanded_kind_ok hk).2.2.2]
    · intro y' hy'
      have := uniq y' hy'; subst this
      simp only [io, obsOf, he]
      unfold demanded
      refine ⟨fun e => by simp [e, resOf], fun e => by simp [e, resOf], fun e j hj ho => by simp [e, hj, ho, resOf]⟩
    · obtain ⟨c1, c2⟩ := @demanded_not_ok_content d y (ci.h y)
      simp only [P_error_content, io, obsOf, he]
      constructor
      · intro hr
        cases hk : (demanded d y (ci.h y)).kind with
        | ok => rw [hk] at hr; cases hr
        | rpcError => rw [hk] at hr; cases hr
        | toolError => rw [c2 hk]; rfl
      · intro hr
        cases hk : (demanded d y (ci.h y)).kind with
        | ok => rw [hk] at hr; cases hr
        | toolError => rw [hk] at hr; cases hr
        | rpcError => rw [c1 hk]; rfl
  · obtain ⟨i1, i2, i3, i4, i5⟩ := io_of_invalid he
    exact
      { no_crash := by simp [P_no_crash, io, obsOf, hres]
        success_has_structured := fun _ hr => by rw [i3] at hr; cases hr
        invoked_only_if_valid := fun h => absurd i1 h
        valid_is_invoked := fun hv => absurd hv hn
        receives_exactly := ⟨fun h => (by rw [i1] at h; cases h), fun _ => i2⟩
        invalid_gives_tool_error := fun _ => ⟨i3, (by rw [i5]; simp), i4⟩
        invalid_output_is_error := fun y _ hy => absurd ⟨y, hy⟩ hn
        valid_output_succeeds := fun y hy => absurd ⟨y, hy⟩ hn
        structured_equals := ⟨fun hr => (by rw [i3] at hr; cases hr), fun _ => i4⟩
        text_fallback := fun hr => by rw [i3] at hr; cases hr
        error_kinds := fun y hy => absurd ⟨y, hy⟩ hn
        error_content := ⟨fun _ => i5, fun hr => by rw [i3] at hr; cases hr⟩ }

mutual
/-- the integers a clause reports do differ, and the one that was sent / returned is an integer of the Go
integer ranges beyond ±2^53 -/
theorem numDiff_some : ∀ (w g : JVal) (p : String) (a b : Dec), numDiff w g = some (p, a, b) →
    a.eq b = false ∧ bigGoInt a = true
  | .num x, .num z, p, a, b, h => by
    simp only [numDiff] at h
    split at h
    · cases h
    · rename_i hc
      simp only [Option.some.injEq, Prod.mk.injEq] at h
      obtain ⟨_, rfl, rfl⟩ := h
      simp only [Bool.or_eq_true, Bool.not_eq_true', not_or] at hc
      exact ⟨by simpa using hc.1, by simpa using hc.2⟩
  | .arr xs, .arr ys, p, a, b, h => by
    simp only [numDiff] at h
    split at h
    · cases h
    · exact numDiffList_some 0 xs ys p a b h
  | .obj xs, .obj ys, p, a, b, h => by
    simp only [numDiff] at h
    exact numDiffFields_some xs ys p a b h
  | .null, _, _, _, _, h => by simp [numDiff] at h
  | .bool _, _, _, _, _, h => by simp [numDiff] at h
  | .str _, _, _, _, _, h => by simp [numDiff] at h
  | .num _, .null, _, _, _, h => by simp [numDiff] at h
  | .num _, .bool _, _, _, _, h => by simp [numDiff] at h
  | .num _, .str _, _, _, _, h => by simp [numDiff] at h
  | .num _, .arr _, _, _, _, h => by simp [numDiff] at h
  | .num _, .obj _, _, _, _, h => by simp [numDiff] at h
  | .arr _, .null, _, _, _, h => by simp [numDiff] at h
  | .arr _, .bool _, _, _, _, h => by simp [numDiff] at h
  | .arr _, .str _, _, _, _, h => by simp [numDiff] at h
  | .arr _, .num _, _, _, _, h => by simp [numDiff] at h
  | .arr _, .obj _, _, _, _, h => by simp [numDiff] at h
  | .obj _, .null, _, _, _, h => by simp [numDiff] at h
  | .obj _, .bool _, _, _, _, h => by simp [numDiff] at h
  | .obj _, .str _, _, _, _, h => by simp [numDiff] at h
  | .obj _, .num _, _, _, _, h => by simp [numDiff] at h
  | .obj _, .arr _, _, _, _, h => by simp [numDiff] at h
theorem numDiffList_some : ∀ (i : Nat) (xs ys : List JVal) (p : String) (a b : Dec),
    numDiffList i xs ys = some (p, a, b) → a.eq b = false ∧ bigGoInt a = true
  | _, [], _, _, _, _, h => by simp [numDiffList] at h
  | _, _ :: _, [], _, _, _, h => by simp [numDiffList] at h
  | i, x :: xs, y :: ys, p, a, b, h => by
    simp only [numDiffList] at h
    cases hn : numDiff x y with
    | some r =>
      obtain ⟨p', a', b'⟩ := r
      simp only [hn, Option.some.injEq, Prod.mk.injEq] at h
      obtain ⟨_, rfl, rfl⟩ := h
      exact numDiff_some x y p' a' b' hn
    | none =>
      simp only [hn] at h
      exact numDiffList_some (i + 1) xs ys p a b h
theorem numDiffFields_some : ∀ (xs ys : Fields) (p : String) (a b : Dec),
    numDiffFields xs ys = some (p, a, b) → a.eq b = false ∧ bigGoInt a = true
  | [], _, _, _, _, h => by simp [numDiffFields] at h
  | (k, v) :: t, ys, p, a, b, h => by
    simp only [numDiffFields] at h
    cases hl : lookupJ k ys with
    | none =>
      simp only [hl] at h
      exact numDiffFields_some t ys p a b h
    | some w =>
      simp only [hl] at h
      cases hn : numDiff v w with
      | none =>
        simp only [hn, Option.map_none] at h
        exact numDiffFields_some t ys p a b h
      | some r =>
        obtain ⟨p', a', b'⟩ := r
        simp only [hn, Option.map_some, Option.some.injEq, Prod.mk.injEq] at h
        obtain ⟨_, rfl, rfl⟩ := h
        exact numDiff_some v w p' a' b' hn
end

/-! ## the history the monitor carries: which tool a call is judged by

The monitor's state holds, per tool name, the Go types and OWN schemas of the tool (`MState.tys`) and the
name added last (`MState.last`). The history invariant (`tys_booked`, `last_booked`): they are what the
RECORDS say the implementation holds — the most recent `tool` record of that name that the implementation
answered `ok` since the last `server`/`reset` record. `sound_trace`: a C16 clause raised on a `call` record
after any list of records refutes the property for the call as addressed to THAT tool. -/

/-- the monitor's state after a list of records -/
def runState (d : MState) : List Rec → MState
  | [] => d
  | r :: rs => runState (mstep d r).1 rs

/-- what the records (most recent first) say is registered under `n` on the current server -/
def bookedRev : List Rec → String → Option (GoTy × GoTy × Schema × Option Schema)
  | [], _ => none
  | .reset :: _, _ => none
  | .server _ _ :: _, _ => none
  | .call _ _ _ _ _ :: rest, n => bookedRev rest n
  | .tool t o :: rest, n =>
    if o.isOk && t.name == n then some (t.ity, t.oty, t.ownIn, t.ownOut) else bookedRev rest n

/-- the name the records (most recent first) say was added last on the current server -/
def lastRev : List Rec → Option String
  | [] => none
  | .reset :: _ => none
  | .server _ _ :: _ => none
  | .call _ _ _ _ _ :: rest => lastRev rest
  | .tool t o :: rest => if o.isOk then some t.name else lastRev rest

def booked (tr : List Rec) (n : String) : Option (GoTy × GoTy × Schema × Option Schema) := bookedRev tr.reverse n
def lastBooked (tr : List Rec) : Option String := lastRev tr.reverse

theorem runState_append (d : MState) (l : List Rec) (r : Rec) : runState d (l ++ [r]) = (mstep (runState d l) r).1 := by
  induction l generalizing d with
  | nil => rfl
  | cons x xs ih => simp only [List.cons_append, runState]; exact ih _

theorem regTool_book (d : MState) (t : ToolEv) (o : ToolObs) :
    (d.regTool t o).1.tys = (d.book t o).tys ∧ (d.regTool t o).1.last = (d.book t o).last := by
  unfold MState.regTool
  simp only []
  split
  · exact ⟨rfl, rfl⟩
  · split
    · exact ⟨rfl, rfl⟩
    · split <;> exact ⟨rfl, rfl⟩

theorem mstep_tool_book (d : MState) (t : ToolEv) (o : ToolObs) :
    (mstep d (.tool t o)).1.tys = (d.book t o).tys ∧ (mstep d (.tool t o)).1.last = (d.book t o).last := by
  have h := regTool_book d t o
  simp only [mstep]
  generalize d.regTool t o = r at h
  obtain ⟨d', out⟩ := r
  cases out <;> exact h

theorem find?_filter_ne {α : Type} (l : List (String × α)) (a n : String) (h : (a == n) = false) :
    (l.filter (·.1 != a)).find? (·.1 == n) = l.find? (·.1 == n) := by
  induction l with
  | nil => rfl
  | cons x xs ih =>
    simp only [List.filter_cons]
    by_cases hx : (x.1 != a) = true
    · simp only [hx, if_true, List.find?_cons, ih]
    · simp only [hx, Bool.false_eq_true, if_false, List.find?_cons]
      have hxa : x.1 = a := by simpa using hx
      have : (x.1 == n) = false := by rw [hxa]; exact h
      simp only [this, ih]

/-- **the history invariant**: what the monitor has booked is what the records say -/
theorem tys_booked (rtr : List Rec) (n : String) :
    ((runState {} rtr.reverse).tys.find? (·.1 == n)).map (·.2) = bookedRev rtr n ∧
    (runState {} rtr.reverse).last = lastRev rtr := by
  induction rtr with
  | nil => exact ⟨rfl, rfl⟩
  | cons r rest ih =>
    rw [List.reverse_cons, runState_append]
    cases r with
    | reset => exact ⟨rfl, rfl⟩
    | server k v => exact ⟨rfl, rfl⟩
    | call name c o lib olib => rw [mstep_call_fst]; exact ih
    | tool t o =>
      obtain ⟨h1, h2⟩ := mstep_tool_book (runState {} rest.reverse) t o
      rw [h1, h2]
      unfold MState.book
      cases ho : o.isOk with
      | false => simp only [Bool.false_eq_true, if_false, bookedRev, lastRev, ho, Bool.false_and]; exact ih
      | true =>
        simp only [if_true, bookedRev, lastRev, ho, Bool.true_and, and_true]
        cases hn : (t.name == n) with
        | true => simp only [List.find?_cons, hn, if_true, Option.map_some]
        | false =>
          simp only [List.find?_cons, hn, Bool.false_eq_true, if_false]
          rw [find?_filter_ne _ _ _ hn]
          exact ih.1

/-- the tool with these Go types and own schemas (what it enforces does not matter to the monitor) -/
def ToolD.ofOwn (ity oty : GoTy) (isch : Schema) (osch : Option Schema) : ToolD :=
  { ity, oty, isch, osch, eisch := isch, eosch := osch }

theorem monitor_ofOwn (td : ToolD) (ci : CallIn) (o : Obs) :
    monitor td ci o = monitor (ToolD.ofOwn td.ity td.oty td.isch td.osch) ci o := rfl

theorem mkCall_ofOwn (td : ToolD) (c : CallEv) : mkCall td c = mkCall (ToolD.ofOwn td.ity td.oty td.isch td.osch) c := rfl

def Clause.isLib : Clause → Bool
  | .libIn _ _ => true
  | .libOut _ _ => true
  | _ => false

theorem judgeCall_clause {d : ToolD} {ci : CallIn} {o : Obs} {lib olib : Option Bool} {cl : Clause}
    (h : judgeCall d ci o lib olib = some cl) (hl : cl.isLib = false) : monitor d ci o = some cl := by
  unfold judgeCall at h
  split at h
  · cases h; cases hl
  · split at h
    · cases h; cases hl
    · exact h

/-- **sound_trace.** After ANY list of records, a C16 clause raised on a `call` record means: the records
book a tool under the addressed name (the named one, else the one added last) — the most recent `tool`
record of that name answered `ok` on the current server — and the observation violates the property for
the call read over that tool's Go types and own schemas. -/
theorem sound_trace (tr : List Rec) (name : Option String) (c : CallEv) (o : Obs) (lib olib : Option Bool) (cl : Clause)
    (h : (mstep (runState {} tr) (.call name c o lib olib)).2 = some cl) (hl : cl.isLib = false) :
    ∃ n ity oty isch osch ci, (name <|> lastBooked tr) = some n ∧ booked tr n = some (ity, oty, isch, osch) ∧
      mkCall (ToolD.ofOwn ity oty isch osch) c = some ci ∧ ci.Scripted ∧
      monitor (ToolD.ofOwn ity oty isch osch) ci o = some cl ∧ ¬ P_C16 (ToolD.ofOwn ity oty isch osch) ci o := by
  have hb := fun n => tys_booked tr.reverse n
  simp only [List.reverse_reverse] at hb
  simp only [mstep] at h
  cases hc : (runState {} tr).callee name with
  | none => simp [hc] at h
  | some td =>
    simp only [hc] at h
    cases hm : mkCall td c with
    | none => simp [hm] at h
    | some ci =>
      simp only [hm] at h
      have hmon := judgeCall_clause h hl
      unfold MState.callee at hc
      cases hn : (name <|> (runState {} tr).last) with
      | none => simp [hn] at hc
      | some n =>
        simp only [hn] at hc
        have hc' : (runState {} tr).toolD n = some td := hc
        unfold MState.toolD at hc'
        cases hw : (runState {} tr).world.tools.find? (·.1 == n) with
        | none => simp [hw] at hc'
        | some y =>
          cases ht : (runState {} tr).tys.find? (·.1 == n) with
          | none => simp [hw, ht] at hc'
          | some x =>
            obtain ⟨xn, xi, xo, xis, xos⟩ := x
            obtain ⟨yn, yd, ye⟩ := y
            simp only [hw, ht, Option.some.injEq] at hc'
            subst hc'
            refine ⟨n, xi, xo, xis, xos, ci, ?_, ?_, ?_, mkCall_scripted hm, ?_, ?_⟩
            · rw [← hn, (hb n).2]; rfl
            · have := (hb n).1
              rw [ht] at this
              exact this.symm
            · rw [← hm]; rfl
            · rw [← hmon]; rfl
            · exact monitor_sound _ ci o cl (by rw [← hmon]; rfl)

/-- a clause raised on a `tool` record is one of the two published-schema clauses, raised by `pubClause` on
what tools/list advertised against the tool's own schemas (in any state: no history is involved) -/
theorem sound_trace_tool (d : MState) (t : ToolEv) (o : ToolObs) (cl : Clause)
    (h : (mstep d (.tool t o)).2 = some cl) :
    ∃ pi po, o = .ok pi po ∧ pubClause t.ownIn t.ownOut pi po = some cl ∧
      ((cl = .pubIn ∧ ¬ P_published_in t.ownIn pi) ∨ (cl = .pubOut ∧ ¬ P_published_out t.ownOut po)) := by
  simp only [mstep, MState.regTool] at h
  split at h
  · rename_i d' v heq
    split at heq
    · cases heq
    · cases o with
      | other => simp only [Prod.mk.injEq, ToolOut.expected.injEq] at heq; obtain ⟨_, rfl⟩ := heq; cases h
      | ok pi po =>
        simp only [] at heq
        cases hp : pubClause t.ownIn t.ownOut pi po with
        | none => simp [hp] at heq
        | some c =>
          simp only [hp, Prod.mk.injEq, ToolOut.expected.injEq] at heq
          obtain ⟨_, rfl⟩ := heq
          cases h
          refine ⟨pi, po, rfl, hp, ?_⟩
          have hc : cl = .pubIn ∨ cl = .pubOut := by
            unfold pubClause at hp
            split at hp
            · cases hp
            · split at hp <;> cases hp <;> simp
          rcases hc with rfl | rfl
          · exact .inl ⟨rfl, sound_pubIn _ _ _ _ hp⟩
          · exact .inr ⟨rfl, sound_pubOut _ _ _ _ hp⟩
  · cases h

/-! ## non-vacuity: every clause fires on some observation (and the good observation is accepted) -/

section Witness

/-- In = Out = `struct{ N int64 "n"; C string "c" }` under `wSchema` (n required, c defaults to "x") -/
def fD : ToolD := { ity := wTy, oty := wTy, isch := wSchema, osch := some wSchema, eisch := wSchema, eosch := some wSchema }
def fOut : JVal := .obj [("n", .num (.ofInt 7)), ("c", .str "x")]
/-- arguments `{"n": n}`; the handler returns `{"n":7,"c":"x"}` and no content -/
def fCall (n : Int) : CallIn := { args := wArgs n, h := fun _ => { out := .json fOut }, hout := some fOut, argsNull := false }
/-- what the property demands of `fCall 7` -/
def fGood : Obs := { inv := some true, seen := some fOut, res := .ok, sc := some fOut, content := [.sc] }
/-- a proper error answer -/
def fErr : Obs := { inv := some false, seen := none, res := .toolerr, sc := none, content := [.err] }

def isClause (c : Option Clause) (f : Clause → Bool) : Bool := match c with | some x => f x | none => false

example : (monitor fD (fCall 7) fGood).isNone = true := by decide
/-- members in another order and `7.0` for `7`: the same JSON value -/
example : (monitor fD (fCall 7) { fGood with seen := some (.obj [("c", .str "x"), ("n", .num ⟨70, 1⟩)]) }).isNone = true := by decide
example : isClause (monitor fD (fCall 7) { fGood with res := .panic }) (fun | .panicked => true | _ => false) = true := by decide
example : isClause (monitor fD { fCall 7 with args := .val .null, argsNull := true } { fGood with res := .panic })
    (fun | .f12Panic => true | _ => false) = true := by decide
example : isClause (monitor fD (fCall 7) { fGood with sc := none }) (fun | .scMissing => true | _ => false) = true := by decide
/-- … and the F16 shape proper: Out = any, a declared output schema, a nil output -/
example : isClause (monitor { fD with oty := .any } { fCall 7 with h := fun _ => { out := .nilAny }, hout := none } { fGood with sc := none })
    (fun | .f16 => true | _ => false) = true := by decide
example : isClause (monitor fD (fCall 7) { fGood with inv := some false }) (fun | .notInvoked => true | _ => false) = true := by decide
/-- `{}` lacks the required `n` -/
example : isClause (monitor fD { fCall 7 with args := .val (.obj []) } fGood) (fun | .invokedInvalid => true | _ => false) = true := by decide
example : (monitor fD { fCall 7 with args := .val (.obj []) } fErr).isNone = true := by decide
example : isClause (monitor fD { fCall 7 with args := .val (.obj []) } { fErr with res := .rpcerr })
    (fun | .invalidNoToolErr => true | _ => false) = true := by decide
example : isClause (monitor fD { fCall 7 with args := .val (.obj []) } { fErr with content := [.err, .err] })
    (fun | .errContent => true | _ => false) = true := by decide
/-- the default of `c` is missing from what the handler saw -/
example : isClause (monitor fD (fCall 7) { fGood with seen := some (.obj [("n", .num (.ofInt 7)), ("c", .str "")]) })
    (fun | .seesDefaulted => true | _ => false) = true := by decide
example : isClause (monitor fD (fCall 7) { fGood with res := .toolerr }) (fun | .validOutRefused => true | _ => false) = true := by decide
example : isClause (monitor fD (fCall 7) { fGood with sc := some (.obj [("n", .num (.ofInt 7))]) })
    (fun | .scDiffers => true | _ => false) = true := by decide
example : isClause (monitor fD (fCall 7) { fGood with content := [] }) (fun | .contentDiffers => true | _ => false) = true := by decide
/-- the handler returns `{}` (no `n`): a protocol error is demanded -/
def fBadOut : CallIn := { fCall 7 with h := fun _ => { out := .json (.obj []) }, hout := some (.obj []) }
example : (monitor fD fBadOut { fGood with res := .rpcerr, sc := none, content := [] }).isNone = true := by decide
example : isClause (monitor fD fBadOut { fGood with sc := some (.obj [("c", .str "x")]) })
    (fun | .invalidOutReturned => true | _ => false) = true := by decide
example : isClause (monitor fD fBadOut { fGood with res := .toolerr, sc := none, content := [.err] })
    (fun | .kindDiffers => true | _ => false) = true := by decide
/-- a `*jsonrpc.Error` from the handler answered by a tool error: the error contract, not "output … returned" -/
example : isClause (monitor fD { fCall 7 with h := fun _ => { err := some .rpc } } { fGood with res := .toolerr, sc := none, content := [.err] })
    (fun | .kindDiffers => true | _ => false) = true := by decide
/-- Out = `*struct{…}`, the handler returns a nil pointer: the zero value `{"n":0,"c":""}` is demanded -/
def fPtrD : ToolD := { fD with oty := .ptr wTy }
def fNil : CallIn := { fCall 7 with h := fun _ => { out := .nilPtr }, hout := none }
def fZero : JVal := .obj [("n", .num (.ofInt 0)), ("c", .str "")]
example : (monitor fPtrD fNil { fGood with sc := some fZero }).isNone = true := by decide
example : isClause (monitor fPtrD fNil { fGood with res := .rpcerr, sc := none, content := [] })
    (fun | .nilPtr => true | _ => false) = true := by decide
/-- 2^53+1 arrives as 2^53 -/
def fBigOut : JVal := .obj [("n", .num (.ofInt 9007199254740993)), ("c", .str "x")]
def fBigRound : JVal := .obj [("n", .num (.ofInt 9007199254740992)), ("c", .str "x")]
def fBig : CallIn := { fCall 9007199254740993 with h := fun _ => { out := .json fBigOut }, hout := some fBigOut }
example : (monitor fD fBig { fGood with seen := some fBigOut, sc := some fBigOut }).isNone = true := by decide
example : isClause (monitor fD fBig { fGood with seen := some fBigRound, sc := some fBigOut })
    (fun | .recvExact "n" a b => a.toInt == 9007199254740993 && b.toInt == 9007199254740992 | _ => false) = true := by decide
example : isClause (monitor fD fBig { fGood with seen := some fBigOut, sc := some fBigRound })
    (fun | .carryExact "n" a b => a.toInt == 9007199254740993 && b.toInt == 9007199254740992 | _ => false) = true := by decide
/-- `n ≤ 2^53`: 2^53+1 is invalid, its float64 is valid — the observation of the unrepaired wrapper -/
def fMaxSchema : Schema :=
  .mk { ty := [.object], required := ["n"] }
    [("n", .mk { ty := [.integer], maximum := some (.ofInt 9007199254740992) } [] none none)] none none
def fMaxD : ToolD := { fD with isch := fMaxSchema, eisch := fMaxSchema, osch := none, eosch := none, ity := uTy, oty := .any }
example : isClause (monitor fMaxD fBig (obsOf (call (refEnv lossy53) fMaxD.tool fBig.h fBig.args)))
    (fun | .f9 => true | _ => false) = true := by decide
/-- a uint64 member: 2^64-1 is valid; the answer of a decode that keeps only int64 exact -/
def fU : ToolD := { ity := uTy, oty := .any, isch := uSchema, osch := none, eisch := uSchema, eosch := none }
def fUCall : CallIn := { fCall 18446744073709551615 with h := fun _ => {}, hout := none }
example : isClause (monitor fU fUCall (obsOf (call (refEnv lossy63) fU.tool fUCall.h fUCall.args)))
    (fun | .u64Refused => true | _ => false) = true := by decide
/-- null arguments under a schema with only a default: the handler must see `{"c":"x"}`, not null -/
def fDefSchema : Schema :=
  .mk { ty := [.object] } [("c", .mk { ty := [.string], dflt := some (.str "x") } [] none none)] none none
def fDefD : ToolD := { ity := .any, oty := .any, isch := fDefSchema, osch := none, eisch := fDefSchema, eosch := none }
def fNullCall : CallIn := { args := .val .null, h := fun _ => {}, hout := none, argsNull := true }
example : (monitor fDefD fNullCall { inv := some true, seen := some (.obj [("c", .str "x")]), res := .ok, sc := none, content := [] }).isNone = true := by decide
example : isClause (monitor fDefD fNullCall { inv := some true, seen := some .null, res := .ok, sc := none, content := [] })
    (fun | .f12NullSeen => true | _ => false) = true := by decide
/-- `struct{ MaxItems int64 "maxItems" }` under an open schema: the member `maxitems` must be dropped -/
def fMemSchema : Schema := .mk { ty := [.object] } [("maxItems", .mk { ty := [.integer] } [] none none)] none none
def fMemD : ToolD := { ity := .struct [("maxItems", false, .int64)], oty := .any, isch := fMemSchema, osch := none, eisch := fMemSchema, eosch := none }
def fMemCall : CallIn :=
  { args := .val (.obj [("maxItems", .num (.ofInt 1)), ("maxitems", .num (.ofInt 2))]), h := fun _ => {}, hout := none, argsNull := false }
example : (monitor fMemD fMemCall { inv := some true, seen := some (.obj [("maxItems", .num (.ofInt 1))]), res := .ok, sc := none, content := [] }).isNone = true := by decide
example : isClause (monitor fMemD fMemCall { inv := some true, seen := some (.obj [("maxItems", .num (.ofInt 2))]), res := .ok, sc := none, content := [] })
    (fun | .members "maxItems" => true | _ => false) = true := by decide

/-! ### the two wrong clause picks that the soundness proofs exposed (repaired in `monContract`)

Before, the chain printed `invalid_output_is_error_not_result` whenever the demanded kind was a protocol
error and the observed kind differed — also when the handler had returned a `*jsonrpc.Error` (there is no
output then) or when the observed result was itself an error; and `text_fallback_iff_no_content` whenever
the content differed — also on error results. In both shapes the predicate of the printed clause HOLDS of
the observation (the examples below), so the clause was not sound. Now the first is printed only for a
successful result of a handler that returned no error (otherwise: the error-contract clause), the second
only when a success is demanded (otherwise: the error-content clause). -/

def fRpc : CallIn := { fCall 7 with h := fun _ => { err := some .rpc } }
example : P_invalid_output_is_error fD fRpc { fGood with res := .toolerr, sc := none, content := [.err] } := by
  intro y j _ he _ _
  simp [fRpc] at he
example : isClause (monitor fD fRpc { fGood with res := .toolerr, sc := none, content := [.err] })
    (fun | .kindDiffers => true | _ => false) = true := by decide
example : P_text_fallback fD { fCall 7 with args := .val (.obj []) } { fErr with content := [.err, .err] } := by
  intro hr; simp [fErr] at hr

end Witness

end TypedTool
