/-
E12 TypedTool (C16) — JSON values with exact numbers.

`Dec` is an exact decimal `m · 10^(-e)`; numbers are never floats on the Lean side. Two JSON values
are compared with `JVal.eqv` (numbers by value, objects as finite maps), which is what JSON Schema's
`enum`/`const` ask for. Core Lean only: linked into the driver.
-/
namespace TypedTool

/-- Exact decimal number: the value is `m / 10^e`. -/
structure Dec where
  m : Int
  e : Nat
deriving Repr, Inhabited, DecidableEq

namespace Dec
def ofInt (n : Int) : Dec := ⟨n, 0⟩
/-- `a ≤ b` on the values. -/
def le (a b : Dec) : Bool := decide (a.m * (10 : Int) ^ b.e ≤ b.m * (10 : Int) ^ a.e)
/-- value equality (`1.0 = 1`). -/
def eq (a b : Dec) : Bool := decide (a.m * (10 : Int) ^ b.e = b.m * (10 : Int) ^ a.e)
/-- the value is a whole number (JSON Schema `integer`: `1.0` is an integer). -/
def isInt (a : Dec) : Bool := decide (a.m % ((10 : Int) ^ a.e) = 0)
/-- the whole number denoted, when `isInt`. -/
def toInt (a : Dec) : Int := a.m / ((10 : Int) ^ a.e)
end Dec

inductive JVal where
  | null
  | bool (b : Bool)
  | num (d : Dec)
  | str (s : String)
  | arr (xs : List JVal)
  | obj (kvs : List (String × JVal))
deriving Inhabited

abbrev Fields := List (String × JVal)

/-- First binding of `k` (objects are association lists; the harness sends unique sorted keys). -/
def lookupJ (k : String) : Fields → Option JVal
  | [] => none
  | (k', v) :: t => if k' = k then some v else lookupJ k t

def hasKey (k : String) (fs : Fields) : Bool := (lookupJ k fs).isSome

mutual
/-- JSON value equality: numbers by value, arrays pointwise, objects as maps (same size, every
binding of the left found equal on the right). -/
def JVal.eqv : JVal → JVal → Bool
  | .null, .null => true
  | .bool a, .bool b => a == b
  | .num a, .num b => a.eq b
  | .str a, .str b => a == b
  | .arr xs, .arr ys => eqvList xs ys
  | .obj xs, .obj ys => xs.length == ys.length && eqvFields xs ys
  | _, _ => false
def eqvList : List JVal → List JVal → Bool
  | [], [] => true
  | x :: xs, y :: ys => x.eqv y && eqvList xs ys
  | _, _ => false
def eqvFields : Fields → Fields → Bool
  | [], _ => true
  | (k, v) :: t, ys => (match lookupJ k ys with | some w => v.eqv w | none => false) && eqvFields t ys
end

def JVal.isObj : JVal → Bool
  | .obj _ => true
  | _ => false

end TypedTool
