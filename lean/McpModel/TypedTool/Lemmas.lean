import McpModel.TypedTool.Schema
/-!
E12 TypedTool (C16) — lemmas about the reference validator and default-filler
(structural induction on the schema; no bound on depth, width or value size).

* `fill_idem`     : filling defaults is idempotent (schemas with distinct property names per object).
* `fill_preserves_valid` : filling defaults never invalidates a valid instance, for schemas of the
  family (`DefaultsOk`): every default is valid for its own subschema (what
  `Resolve(ValidateDefaults: true)` enforces when the tool is registered), an optional property whose
  subschema has nested defaults but no default of its own accepts `{}`, and `enum`/`const` are not
  combined with `properties` on the same node.
-/
namespace TypedTool

/-! ### induction over schemas through `properties` -/

mutual
theorem Schema.ind {P : Schema → Prop}
    (h : ∀ c ps ap items, (∀ p ∈ ps, P p.2) → P (.mk c ps ap items)) : ∀ s, P s
  | .mk c ps ap items => h c ps ap items (Schema.indProps h ps)
theorem Schema.indProps {P : Schema → Prop}
    (h : ∀ c ps ap items, (∀ p ∈ ps, P p.2) → P (.mk c ps ap items)) : ∀ (ps : Props), ∀ p ∈ ps, P p.2
  | [], _, hp => absurd hp List.not_mem_nil
  | (_, s) :: t, p, hp => by
    cases List.mem_cons.1 hp with
    | inl e => subst e; exact Schema.ind h s
    | inr m => exact Schema.indProps h t p m
end

/-! ### well-formedness predicates -/

def keys (ps : Props) : List String := ps.map (·.1)

mutual
/-- every `properties` object, at every depth, has pairwise distinct names (JSON objects do) -/
def Keyed : Schema → Prop
  | .mk _ ps _ _ => (keys ps).Nodup ∧ KeyedProps ps
def KeyedProps : Props → Prop
  | [] => True
  | (_, s) :: t => Keyed s ∧ KeyedProps t
end

/-- the default of `s`, or the `{}` that `ApplyDefaults` creates for nested defaults, is valid for `s` -/
def defaultOk (s : Schema) : Prop :=
  match s.leaf.dflt with
  | some d => valid s d = true
  | none => hasDefaults s = true → valid s (.obj []) = true

mutual
def DefaultsOk : Schema → Prop
  | .mk c ps _ _ => (ps = [] ∨ (c.enum = none ∧ c.const = none)) ∧ DefaultsOkProps ps c.required
def DefaultsOkProps : Props → List String → Prop
  | [], _ => True
  | (k, s) :: t, req => DefaultsOk s ∧ (req.contains k = false → defaultOk s) ∧ DefaultsOkProps t req
end

theorem KeyedProps_mem {ps : Props} (h : KeyedProps ps) : ∀ p ∈ ps, Keyed p.2 := by
  induction ps with
  | nil => intro p hp; cases hp
  | cons a t ih =>
    obtain ⟨k, s⟩ := a
    simp only [KeyedProps] at h
    intro p hp
    cases List.mem_cons.1 hp with
    | inl e => subst e; exact h.1
    | inr m => exact ih h.2 p m

theorem DefaultsOkProps_mem {ps : Props} {req : List String} (h : DefaultsOkProps ps req) :
    ∀ p ∈ ps, DefaultsOk p.2 ∧ (req.contains p.1 = false → defaultOk p.2) := by
  induction ps with
  | nil => intro p hp; cases hp
  | cons a t ih =>
    obtain ⟨k, s⟩ := a
    simp only [DefaultsOkProps] at h
    intro p hp
    cases List.mem_cons.1 hp with
    | inl e => subst e; exact ⟨h.1, h.2.1⟩
    | inr m => exact ih h.2.2 p m

/-! ### association-list facts -/

theorem lookupP_mem {k : String} {s : Schema} {ps : Props} (h : lookupP k ps = some s) : (k, s) ∈ ps := by
  induction ps with
  | nil => simp [lookupP] at h
  | cons a t ih =>
    obtain ⟨k', s'⟩ := a
    simp only [lookupP] at h
    split at h
    · rename_i e; cases h; subst e; exact List.mem_cons_self
    · exact List.mem_cons_of_mem _ (ih h)

theorem lookupP_of_mem {k : String} {s : Schema} {ps : Props} (hn : (keys ps).Nodup) (h : (k, s) ∈ ps) :
    lookupP k ps = some s := by
  induction ps with
  | nil => cases h
  | cons a t ih =>
    obtain ⟨k', s'⟩ := a
    simp only [keys, List.map_cons, List.nodup_cons] at hn
    simp only [lookupP]
    cases List.mem_cons.1 h with
    | inl e => cases e; simp
    | inr m =>
      have hk : k' ≠ k := by
        intro e; subst e
        exact hn.1 (List.mem_map.2 ⟨(k', s), m, rfl⟩)
      simp only [hk, if_false]
      exact ih hn.2 m

theorem lookupP_none_iff {k : String} {ps : Props} : lookupP k ps = none ↔ propsHasKey k ps = false := by
  induction ps with
  | nil => simp [lookupP, propsHasKey]
  | cons a t ih =>
    obtain ⟨k', s'⟩ := a
    simp only [lookupP, propsHasKey]
    by_cases e : k' = k <;> simp [e, ih]

theorem propsHasKey_of_mem {k : String} {s : Schema} {ps : Props} (h : (k, s) ∈ ps) : propsHasKey k ps = true := by
  induction ps with
  | nil => cases h
  | cons a t ih =>
    obtain ⟨k', s'⟩ := a
    simp only [propsHasKey]
    cases List.mem_cons.1 h with
    | inl e => cases e; simp
    | inr m => simp [ih m]

theorem lookupJ_mem {k : String} {v : JVal} {fs : Fields} (h : lookupJ k fs = some v) : (k, v) ∈ fs := by
  induction fs with
  | nil => simp [lookupJ] at h
  | cons a t ih =>
    obtain ⟨k', v'⟩ := a
    simp only [lookupJ] at h
    split at h
    · rename_i e; cases h; subst e; exact List.mem_cons_self
    · exact List.mem_cons_of_mem _ (ih h)

theorem lookupJ_isSome_of_mem {k : String} {v : JVal} {fs : Fields} (h : (k, v) ∈ fs) : (lookupJ k fs).isSome = true := by
  induction fs with
  | nil => cases h
  | cons a t ih =>
    obtain ⟨k', v'⟩ := a
    simp only [lookupJ]
    cases List.mem_cons.1 h with
    | inl e => cases e; simp
    | inr m => split <;> simp [ih m]

theorem lookupJ_map (h : String → JVal → JVal) (k : String) (fs : Fields) :
    lookupJ k (fs.map (fun kv => (kv.1, h kv.1 kv.2))) = (lookupJ k fs).map (h k) := by
  induction fs with
  | nil => simp [lookupJ]
  | cons a t ih =>
    obtain ⟨k', v'⟩ := a
    simp only [List.map_cons, lookupJ]
    split
    · rename_i e; subst e; simp
    · exact ih

theorem lookupJ_append (k : String) (a b : Fields) :
    lookupJ k (a ++ b) = match lookupJ k a with | some v => some v | none => lookupJ k b := by
  induction a with
  | nil => simp [lookupJ]
  | cons x t ih =>
    obtain ⟨k', v'⟩ := x
    simp only [List.cons_append, lookupJ]
    split
    · rfl
    · exact ih

/-! ### `fillAt`, `adds` -/

theorem fillAt_eq (ps : Props) (k : String) (v : JVal) :
    fillAt ps k v = match lookupP k ps with | some s => fill s v | none => v := by
  induction ps with
  | nil => simp [fillAt, lookupP]
  | cons a t ih =>
    obtain ⟨k', s'⟩ := a
    simp only [fillAt, lookupP]
    split
    · rfl
    · exact ih

/-- what `adds` can add: a filled default, or a filled `{}` for nested defaults -/
theorem adds_mem {t : Props} {req : List String} {fs : Fields} {k : String} {y : JVal}
    (h : (k, y) ∈ adds t req fs) :
    ∃ s d, (k, s) ∈ t ∧ req.contains k = false ∧ hasKey k fs = false ∧ y = fill s d ∧
      (s.leaf.dflt = some d ∨ (s.leaf.dflt = none ∧ hasDefaults s = true ∧ d = .obj [])) := by
  induction t with
  | nil => simp [adds] at h
  | cons a t ih =>
    obtain ⟨k', s'⟩ := a
    simp only [adds, List.mem_append] at h
    cases h with
    | inl h1 =>
      split at h1
      · cases h1
      · rename_i hc
        have hc' : req.contains k' = false ∧ hasKey k' fs = false := by
          simpa [Bool.or_eq_true, not_or] using hc
        split at h1
        · rename_i d hd
          simp only [List.mem_singleton, Prod.mk.injEq] at h1
          obtain ⟨e1, e2⟩ := h1
          subst e1
          exact ⟨s', d, List.mem_cons_self, hc'.1, hc'.2, e2, Or.inl hd⟩
        · rename_i hd
          split at h1
          · rename_i hh
            simp only [List.mem_singleton, Prod.mk.injEq] at h1
            obtain ⟨e1, e2⟩ := h1
            subst e1
            exact ⟨s', .obj [], List.mem_cons_self, hc'.1, hc'.2, e2, Or.inr ⟨hd, hh, rfl⟩⟩
          · cases h1
    | inr h2 =>
      obtain ⟨s, d, hm, r⟩ := ih h2
      exact ⟨s, d, List.mem_cons_of_mem _ hm, r⟩

/-- a declared, optional, missing property that has a default (or nested defaults) does get added -/
theorem hasKey_adds {t : Props} {req : List String} {fs : Fields} {k : String} {s : Schema}
    (hm : (k, s) ∈ t) (hr : req.contains k = false) (hk : hasKey k fs = false)
    (hd : s.leaf.dflt ≠ none ∨ hasDefaults s = true) : hasKey k (adds t req fs) = true := by
  induction t with
  | nil => cases hm
  | cons a t ih =>
    obtain ⟨k', s'⟩ := a
    simp only [adds, hasKey, lookupJ_append]
    cases List.mem_cons.1 hm with
    | inl e =>
      cases e
      have hk' : (lookupJ k fs).isSome = false := hk
      simp only [hr, hk', Bool.or_self, Bool.false_eq_true, if_false]
      cases hdf : s.leaf.dflt with
      | some d => simp [lookupJ]
      | none =>
        have : hasDefaults s = true := by
          cases hd with
          | inl h => exact absurd hdf h
          | inr h => exact h
        simp [this, lookupJ]
    | inr m =>
      have := ih m
      simp only [hasKey] at this
      split
      · rfl
      · exact this

theorem adds_eq_nil {t : Props} {req : List String} {fs : Fields}
    (h : ∀ p ∈ t, req.contains p.1 = true ∨ hasKey p.1 fs = true ∨ (p.2.leaf.dflt = none ∧ hasDefaults p.2 = false)) :
    adds t req fs = [] := by
  induction t with
  | nil => simp [adds]
  | cons a t ih =>
    obtain ⟨k', s'⟩ := a
    simp only [adds]
    rw [ih (fun p hp => h p (List.mem_cons_of_mem _ hp))]
    simp only [List.append_nil]
    rcases h (k', s') List.mem_cons_self with h1 | h1 | ⟨h1, h2⟩
    · have h1' : req.contains k' = true := h1
      have : (req.contains k' || hasKey k' fs) = true := by rw [h1']; rfl
      rw [if_pos this]
    · have h1' : hasKey k' fs = true := h1
      have : (req.contains k' || hasKey k' fs) = true := by rw [h1', Bool.or_true]
      rw [if_pos this]
    · have h1' : s'.leaf.dflt = none := h1
      have h2' : hasDefaults s' = false := h2
      split
      · rfl
      · simp [h1', h2']

/-! ### `fill` on an object, unfolded -/

/-- the per-binding part of `fill` -/
def fillField (c : Leaf) (ps : Props) (k : String) (x : JVal) : JVal :=
  if c.required.contains k then x else fillAt ps k x

theorem fill_obj (c : Leaf) (ps : Props) (ap items : Option Schema) (fs : Fields) :
    fill (.mk c ps ap items) (.obj fs) =
      .obj (fs.map (fun kv => (kv.1, fillField c ps kv.1 kv.2)) ++ adds ps c.required fs) := by
  simp only [fill, fillField]

theorem fill_not_obj (s : Schema) (v : JVal) (h : v.isObj = false) : fill s v = v := by
  obtain ⟨c, ps, ap, items⟩ := s
  cases v <;> simp_all [fill, JVal.isObj]

theorem hasKey_fill_obj {c : Leaf} {ps : Props} {fs : Fields} {k : String} (h : hasKey k fs = true) :
    hasKey k (fs.map (fun kv => (kv.1, fillField c ps kv.1 kv.2)) ++ adds ps c.required fs) = true := by
  simp only [hasKey, lookupJ_append, lookupJ_map] at *
  cases hl : lookupJ k fs with
  | none => simp [hl] at h
  | some v => simp

/-! ### idempotence -/

theorem fill_idem : ∀ (s : Schema), Keyed s → ∀ v, fill s (fill s v) = fill s v := by
  intro s
  refine Schema.ind (P := fun s => Keyed s → ∀ v, fill s (fill s v) = fill s v) ?_ s
  intro c ps ap items ih hk v
  simp only [Keyed] at hk
  obtain ⟨hnd, hkp⟩ := hk
  have ihp : ∀ k s, (k, s) ∈ ps → ∀ v, fill s (fill s v) = fill s v :=
    fun k s hm => ih (k, s) hm (KeyedProps_mem hkp (k, s) hm)
  -- the per-binding part is idempotent
  have hfield : ∀ k x, fillField c ps k (fillField c ps k x) = fillField c ps k x := by
    intro k x
    simp only [fillField]
    split
    · rfl
    · simp only [fillAt_eq]
      cases hl : lookupP k ps with
      | none => rfl
      | some s => exact ihp k s (lookupP_mem hl) x
  cases v with
  | obj fs =>
    simp only [fill_obj]
    congr 1
    -- second pass over F = fs.map f ++ A
    have hA : ∀ e ∈ adds ps c.required fs, (e.1, fillField c ps e.1 e.2) = e := by
      intro e he
      obtain ⟨k, y⟩ := e
      obtain ⟨s, d, hm, hr, _, hy, _⟩ := adds_mem he
      simp only [fillField, hr, Bool.false_eq_true, if_false, fillAt_eq, lookupP_of_mem hnd hm]
      rw [hy, ihp k s hm d]
    have hadds : adds ps c.required (fs.map (fun kv => (kv.1, fillField c ps kv.1 kv.2)) ++ adds ps c.required fs) = [] := by
      apply adds_eq_nil
      intro p hp
      obtain ⟨k, s⟩ := p
      by_cases hr : c.required.contains k = true
      · exact Or.inl hr
      · have hr' : c.required.contains k = false := by simpa using hr
        by_cases hd : s.leaf.dflt = none ∧ hasDefaults s = false
        · exact Or.inr (Or.inr hd)
        · refine Or.inr (Or.inl ?_)
          cases hkf : hasKey k fs with
          | true => exact hasKey_fill_obj hkf
          | false =>
            have hd' : s.leaf.dflt ≠ none ∨ hasDefaults s = true := by
              by_cases h1 : s.leaf.dflt = none
              · right
                cases hh : hasDefaults s with
                | true => rfl
                | false => exact absurd ⟨h1, hh⟩ hd
              · left; exact h1
            have := hasKey_adds (t := ps) (req := c.required) (fs := fs) hp hr' hkf hd'
            simp only [hasKey, lookupJ_append, lookupJ_map] at *
            cases hl : lookupJ k fs with
            | some v => simp
            | none => simpa using this
    rw [hadds, List.append_nil, List.map_append, List.map_map]
    congr 1
    · apply List.map_congr_left
      intro kv _
      simp only [Function.comp, hfield]
    · conv => rhs; rw [← List.map_id (adds ps c.required fs)]
      apply List.map_congr_left
      intro e he
      simpa using hA e he
  | null => simp [fill]
  | bool b => simp [fill]
  | num d => simp [fill]
  | str s => simp [fill]
  | arr xs => simp [fill]

/-! ### validity is preserved -/

theorem validProps_mem {ps : Props} {fs : Fields} (h : validProps ps fs = true) {k : String} {s : Schema} {x : JVal}
    (hm : (k, s) ∈ ps) (hl : lookupJ k fs = some x) : valid s x = true := by
  induction ps with
  | nil => cases hm
  | cons a t ih =>
    obtain ⟨k', s'⟩ := a
    simp only [validProps, Bool.and_eq_true] at h
    cases List.mem_cons.1 hm with
    | inl e => cases e; simpa [hl] using h.1
    | inr m => exact ih h.2 m

theorem validProps_of {t : Props} {fs : Fields}
    (h : ∀ k s x, (k, s) ∈ t → lookupJ k fs = some x → valid s x = true) : validProps t fs = true := by
  induction t with
  | nil => simp [validProps]
  | cons a t ih =>
    obtain ⟨k', s'⟩ := a
    simp only [validProps, Bool.and_eq_true]
    refine ⟨?_, ih (fun k s x hm => h k s x (List.mem_cons_of_mem _ hm))⟩
    cases hl : lookupJ k' fs with
    | none => rfl
    | some x => exact h k' s' x List.mem_cons_self hl

theorem hasType_obj (t : Ty) (a b : Fields) : hasType t (.obj a) = hasType t (.obj b) := by
  cases t <;> rfl

theorem fill_preserves_valid : ∀ (s : Schema), Keyed s → DefaultsOk s → ∀ v, valid s v = true → valid s (fill s v) = true := by
  intro s
  refine Schema.ind (P := fun s => Keyed s → DefaultsOk s → ∀ v, valid s v = true → valid s (fill s v) = true) ?_ s
  intro c ps ap items ih hk hd v hv
  cases hobj : v.isObj with
  | false => rw [fill_not_obj _ _ hobj]; exact hv
  | true =>
  cases v with
  | obj fs =>
    simp only [Keyed] at hk
    obtain ⟨hnd, hkp⟩ := hk
    simp only [DefaultsOk] at hd
    obtain ⟨hec, hdp⟩ := hd
    have ihp : ∀ k s, (k, s) ∈ ps → ∀ v, valid s v = true → valid s (fill s v) = true :=
      fun k s hm => ih (k, s) hm (KeyedProps_mem hkp (k, s) hm) (DefaultsOkProps_mem hdp (k, s) hm).1
    simp only [valid, Bool.and_eq_true] at hv
    obtain ⟨hleaf, hprops, hap⟩ := hv
    rw [fill_obj]
    simp only [valid, Bool.and_eq_true]
    -- a binding is changed only through the subschema declared for its key
    have hfield_nokey : ∀ k x, propsHasKey k ps = false → fillField c ps k x = x := by
      intro k x hn
      simp only [fillField, fillAt_eq, lookupP_none_iff.2 hn]
      split <;> rfl
    refine ⟨?_, ?_, ?_⟩
    · -- node-local keywords
      simp only [leafOk, Bool.and_eq_true] at hleaf ⊢
      obtain ⟨⟨⟨⟨⟨h1, h2⟩, h3⟩, _⟩, _⟩, h6⟩ := hleaf
      refine ⟨⟨⟨⟨⟨?_, ?_⟩, ?_⟩, ?_⟩, ?_⟩, ?_⟩
      · simp only [typeOk, Bool.or_eq_true, List.any_eq_true] at h1 ⊢
        cases h1 with
        | inl h => exact Or.inl h
        | inr h => obtain ⟨t, ht, hh⟩ := h; exact Or.inr ⟨t, ht, by rw [hasType_obj t _ fs]; exact hh⟩
      · cases hec with
        | inl hnil =>
          subst hnil
          have : (fs.map (fun kv => (kv.1, fillField c [] kv.1 kv.2)) ++ adds [] c.required fs) = fs := by
            simp only [adds, List.append_nil]
            conv => rhs; rw [← List.map_id fs]
            apply List.map_congr_left
            intro kv _
            simp [hfield_nokey kv.1 kv.2 (by simp [propsHasKey])]
          rw [this]; exact h2
        | inr hn => simp [enumOk, hn.1]
      · cases hec with
        | inl hnil =>
          subst hnil
          have : (fs.map (fun kv => (kv.1, fillField c [] kv.1 kv.2)) ++ adds [] c.required fs) = fs := by
            simp only [adds, List.append_nil]
            conv => rhs; rw [← List.map_id fs]
            apply List.map_congr_left
            intro kv _
            simp [hfield_nokey kv.1 kv.2 (by simp [propsHasKey])]
          rw [this]; exact h3
        | inr hn => simp [constOk, hn.2]
      · simp [numOk]
      · simp [strOk]
      · simp only [requiredOk, List.all_eq_true] at h6 ⊢
        intro k hkr
        exact hasKey_fill_obj (h6 k hkr)
    · -- declared properties
      apply validProps_of
      intro k s x hm hl
      have hlp := lookupP_of_mem hnd hm
      rw [lookupJ_append, lookupJ_map] at hl
      cases hl0 : lookupJ k fs with
      | some x0 =>
        simp only [hl0, Option.map_some] at hl
        cases hl
        have hvx : valid s x0 = true := validProps_mem hprops hm hl0
        simp only [fillField]
        split
        · exact hvx
        · simp only [fillAt_eq, hlp]
          exact ihp k s hm x0 hvx
      | none =>
        simp only [hl0, Option.map_none] at hl
        obtain ⟨s', d, hm', hr, _, hy, hdd⟩ := adds_mem (lookupJ_mem hl)
        have hs : s' = s := by
          have := lookupP_of_mem hnd hm'
          rw [hlp] at this
          cases this; rfl
        subst hs
        have hdo := (DefaultsOkProps_mem hdp (k, s') hm).2 hr
        rw [hy]
        apply ihp k s' hm
        simp only [defaultOk] at hdo
        rcases hdd with hdd | ⟨hdn, hhd, hde⟩
        · simpa [hdd] using hdo
        · subst hde
          simp only [hdn] at hdo
          exact hdo hhd
    · -- additional properties
      simp only [List.all_append, Bool.and_eq_true, List.all_eq_true, List.mem_map] at hap ⊢
      refine ⟨?_, ?_⟩
      · intro e he
        obtain ⟨kv, hkv, rfl⟩ := he
        have h0 := hap kv hkv
        cases hpk : propsHasKey kv.1 ps with
        | true => simp
        | false =>
          simp only [hpk, Bool.false_or] at h0
          simp only [Bool.false_or, hfield_nokey kv.1 kv.2 hpk]
          exact h0
      · intro e he
        obtain ⟨k, y⟩ := e
        obtain ⟨s', _, hm', _⟩ := adds_mem he
        simp [propsHasKey_of_mem hm']
  | null => cases hobj
  | bool b => cases hobj
  | num d => cases hobj
  | str s => cases hobj
  | arr xs => cases hobj

end TypedTool
