import McpModel.TypedTool.Model
/-!
E12 TypedTool (C16) — REGISTRATION: which schema a typed tool ends up *enforcing*.

`toolForErr` (mcp/server.go) fixes, per tool and per side (input / output), two things:
  * the schema the tool *publishes* (`Tool.InputSchema` / `Tool.OutputSchema`, what tools/list shows);
  * the resolved schema the wrapper *enforces* (`inputResolved` / `outputResolved`: defaults + validation).
Both come out of `setSchema` (mcp/server.go), which consults the optional, shared `SchemaCache`
(mcp/schema_cache.go): `byType` (Go type, pointers stripped ↦ schema inferred from the type) and
`bySchema` (identity of a `*jsonschema.Schema` ↦ its resolution). A cache outlives servers (the
documented use is one `Server` per request, all sharing one cache), so what a tool enforces depends on
the HISTORY of registrations made through that cache. This file transliterates `setSchema`, the two
calls in `toolForErr`, and histories of `NewServer`/`AddTool` over any number of caches.

One label = one branch of `setSchema`:
  no schema given   : `byType` hit  ↦ published = enforced = cached          (no reflection, no resolve)
                      `byType` miss ↦ infer, resolve, store under the type
  `*Schema` given   : `bySchema` hit  ↦ published = given, enforced = cached resolution
                      `bySchema` miss ↦ resolve, store under the pointer
  other form given  : re-marshal to a fresh `*Schema`, resolve, nothing stored
`Resolve(ValidateDefaults)` may fail (`resolves`); then `AddTool` panics and nothing is stored by that
call of `setSchema` (what an earlier call of the same `AddTool` stored stays).  Core Lean only.
-/
namespace TypedTool

/-- One side of what `AddTool` is handed: the schema's content and, when it is a `*jsonschema.Schema`
the caller may hand in again, the identity of that pointer. -/
structure Given (S : Type) where
  ptr : Option Nat
  content : S

/-- `SchemaCache`: association lists, newest binding first. -/
structure Cache (K S : Type) where
  byType : List (K × S) := []
  bySchema : List (Nat × S) := []

/-- What registration is parametric in. -/
structure RegEnv (K S : Type) where
  /-- `jsonschema.ForType(rt)` for the Go type named `k` (pointers stripped) -/
  derive : K → S
  /-- `schema.Resolve(ValidateDefaults: true)` succeeds -/
  resolves : S → Bool
  /-- `&jsonschema.Schema{Type: "object"}`: the input schema of a tool whose `In` is `any` -/
  objectSchema : S

/-- The two results of `setSchema`: `*sfield` and `*rfield`. -/
structure Resolution (S : Type) where
  published : S
  enforced : S

variable {K S : Type} [DecidableEq K]

def assoc {A B : Type} [DecidableEq A] (a : A) : List (A × B) → Option B
  | [] => none
  | (x, b) :: t => if x = a then some b else assoc a t

/-- `setSchema` (mcp/server.go). `none` = error (the registration fails). -/
def setSchema (R : RegEnv K S) (c : Cache K S) (k : K) : Option (Given S) → Option (Resolution S) × Cache K S
  | none =>
    match assoc k c.byType with
    | some s => (some ⟨s, s⟩, c)
    | none =>
      let s := R.derive k
      if R.resolves s then (some ⟨s, s⟩, { c with byType := (k, s) :: c.byType }) else (none, c)
  | some g =>
    match g.ptr with
    | some p =>
      match assoc p c.bySchema with
      | some r => (some ⟨g.content, r⟩, c)
      | none =>
        if R.resolves g.content then (some ⟨g.content, g.content⟩, { c with bySchema := (p, g.content) :: c.bySchema })
        else (none, c)
    | none => if R.resolves g.content then (some ⟨g.content, g.content⟩, c) else (none, c)

/-- The schema-relevant part of `AddTool[In, Out](s, &Tool{InputSchema, OutputSchema}, h)`. -/
structure Decl (K S : Type) where
  inKey : K
  /-- `In` is `any` -/
  inAny : Bool
  inGiven : Option (Given S)
  outKey : K
  /-- `Out` is `any` -/
  outAny : Bool
  outGiven : Option (Given S)

/-- What the server holds for a registered tool. -/
structure Entry (S : Type) where
  pubIn : S
  enfIn : S
  pubOut : Option S
  enfOut : Option S

/-- `toolForErr`, the part before the handler closure: `In = any` without a schema is given a fresh
`{"type":"object"}`; the output side is skipped when `Out = any` and no schema is given. -/
def register (R : RegEnv K S) (c : Cache K S) (d : Decl K S) : Option (Entry S) × Cache K S :=
  let gi := if d.inAny && d.inGiven.isNone then some ⟨none, R.objectSchema⟩ else d.inGiven
  match setSchema R c d.inKey gi with
  | (none, c1) => (none, c1)
  | (some ri, c1) =>
    if d.outGiven.isSome || !d.outAny then
      match setSchema R c1 d.outKey d.outGiven with
      | (none, c2) => (none, c2)
      | (some ro, c2) => (some ⟨ri.published, ri.enforced, some ro.published, some ro.enforced⟩, c2)
    else (some ⟨ri.published, ri.enforced, none, none⟩, c1)

/-- The tool's OWN input schema: the one it declares, else the one inferred from `In`. -/
def Decl.ownIn (R : RegEnv K S) (d : Decl K S) : S :=
  match d.inGiven with
  | some g => g.content
  | none => if d.inAny then R.objectSchema else R.derive d.inKey

/-- The tool's OWN output schema: the one it declares, else the one inferred from `Out`; none for
`Out = any` without a declared schema. -/
def Decl.ownOut (R : RegEnv K S) (d : Decl K S) : Option S :=
  match d.outGiven with
  | some g => some g.content
  | none => if d.outAny then none else some (R.derive d.outKey)

/-! ### histories -/

/-- A step of a program using the SDK: make a server on cache `cache` (`none`: no cache), or add a
typed tool to the current server (replacing a tool of the same name). -/
inductive RegOp (K S : Type) where
  | server (cache : Option Nat)
  | add (name : String) (d : Decl K S)

structure World (K S : Type) where
  caches : List (Nat × Cache K S) := []
  /-- the cache of the current server -/
  cur : Option Nat := none
  /-- the current server's tools, newest first -/
  tools : List (String × Decl K S × Entry S) := []

def World.cacheOf (w : World K S) : Cache K S :=
  match w.cur with
  | none => {}
  | some i => (assoc i w.caches).getD {}

/-- Store the cache back (a server without a cache stores nothing). -/
def World.putCache (w : World K S) (c : Cache K S) : List (Nat × Cache K S) :=
  match w.cur with
  | none => w.caches
  | some i => (i, c) :: w.caches

def World.step (R : RegEnv K S) (w : World K S) : RegOp K S → World K S
  | .server cache => { w with cur := cache, tools := [] }
  | .add name d =>
    match register R w.cacheOf d with
    | (none, c) => { w with caches := w.putCache c }
    | (some e, c) => { w with caches := w.putCache c, tools := (name, d, e) :: w.tools.filter (·.1 ≠ name) }

def World.run (R : RegEnv K S) (w : World K S) (ops : List (RegOp K S)) : World K S :=
  ops.foldl (World.step R) w

/-- The wrapper's view of a registered tool. -/
def Entry.tool (e : Entry S) (outRootObject : S → Bool) (elemZero : Option JVal) (decodeIn : JVal → Option JVal) : Tool S :=
  { inSchema := e.enfIn, outSchema := e.enfOut
    outRootObject := match e.enfOut with | some s => outRootObject s | none => false
    elemZero := elemZero, decodeIn := decodeIn }

/-- The tool as its declaration describes it. -/
def Decl.tool (R : RegEnv K S) (d : Decl K S) (outRootObject : S → Bool) (elemZero : Option JVal)
    (decodeIn : JVal → Option JVal) : Tool S :=
  { inSchema := d.ownIn R, outSchema := d.ownOut R
    outRootObject := match d.ownOut R with | some s => outRootObject s | none => false
    elemZero := elemZero, decodeIn := decodeIn }

/-! ### a variant that is NOT what the code does (for the counter-example in Props) -/

/-- `setSchema` with the `byType` lookup hoisted above the test for a given schema ("a hit saves both
reflection and resolution"): on a hit the tool keeps publishing its own schema but enforces the cached
one. -/
def setSchemaHoisted (R : RegEnv K S) (c : Cache K S) (k : K) (g : Option (Given S)) : Option (Resolution S) × Cache K S :=
  match assoc k c.byType with
  | some s => (some ⟨(g.map (·.content)).getD s, s⟩, c)
  | none => setSchema R c k g

end TypedTool
