import McpModel.TypedTool.Schema
import McpModel.Generated.TypedToolGen
/-!
E12 TypedTool (C16) — the typed tool wrapper of `toolForErr` (mcp/server.go:353-446) and
`applySchema` (mcp/tool.go:75-142), transliterated; parametric in the validator.

Control flow (one definition per step of the Go code):
  `argsMap`   tool.go:96-102   arguments → map[string]any   (absent ↦ {}, null ↦ {} — F12 repaired —,
                                object ↦ itself, anything else ↦ "unmarshaling arguments" error)
  `applyIn`   tool.go:111-141  ApplyDefaults, Validate, re-marshal
  decode      server.go:368-375 internaljson.Unmarshal(input, &in)
  handler     server.go:378-392 error ↦ tool error (plain) or protocol error (*jsonrpc.Error)
  `outJson`   server.go:401-417 nil `any` ↦ nothing without an output schema, JSON null with one (F16
                                repaired); typed nil pointer ↦ zero value of the element type
  `applyOut`  server.go:413-426 + tool.go:103-141 (forOutput): defaults on objects, `null` coerced to {}
                                when the root type is "object", validate, re-marshal only if defaulted
  content     server.go:435-443 text fallback

  `deliver`   server.go `(*Server).callTool` after the wrapper returned: the PROTOCOL VERSION of the session
                                enters here and only here (`handleMultiRoundTripResult`: a result is marked
                                `resultType: complete` for a peer on `multiRoundTripSince` or later); the
                                members of the wrapper's result — structured content, content, isError — are
                                handed on as they are, at every version (`Generated.TypedTool.callToolAssigns`)
  `serve`     the wrapper and the dispatcher: what a peer at a given protocol version is answered

`Env.remarshal` is the loss of `JSON text → map[string]any / any → JSON text`; it is the identity for
every value whose numbers Go represents exactly (see `GoTy.lean`).  Core Lean only.
-/
namespace TypedTool

/-- What the wrapper is parametric in. -/
structure Env (S : Type) where
  fill : S → JVal → JVal
  valid : S → JVal → Bool
  /-- decoding a JSON text into `map[string]any`/`any` (and printing it again) -/
  remarshal : JVal → JVal

/-- The `arguments` member of tools/call as it reaches the wrapper. -/
inductive Args where
  | absent
  | val (v : JVal)
deriving Inhabited

/-- What `toolForErr` fixes when the tool is registered. -/
structure Tool (S : Type) where
  inSchema : S
  /-- `outputResolved`; `none` ⇔ `Out = any` and no explicit output schema -/
  outSchema : Option S
  /-- `resolved.Schema().Type == "object"` for the output schema -/
  outRootObject : Bool
  /-- JSON of the zero value of `Out`'s element type, iff `Out` is a pointer type -/
  elemZero : Option JVal
  /-- `internaljson.Unmarshal(input, &in)`: the typed input, observed re-encoded; `none` = error -/
  decodeIn : JVal → Option JVal

/-- The `Out` value a typed handler returns. -/
inductive OutVal where
  | nilAny            -- `Out = any`, nil interface: `outval == nil`
  | nilPtr            -- typed nil pointer (`any(out) == any(z)`)
  | json (j : JVal)   -- anything else, as `json.Marshal` renders it
deriving Inhabited

inductive HErr where
  | plain   -- an ordinary error: embedded in the result
  | rpc     -- a *jsonrpc.Error: returned as a protocol error
deriving DecidableEq, Inhabited

inductive Block where
  | text (s : String)     -- a block supplied by the handler
  | jsonOf (j : JVal)     -- a TextContent holding the serialised structured content
  | errText               -- a TextContent holding an error message
deriving Inhabited

/-- What the handler returns for the input it is given. -/
structure HRet where
  err : Option HErr := none
  /-- `res.Content`; `none` when `res == nil` or `res.Content == nil` -/
  content : Option (List Block) := none
  out : OutVal := .nilAny
deriving Inhabited

inductive Kind where
  | ok | toolError | rpcError
deriving DecidableEq, Repr, Inhabited

/-- What the caller of `tools/call` gets, plus what happened inside. -/
structure Outcome where
  /-- `some x` ⇔ the handler ran, and `x` is the input it observed -/
  seen : Option JVal
  kind : Kind
  structured : Option JVal
  content : List Block
deriving Inhabited

/-- tool.go:96-102 (with the F12 repair: a nil map is replaced by an empty one). -/
def argsMap : Args → Option JVal
  | .absent => some (.obj [])
  | .val .null => some (.obj [])
  | .val (.obj fs) => some (.obj fs)
  | .val _ => none

variable {S : Type}

/-- the argument object as the server decodes it -/
def decoded (E : Env S) (a : Args) : Option JVal := (argsMap a).map E.remarshal

/-- … with the input schema's defaults applied -/
def defaulted (E : Env S) (s : S) (a : Args) : Option JVal := (decoded E a).map (E.fill s)

/-- `applySchema(input, inputResolved, false)`: the defaulted arguments, or `none` for an error. -/
def applyIn (E : Env S) (s : S) (a : Args) : Option JVal :=
  match defaulted E s a with
  | none => none
  | some d => if E.valid s d then some d else none

/-- server.go:401-417: the JSON the wrapper marshals for the handler's output, if any. A nil `any` is
skipped when no output schema is declared, and treated as JSON `null` when one is (F16 repaired). -/
def outJson (t : Tool S) : OutVal → Option JVal
  | .nilAny => if t.outSchema.isSome then some .null else none
  | .nilPtr => some (t.elemZero.getD .null)
  | .json j => some j

/-- the value `applySchema(…, forOutput)` validates for output `j` under schema `s`, and whether it was
re-marshalled (defaults applied) -/
def outForm (E : Env S) (t : Tool S) (s : S) (j : JVal) : JVal × Bool :=
  match E.remarshal j with
  | .obj fs => (E.fill s (.obj fs), true)
  | .null => if t.outRootObject then (E.fill s (.obj []), true) else (.null, false)
  | u => (u, false)

/-- `applySchema(outJSON, outputResolved, true)`: the structured content, or `none` for an error. -/
def applyOut (E : Env S) (t : Tool S) (j : JVal) : Option JVal :=
  match t.outSchema with
  | none => some j
  | some s =>
    let (v, applied) := outForm E t s j
    if E.valid s v then some (if applied then v else j) else none

def errorOutcome (seen : Option JVal) : Outcome :=
  { seen := seen, kind := .toolError, structured := none, content := [.errText] }

/-- server.go:435-443 -/
def finalContent (c : Option (List Block)) (sc : JVal) : List Block :=
  match c with
  | none => [.jsonOf sc]
  | some c => if sc.isObj then c else c ++ [.jsonOf sc]

/-- The wrapper `th` built by `toolForErr`. -/
def call (E : Env S) (t : Tool S) (h : JVal → HRet) (a : Args) : Outcome :=
  match applyIn E t.inSchema a with
  | none => errorOutcome none
  | some d =>
    match t.decodeIn d with
    | none => errorOutcome none
    | some x =>
      let r := h x
      match r.err with
      | some .rpc => { seen := some x, kind := .rpcError, structured := none, content := [] }
      | some .plain => errorOutcome (some x)
      | none =>
        match outJson t r.out with
        | none => { seen := some x, kind := .ok, structured := none, content := r.content.getD [] }
        | some j =>
          match applyOut E t j with
          | none => { seen := some x, kind := .rpcError, structured := none, content := [] }
          | some sc => { seen := some x, kind := .ok, structured := some sc, content := finalContent r.content sc }

/-! ### the dispatcher: what reaches a peer that speaks a given protocol version -/

/-- the `resultType` member of a result on the wire -/
inductive RType where
  | complete | inputRequired
deriving DecidableEq, Repr, Inhabited

/-- What `(*Server).callTool` hands to the JSON-RPC layer: the wrapper's outcome and the `resultType` it is
marked with (`none`: the member is absent). -/
structure Delivered where
  out : Outcome
  resultType : Option RType
deriving Inhabited

/-- mcp/mrtr.go `clientSupportsMultiRoundTrip`: `protocolVersion >= multiRoundTripSince` (Go compares the
version strings; so does this). -/
def supportsMultiRoundTrip (since v : String) : Bool := !decide (v < since)

/-- server.go `(*Server).callTool` after `st.handler` returned (the typed handlers of the harness never set
input requests): an error of the wrapper is passed on as it is; a result is marked `complete` for a peer that
supports multi round trip (`handleMultiRoundTripResult`), and nil content is replaced by the empty list (the
same `Outcome`: `content = []`). No other member of the result is touched — `callToolAssigns = ["Content"]`,
re-checked against the regenerated table by `Props.dispatcher_assigns_only_content`. -/
def deliver (mrt : Bool) (o : Outcome) : Delivered :=
  match o.kind with
  | .rpcError => { out := o, resultType := none }
  | _ => { out := o, resultType := if mrt then some .complete else none }

/-- **The wrapper model with the protocol version as a parameter**: what a peer whose session runs at
protocol version `v` is answered by a server whose multi-round-trip threshold is `since`. -/
def serve (since v : String) (E : Env S) (t : Tool S) (h : JVal → HRet) (a : Args) : Delivered :=
  deliver (supportsMultiRoundTrip since v) (call E t h a)

/-- … for the SDK as it is (regenerated threshold) -/
def serveAt (v : String) (E : Env S) (t : Tool S) (h : JVal → HRet) (a : Args) : Delivered :=
  serve Generated.TypedTool.multiRoundTripSince v E t h a

/-- The environment built from the reference validator. -/
def refEnv (remarshal : JVal → JVal) : Env Schema := { fill := fill, valid := valid, remarshal := remarshal }

end TypedTool
