import McpModel.TypedTool.GoTy
import McpModel.TypedTool.Registry
/-!
E12 TypedTool (C16) — the TYPED CORE of the driver: the C16 monitor on typed data.

`Driver.lean` keeps the string layer only (token parser, renderer, clause texts): it parses a record
into a typed event (`ToolEv`, `CallEv`) and a typed observation (`ToolObs`, `Obs` + the two library
verdicts), calls the functions of this file and prints what they return. The functions here are total
and structural, so that `Bridge.lean` (no false alarm on the model's own observations) and `Sound.lean`
(a clause that fires refutes the clause of the property, stated on observations) can reason about them.

* `ceq`: equality of JSON values as the canonical tokens compare them — numbers by value, objects as
  key-sorted member lists (the string layer compared the rendered tokens).
* `Obs`: what the harness reports of one tools/call; `obsOf`: the same view of a model `Outcome`.
* `monitor`: which clause of C16 the observation violates, judged against the wrapper run over the tool's
  OWN schemas on exact numbers (`call idEnv`); the equality test `sameObs o io` is kept, the rest of the
  chain picks the clause.
* `judgeCall`: the library-discrepancy filter in front of `monitor`.
* `pubClause`: what tools/list advertises against the tool's own schemas.
* `MState`/`regTool`/`callTool`: the driver's bookkeeping (registration world of the model, Go types and
  own schemas per tool name) and `mstep`/`runMon`, the monitor over typed records.

Core Lean only: linked into the driver.
-/
namespace TypedTool

/-! ### canonical equality of JSON values -/

def stripZeros : Nat → Int → Nat × Int
  | 0, m => (0, m)
  | e + 1, m => if m % 10 = 0 then stripZeros e (m / 10) else (e + 1, m)

/-- the decimal without trailing zeros in the mantissa (what the canonical token prints) -/
def canonDec (d : Dec) : Dec := ⟨(stripZeros d.e d.m).2, (stripZeros d.e d.m).1⟩

/-- insert before the first member whose name is not smaller (stable insertion) -/
def insertField (kv : String × JVal) : Fields → Fields
  | [] => [kv]
  | x :: t => if kv.1 ≤ x.1 then kv :: x :: t else x :: insertField kv t

/-- members sorted by name, members of the same name in their order (structural: `decide` evaluates it) -/
def sortFields : Fields → Fields
  | [] => []
  | kv :: t => insertField kv (sortFields t)

mutual
/-- canonical form: numbers normalised, objects sorted by member name (stable) -/
def canon : JVal → JVal
  | .num d => .num (canonDec d)
  | .arr xs => .arr (canonList xs)
  | .obj fs => .obj (sortFields (canonFields fs))
  | v => v
def canonList : List JVal → List JVal
  | [] => []
  | x :: t => canon x :: canonList t
def canonFields : Fields → Fields
  | [] => []
  | (k, v) :: t => (k, canon v) :: canonFields t
end

mutual
/-- structural equality -/
def JVal.beq : JVal → JVal → Bool
  | .null, .null => true
  | .bool a, .bool b => a == b
  | .num a, .num b => decide (a = b)
  | .str a, .str b => a == b
  | .arr xs, .arr ys => beqList xs ys
  | .obj xs, .obj ys => beqFields xs ys
  | _, _ => false
def beqList : List JVal → List JVal → Bool
  | [], [] => true
  | x :: xs, y :: ys => x.beq y && beqList xs ys
  | _, _ => false
def beqFields : Fields → Fields → Bool
  | [], [] => true
  | (k, v) :: xs, (k', w) :: ys => k == k' && v.beq w && beqFields xs ys
  | _, _ => false
end

/-- the same JSON value: equal canonical tokens -/
def ceq (a b : JVal) : Bool := (canon a).beq (canon b)

def optCeq : Option JVal → Option JVal → Bool
  | none, none => true
  | some x, some y => ceq x y
  | _, _ => false

/-! ### what is compared -/

/-- A registered tool: its Go types, its OWN schemas (what the monitor judges by) and the schemas the
registration model says it enforces (what the model observation is computed from). -/
structure ToolD where
  ity : GoTy
  oty : GoTy
  isch : Schema
  osch : Option Schema
  eisch : Schema
  eosch : Option Schema

def rootObject (s : Schema) : Bool := match s.leaf.ty with | [.object] => true | _ => false

def ToolD.elemZero (d : ToolD) : Option JVal := match d.oty with | .ptr t => some (zeroJ t) | _ => none

/-- the tool as declared -/
def ToolD.tool (d : ToolD) : Tool Schema :=
  { inSchema := d.isch
    outSchema := d.osch
    outRootObject := match d.osch with | some s => rootObject s | none => false
    elemZero := d.elemZero
    decodeIn := project d.ity }

/-- the tool as registered (`Entry.tool`) -/
def ToolD.enforced (d : ToolD) : Tool Schema :=
  Entry.tool { pubIn := d.isch, enfIn := d.eisch, pubOut := d.osch, enfOut := d.eosch } rootObject d.elemZero (project d.ity)

def idEnv : Env Schema := refEnv id

/-- one tools/call as the harness makes it -/
structure CallIn where
  args : Args
  h : JVal → HRet
  hout : Option JVal      -- JSON of the handler's output (exact), when it is a JSON value
  argsNull : Bool

/-- the result kind the client sees -/
inductive Res where
  | ok | toolerr | rpcerr | panic | other
deriving DecidableEq, Repr, Inhabited

/-- a content block as the harness reports it -/
inductive BTok where
  | text (s : String)   -- a text block (supplied by the handler)
  | sc                  -- the text block that holds the serialised structured content
  | err                 -- the text block that holds an error message
  | other (tok : String)
deriving DecidableEq, Repr, Inhabited

/-- The implementation's observation of one call: whether (exactly once) the handler ran (`none`: a count
other than 0/1), the typed input it saw re-encoded, the kind of result, the structured content, the
content blocks. -/
structure Obs where
  inv : Option Bool
  seen : Option JVal
  res : Res
  sc : Option JVal
  content : List BTok
deriving Inhabited

def resOf : Kind → Res
  | .ok => .ok | .toolError => .toolerr | .rpcError => .rpcerr

def btokOf : Block → BTok
  | .text s => .text s
  | .jsonOf _ => .sc
  | .errText => .err

/-- the same view of a model outcome -/
def obsOf (o : Outcome) : Obs :=
  { inv := some o.seen.isSome, seen := o.seen, res := resOf o.kind, sc := o.structured, content := o.content.map btokOf }

def sameObs (a b : Obs) : Bool :=
  a.inv == b.inv && optCeq a.seen b.seen && a.res == b.res && optCeq a.sc b.sc && a.content == b.content

/-! ### diagnostics: which member, which integer -/

mutual
def hasBig : JVal → Bool
  | .num d => d.isInt && d.toInt.natAbs > two53.natAbs
  | .arr xs => hasBigList xs
  | .obj fs => hasBigFields fs
  | _ => false
def hasBigList : List JVal → Bool
  | [] => false
  | x :: t => hasBig x || hasBigList t
def hasBigFields : Fields → Bool
  | [] => false
  | (_, v) :: t => hasBig v || hasBigFields t
end

mutual
/-- holds an integer of (MaxInt64, MaxUint64]: a value only an unsigned member takes -/
def hasU64 : JVal → Bool
  | .num d => d.isInt && decide (two63 ≤ d.toInt) && decide (d.toInt < two64)
  | .arr xs => hasU64List xs
  | .obj fs => hasU64Fields fs
  | _ => false
def hasU64List : List JVal → Bool
  | [] => false
  | x :: t => hasU64 x || hasU64List t
def hasU64Fields : Fields → Bool
  | [] => false
  | (_, v) :: t => hasU64 v || hasU64Fields t
end

mutual
/-- A struct member (path) of the handler's observed input `seen` that does NOT hold the decoding of the
member of exactly its name in the validated object `d` (`handler_sees_exactly_validated_members`), but
does hold the decoding of a differently spelled member of `d`. -/
def blameMember : GoTy → JVal → JVal → Option String
  | .ptr t', d, s => blameMember t' d s
  | .struct fs, .obj kvs, .obj out => blameFields fs kvs out
  | _, _, _ => none
def blameFields : SFields → Fields → Fields → Option String
  | [], _, _ => none
  | (n, oe, ty) :: rest, kvs, out =>
    let here : Option String :=
      match fieldDecode ty kvs n with
      | none => none
      | some y =>
        let got := lookupJ n out
        if optCeq (fieldShown oe ty y) got then none else
        let inner := match lookupJ n kvs, got with
          | some dv, some gv => blameMember ty dv gv
          | _, _ => none
        match inner with
        | some p => some (n ++ "." ++ p)
        | none =>
          if kvs.any (fun kv => kv.1 != n &&
                (match project ty kv.2 with
                 | some z => optCeq (fieldShown oe ty z) got
                 | none => false))
          then some n else none
    match here with
    | some p => some p
    | none => blameFields rest kvs out
end

/-- an integer a Go integer type holds (int64 or uint64) and float64 does not necessarily -/
def bigGoInt (d : Dec) : Bool :=
  d.isInt && decide (-two63 ≤ d.toInt) && decide (d.toInt < two64) && decide (d.toInt.natAbs > two53.natAbs)

def joinPath (k p : String) : String := if p.startsWith "[" || p.isEmpty then k ++ p else k ++ "." ++ p

mutual
/-- the first place where `got` holds a different number than `want` holds there, `want`'s being an
integer beyond ±2^53 inside [-2^63, 2^64): (path, wanted, got) -/
def numDiff : JVal → JVal → Option (String × Dec × Dec)
  | .num a, .num b => if a.eq b || !bigGoInt a then none else some ("", a, b)
  | .arr xs, .arr ys => if xs.length != ys.length then none else numDiffList 0 xs ys
  | .obj xs, .obj ys => numDiffFields xs ys
  | _, _ => none
def numDiffList : Nat → List JVal → List JVal → Option (String × Dec × Dec)
  | i, x :: xs, y :: ys =>
    match numDiff x y with
    | some (p, a, b) => some (s!"[{i}]" ++ p, a, b)
    | none => numDiffList (i + 1) xs ys
  | _, _, _ => none
def numDiffFields : Fields → Fields → Option (String × Dec × Dec)
  | [], _ => none
  | (k, v) :: t, ys =>
    let here : Option (String × Dec × Dec) :=
      match lookupJ k ys with
      | some w => (numDiff v w).map fun (p, a, b) => (joinPath k p, a, b)
      | none => none
    match here with
    | some r => some r
    | none => numDiffFields t ys
end

/-! ### the clauses -/

/-- What the driver can print after `V` (the texts are in `Driver.lean`). -/
inductive Clause where
  | f12Panic            -- C16/F12: null arguments + declared default: panic
  | panicked            -- the wrapper panicked
  | f16                 -- C16/F16: success without structured content although an output schema is declared (nil `any` output)
  | scMissing           -- success_has_structured: the same for any other output of the handler
  | f12NullSeen         -- C16/F12: null arguments: the handler observes null
  | recvExact (p : String) (a b : Dec)    -- handler_receives_exact_integers
  | carryExact (p : String) (a b : Dec)   -- result_carries_exact_integers
  | u64Refused          -- invoked_iff_valid_after_defaults, the (MaxInt64, MaxUint64] reason
  | f9                  -- C16/F9
  | notInvoked          -- invoked_iff_valid_after_defaults: valid, handler did not run
  | invokedInvalid      -- invoked_iff_valid_after_defaults: ran on invalid arguments
  | members (p : String)  -- handler_sees_exactly_validated_members
  | seesDefaulted       -- handler_sees_defaulted_args
  | invalidNoToolErr    -- invalid_gives_tool_error_without_invocation
  | nilPtr              -- nil_pointer_output_uses_zero_value
  | invalidOutReturned  -- invalid_output_is_error_not_result
  | validOutRefused     -- structured_valid: schema-valid output not returned as a success
  | kindDiffers         -- result kind differs from the wrapper's contract
  | scDiffers           -- structured_equals_output_json_with_defaults
  | contentDiffers      -- text_fallback_iff_no_content
  | errContent          -- the content of an error differs from the wrapper's contract
  | pubIn               -- published_schema_is_own (input)
  | pubOut              -- published_schema_is_own (output)
  | libIn (lib ref : Bool)   -- LIBDISC input (not a C16 clause)
  | libOut (lib ref : Bool)  -- LIBDISC output (not a C16 clause)
deriving Inhabited

def isNilPtr : OutVal → Bool
  | .nilPtr => true
  | _ => false

def isNilAny : OutVal → Bool
  | .nilAny => true
  | _ => false

/-- The wrapper run over the tool's OWN schemas on exact numbers: what the monitor judges by. -/
def ideal (d : ToolD) (ci : CallIn) : Outcome := call idEnv d.tool ci.h ci.args

/-- integers beyond ±2^53 are involved (arguments or handler output) -/
def bigCall (ci : CallIn) : Bool :=
  (match ci.args with | .val v => hasBig v | .absent => false) ||
  (match ci.hout with | some j => hasBig j | none => false)

/-- null arguments reached the handler as null, everything else as demanded (F12) -/
def f12Guard (d : ToolD) (ci : CallIn) (o : Obs) : Bool :=
  ci.argsNull && optCeq o.seen (some .null) && sameObs { o with seen := (obsOf (ideal d ci)).seen } (obsOf (ideal d ci))

/-- the first integer of the Go integer ranges that `got` holds differently from `want` -/
def firstNumDiff : Option JVal → Option JVal → Option (String × Dec × Dec)
  | some w, some g => numDiff w g
  | _, _ => none

/-- the handler ran, as it should, on an input that differs in such an integer (and in no misbound member) -/
def recvGuard (d : ToolD) (ci : CallIn) (o : Obs) : Bool :=
  bigCall ci && o.inv == some true && (obsOf (ideal d ci)).inv == some true && !optCeq o.seen (obsOf (ideal d ci)).seen &&
  (match defaulted idEnv d.isch ci.args, o.seen with
   | some dv, some sv => (blameMember d.ity dv sv).isNone | _, _ => true) &&
  (firstNumDiff (ideal d ci).seen o.seen).isSome

/-- a successful result, as it should be, whose structured content differs in such an integer -/
def carryGuard (d : ToolD) (ci : CallIn) (o : Obs) : Bool :=
  bigCall ci && o.inv == (obsOf (ideal d ci)).inv && optCeq o.seen (obsOf (ideal d ci)).seen && o.res == .ok &&
  (obsOf (ideal d ci)).res == .ok && !optCeq o.sc (obsOf (ideal d ci)).sc &&
  (firstNumDiff (ideal d ci).structured o.sc).isSome

/-- a valid call holding an integer of (MaxInt64, MaxUint64] refused, as by a decode that keeps only int64 exact -/
def u64Guard (d : ToolD) (ci : CallIn) (o : Obs) : Bool :=
  (obsOf (ideal d ci)).inv == some true && o.inv == some false && (match ci.args with | .val v => hasU64 v | .absent => false) &&
  sameObs o (obsOf (call (refEnv lossy63) d.tool ci.h ci.args))

/-- the observation of the unrepaired wrapper (every number through float64, F9) -/
def f9Guard (d : ToolD) (ci : CallIn) (o : Obs) : Bool :=
  bigCall ci && sameObs o (obsOf (call (refEnv lossy53) d.tool ci.h ci.args))

/-- The diagnosed shapes, tried first on an observation that is not the ideal one: the known defects of
earlier trees (F12, F9) and the exact-integer clauses, which name the member and both values. -/
def monDiag (d : ToolD) (ci : CallIn) (o : Obs) : Option Clause :=
  if f12Guard d ci o then some .f12NullSeen
  else if recvGuard d ci o then
    (firstNumDiff (ideal d ci).seen o.seen).map fun (p, a, b) => .recvExact p a b
  else if carryGuard d ci o then
    (firstNumDiff (ideal d ci).structured o.sc).map fun (p, a, b) => .carryExact p a b
  else if u64Guard d ci o then some .u64Refused
  else if f9Guard d ci o then some .f9
  else none

/-- The contract chain: the first component of the observation `o` that departs from the ideal one `io`,
in the order of the property's clauses. -/
def monContract (d : ToolD) (ci : CallIn) (o io : Obs) : Option Clause :=
  if o.inv != io.inv then
    if io.inv == some true then some .notInvoked else some .invokedInvalid
  else if !optCeq o.seen io.seen then
    match defaulted idEnv d.isch ci.args, o.seen with
    | some dv, some sv =>
      match blameMember d.ity dv sv with
      | some p => some (.members p)
      | none => some .seesDefaulted
    | _, _ => some .seesDefaulted
  else if io.inv == some false && (o.res != .toolerr || o.content.isEmpty || o.sc.isSome) then some .invalidNoToolErr
  else if isNilPtr (ci.h .null).out && (o.res != io.res || !optCeq o.sc io.sc) then some .nilPtr
  else if o.res != io.res then
    -- "returned as a result": a SUCCESSFUL result although the handler's output (it returned no error)
    -- violates the output schema; any other wrong kind is a breach of the wrapper's error contract
    if io.res == .rpcerr && (ci.h .null).err.isNone && o.res == .ok then some .invalidOutReturned
    else if io.res == .ok then some .validOutRefused
    else some .kindDiffers
  else if !optCeq o.sc io.sc then some .scDiffers
  else if o.content != io.content then
    -- the text fallback is a clause about successful results
    if io.res == .ok then some .contentDiffers else some .errContent
  else none

/-- The C16 monitor: the implementation's observation against the wrapper run with exact numbers. The
equality test `sameObs o io` decides WHETHER the observation is accepted; the rest picks the clause. -/
def monitor (d : ToolD) (ci : CallIn) (o : Obs) : Option Clause :=
  let io := obsOf (ideal d ci)
  if o.res == .panic then
    if ci.argsNull && hasDefaults d.isch then some .f12Panic else some .panicked
  else if d.osch.isSome && o.res == .ok && o.sc.isNone then
    -- the F16 shape (Out = any, nil output, the schema never consulted) keeps its own text; any other
    -- output of the handler that arrives without structured content — whatever the protocol version of
    -- the session, whatever the JSON kind of the output — is the general clause
    if isNilAny (ci.h .null).out then some .f16 else some .scMissing
  else if sameObs o io then none
  else
    match monDiag d ci o with
    | some c => some c
    | none => monContract d ci o io

/-! ### the reference validator's verdicts, and the library-discrepancy filter -/

/-- the reference validator's verdict on the (exact) arguments after defaults; `none`: not an object -/
def libIn (d : ToolD) (ci : CallIn) : Option Bool :=
  match argsMap ci.args with
  | some m => some (valid d.isch (fill d.isch m))
  | none => none

/-- the model observation of a call: the repaired wrapper over the schemas the tool enforces -/
def modelCall (d : ToolD) (ci : CallIn) : Outcome := call (refEnv lossy64) d.enforced ci.h ci.args

/-- … as it reaches a peer whose session runs at protocol version `v` (`serveAt`: wrapper, then dispatcher) -/
def modelServe (v : String) (d : ToolD) (ci : CallIn) : Delivered := serveAt v (refEnv lossy64) d.enforced ci.h ci.args

/-- the reference validator's verdict on the (exact) output in the form `applySchema` validates -/
def libOut (d : ToolD) (ci : CallIn) : Option Bool :=
  let t := d.tool
  match (modelCall d ci).seen, (ci.h .null).err,
        ci.hout <|> (match (ci.h .null).out with | .nilPtr => t.elemZero | .nilAny => some .null | _ => none), d.osch with
  | some _, none, some j, some s => some (valid s (outForm idEnv t s j).1)
  | _, _, _, _ => none

/-- both sides gave a verdict and the verdicts differ -/
def disc (a b : Option Bool) : Bool :=
  match a, b with
  | some x, some y => x != y
  | _, _ => false

/-- What the driver reports for a call record whose observation parsed: a disagreement between
jsonschema-go (`lib`, `olib`: computed by the harness on exactly decoded values) and the reference
validator is reported as such and the call is not judged; otherwise the monitor. -/
def judgeCall (d : ToolD) (ci : CallIn) (o : Obs) (lib olib : Option Bool) : Option Clause :=
  if disc lib (libIn d ci) then some (.libIn (lib.getD false) ((libIn d ci).getD false))
  else if disc olib (libOut d ci) then some (.libOut (olib.getD false) ((libOut d ci).getD false))
  else monitor d ci o

/-! ### schema equality (what tools/list advertises against the tool's own schema) -/

def optDecEq (a b : Option Dec) : Bool :=
  match a, b with
  | none, none => true
  | some x, some y => x.eq y
  | _, _ => false

def listCeq : List JVal → List JVal → Bool
  | [], [] => true
  | x :: xs, y :: ys => ceq x y && listCeq xs ys
  | _, _ => false

def leafSame (a b : Leaf) : Bool :=
  a.ty == b.ty &&
  (match a.enum, b.enum with
   | none, none => true
   | some x, some y => listCeq x y
   | _, _ => false) &&
  optCeq a.const b.const && optDecEq a.minimum b.minimum && optDecEq a.maximum b.maximum &&
  a.minLength == b.minLength && a.maxLength == b.maxLength && a.required == b.required &&
  a.apFalse == b.apFalse && optCeq a.dflt b.dflt

def isAnySchema : Schema → Bool
  | .mk c ps ap items =>
    c.ty.isEmpty && c.enum.isNone && c.const.isNone && c.minimum.isNone && c.maximum.isNone && c.minLength.isNone &&
    c.maxLength.isNone && c.required.isEmpty && !c.apFalse && c.dflt.isNone && ps.isEmpty && ap.isNone && items.isNone

def isAnyOpt : Option Schema → Bool
  | none => true
  | some s => isAnySchema s

mutual
/-- same schema: keywords by value, `properties` as a map, an absent subschema = the empty schema -/
def sameSchema : Schema → Schema → Bool
  | .mk c1 p1 a1 i1, .mk c2 p2 a2 i2 =>
    leafSame c1 c2 && p1.length == p2.length && samePropsIn p1 p2 && sameOpt a1 a2 && sameOpt i1 i2
/-- every property of the left has the same schema on the right -/
def samePropsIn : Props → Props → Bool
  | [], _ => true
  | (k, s) :: t, p2 => (match lookupP k p2 with | some s2 => sameSchema s s2 | none => false) && samePropsIn t p2
def sameOpt : Option Schema → Option Schema → Bool
  | none, b => isAnyOpt b
  | some x, b =>
    if isAnySchema x then isAnyOpt b else
    match b with
    | none => false
    | some y => if isAnySchema y then false else sameSchema x y
end

/-- What tools/list advertised for a tool that was added: `pi`/`po` (`none`: unreadable; `some none`: no
output schema). -/
inductive ToolObs where
  | ok (pi : Option Schema) (po : Option (Option Schema))
  | other       -- anything that does not start with `ok` (`addtool-error`, …)
deriving Inhabited

def ToolObs.isOk : ToolObs → Bool
  | .ok _ _ => true
  | .other => false

def pubInOk (ownI : Schema) (pi : Option Schema) : Bool :=
  match pi with | some p => sameSchema p ownI | none => false

def pubOutOk (ownO : Option Schema) (po : Option (Option Schema)) : Bool :=
  match po, ownO with
  | some none, none => true
  | some (some p), some o => sameSchema p o
  | _, _ => false

/-- the advertised schemas against the tool's own -/
def pubClause (ownI : Schema) (ownO : Option Schema) (pi : Option Schema) (po : Option (Option Schema)) : Option Clause :=
  if pubInOk ownI pi && pubOutOk ownO po then none else if pubInOk ownI pi then some .pubOut else some .pubIn

/-! ### the driver's bookkeeping -/

def objectSchema : Schema := .mk { ty := [.object] } [] none none

/-- the `tool` op: the declaration, the inference results for its two Go types, its Go types -/
structure ToolEv where
  name : String
  ity : GoTy
  oty : GoTy
  decl : Decl String Schema
  env : RegEnv String Schema

structure MState where
  world : World String Schema := {}
  /-- Go types and OWN schemas (`Decl.ownIn`/`Decl.ownOut`) of the current server's tools -/
  tys : List (String × GoTy × GoTy × Schema × Option Schema) := []
  last : Option String := none
  /-- the protocol version the current server's session runs at (before any `server` op: the pair the
  harness makes on demand, the SDK client left alone) -/
  ver : String := Generated.TypedTool.latestProtocolVersion

/-- `server` steps do not consult the environment -/
def refReg : RegEnv String Schema := { derive := fun _ => objectSchema, resolves := defaultsValid, objectSchema := objectSchema }

def MState.server (n : Nat) (v : String) (d : MState) : MState :=
  { world := d.world.step refReg (.server (if n == 0 then none else some n)), tys := [], last := none, ver := v }

/-- what the model says of a `tool` op -/
inductive ToolOut where
  | addErr                              -- the model: AddTool fails
  | expected (v : Option Clause)        -- the model: ok with the tool's own schemas; the implementation differs
  | accept                              -- the implementation's `ok …` advertises the own schemas
deriving Inhabited

def ToolEv.ownIn (t : ToolEv) : Schema := t.decl.ownIn t.env
def ToolEv.ownOut (t : ToolEv) : Option Schema := t.decl.ownOut t.env

/-- The monitor's booking of the tools the IMPLEMENTATION holds on the current server: an `ok` books the
tool under its name (replacing one of that name), anything else leaves the table as it is (an AddTool that
fails replaces nothing). -/
def MState.book (d : MState) (t : ToolEv) (o : ToolObs) : MState :=
  if o.isOk then
    { d with tys := (t.name, t.ity, t.oty, t.ownIn, t.ownOut) :: d.tys.filter (·.1 != t.name), last := some t.name }
  else d

/-- AddTool on the current server. AddTool must reject exactly the declared schemas with a default that
is invalid for its own subschema; the cache keeps what the input side stored. -/
def MState.regTool (d : MState) (t : ToolEv) (o : ToolObs) : MState × ToolOut :=
  let w := d.world.step t.env (.add t.name t.decl)
  let b := d.book t o
  match (register t.env d.world.cacheOf t.decl).1 with
  | none => ({ b with world := w }, .addErr)
  | some _ =>
    match o with
    | .other => ({ b with world := { w with tools := w.tools.filter (·.1 != t.name) } }, .expected none)
    | .ok pi po =>
      -- what tools/list advertises must be the tool's own schemas
      match pubClause t.ownIn t.ownOut pi po with
      | none => ({ b with world := w }, .accept)
      | some c => ({ b with world := w }, .expected (some c))

def MState.toolD (d : MState) (name : String) : Option ToolD :=
  match d.world.tools.find? (·.1 == name), d.tys.find? (·.1 == name) with
  | some (_, _, e), some (_, ity, oty, isch, osch) =>
    some { ity, oty, isch, osch, eisch := e.enfIn, eosch := e.enfOut }
  | _, _ => none

/-- the tool a `call` op addresses: the named one, else the one added last -/
def MState.callee (d : MState) (name : Option String) : Option ToolD := (name <|> d.last) >>= d.toolD

/-! ### the `call` op -/

/-- the handler's output as the op gives it -/
inductive OutSpec where
  | nilPtr
  | nilAny
  /-- `out=` (raw) and, when the harness reports it, `hout=`: the JSON of the value the handler returns -/
  | json (raw : JVal) (hout : Option JVal)
deriving Inhabited

structure CallEv where
  args : Args
  out : OutSpec
  content : Option (List Block)
  herr : Option HErr

/-- the JSON of the value the handler returns: reported by the harness (`hout=`, encoding/json's rendering
of the Out value it builds; with anyx=1 the `any` positions hold int64/uint64), else (older recorded
streams) the round trip of `out=` through the Out type. A JSON null decoded into `any` is the nil
interface, and into a pointer the typed nil. `none`: `out=` does not decode into the Out type. -/
def outOf (oty : GoTy) : OutSpec → Option (OutVal × Option JVal)
  | .nilPtr => some (.nilPtr, none)
  | .nilAny => some (.nilAny, none)
  | .json raw hout =>
    match (match hout with | some h => some h | none => project oty raw) with
    | none => none
    | some j =>
      match oty, j with
      | .any, .null => some (.nilAny, none)
      | .ptr _, .null => some (.nilPtr, none)
      | _, _ => some (.json j, some j)

def mkCall (d : ToolD) (c : CallEv) : Option CallIn :=
  match outOf d.oty c.out with
  | none => none
  | some (out, hout) =>
    some { args := c.args, h := fun _ => { err := c.herr, content := c.content, out := out }, hout := hout,
           argsNull := match c.args with | .val .null => true | _ => false }

/-! ### the monitor over typed records -/

/-- a record: the op and what the implementation was observed to do -/
inductive Rec where
  | reset
  | server (n : Nat) (v : String)
  | tool (t : ToolEv) (o : ToolObs)
  | call (name : Option String) (c : CallEv) (o : Obs) (lib olib : Option Bool)

def mstep (d : MState) : Rec → MState × Option Clause
  | .reset => ({}, none)
  | .server n v => (d.server n v, none)
  | .tool t o =>
    match d.regTool t o with
    | (d', .expected v) => (d', v)
    | (d', _) => (d', none)
  | .call name c o lib olib =>
    match d.callee name with
    | none => (d, none)
    | some td =>
      match mkCall td c with
      | none => (d, none)
      | some ci => (d, judgeCall td ci o lib olib)

/-- the first clause the monitor raises along a list of records -/
def runMon (d : MState) : List Rec → Option Clause
  | [] => none
  | r :: rest =>
    match mstep d r with
    | (_, some c) => some c
    | (d', none) => runMon d' rest

end TypedTool
