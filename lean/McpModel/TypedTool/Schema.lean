import McpModel.TypedTool.Json
/-!
E12 TypedTool (C16) — the REFERENCE JSON-Schema validator and default-filler for the generated
family: `type` (one or several), `enum`, `const`, `minimum`/`maximum`, `minLength`/`maxLength`,
`properties`, `required`, `additionalProperties` (absent/true, false, schema), `items`, `default`,
nested to any depth.

* `valid` follows the JSON Schema validation vocabulary (2020-12 §6) for these keywords. It is written
  from the specification, not from `jsonschema-go`; the harness compares the two on every generated
  case and logs disagreements as *library discrepancies*.
* `fill` is the default-filling rule of `jsonschema.Resolved.ApplyDefaults` (JSON Schema does not
  define one): only on object instances; only for properties that are NOT required; a missing property
  with a `default` gets the (recursively filled) default; a present one is filled recursively; a missing
  one without a default whose subschema has a default somewhere under `properties` gets a filled `{}`.

All recursion is structural on the schema. Core Lean only.
-/
namespace TypedTool

inductive Ty where
  | null | boolean | integer | number | string | array | object
deriving DecidableEq, Repr, Inhabited

/-- The non-recursive keywords of one schema node. -/
structure Leaf where
  ty : List Ty := []                 -- `type`; [] = unconstrained
  enum : Option (List JVal) := none
  const : Option JVal := none
  minimum : Option Dec := none
  maximum : Option Dec := none
  minLength : Option Nat := none
  maxLength : Option Nat := none
  required : List String := []
  apFalse : Bool := false            -- `additionalProperties: false`
  dflt : Option JVal := none
deriving Inhabited

inductive Schema where
  | mk (c : Leaf) (props : List (String × Schema)) (ap : Option Schema) (items : Option Schema)
deriving Inhabited

abbrev Props := List (String × Schema)

namespace Schema
def leaf : Schema → Leaf | .mk c _ _ _ => c
def props : Schema → Props | .mk _ ps _ _ => ps
def ap : Schema → Option Schema | .mk _ _ a _ => a
def items : Schema → Option Schema | .mk _ _ _ i => i
/-- the empty schema (`true`, `{}`) -/
def any : Schema := .mk {} [] none none
end Schema

/-- the subschema declared for property `k` (first declaration) -/
def lookupP (k : String) : Props → Option Schema
  | [] => none
  | (k', s) :: t => if k' = k then some s else lookupP k t

def propsHasKey (k : String) : Props → Bool
  | [] => false
  | (k', _) :: t => k' = k || propsHasKey k t

/-! ### validation -/

def hasType : Ty → JVal → Bool
  | .null, .null => true
  | .boolean, .bool _ => true
  | .string, .str _ => true
  | .array, .arr _ => true
  | .object, .obj _ => true
  | .integer, .num d => d.isInt
  | .number, .num _ => true
  | _, _ => false

def typeOk (tys : List Ty) (v : JVal) : Bool := tys.isEmpty || tys.any (hasType · v)

def enumOk (e : Option (List JVal)) (v : JVal) : Bool :=
  match e with
  | none => true
  | some l => l.any (·.eqv v)

def constOk (c : Option JVal) (v : JVal) : Bool :=
  match c with
  | none => true
  | some x => x.eqv v

/-- `minimum`/`maximum` constrain numbers only. -/
def numOk (c : Leaf) : JVal → Bool
  | .num d => (match c.minimum with | some lo => lo.le d | none => true) &&
              (match c.maximum with | some hi => d.le hi | none => true)
  | _ => true

/-- `minLength`/`maxLength` constrain strings only; length in Unicode code points. -/
def strOk (c : Leaf) : JVal → Bool
  | .str s => (match c.minLength with | some lo => decide (lo ≤ s.length) | none => true) &&
              (match c.maxLength with | some hi => decide (s.length ≤ hi) | none => true)
  | _ => true

/-- `required` constrains objects only. -/
def requiredOk (req : List String) : JVal → Bool
  | .obj fs => req.all (hasKey · fs)
  | _ => true

/-- the keywords that look only at the instance node itself -/
def leafOk (c : Leaf) (v : JVal) : Bool :=
  typeOk c.ty v && enumOk c.enum v && constOk c.const v && numOk c v && strOk c v && requiredOk c.required v

mutual
def valid : Schema → JVal → Bool
  | .mk c ps ap items, v =>
    leafOk c v &&
    (match v with
     | .arr xs => xs.all (fun x => validOpt items x)
     | .obj fs => validProps ps fs &&
                  fs.all (fun kv => propsHasKey kv.1 ps || (!c.apFalse && validOpt ap kv.2))
     | _ => true)
/-- every declared property that is present validates against its subschema -/
def validProps : Props → Fields → Bool
  | [], _ => true
  | (k, s) :: t, fs => (match lookupJ k fs with | some x => valid s x | none => true) && validProps t fs
def validOpt : Option Schema → JVal → Bool
  | none, _ => true
  | some s, v => valid s v
end

/-! ### defaults -/

mutual
/-- every `default`, at every depth, is valid for the schema that carries it — what
`Schema.Resolve(ValidateDefaults: true)` checks when a tool is registered -/
def defaultsValid : Schema → Bool
  | .mk c ps ap items =>
    (match c.dflt with | some d => valid (.mk c ps ap items) d | none => true) &&
    defaultsValidProps ps && defaultsValidOpt ap && defaultsValidOpt items
def defaultsValidProps : Props → Bool
  | [] => true
  | (_, s) :: t => defaultsValid s && defaultsValidProps t
def defaultsValidOpt : Option Schema → Bool
  | none => true
  | some s => defaultsValid s
end

mutual
/-- `schemaHasDefaultsInProperties`: a default on the node or anywhere below `properties`. -/
def hasDefaults : Schema → Bool
  | .mk c ps _ _ => c.dflt.isSome || hasDefaultsProps ps
def hasDefaultsProps : Props → Bool
  | [] => false
  | (_, s) :: t => hasDefaults s || hasDefaultsProps t
end

mutual
def fill : Schema → JVal → JVal
  | .mk c ps _ _, .obj fs =>
    .obj (fs.map (fun kv => (kv.1, if c.required.contains kv.1 then kv.2 else fillAt ps kv.1 kv.2))
          ++ adds ps c.required fs)
  | _, v => v
/-- fill the value of property `key` with the subschema declared for it (first declaration), if any -/
def fillAt : Props → String → JVal → JVal
  | [], _, v => v
  | (k, s) :: t, key, v => if k = key then fill s v else fillAt t key v
/-- the bindings added for declared, non-required, missing properties -/
def adds : Props → List String → Fields → Fields
  | [], _, _ => []
  | (k, s) :: t, req, fs =>
    (if req.contains k || hasKey k fs then []
     else match s.leaf.dflt with
       | some d => [(k, fill s d)]
       | none => if hasDefaults s then [(k, fill s (.obj []))] else [])
    ++ adds t req fs
end

end TypedTool
