import McpModel.TypedTool.Model
/-!
E12 TypedTool (C16) — the obligations on the REGENERATED table `Generated.TypedTool` alone (a module of its
own: a changed table fails these and nothing else; the theorems about `deliver`/`serve` in `Props.lean` are
about the dispatcher these facts say the code has).
-/
namespace TypedTool

/-- After the tool's handler returned, `(*Server).callTool` assigns no member of the result but `Content`
(nil ↦ empty). `deliver` (Model.lean) transliterates exactly that; a dispatcher that assigns
`StructuredContent` — seeded change C16-m11: non-object structured content dropped for peers older than
SEP-2106 — makes this `decide` fail. -/
theorem dispatcher_assigns_only_content : Generated.TypedTool.callToolAssigns = ["Content"] := by decide

/-- The version the dispatcher assumes for a session without InitializeParams is the SDK's latest one, the
latest one is supported, and it is marked `complete` (what the driver assumes for `ver=default`); the
threshold of the `resultType` mark is itself a supported version. -/
theorem version_table_consistent :
    Generated.TypedTool.multiRoundTripDefault = Generated.TypedTool.latestProtocolVersion ∧
    Generated.TypedTool.latestProtocolVersion ∈ Generated.TypedTool.supportedProtocolVersions ∧
    Generated.TypedTool.multiRoundTripSince ∈ Generated.TypedTool.supportedProtocolVersions ∧
    supportsMultiRoundTrip Generated.TypedTool.multiRoundTripSince Generated.TypedTool.latestProtocolVersion = true := by
  decide

end TypedTool
