import McpModel.TypedTool.Model
/-!
E12 TypedTool (C16) — the Go side of a typed tool, as far as the property can observe it:

* `f64Shortest`, `lossy53`, `lossy64`: what `JSON text → any → JSON text` does to numbers.
  `lossy53`: every number becomes a float64 (the unrepaired `applySchema`, F9).
  `lossy64`: plain integer literals in [-2^63, 2^64) stay exact (decoded as int64/uint64), other
  numbers become float64 (`applySchema` with fixes/F09).
  A float64 is printed by Go with the shortest digit string that reads back to the same float64.
* `GoTy`, `project`: the ideal `encoding/json` round trip `JSON → value of a Go type → JSON` for the type
  family compiled into the harness (int64, uint64, float64, string, bool, any, pointers, slices,
  string-keyed maps, structs with `omitempty`): this is "the JVal the handler observes, re-encoded from
  its typed input". Integers are exact in int64 fields ([-2^63, 2^63)) and in uint64 fields ([0, 2^64));
  `any`/float64 fields hold float64s by the type's choice.
* `lossy63`: the decode that keeps only int64 exact (integers in [2^63, 2^64) become float64) — NOT what
  the wrapper does; only used for the counter-example `signed_only_decode_counterexample` (why the
  unsigned half of the exact range is part of C16).

Core Lean only.
-/
namespace TypedTool

/-! ### float64 and its shortest decimal rendering, on natural numbers -/

/-- the float64 nearest to the natural number `a` (ties to even); exact, as a natural number. -/
def roundF64 (a : Nat) : Nat :=
  let bits := if a = 0 then 0 else Nat.log2 a + 1
  if bits ≤ 53 then a else
    let sh := bits - 53
    let q := a >>> sh
    let r := a % 2 ^ sh
    let half := 2 ^ (sh - 1)
    let q' := if r > half || (r == half && q % 2 == 1) then q + 1 else q
    q' <<< sh

def numDigits (a : Nat) : Nat := (Nat.toDigits 10 a).length

/-- candidates with `d` significant digits around `f`: floor and ceiling at that precision. -/
def shortestAt (f : Nat) (d : Nat) : Option Nat :=
  let L := numDigits f
  if d ≥ L then some f else
    let p := 10 ^ (L - d)
    let lo := (f / p) * p
    let hi := lo + p
    let okLo := roundF64 lo == f
    let okHi := roundF64 hi == f
    if okLo && okHi then
      -- both read back: take the closer one (ties: the even digit)
      if f - lo < hi - f then some lo else if hi - f < f - lo then some hi
      else if (lo / p) % 2 == 0 then some lo else some hi
    else if okLo then some lo else if okHi then some hi else none

/-- the integer Go prints for the float64 nearest to `a` (shortest digits that read back). -/
def f64Shortest (a : Nat) : Nat :=
  let f := roundF64 a
  match (List.range 18).findSome? (fun d => if d = 0 then none else shortestAt f d) with
  | some x => x
  | none => f

def two53 : Int := 9007199254740992
def two63 : Int := 9223372036854775808
def two64 : Int := 18446744073709551616

/-- number → float64 → shortest digits. Whole numbers only need care; the harness sends fractional
numbers with at most 15 significant digits, which a float64 round trip preserves. -/
def f64Dec (d : Dec) : Dec :=
  if d.isInt then
    let n := d.toInt
    if n.natAbs ≤ two53.natAbs then .ofInt n
    else if n < 0 then .ofInt (-(f64Shortest n.natAbs : Int)) else .ofInt (f64Shortest n.natAbs)
  else d

/-- int64/uint64 for plain integers in range, float64 otherwise (fixes/F09). -/
def i64Dec (d : Dec) : Dec :=
  if d.isInt then
    let n := d.toInt
    if -two63 ≤ n ∧ n < two64 then .ofInt n else f64Dec d
  else d

mutual
def mapNum (f : Dec → Dec) : JVal → JVal
  | .num d => .num (f d)
  | .arr xs => .arr (mapNumList f xs)
  | .obj fs => .obj (mapNumFields f fs)
  | v => v
def mapNumList (f : Dec → Dec) : List JVal → List JVal
  | [] => []
  | x :: t => mapNum f x :: mapNumList f t
def mapNumFields (f : Dec → Dec) : Fields → Fields
  | [] => []
  | (k, v) :: t => (k, mapNum f v) :: mapNumFields f t
end

/-- int64 for plain integers in [-2^63, 2^63), float64 otherwise: a decode with `UseInt64` but without
`UseUint64`. Not the wrapper's; see `lossy63`. -/
def i63Dec (d : Dec) : Dec :=
  if d.isInt then
    let n := d.toInt
    if -two63 ≤ n ∧ n < two63 then .ofInt n else f64Dec d
  else d

/-- unrepaired `applySchema`: every number goes through float64 (F9) -/
def lossy53 : JVal → JVal := mapNum f64Dec
/-- `applySchema` with fixes/F09: integers in [-2^63, 2^64) are exact -/
def lossy64 : JVal → JVal := mapNum i64Dec
/-- a decode that keeps int64 exact but sends [2^63, 2^64) through float64 (counter-example only) -/
def lossy63 : JVal → JVal := mapNum i63Dec

/-! ### the Go type family -/

inductive GoTy where
  | int64 | uint64 | float64 | string | bool | any
  | ptr (t : GoTy)
  | slice (t : GoTy)
  | map (t : GoTy)                                   -- map[string]T
  | struct (fields : List (String × Bool × GoTy))    -- (json name, omitempty, type), declaration order
deriving Inhabited

/-- is the encoded value "empty" for `omitempty` at this type? -/
def isEmptyGo : GoTy → JVal → Bool
  | .int64, .num d => d.m == 0
  | .uint64, .num d => d.m == 0
  | .float64, .num d => d.m == 0
  | .string, .str s => s.isEmpty
  | .bool, .bool b => !b
  | .any, .null => true
  | .ptr _, .null => true
  | .slice _, .null => true
  | .slice _, .arr [] => true
  | .map _, .null => true
  | .map _, .obj [] => true
  | _, _ => false

mutual
/-- JSON of the zero value -/
def zeroJ : GoTy → JVal
  | .int64 => .num (.ofInt 0)
  | .uint64 => .num (.ofInt 0)
  | .float64 => .num (.ofInt 0)
  | .string => .str ""
  | .bool => .bool false
  | .any => .null
  | .ptr _ => .null
  | .slice _ => .null
  | .map _ => .null
  | .struct fs => .obj (zeroFields fs)
def zeroFields : List (String × Bool × GoTy) → Fields
  | [] => []
  | (n, oe, t) :: rest =>
    let z := zeroJ t
    if oe && isEmptyGo t z then zeroFields rest else (n, z) :: zeroFields rest
end

def inInt64 (d : Dec) : Bool := d.isInt && decide (-two63 ≤ d.toInt) && decide (d.toInt < two63)
def inUint64 (d : Dec) : Bool := d.isInt && decide (0 ≤ d.toInt) && decide (d.toInt < two64)

/-- all-or-nothing over a list of optional results -/
def optAll {α : Type} : List (Option α) → Option (List α)
  | [] => some []
  | none :: _ => none
  | some x :: t => match optAll t with | some ys => some (x :: ys) | none => none

def optField : String × Option JVal → Option (String × JVal)
  | (k, some v) => some (k, v)
  | (_, none) => none

mutual
/-- decode `j` into a value of type `t` and encode it again; `none` = the decoder reports an error -/
def project : GoTy → JVal → Option JVal
  | .int64, .num d => if inInt64 d then some (.num (.ofInt d.toInt)) else none
  | .int64, .null => some (.num (.ofInt 0))
  | .int64, _ => none
  | .uint64, .num d => if inUint64 d then some (.num (.ofInt d.toInt)) else none
  | .uint64, .null => some (.num (.ofInt 0))
  | .uint64, _ => none
  | .float64, .num d => some (.num (f64Dec d))
  | .float64, .null => some (.num (.ofInt 0))
  | .float64, _ => none
  | .string, .str s => some (.str s)
  | .string, .null => some (.str "")
  | .string, _ => none
  | .bool, .bool b => some (.bool b)
  | .bool, .null => some (.bool false)
  | .bool, _ => none
  | .any, j => some (lossy53 j)
  | .ptr _, .null => some .null
  | .ptr t, j => project t j
  | .slice _, .null => some .null
  | .slice t, .arr xs => (optAll (xs.map (fun x => project t x))).map .arr
  | .slice _, _ => none
  | .map _, .null => some .null
  | .map t, .obj fs => (optAll (fs.map (fun kv => optField (kv.1, project t kv.2)))).map .obj
  | .map _, _ => none
  | .struct fs, .null => some (.obj (zeroFields fs))
  | .struct fs, .obj kvs => (projectFields fs kvs).map .obj
  | .struct _, _ => none
/-- struct fields in declaration order; unknown members are dropped, missing ones are zero -/
def projectFields : List (String × Bool × GoTy) → Fields → Option Fields
  | [], _ => some []
  | (n, oe, t) :: rest, kvs =>
    match (match lookupJ n kvs with | some x => project t x | none => some (zeroJ t)), projectFields rest kvs with
    | some y, some ys => some (if oe && isEmptyGo t y then ys else (n, y) :: ys)
    | _, _ => none
end

/-! ### struct members: which member of the argument object a field is bound to

JSON member names are case-sensitive. `projectFields` binds the field with JSON name `n` to the member
named EXACTLY `n` (`lookupJ n`) — `internaljson.Unmarshal`, i.e. the decoder with
`DontMatchCaseInsensitiveStructFields`. The vocabulary below names the pieces; `GoTyLemmas.lean` proves
that this is all a field ever depends on. -/

abbrev SFields := List (String × Bool × GoTy)

/-- the JSON names of a struct's members -/
def fieldNames (fs : SFields) : List String := fs.map (·.1)

/-- the members the decode of a struct looks at: those of an object; none for `null` -/
def membersOf : JVal → Fields
  | .obj kvs => kvs
  | _ => []

/-- what the field of type `t` bound to name `n` holds after decoding `kvs` (re-encoded): the decoding of
the member named exactly `n`, the zero value when there is no such member; `none` = decode error -/
def fieldDecode (t : GoTy) (kvs : Fields) (n : String) : Option JVal :=
  match lookupJ n kvs with
  | some x => project t x
  | none => some (zeroJ t)

/-- how a field's value shows in the re-encoded struct (`omitempty`) -/
def fieldShown (oe : Bool) (t : GoTy) (y : JVal) : Option JVal :=
  if oe && isEmptyGo t y then none else some y

/-! ### the decode the wrapper must NOT use

`encoding/json` matches object members to struct fields up to case (`fold` normalises a name) and
assigns members in the order of the text, so the LAST member matching a field wins; `applySchema`
re-marshals a `map[string]any`, hence keys reach the decoder sorted by name. Only used for the counter-example
`fold_decode_counterexample` (why `project` being exact-name is part of C16). -/

/-- the member a name-folding decoder binds to field `n`: of those whose name folds like `n`, the one
with the greatest name — the last one in the key-sorted text -/
def lookupFoldKV (fold : String → String) (n : String) : Fields → Option (String × JVal)
  | [] => none
  | (k, v) :: t =>
    let r := lookupFoldKV fold n t
    if fold k = fold n then
      match r with
      | some (k', w) => if k < k' then some (k', w) else some (k, v)
      | none => some (k, v)
    else r

def lookupFold (fold : String → String) (n : String) (kvs : Fields) : Option JVal :=
  (lookupFoldKV fold n kvs).map (·.2)

def projectFieldsFold (fold : String → String) : SFields → Fields → Option Fields
  | [], _ => some []
  | (n, oe, t) :: rest, kvs =>
    match (match lookupFold fold n kvs with | some x => project t x | none => some (zeroJ t)),
          projectFieldsFold fold rest kvs with
    | some y, some ys => some (if oe && isEmptyGo t y then ys else (n, y) :: ys)
    | _, _ => none

/-- a decoder that folds member names at the top level of a struct -/
def projectFold (fold : String → String) : GoTy → JVal → Option JVal
  | .struct fs, .obj kvs => (projectFieldsFold fold fs kvs).map .obj
  | t, j => project t j

end TypedTool
