import McpModel.TypedTool.Bridge
/-!
# E12 TypedTool (C16) — registrations that are REFUSED, and what a refused registration leaves behind

`AddTool[In, Out](s, t, h)` (mcp/server.go) is `toolForErr(t, h, s.opts.SchemaCache)` — the schemas are derived or
resolved, the SchemaCache is read and written: `register` in `Registry.lean` — followed by `s.AddTool(tt, hh)`,
which panics unless the tool's input schema has root type "object" (`Server.AddTool`: a `*jsonschema.Schema`
with `Type != "object"`, or a raw schema whose `type` member is not the string "object"). A registration is
therefore refused (a panic of `AddTool`) in exactly two ways:

* `register` fails (a schema does not resolve: e.g. a default that is invalid for its own subschema) — the
  cache keeps what the input side stored before the output side failed;
* `register` succeeds and the published input schema is not object-rooted — `toolForErr` has ALREADY run, the
  SchemaCache keeps what it stored, the tool table is not touched.

`registerChecked` / `World.stepChecked` is that layering. `refused_iff`, `accepted_entry` say which
registrations are refused; `refused_registration_keeps_tools` and `refused_registration_keeps_callee`: a refused
registration — also one that re-uses the name of a registered tool — leaves every tool of the server, in
particular the previous tool of that name, as it was (same entry, same enforced schemas), so every C16 theorem
about calls keeps speaking about the previous tool; `stepChecked_ok`: the world stays `World.Ok`
(caches coherent, every tool enforces its own schemas) along checked registrations too.
Core Lean only.
-/
namespace TypedTool

variable {K S : Type} [DecidableEq K]

/-- `AddTool[In, Out]`: `toolForErr`, then `Server.AddTool`'s check of the input schema's root type. -/
def registerChecked (R : RegEnv K S) (rootObj : S → Bool) (c : Cache K S) (d : Decl K S) : Option (Entry S) × Cache K S :=
  match register R c d with
  | (some e, c') => if rootObj e.pubIn then (some e, c') else (none, c')
  | (none, c') => (none, c')

/-- a step of a program with the check in place -/
def World.stepChecked (R : RegEnv K S) (rootObj : S → Bool) (w : World K S) : RegOp K S → World K S
  | .server cache => { w with cur := cache, tools := [] }
  | .add name d =>
    match registerChecked R rootObj w.cacheOf d with
    | (none, c) => { w with caches := w.putCache c }
    | (some e, c) => { w with caches := w.putCache c, tools := (name, d, e) :: w.tools.filter (·.1 ≠ name) }

/-- **refused_iff.** A registration is refused iff a schema does not resolve or the published input schema is
not object-rooted. -/
theorem refused_iff (R : RegEnv K S) (rootObj : S → Bool) (c : Cache K S) (d : Decl K S) :
    (registerChecked R rootObj c d).1 = none ↔
      (register R c d).1 = none ∨ ∃ e, (register R c d).1 = some e ∧ rootObj e.pubIn = false := by
  unfold registerChecked
  cases h : register R c d with
  | mk o c' =>
    cases o with
    | none => simp
    | some e =>
      cases hr : rootObj e.pubIn <;> simp [hr]

/-- **accepted_entry.** An accepted registration holds the entry `toolForErr` built, object-rooted. -/
theorem accepted_entry (R : RegEnv K S) (rootObj : S → Bool) (c : Cache K S) (d : Decl K S) (e : Entry S)
    (h : (registerChecked R rootObj c d).1 = some e) : (register R c d).1 = some e ∧ rootObj e.pubIn = true := by
  unfold registerChecked at h
  cases hr : register R c d with
  | mk o c' =>
    cases o with
    | none => simp [hr] at h
    | some e' =>
      cases hb : rootObj e'.pubIn
      · simp [hr, hb] at h
      · simp only [hr, hb, if_true, Option.some.injEq] at h
        subst h; exact ⟨rfl, hb⟩

/-- the SchemaCache after a checked registration is the one `toolForErr` left — also when `Server.AddTool`
refused the tool afterwards -/
theorem registerChecked_cache (R : RegEnv K S) (rootObj : S → Bool) (c : Cache K S) (d : Decl K S) :
    (registerChecked R rootObj c d).2 = (register R c d).2 := by
  unfold registerChecked
  cases h : register R c d with
  | mk o c' =>
    cases o with
    | none => rfl
    | some e => cases hb : rootObj e.pubIn <;> simp [hb]

theorem registerChecked_eq (R : RegEnv K S) (rootObj : S → Bool) (c : Cache K S) (d : Decl K S) (e : Entry S)
    (h1 : (register R c d).1 = some e) (h2 : rootObj e.pubIn = true) : registerChecked R rootObj c d = register R c d := by
  unfold registerChecked
  cases hr : register R c d with
  | mk o c' =>
    simp only [hr] at h1
    subst h1
    simp [h2]

/-- **refused_registration_keeps_tools.** A refused registration — under a new name or under the name of a
registered tool — leaves the tool table of the server exactly as it was. -/
theorem refused_registration_keeps_tools (R : RegEnv K S) (rootObj : S → Bool) (w : World K S) (name : String)
    (d : Decl K S) (h : (registerChecked R rootObj w.cacheOf d).1 = none) :
    (w.stepChecked R rootObj (.add name d)).tools = w.tools ∧ (w.stepChecked R rootObj (.add name d)).cur = w.cur := by
  cases hr : registerChecked R rootObj w.cacheOf d with
  | mk o c =>
    cases o with
    | none => simp [World.stepChecked, hr]
    | some e => simp [hr] at h

/-- **refused_registration_keeps_callee.** … in particular the tool a later call of ANY name addresses is the
one it addressed before: the previous tool of a re-used name stays intact. -/
theorem refused_registration_keeps_callee (R : RegEnv K S) (rootObj : S → Bool) (w : World K S) (name other : String)
    (d : Decl K S) (h : (registerChecked R rootObj w.cacheOf d).1 = none) :
    (w.stepChecked R rootObj (.add name d)).tools.find? (·.1 == other) = w.tools.find? (·.1 == other) := by
  rw [(refused_registration_keeps_tools R rootObj w name d h).1]

/-- an accepted checked step is the unchecked step -/
theorem stepChecked_accepted (R : RegEnv K S) (rootObj : S → Bool) (w : World K S) (name : String) (d : Decl K S)
    (e : Entry S) (h : (registerChecked R rootObj w.cacheOf d).1 = some e) :
    w.stepChecked R rootObj (.add name d) = w.step R (.add name d) := by
  have ha := accepted_entry R rootObj w.cacheOf d e h
  simp only [World.stepChecked, World.step, registerChecked_eq R rootObj w.cacheOf d e ha.1 ha.2]
  cases register R w.cacheOf d with
  | mk o c => cases o <;> rfl

/-- **stepChecked_ok.** The invariant of the registration world (every cache coherent, every tool of the current
server publishes and enforces its own schemas) is kept by checked steps — accepted or refused. -/
theorem stepChecked_ok (R : RegEnv K S) (heap : Nat → S) (rootObj : S → Bool) (w : World K S) (op : RegOp K S)
    (hw : World.Ok R heap w) (hop : RegOp.Ok heap op) : World.Ok R heap (w.stepChecked R rootObj op) := by
  have hstep := World.step_ok R heap w op hw hop
  cases op with
  | server cache => exact hstep
  | add name d =>
    cases hr : (registerChecked R rootObj w.cacheOf d).1 with
    | some e => rw [stepChecked_accepted R rootObj w name d e hr]; exact hstep
    | none =>
      have hk := refused_registration_keeps_tools R rootObj w name d hr
      have hc := registerChecked_cache R rootObj w.cacheOf d
      constructor
      · -- the caches are those of the unchecked step
        have : (w.stepChecked R rootObj (.add name d)).caches = (w.step R (.add name d)).caches := by
          have hr1 : registerChecked R rootObj w.cacheOf d = (none, (register R w.cacheOf d).2) :=
            Prod.ext hr hc
          simp only [World.stepChecked, World.step, hr1]
          cases h2 : register R w.cacheOf d with
          | mk o' c' => cases o' <;> rfl
        rw [this]; exact hstep.1
      · rw [hk.1]; exact hw.2

/-! ### the monitor's state -/

/-- `toolForErr` succeeds and `Server.AddTool` refuses: the published input schema is not object-rooted -/
def refusedByAddTool (d : MState) (t : ToolEv) : Bool :=
  match (register t.env d.world.cacheOf t.decl).1 with
  | some e => !rootObject e.pubIn
  | none => false

/-- the state after such a registration: the caches as `toolForErr` left them, tools and bookings untouched -/
def MState.regRefused (d : MState) (t : ToolEv) : MState :=
  { d with world := d.world.stepChecked t.env rootObject (.add t.name t.decl) }

/-- **regRefused_keeps_callee.** After a registration that `Server.AddTool` refuses, every call is judged by
the tool it was judged by before (`MState.callee` unchanged for every name, also the re-used one). -/
theorem regRefused_keeps_callee (d : MState) (t : ToolEv) (h : refusedByAddTool d t = true) (name : Option String) :
    (d.regRefused t).callee name = d.callee name := by
  have hnone : (registerChecked t.env rootObject d.world.cacheOf t.decl).1 = none := by
    rw [refused_iff]
    unfold refusedByAddTool at h
    cases hr : (register t.env d.world.cacheOf t.decl).1 with
    | none => exact Or.inl rfl
    | some e =>
      simp only [hr, Bool.not_eq_true'] at h
      exact Or.inr ⟨e, rfl, h⟩
  have hk := refused_registration_keeps_tools t.env rootObject d.world t.name t.decl hnone
  have htd : (d.regRefused t).toolD = d.toolD := by
    funext n
    simp only [MState.toolD, MState.regRefused, hk.1]
  simp only [MState.callee, htd]
  rfl

end TypedTool
