namespace Generated.Cancel
/-- mcp/transport.go `call`, the detached notifier: `context.WithTimeout(context.WithoutCancel(ctx), notifyCancellationTimeout)` — the notice is written with the VALUES of the call's context (no context.Background() in the goroutine) -/
def noticeKeepsValues : Bool := true
/-- mcp/transport.go `call`: `conn.Retire(call, ctx.Err())`, then `go func() { … conn.Notify … }()`, then `return ctx.Err()` — nothing of the caller's return path waits for the notice -/
def retireThenDetachedNotify : Bool := true
/-- mcp/streamable.go streamableServerConn.Write: a non-response is related to `ctx.Value(idContextKey{})` and written to `c.streams[c.requestStreams[relatedRequest]]`, without a related request to the standalone stream `c.streams[""]` -/
def serverRoutesByRequestId : Bool := true
/-- mcp/streamable.go streamableServerConn.Write: `if c.jsonResponse && !responseTo.IsValid() { relatedRequest = jsonrpc.ID{} }` -/
def jsonNonResponsesToStandalone : Bool := true
/-- mcp/server.go ServerSession.handle: `ctx = context.WithValue(ctx, idContextKey{}, req.ID)` before the request reaches user code -/
def handlerCtxCarriesRequestId : Bool := true
/-- mcp/streamable.go streamableClientConn.Write: one `http.NewRequestWithContext(ctx, http.MethodPost, …)` per message -/
def clientPostsEachMessage : Bool := true
/-- mcp/transport.go notifyCancellationTimeout, in ms -/
def notifyTimeoutMs : Nat := 5000
end Generated.Cancel
